import FitModel.Shared
import Driver.Listener
-- @family concurrent Drv.hConcurrent
namespace Drv
open Fit.Shared

/-- the abstract program of one operation token of the `concurrent` family (which shared state the real operation touches:
see FitModel/Shared.lean). `idx` = position of the op in the line (its own options object is 100 + idx). -/
def concProg (idx : Nat) (tok : String) : Option (List Act) :=
  match tok.splitOn ":" with
  | ["dec", i] => i.toNat?.map fun i => [.loc i]                          -- own decoder; static tables only
  | ["decl", i, _n] => i.toNat?.map fun i =>                               -- decoder + listener + file: typed conversions
      [.loc i] ++ progNew [i % 251] ++ progNew [i % 13, 1] ++ progToMesgNil [i % 251] ++ progToMesgNil [i % 13, 1]
  | ["enc", s] => s.toNat?.map fun s => [.loc (s % 1000)]                  -- own encoder, own buffer
  | ["file", _ft, s, mode] => s.toNat?.bind fun s =>
      let vals := [s % 251, s % 13]
      let news := progNew vals ++ progNew [s % 7]
      if mode == "n" then some (news ++ progToMesgNil vals ++ progToMesgNil [s % 7])
      else if mode == "o" then some (news ++ progToMesg (100 + idx) vals ++ progToMesg (100 + idx) [s % 7])
      else if mode == "s" then some (news ++ progToMesg 0 vals ++ progToMesg 0 [s % 7])
      else if mode == "z" then some (news ++ progToMesg 1 vals ++ progToMesg 1 [s % 7])
      else none
  | ["lis", _ft, s, _n] => s.toNat?.map fun s => progNew [s % 251] ++ progNew [s % 13] ++ progToMesgNil [s % 251] ++ progToMesgNil [s % 13]
  | ["lisc", _ft, s, _n, _c] => s.toNat?.map fun s =>                      -- as lis; the customised file-set map is the op's own copy
      progNew [s % 251] ++ progNew [s % 13] ++ progToMesgNil [s % 251] ++ progToMesgNil [s % 13]
  | ["fac", k] => k.toNat?.map fun k => progCreateMesg k ++ [.loc k]
  | ["open", _] => some [.loc 0]                                           -- own pool of decoders, own workers
  | _ => none

def concSh0 : Sh := { once := false, table := fun _ => 0, pool := [], opts := fun o => if o = 0 then some stdFactory else none }

def concSchedule (seed : Nat) (progs : List (List Act)) : List (Nat × Nat) :=
  let total := (progs.map List.length).sum
  let n := progs.length
  let rnd := (List.range (3 * total)).map fun i => (mix (seed * 7919 + i) % (n + 1), mix (seed + 31 * i) % 5)
  let fin := (List.range n).flatMap fun i => List.replicate ((progs.getD i []).length) (i, mix (seed + i) % 3)
  rnd ++ fin

def sameBits (progs : List (List Act)) (cfg : Cfg) : String :=
  String.ofList ((List.range progs.length).map fun i =>
    match cfg.threads[i]?, progs[i]? with
    | some t, some prog =>
      let solo := soloExec prog concSh0 (List.replicate prog.length 0)
      match solo.threads with
      | [ts] => if t.todo.isEmpty && ts.todo.isEmpty && t.priv.out == ts.priv.out then '1' else '0'
      | _ => '0'
    | _, _ => '0')

/-- the two options objects shared by all operations of a line (0: `Factory` set, 1: `Factory` nil) after the run:
`ro` = both are what they were at the start (nobody wrote them), `w` otherwise -/
def optsBits (cfg : Cfg) : String :=
  if cfg.sh.opts 0 == concSh0.opts 0 && cfg.sh.opts 1 == concSh0.opts 1 then "ro" else "w"

def hConcurrent : Handler := fun r =>
  let args := if r.args.head? == some "fresh" then r.args.drop 1 else r.args
  match args with
  | _k :: _g :: s :: toks =>
    let progs? : Option (List (List Act)) :=
      (List.zip (List.range toks.length) toks).foldr (fun p acc => match concProg p.1 p.2, acc with
        | some a, some l => some (a :: l)
        | _, _ => none) (some [])
    match (stripPrefix? s "s").bind String.toNat?, progs? with
    | some seed, some progs =>
      match r.mode with
      | .model =>
        let cfg := exec (initCfg progs concSh0) (concSchedule seed progs)
        "same=" ++ sameBits progs cfg ++ " opts=" ++ optsBits cfg
      | .spec => "n/a"
      | .prop =>
        -- the property on the implementation's answer: every operation's concurrent result is its solo result, and the
        -- option values shared by the operations were only read (C15_non_interference, C15_options_never_written)
        match r.impl.splitOn " " with
        | [sm, op] =>
          match stripPrefix? sm "same=", stripPrefix? op "opts=" with
          | some bits, some ob =>
            if !(bits.length == progs.length && bits.toList.all (· == '1')) then "fail:interference"
            else if ob != "ro" then "fail:shared-options-written" else "ok"
          | _, _ => "fail:unparsable"
        | _ => "fail:unparsable"
      | .kf => "-"   -- no open finding class (KF-C15-1 is repaired: mode z is an ordinary mix)
    | _, _ => if r.mode == .model then "bad-op" else if r.mode == .kf then "-" else "n/a"
  | _ => if r.mode == .model then "bad-op" else if r.mode == .kf then "-" else "n/a"

end Drv
