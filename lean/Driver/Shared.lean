import FitModel.SharedGen
import Driver.Listener
-- @family concurrent Drv.hConcurrent
namespace Drv
open Fit.Shared Fit.SharedInv
open Fit.Gen

/-! The model's answer for one line of the `concurrent` family. An operation token of the harness is a sequence of
public entry points (written down here: it describes the harness); the program of an entry point is NOT written down:
it is `Fit.SharedGen.classProg` of the touch class the translator found for it (`Gen.SharedState.entries`). An entry point the
translator does not know (renamed API) makes the line `bad-op`, so the check fails loudly. -/

def entryClass (name : String) : Option Nat := (SharedState.entries.find? (·.1 == name)).map (·.2)

/-- all entry points of a package with a given prefix and suffix -/
def entriesLike (pre suf : String) : List String :=
  (SharedState.entries.filter fun e => e.1.startsWith pre && e.1.endsWith suf).map (·.1)

def fileAdd : List String := entriesLike "(*profile/filedef." ").Add"
def fileToFIT : List String := entriesLike "(*profile/filedef." ").ToFIT"
def fileNew : List String := (entriesLike "profile/filedef.New" "").filter (· != "profile/filedef.NewListener")

/-- the entry points an operation token runs through, and the options objects it hands to typed conversions -/
def opEntries (idx : Nat) (tok : String) : Option (List String × List Nat) :=
  let dec := ["decoder.New", "(*decoder.Decoder).Next", "(*decoder.Decoder).Decode"]
  let lis := ["profile/filedef.NewListener", "(*profile/filedef.Listener).OnMesg", "(*profile/filedef.Listener).File",
              "(*profile/filedef.Listener).Close"]
  match tok.splitOn ":" with
  | ["dec", _] => some (dec, [])
  | ["decl", _, _] => some (lis ++ dec ++ fileToFIT, [])
  | ["enc", _] => some (["encoder.New", "(*encoder.Encoder).Encode"], [])
  | ["encd", _] => some (["encoder.New", "(*encoder.Encoder).Encode"], [])
  | ["senc", _, _] => some (["encoder.NewStream", "(*encoder.StreamEncoder).WriteMessage",
                             "(*encoder.StreamEncoder).SequenceCompleted"], [])
  | ["sencd", _, _] => some (["encoder.NewStream", "(*encoder.StreamEncoder).WriteMessage",
                              "(*encoder.StreamEncoder).SequenceCompleted"], [])
  | ["file", _, _, mode] =>
    let es := fileNew ++ fileAdd ++ fileToFIT
    if mode == "n" then some (es, [])
    else if mode == "o" then some (es, [100 + idx])
    else if mode == "s" then some (es, [0])
    else if mode == "z" then some (es, [1])
    else none
  | ["lis", _, _, _] => some (lis ++ fileToFIT, [])
  | ["lisc", _, _, _, _] => some ("profile/filedef.PredefinedFileSet" :: lis ++ fileToFIT, [])
  | ["fac", _] => some (["profile/factory.CreateMesg", "profile/factory.CreateField"], [])
  | ["open", _] => some (["cmd/fitactivity/opener.Open"], [])
  | _ => none

/-- the program of an operation token: the regenerated class programs of its entry points, the accesses to the options
objects it uses (derived from `Gen.SharedState.paramWrites`), one private step -/
def concProg (idx : Nat) (tok : String) : Option (List Act) :=
  match opEntries idx tok with
  | none => none
  | some (es, os) =>
    let cs := es.map entryClass
    if cs.any Option.isNone || es.isEmpty then none
    else some ((cs.filterMap id).flatMap Fit.SharedGen.classProg ++
               os.flatMap (fun o => Fit.SharedGen.optionActs "(*profile/mesgdef.Record).ToMesg" o) ++ [.loc idx])

def concSh0 : Sh :=
  { cell := fun r => 7 * r + 3, once := fun _ => .idle, pool := fun _ => [], heap := fun _ => [], next := 0,
    opts := fun o => if o = 0 then some stdFactory else none }

/-- a seeded interleaving followed by enough round-robin rounds for everybody to finish -/
def concSchedule (seed : Nat) (progs : List (List Act)) : List (Nat × Nat) :=
  let fuel := (progs.map (soloFuel Fit.SharedGen.genEnv)).sum
  let n := progs.length
  let rnd := (List.range (2 * fuel)).map fun i => (mix (seed * 7919 + i) % (n + 1), mix (seed + 31 * i) % 5)
  let fin := (List.range fuel).flatMap fun r => (List.range n).map fun i => (i, mix (seed + r + i) % 3)
  rnd ++ fin

def sameBits (progs : List (List Act)) (cfg : Cfg) : String :=
  String.ofList ((List.range progs.length).map fun i =>
    match cfg.threads[i]?, progs[i]? with
    | some t, some prog =>
      let solo := exec Fit.SharedGen.genEnv (initCfg [prog] concSh0) ((List.replicate (soloFuel Fit.SharedGen.genEnv prog) 0).map fun c => (0, c))
      match solo.threads with
      | [ts] => if t.todo.isEmpty && ts.todo.isEmpty && t.priv.out == ts.priv.out then '1' else '0'
      | _ => '0'
    | _, _ => '0')

/-- the two options objects shared by all operations of a line (0: `Factory` set, 1: `Factory` nil) after the run:
`ro` = both are what they were at the start (nobody wrote them), `w` otherwise -/
def optsBits (cfg : Cfg) : String :=
  if cfg.sh.opts 0 == concSh0.opts 0 && cfg.sh.opts 1 == concSh0.opts 1 then "ro" else "w"

def hConcurrent : Handler := fun r =>
  let args := if r.args.head? == some "fresh" then r.args.drop 1 else r.args
  match args with
  | _k :: _g :: s :: toks =>
    let progs? : Option (List (List Act)) :=
      (List.zip (List.range toks.length) toks).foldr (fun p acc => match concProg p.1 p.2, acc with
        | some a, some l => some (a :: l)
        | _, _ => none) (some [])
    match (stripPrefix? s "s").bind String.toNat?, progs? with
    | some seed, some progs =>
      match r.mode with
      | .model =>
        let cfg := exec Fit.SharedGen.genEnv (initCfg progs concSh0) (concSchedule seed progs)
        "same=" ++ sameBits progs cfg ++ " opts=" ++ optsBits cfg
      | .spec => "n/a"
      | .prop =>
        -- the property on the implementation's answer: every operation's concurrent result is its solo result, and the
        -- option values shared by the operations were only read
        match r.impl.splitOn " " with
        | [sm, op] =>
          match stripPrefix? sm "same=", stripPrefix? op "opts=" with
          | some bits, some ob =>
            if !(bits.length == progs.length && bits.toList.all (· == '1')) then "fail:interference"
            else if ob != "ro" then "fail:shared-options-written" else "ok"
          | _, _ => "fail:unparsable"
        | _ => "fail:unparsable"
      | .kf => "-"   -- no open finding class
    | _, _ => if r.mode == .model then "bad-op" else if r.mode == .kf then "-" else "n/a"
  | _ => if r.mode == .model then "bad-op" else if r.mode == .kf then "-" else "n/a"

end Drv
