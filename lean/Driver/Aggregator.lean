import FitModel.Aggregator
import Driver.Util
-- @family agg Drv.Agg.hAgg
/-! Driver of family `agg`: the probe struct of harness/fam_agg.go, field by field. -/
namespace Drv.Agg
open Drv Fit.Agg

inductive Kind | u (w : Nat) | s (w : Nat) | str | bool | time | sliceU (w : Nat)

/-- the fields of `aggProbe`, in order: Go name and kind -/
def fields : List (String × Kind) := [
  ("TotalDistance", .u 32), ("TotalCycles", .u 8), ("TotalAscent", .s 16), ("NumLaps", .u 16), ("NumActiveLength", .u 16),
  ("MaxHeartRate", .u 8), ("EnhancedMaxAlt", .u 32), ("MaxNegGrade", .s 16), ("MinHeartRate", .u 8), ("EnhancedMinAlt", .u 32),
  ("MinTemperature", .s 8), ("AvgSpeed", .u 16), ("EnhancedAvgResp", .s 32), ("Sport", .u 8), ("Name", .str), ("Flag", .bool),
  ("StartTime", .time), ("TotalZones", .sliceU 16)]

def aggTok (name : String) (k : Kind) (d s : String) : Option String :=
  let op := opOfName name
  match k with
  | .u w => do
    let a ← d.toNat?; let b ← s.toNat?
    some (toString (aggU op w a b))
  | .s w => do
    let a ← d.toInt?; let b ← s.toInt?
    some (toString (aggS op w a b))
  | .str => do
    let a ← if d == "-" then some [] else unhex d
    let b ← if s == "-" then some [] else unhex s
    let r := aggStr op a b
    some (if r.isEmpty then "-" else hex r)
  | .bool => some (if aggBool op (d == "1") (s == "1") then "1" else "0")
  | .time => do
    let a ← if d == "z" then some none else d.toNat?.map some
    let b ← if s == "z" then some none else s.toNat?.map some
    some (match aggTime op a b with | some t => toString t | none => "z")
  | .sliceU w => do
    let a ← if d == "-" then some [] else (d.splitOn ",").mapM String.toNat?
    let b ← if s == "-" then some [] else (s.splitOn ",").mapM String.toNat?
    let r := aggSliceU op w a b
    some (if r.isEmpty then "-" else ",".intercalate (r.map toString))

def hAgg : Handler := fun r =>
  match r.mode with
  | .model =>
    let n := fields.length
    if r.args.length != 2 * n + 1 || r.args[n]? != some "/" then "bad-op" else
    let ds := r.args.take n
    let ss := r.args.drop (n + 1)
    match (List.zip fields (List.zip ds ss)).mapM (fun p => aggTok p.1.1 p.1.2 p.2.1 p.2.2) with
    | some out => " ".intercalate out
    | none => "bad-op"
  | .kf => "-"
  | _ => "n/a"

end Drv.Agg
