import FitModel.ListenerK
import Driver.FileDef
-- @family listener Drv.hListener
namespace Drv
open Fit.FileDef Fit.ListenerK

def showCell : FileCell → String
  | none => "[nil]"
  | some (T, f) => s!"[{T.gotype} {showFIT (toFIT T f)}]"

/-- channel buffer size: `d` = the default (128); every size, 0 included, is given to the model as it is (size 0 = unbuffered
message channel + one-slice pool, `Fit.Listener.poolSize`) -/
def parseBuf (s : String) : Option Nat := if s == "d" then some 128 else s.toNat?

/-- one listener option after the buffer size: `P<k>=<t>,…` = `m := PredefinedFileSet(); m[k] = constructor of the predefined
file type t` (`-`: no constructor) `…; WithFileSets(m)`; `W<k>=<t>,…` = the same starting from an empty map; `F<k>=<t>` =
`WithFileFunc(k, constructor of t)`. Each is a function of the file sets built so far (options apply in order). -/
def parseEntry (e : String) : Option (Nat × Option FileType) :=
  match e.splitOn "=" with
  | [k, t] => do
    let kk ← k.toNat?
    if kk > 255 || toString kk != k then none
    if t == "-" then some (kk, none) else do
      let tt ← t.toNat?
      if toString tt != t then none
      let T ← fileTypeOf tt
      some (kk, some T)
  | _ => none

def parseEntries (s : String) : Option (List (Nat × Option FileType)) :=
  if s.isEmpty then some [] else (s.splitOn ",").mapM parseEntry

def parseOpt (o : String) : Option (FileSets → FileSets) :=
  if let some r := stripPrefix? o "P" then
    (parseEntries r).map fun es => fun _ => es.foldl (fun fs e => withFileFunc fs e.1 e.2) defaultSets
  else if let some r := stripPrefix? o "W" then
    (parseEntries r).map fun es => fun _ => withFileSets es
  else if let some r := stripPrefix? o "F" then
    (parseEntry r).map fun e => fun fs => withFileFunc fs e.1 e.2
  else none

/-- `<buf>[+<opt>]…` → buffer size and the resulting file sets (the options start from the defaults: `NewListener` and
`Reset` both begin with `defaultOptions()`) -/
def parseConf (s : String) : Option (Nat × FileSets) :=
  match s.splitOn "+" with
  | [] => none
  | b :: opts => do
    let n ← parseBuf b
    let fs ← opts.mapM parseOpt
    some (n, fs.foldl (fun acc f => f acc) defaultSets)

def parseCmd (s : String) : Option (Cmd Msg FileSets) :=
  if s == "F" then some .file
  else if s == "C" then some .close
  else if let some r := stripPrefix? s "R" then (parseConf r).map fun c => .reset c.1 c.2
  else if let some r := stripPrefix? s "m" then (parseMsg r).map .onMesg
  else none

def mix (x : Nat) : Nat :=
  let x := (x + 0x9E3779B97F4A7C15) % 2^64
  let x := ((x ^^^ (x >>> 30)) * 0xBF58476D1CE4E5B9) % 2^64
  let x := ((x ^^^ (x >>> 27)) * 0x94D049BB133111EB) % 2^64
  x ^^^ (x >>> 31)

/-- scheduler derived from the seed: who is preferred at step i; bursts of a seed-dependent length -/
def picker (seed : Nat) : Nat → Bool :=
  let burst := [1, 1, 2, 5, 17, 300, 100000].getD (mix seed % 7) 1
  let bias := mix (seed + 1) % 4   -- 0: fair, 1: producer-heavy, 2: worker-heavy, 3: fair
  fun i =>
    let r := mix (seed * 1000003 + i / burst) % 8
    if bias == 1 then r != 0 else if bias == 2 then r == 0 else r % 2 == 0

def hListener : Handler := fun r =>
  match r.args with
  | _g :: s :: n :: toks =>
    match (stripPrefix? s "s").bind String.toNat?, (stripPrefix? n "n").bind parseConf, parseAll parseCmd toks with
    | some seed, some (N, k0), some script =>
      match r.mode with
      | .model =>
        let fuel := 200 + 12 * script.length + 4 * (script.length + 1) * 130
        let st := run processMesg (none : FileCell) (picker seed) fuel 0 (initSt none N k0 script)
        let out := st.results.map showCell
        " ".intercalate (out ++ [if isFin st.p then "end" else if (stepP none st).isNone && (stepC processMesg st).isNone then "deadlock" else "fuel"])
      | .spec => " ".intercalate ((seqRun processMesg none k0 true none script).map showCell ++ ["end"])
      | .prop => "n/a"
      | .kf => "-"   -- KF-C14-1 (buffer size 0 deadlocked, F15) is fixed in /repo: no known-finding class left in this family
    | _, _, _ => if r.mode == .model then "bad-op" else if r.mode == .kf then "-" else "n/a"
  | _ => if r.mode == .model then "bad-op" else if r.mode == .kf then "-" else "n/a"

end Drv
