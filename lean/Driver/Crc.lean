import FitModel.Crc
import Driver.Util
-- @family crc Drv.hCrc
-- @family crcx Drv.hCrcX
namespace Drv
open Fit.Crc

/-- `crc` family: interpret the tokens on the model of the hash object -/
def execCrc (spec : Bool) (args : List String) : String := Id.run do
  let write := if spec then crcSpec else write
  let mut c := reset
  let mut out : Array String := #[]
  for a in args do
    if let some h := stripPrefix? a "w:" then
      match unhex h with
      | some bs => c := write c bs
      | none => return "bad-op"
    else if a == "reset" then c := reset
    else if a == "sum16" then out := out.push (hexN 4 (sum16 c))
    else if let some h := stripPrefix? a "sum:" then
      match unhex h with
      | some bs => out := out.push ("s" ++ hex (sum c bs))
      | none => return "bad-op"
    else if a == "size" then out := out.push "2"
    else if a == "blocksize" then out := out.push "1"
    else return "bad-op"
  out := out.push ("st=" ++ hexN 4 (sum16 c))
  return " ".intercalate out.toList

/-- `crcx b0`: digest over all (b1, b2) of the model state after [b0, b1] then [b2] -/
def execCrcX (spec : Bool) (args : List String) : String :=
  let write := if spec then crcSpec else write
  match args with
  | [a] =>
    match a.toNat? with
    | some b0 =>
      if b0 > 255 then "bad-op" else Id.run do
        let mut d : UInt64 := 0xcbf29ce484222325
        for b1 in [0:256] do
          let c1 := write reset [b0, b1]
          for b2 in [0:256] do
            let v := sum16 (write c1 [b2])
            d := (d ^^^ (v >>> 8).toUInt64) * 0x100000001b3
            d := (d ^^^ (v % 256).toUInt64) * 0x100000001b3
        return "digest=" ++ hexN 16 d.toNat
    | none => "bad-op"
  | _ => "bad-op"

def hCrc : Handler := modelSpec execCrc
def hCrcX : Handler := modelSpec execCrcX

end Drv
