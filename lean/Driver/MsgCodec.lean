import FitModel.Message
import Driver.ValCodec
/-!
Text syntax of a protocol message (parsing/printing only; the Go side is harness/msgcodec.go — keep the
two in step). Values use the syntax of `Driver/ValCodec.lean`.

    <message>   ::= "M" <mesgnum> "{" <fieldlist> "|" <devlist> "}"
    <fieldlist> ::= ε | <field> { ";" <field> }
    <field>     ::= "F" <num> ":" <bt> ":" <flags> ":" <scale> ":" <offset> ":" <value>    a field with a FieldBase
                  | "N" ":" <flags> ":" <value>                                            a field whose FieldBase is nil (only flag x)
    <devlist>   ::= ε | <dev> { ";" <dev> }
    <dev>       ::= "D" <devidx> "." <num> ":" <value>                                     a developer field
    <mesgnum>   decimal 0..65535; <num>, <devidx> decimal 0..255; <bt> two lower-case hex digits (any byte)
    <flags>     ::= "-" | a non-empty subsequence of "acxnb":
                    a FieldBase.Array, c FieldBase.Accumulate, x Field.IsExpandedField,
                    n the field's name is known (FieldBase.Name != "unknown"), b FieldBase.Type == profile.Bool
    <scale>     ::= "1" (the float64 1.0) | 16 hex digits (float64 bit pattern)
    <offset>    ::= "0" (the float64 +0.0) | 16 hex digits
    <value>     ::= <tag> ":" <payload>      (contains exactly one ':' and none of ; | { } blank)

Total (every `Fit.Msg.Message` prints) and unambiguous (a field splits at ':' into 7 or 4 parts, lists at
';', the two lists at the only '|'). The message header byte is not carried.
-/
namespace Drv
open Fit.Value Fit.Msg

def parseDec (s : String) (bound : Nat) : Option Nat :=
  if s.isEmpty || !s.all Char.isDigit then none
  else match s.toNat? with
    | some n => if n < bound then some n else none
    | none => none

def parseFlags (s : String) : Option (List Char) :=
  if s == "-" then some []
  else if s.isEmpty then none
  else
    let cs := s.toList
    let idx := cs.map fun c => "acxnb".toList.idxOf c
    -- strictly increasing positions in "acxnb", all known
    if idx.all (· < 5) && (idx.zip (idx.drop 1)).all (fun p => p.1 < p.2) then some cs else none

def parseF64 (s short : String) (shortBits : Nat) : Option Nat :=
  if s == short then some shortBits
  else if s.length == 16 && isLowerHex s then hexNat? s
  else none
where hexNat? (s : String) : Option Nat := s.toList.foldlM (fun acc c => (hexVal c).map (acc * 16 + ·)) 0

def parseHexByte (s : String) : Option Nat :=
  if s.length == 2 && isLowerHex s then (unhex s).bind List.head? else none

def parseField (s : String) : Option Field :=
  match s.splitOn ":" with
  | [h, bt, fl, sc, off, tag, payload] =>
    if !h.startsWith "F" then none else do
      let num ← parseDec (h.drop 1).toString 256
      let bt ← parseHexByte bt
      let fl ← parseFlags fl
      let sc ← parseF64 sc "1" f64One
      let off ← parseF64 off "0" 0
      let v ← parseValueTP tag payload
      some { base := some { num := num, baseType := bt, array := fl.contains 'a', accumulate := fl.contains 'c',
                            scale := sc, offset := off, nameKnown := fl.contains 'n', profileBool := fl.contains 'b' },
             value := v, isExpanded := fl.contains 'x' }
  | ["N", fl, tag, payload] => do
    let fl ← parseFlags fl
    if fl != [] && fl != ['x'] then none
    let v ← parseValueTP tag payload
    some { base := none, value := v, isExpanded := fl.contains 'x' }
  | _ => none

def parseDevField (s : String) : Option DevField :=
  match s.splitOn ":" with
  | [h, tag, payload] =>
    if !h.startsWith "D" then none else
    match ((h.drop 1).toString).splitOn "." with
    | [i, n] => do
      let i ← parseDec i 256
      let n ← parseDec n 256
      let v ← parseValueTP tag payload
      some { devIdx := i, num := n, value := v }
    | _ => none
  | _ => none

def parseMessage (s : String) : Option Message :=
  if !s.startsWith "M" || !s.endsWith "}" then none else
  match ((s.drop 1).dropEnd 1).toString.splitOn "{" with
  | [num, body] =>
    match body.splitOn "|" with
    | [fl, dl] => do
      let num ← parseDec num 65536
      let fs ← if fl.isEmpty then some [] else (fl.splitOn ";").mapM parseField
      let ds ← if dl.isEmpty then some [] else (dl.splitOn ";").mapM parseDevField
      some { num := num, fields := fs, devFields := ds }
    | _ => none
  | _ => none

def printF64 (bits : Nat) (short : String) (shortBits : Nat) : String :=
  if bits == shortBits then short else hexN 16 bits

def printField (f : Field) : String :=
  match f.base with
  | none => "N:" ++ (if f.isExpanded then "x" else "-") ++ ":" ++ printValue f.value
  | some b =>
    let fl := (if b.array then "a" else "") ++ (if b.accumulate then "c" else "") ++ (if f.isExpanded then "x" else "") ++
      (if b.nameKnown then "n" else "") ++ (if b.profileBool then "b" else "")
    s!"F{b.num}:{hexByte b.baseType}:{if fl.isEmpty then "-" else fl}:{printF64 b.scale "1" f64One}:{printF64 b.offset "0" 0}:{printValue f.value}"

def printDevField (d : DevField) : String := s!"D{d.devIdx}.{d.num}:{printValue d.value}"

def printMessage (m : Message) : String :=
  s!"M{m.num}\{{";".intercalate (m.fields.map printField)}|{";".intercalate (m.devFields.map printDevField)}}"

end Drv
