import FitProps.C18
