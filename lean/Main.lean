import Driver
/-! Model driver: one operation per line on stdin, one answer per line on stdout. -/
open Drv

def dispatch (spec : Bool) (line : String) : String :=
  match (line.splitOn " ").filter (· ≠ "") with
  | [] => "bad-op"
  | fam :: args =>
    match fam with
    | "crc" => execCrc spec args
    | "crcx" => execCrcX spec args
    | _ => if spec then "n/a" else "bad-op"

partial def loop (spec : Bool) (h : IO.FS.Stream) (out : IO.FS.Stream) : IO Unit := do
  let line ← h.getLine
  if line.isEmpty then return ()
  let line := (line.dropEndWhile fun c => c == '\n' || c == '\r').toString
  out.putStrLn (dispatch spec line)
  loop spec h out

def main (args : List String) : IO Unit := do
  let stdin ← IO.getStdin
  let stdout ← IO.getStdout
  loop (args.contains "--spec") stdin stdout
