import Driver
/-! Model driver: one operation per line on stdin, one answer per line on stdout.
Modes: (default) model answer · `--spec` · `--prop` (line = op TAB implementation answer) · `--kf`. -/
open Drv

def dispatch (mode : Mode) (line : String) : String :=
  let (op, impl) := match line.splitOn "\t" with
    | [a, b] => (a, b)
    | a :: _ => (a, "")
    | [] => ("", "")
  match (op.splitOn " ").filter (· ≠ "") with
  | [] => "bad-op"
  | fam :: args =>
    match dispatchTable.lookup fam with
    | some h => h { mode := mode, args := args, impl := impl }
    | none => if mode == .model then "bad-op" else if mode == .kf then "-" else "n/a"

partial def loop (mode : Mode) (h : IO.FS.Stream) (out : IO.FS.Stream) : IO Unit := do
  let line ← h.getLine
  if line.isEmpty then return ()
  let line := (line.dropEndWhile fun c => c == '\n' || c == '\r').toString
  out.putStrLn (dispatch mode line)
  loop mode h out

def main (args : List String) : IO Unit := do
  let mode := if args.contains "--spec" then Mode.spec else if args.contains "--prop" then Mode.prop
    else if args.contains "--kf" then Mode.kf else Mode.model
  loop mode (← IO.getStdin) (← IO.getStdout)
