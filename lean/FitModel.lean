import FitModel.Crc
