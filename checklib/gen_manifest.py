#!/usr/bin/env python3
"""Writes MANIFEST.json from checklib/props.py + the static texts below (keeps it valid at all times)."""
import json, os, sys
sys.path.insert(0, os.path.dirname(os.path.abspath(__file__)))
from props import PROPS, TEXTS
NOT_APPLICABLE = {}
import subprocess
def _hook_commits():
    """every commit of /repo whose subject starts with 'verif hooks:' (added files guarded by //go:build verif)"""
    try:
        out = subprocess.run(['git', '-C', '/repo', 'log', '--reverse', '--format=%h %s', '--grep=^verif hooks:'],
                             stdout=subprocess.PIPE, text=True).stdout.strip().split('\n')
        return [l for l in out if l.strip()]
    except Exception:
        return []
HOOK_COMMITS = _hook_commits()
ROOT = os.path.dirname(os.path.dirname(os.path.abspath(__file__)))
all_ids = [json.loads(l)['id'] for l in open(os.path.join(ROOT, 'properties.jsonl'))]
checks = []
for pid in all_ids:
    if pid not in PROPS or pid not in TEXTS:
        continue
    t = TEXTS[pid]
    checks.append(dict(
        property_id=pid,
        quick_cmd=f'./check {pid} --tier quick',
        thorough_cmd=f'./check {pid} --tier thorough',
        evidence_file=f'/verif/evidence/{pid}.json',
        replay_cmd_template=f'./check {pid} --replay {{path}}',
        engine='lean4-proof+correspondence',
        level_claimed=dict(category=PROPS[pid].get('level', 'proof'), text=t['text'], design_ref=t.get('design_ref', f'DESIGN.md §3 {pid}')),
        level_note=t['note'],
        technique=t['technique'],
    ))
na = [dict(property_id=p, reason=NOT_APPLICABLE.get(p, 'not yet covered by a Lean model and correspondence check in this tree (work in progress); no other technique is substituted')) for p in all_ids if p not in [c['property_id'] for c in checks]]
m = dict(
    version=1,
    setup_cmd='./setup.sh',
    hooks=dict(guard='verif', enable='go build -tags verif (the harness in /verif/harness is built with the tag against /repo via a replace directive)',
               baseline_off_cmd="cd /repo && GOFLAGS=-mod=mod go test -vet=off -count=1 -timeout 25m ./... && cd internal/cmd/benchfit && GOFLAGS=-mod=mod go test -vet=off -count=1 ./...",
               source_commits=HOOK_COMMITS, add_only=True),
    engines=[dict(name='lean4-proof+correspondence', path='/verif/lean + /verif/harness + /verif/check',
                  serves_properties=[c['property_id'] for c in checks],
                  kind_free_text='Lean 4 model and theorems (lake project, core-only model, kernel-checked proofs, axiom audit), tied to /repo by regenerated tables (translators) and a differential correspondence check (Go harness calling the real packages vs the Lean driver on the same operation lines)')],
    checks=checks,
    notes='See DESIGN.md. Every check: regenerate → lake build of the property theorems → #print axioms audit → correspondence families → property tested on the implementation with the Lean spec as oracle → evidence.',
    not_applicable=na,
)
json.dump(m, open(os.path.join(ROOT, 'MANIFEST.json'), 'w'), indent=1)
print('MANIFEST.json written:', len(checks), 'checks,', len(na), 'not claimed')
