HOOK_COMMITS = []
NOT_APPLICABLE = {}
TEXTS = {
 'C18': dict(
   technique='Lean 4 proof (structural: GF(2)-linearity + 32 kernel-evaluated table rows, induction over the byte string and over write/reset histories); table regenerated from crc16.go; exhaustive differential tie over all 2^24 (state, byte) steps',
   text='Theorems C18_crc_eq_spec / C18_split_indep / C18_split_many / C18_reset / C18_sum_layout hold for every byte string of any length and every partition into writes; the 16 table literals are re-extracted from crc16.go on every run and re-checked by the kernel; the step function of the real code is compared with model and bitwise spec on all 65536×256 (state, byte) pairs plus random write/reset/sum histories.',
   note='Trusted: Lean kernel; go/ast extraction of the table; the harness/driver line protocol; the model of compute() (8 lines) is tied exhaustively at the step level, longer strings by induction in the model and by sampling on the implementation.'),
}
