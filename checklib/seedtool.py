#!/usr/bin/env python3
"""Confirm and import a seeded breaking change produced by an independent sub-agent.

  seedtool.py import <Cxx> <k> [--from /tmp/seed/Cxx/out/k]   confirm (suite passes, demo fails with / passes without) and
                                                             store it as /verif/seeded/<Cxx>-<k>/ (patch.diff, demo/, meta.json)
  seedtool.py run <Cxx>-<k> [check ids…]                      apply the stored patch to a scratch worktree of /repo and run the
                                                             checks against it (default: the property's own check); records the
                                                             outcome in meta.json; removes the worktree
Nothing is ever applied to /repo itself.
"""
import json, os, shutil, subprocess, sys, time

ROOT = os.path.dirname(os.path.dirname(os.path.abspath(__file__)))
SEEDED = os.environ.get('VERIF_SEEDED', os.path.join(ROOT, 'seeded'))
GOENV = dict(os.environ, GOFLAGS='-mod=mod', GOPROXY='off', GOSUMDB='off', GOTOOLCHAIN='local')


def sh(cmd, cwd=None, env=None, timeout=1800):
    p = subprocess.run(cmd, cwd=cwd, env=env or GOENV, timeout=timeout, shell=isinstance(cmd, str),
                       stdout=subprocess.PIPE, stderr=subprocess.STDOUT, text=True)
    return p.returncode, p.stdout


def scratch(name):
    d = f'/tmp/vseed-{name}'
    sh(['git', '-C', '/repo', 'worktree', 'remove', '--force', d])
    shutil.rmtree(d, ignore_errors=True)
    rc, out = sh(['git', '-C', '/repo', 'worktree', 'add', '--detach', d, 'HEAD'])
    if rc != 0:
        raise SystemExit(out)
    return d


def drop(d):
    sh(['git', '-C', '/repo', 'worktree', 'remove', '--force', d])
    shutil.rmtree(d, ignore_errors=True)


def run_demo(wt, demo_dir):
    """the demo's run.sh expects to live under <wt>/out/<k>/demo"""
    dst = os.path.join(wt, 'out', 'x', 'demo')
    shutil.rmtree(os.path.join(wt, 'out'), ignore_errors=True)
    shutil.copytree(demo_dir, dst)
    # run.sh files refer to out/<k>/demo: provide both the generic and the original location
    rc, out = sh('sh out/x/demo/run.sh', cwd=wt, timeout=900)
    shutil.rmtree(os.path.join(wt, 'out'), ignore_errors=True)
    sh(['git', 'clean', '-fdq'], cwd=wt)
    return rc, out[-3000:]


def cmd_import(prop, k, src=None):
    src = src or f'/tmp/seed/{prop}/out/{k}'
    name = f'{prop}-{k}'
    patch = os.path.join(src, 'patch.diff')
    demo = os.path.join(src, 'demo')
    if not (os.path.exists(patch) and os.path.isdir(demo)):
        raise SystemExit(f'{src}: patch.diff or demo/ missing')
    # run.sh may hard-code out/<k>/demo — rewrite to the location used here
    wt = scratch(name)
    meta = dict(id=name, property=prop, source='independent sub-agent given only the property text and a scratch worktree',
                confirmed_at=time.strftime('%Y-%m-%d %H:%M:%S'))
    try:
        tmpdemo = f'/tmp/vseed-{name}-demo'
        shutil.rmtree(tmpdemo, ignore_errors=True)
        shutil.copytree(demo, tmpdemo)
        rs = os.path.join(tmpdemo, 'run.sh')
        if os.path.exists(rs):
            t = open(rs).read().replace(f'out/{k}/demo', 'out/x/demo')
            open(rs, 'w').write(t)
        rc0, out0 = run_demo(wt, tmpdemo)
        meta['demo_without_change'] = dict(exit=rc0, tail=out0[-600:])
        rc, out = sh(['git', 'apply', patch], cwd=wt)
        if rc != 0:
            raise SystemExit('patch does not apply: ' + out)
        rc, out = sh(['git', 'diff', '--stat'], cwd=wt)
        meta['files_changed'] = out.strip().split('\n')
        rcb, outb = sh('go build ./... && go vet ./... >/dev/null 2>&1; go build ./...', cwd=wt)
        rct, outt = sh('go test -vet=off -count=1 ./... 2>&1 | grep -v "no test files"', cwd=wt)
        meta['build_ok'] = rcb == 0
        meta['suite_with_change'] = dict(exit=rct, failed=[l for l in outt.split('\n') if l.startswith('FAIL') or l.startswith('---')][:10])
        rc1, out1 = run_demo(wt, tmpdemo)
        meta['demo_with_change'] = dict(exit=rc1, tail=out1[-600:])
        ok = rcb == 0 and ('FAIL' not in outt) and rc0 == 0 and rc1 != 0
        meta['confirmed'] = ok
        notes = os.path.join(src, 'notes.md')
        if os.path.exists(notes):
            meta['needs_to_manifest'] = open(notes).read()[:1500]
        dst = os.path.join(SEEDED, name)
        shutil.rmtree(dst, ignore_errors=True)
        os.makedirs(dst)
        shutil.copy(patch, os.path.join(dst, 'patch.diff'))
        shutil.copytree(tmpdemo, os.path.join(dst, 'demo'))
        if os.path.exists(notes):
            shutil.copy(notes, os.path.join(dst, 'notes.md'))
        json.dump(meta, open(os.path.join(dst, 'meta.json'), 'w'), indent=1)
        print(f'{name}: confirmed={ok} (build {rcb == 0}, suite {"FAIL" not in outt}, demo without {rc0}, with {rc1})')
        shutil.rmtree(tmpdemo, ignore_errors=True)
        return ok
    finally:
        drop(wt)


def cmd_run(name, checks):
    dst = os.path.join(SEEDED, name)
    meta = json.load(open(os.path.join(dst, 'meta.json')))
    checks = checks or [meta['property']]
    wt = scratch(name)
    try:
        rc, out = sh(['git', 'apply', os.path.join(dst, 'patch.diff')], cwd=wt)
        if rc != 0:
            raise SystemExit('patch does not apply: ' + out)
        res = meta.setdefault('checks', {})
        for c in checks:
            t = time.time()
            rc, out = sh([os.path.join(ROOT, 'check'), c, '--tier', os.environ.get('VERIF_TIER', 'quick')], cwd=ROOT,
                         env=dict(os.environ, VERIF_REPO=wt), timeout=3600)
            vio = [l for l in out.split('\n') if l.startswith('VIOLATION')]
            fails = [l.split('] ', 1)[-1][:300] for l in out.split('\n') if 'FAIL[' in l]
            res[c] = dict(exit=rc, violation=vio[:1], failures=fails[:4], wall_s=round(time.time() - t, 1),
                          tier=os.environ.get('VERIF_TIER', 'quick'))
            print(f'{name} vs {c}: exit={rc} {"CAUGHT" if rc == 1 and vio else "MISSED"} {fails[:2]}')
        json.dump(meta, open(os.path.join(dst, 'meta.json'), 'w'), indent=1)
    finally:
        drop(wt)


if __name__ == '__main__':
    a = sys.argv[1:]
    if a and a[0] == 'import':
        src = None
        if '--from' in a:
            src = a[a.index('--from') + 1]
        sys.exit(0 if cmd_import(a[1], a[2], src) else 1)
    elif a and a[0] == 'run':
        cmd_run(a[1], a[2:])
    else:
        print(__doc__)
