import json, os, subprocess, sys
from ._common import STD_TRUST


def _gen(ctx):
    import framework as F
    return os.path.join(F.LEAN, 'FitModel', 'Generated')


def _regen_registry(ctx):
    """harness/registry_gen.go: listing of every mesgdef constructor / typedef type of the current tree; the
    harness is rebuilt when the listing changed"""
    import framework as F
    out = os.path.join(F.ROOT, 'harness', 'registry_gen.go')
    rc, o = F.sh([sys.executable, os.path.join(F.ROOT, 'translators', 'registry.py'), F.REPO, out])
    if rc != 0:
        ctx.fail('tool', 'translator registry failed', detail=o[-2000:])
        return False
    ctx.cov.setdefault('extra', {})['registry'] = o.strip()
    if ' changed ' in o:
        return F.build_harness(ctx)
    return True


def _regen_xlsx(ctx):
    import framework as F
    rc, o = F.sh([sys.executable, os.path.join(F.ROOT, 'translators', 'xlsx.py'), F.REPO, os.path.join(_gen(ctx), 'Xlsx.lean'),
                  os.path.join(ctx.work, 'xlsx.json')])
    if rc != 0:
        ctx.fail('tool', 'independent reading of Profile.xlsx failed (workbook no longer readable by the stated rules)', detail=o[-2000:])
        return False
    ctx.cov.setdefault('extra', {})['xlsx'] = o.strip()
    return True


def _regen_profiletables(ctx):
    import framework as F
    return (_regen_registry(ctx) and F.harness_regen(ctx, 'profiletables', 'ProfileTables.lean') and
            F.harness_regen(ctx, 'profiletypes', 'ProfileTypes.lean') and F.harness_regen(ctx, 'profilestrs', 'ProfileStrs.lean'))


def _regen_gendigest(ctx):
    """step 1 of the byte-for-byte clause: run the repository's generator into work/C17/regen and hash what it wrote
    (python hashlib). Reads nothing of the checked-in generated code except the version named in version_gen.go."""
    import framework as F
    rc, o = F.sh([sys.executable, os.path.join(F.ROOT, 'translators', 'gendigest.py'), F.REPO, os.path.join(_gen(ctx), 'GenDigest.lean'),
                  os.path.join(ctx.work, 'gendigest.json'), os.path.join(ctx.work, 'regen')], timeout=900)
    ctx.cov.setdefault('extra', {})['gendigest'] = o.strip()[-300:]
    ctx.log('regen gendigest (generator re-run, sha256 of its output):', o.strip()[-200:])
    # a generator that does not run is recorded in GenDigest.lean (generatorRan = false) and fails C17_bytes;
    # the step itself only fails when nothing could be written
    return os.path.exists(os.path.join(_gen(ctx), 'GenDigest.lean'))


def _regen_treedigest(ctx):
    """step 2 of the byte-for-byte clause, independent of step 1 (another tool, run and logged separately):
    find + sha256sum over the WHOLE tree (all *_gen.go files outside .git), with the generator each file's header names"""
    import framework as F
    rc, o = F.sh(['sh', os.path.join(F.ROOT, 'translators', 'treedigest.sh'), F.REPO, os.path.join(_gen(ctx), 'TreeDigest.lean'),
                  os.path.join(ctx.work, 'treedigest.json')], timeout=300)
    ctx.cov.setdefault('extra', {})['treedigest'] = o.strip()[-300:]
    ctx.log('regen treedigest (checked-in *_gen.go of the whole tree, sha256sum):', o.strip()[-200:])
    if rc != 0:
        ctx.fail('tool', 'translator treedigest failed: ' + o.strip()[-300:], detail=o[-2000:])
        return False
    return True


def _regen_untyped(ctx):
    import framework as F
    rc, o = F.sh([sys.executable, os.path.join(F.ROOT, 'translators', 'untyped.py'), F.REPO, os.path.join(_gen(ctx), 'Untyped.lean')])
    if rc != 0:
        ctx.fail('tool', 'translator untyped failed (shape of profile/untyped/*_gen.go changed): ' + o.strip()[-300:], detail=o[-2000:])
        return False
    ctx.cov.setdefault('extra', {})['untyped'] = o.strip()
    return True


def _regen_mesgdef17(ctx):
    """the typed structs as the compiled code shows them (shared with C13)"""
    import framework as F
    return F.harness_regen(ctx, 'mesgdef', 'Mesgdef.lean')


REGEN = {'mesgdef17': _regen_mesgdef17, 'untyped': _regen_untyped, 'registry': _regen_registry, 'xlsx': _regen_xlsx, 'profiletables': _regen_profiletables, 'gendigest': _regen_gendigest, 'treedigest': _regen_treedigest}


# the `*_gen.go` files of the tree that OTHER declared generators write (path -> program named in the file's header);
# the same list is stated in Lean (`Fit.C17.otherGenerators`, FitProps/C17Defs.lean) — this copy only words the replay
OTHER_GENERATORS = {'cmd/fitprint/printer/typedef_gen.go': 'cmd/fitconv/fitprint/typedef.go',
                    'cmd/fitconv/fitcsv/lookup_gen.go': 'cmd/fitconv/fitcsv/lookup.go'}


def _first_row(tree_path, regen_path):
    """(first differing line: number, checked-in text, regenerated text), unified diff"""
    import difflib
    try:
        x = open(tree_path, errors='replace').read().split('\n')
    except OSError:
        x = []
    try:
        y = open(regen_path, errors='replace').read().split('\n')
    except OSError:
        y = []
    k = next((i for i in range(min(len(x), len(y))) if x[i] != y[i]), min(len(x), len(y)))
    row = dict(line=k + 1, tree=(x[k] if k < len(x) else '<end of file>').strip()[:160],
               regen=(y[k] if k < len(y) else '<end of file>').strip()[:160])
    return row, x, y, difflib


def _extra(ctx, spec):
    """Replay for the byte-for-byte clause: the two digest tables (written by the two regeneration steps) are joined here
    only to NAME the differing / missing / left-over file and to print its diff; the verdict on the clause is C17_bytes."""
    import framework as F
    try:
        info = json.load(open(os.path.join(ctx.work, 'gendigest.json')))
        tree = json.load(open(os.path.join(ctx.work, 'treedigest.json')))
    except Exception:  # noqa
        return
    emitted = {f['path']: f['regen'] for f in info.get('files', [])}
    intree = {f['path']: f for f in tree.get('files', [])}
    nfiles = len(emitted)
    diff = [p for p in sorted(emitted) if p in intree and intree[p]['sha'] != emitted[p]]
    missing = [p for p in sorted(emitted) if p not in intree]
    leftover = [p for p in sorted(intree) if p not in emitted and OTHER_GENERATORS.get(p) != intree[p]['generator']]
    ctx.cov.setdefault('extra', {})['generated_files'] = dict(
        emitted=nfiles, tree_gen_files=len(intree), differing=len(diff), not_in_tree=len(missing), leftover=len(leftover),
        other_generators=sorted(p for p in intree if p not in emitted and p not in leftover), profile_version=info.get('version'))
    ctx.cov['extra_evaluations'] = ctx.cov.get('extra_evaluations', 0) + nfiles
    ctx.cov['extra_distinct'] = ctx.cov.get('extra_distinct', 0) + nfiles
    regen_dir = info.get('outdir') or ''
    if not info.get('ran'):
        ctx.fail('prop', 'the generator does not run on this tree (so the checked-in code is not what it produces)',
                 op='gendiff <generator>', impl=info.get('log', '')[-1500:], demanded='generator output = checked-in files')
    elif diff or missing:
        words, first = [], None
        for p in (diff + missing)[:12]:
            row, x, y, difflib = _first_row(os.path.join(F.REPO, p), os.path.join(regen_dir, p))
            if first is None:
                first = '\n'.join(list(difflib.unified_diff(x, y, 'checked-in/' + p, 'regenerated/' + p, lineterm='', n=1))[:60])
            words.append(f"{p} line {row['line']}: checked-in `{row['tree']}` / regenerated `{row['regen']}`" if p in intree
                         else f"{p}: emitted by the generator, not in the tree")
        p0 = (diff + missing)[0]
        ctx.fail('prop', f"{len(diff) + len(missing)} generated file(s) differ from what the generator produces from Profile.xlsx: " + '; '.join(words[:5]),
                 op='gendiff ' + p0, impl='checked-in sha256 ' + str(intree.get(p0, {}).get('sha')), demanded='regenerated sha256 ' + str(emitted[p0]),
                 diff=first or '')
    elif leftover:
        ctx.fail('prop', 'checked-in *_gen.go files that neither the generator emits nor a declared other generator writes: ' +
                 ', '.join(f"{p} (header names `{intree[p]['generator'] or '?'}`)" for p in leftover[:5]),
                 op='gendiff ' + leftover[0], impl='present', demanded='absent')


PROP = dict(
    level='proof',
    regen=['xlsx', 'profiletables', 'mesgdef17', 'untyped', 'gendigest', 'treedigest'],
    theorems=['Fit.C17.C17_bytes', 'Fit.C17.C17_bytes_tables', 'Fit.C17.C17_filesMatch_sound',
              'Fit.C17.C17_factory_eq_xlsx_partial', 'Fit.C17.C17_factory_eq_xlsx_outside_class',
              'Fit.C17.C17_KF1_witness', 'Fit.C17.C17_types_eq_xlsx_partial', 'Fit.C17.C17_KF1_witness_types',
              'Fit.C17.C17_dedupe_exact', 'Fit.C17.C17_types_eq_xlsx_listed', 'Fit.C17.C17_dedupe_no_value_lost', 'Fit.C17.C17_dedupe_keeps',
              'Fit.C17.C17_types_without_R7_false',
              'Fit.C17.C17_refs_resolve', 'Fit.C17.C17_bitwidth_fit', 'Fit.C17.C17_string_roundtrip',
              'Fit.C17.C17_string_tables_cover', 'Fit.C17.C17_invalid_is_base_invalid', 'Fit.C17.C17_mesgnum_fieldnum_partial',
              'Fit.C17.C17_profile_types', 'Fit.C17.C17_version', 'Fit.C17.C17_mesgdef_matches_xlsx',
              'Fit.C17.C17_distinct_sound', 'Fit.C17.C17_sorted_eq_perm'],
    families=[dict(name='profilerows', spec=True, shrink=False)],
    lean_extra_targets=['driver'],   # built in the same lake invocation as the theorems (the C compilation of a changed table runs beside the kernel checks)
    extra=_extra,
    trusted_base=STD_TRUST + [
        "translators/gendigest.py (step gendigest): runs the repository's own generator (go run main.go -f Profile.xlsx -p <scratch> -b all --profile-version <from version_gen.go's doc comment> -y) outside the repository and hashes what it WROTE (python hashlib); opens no checked-in *_gen.go file",
        "translators/treedigest.sh (step treedigest, run and logged separately): find + coreutils sha256sum over the WHOLE tree except .git: path, sha256 and the program named in the first line of every checked-in *_gen.go; runs nothing of the repository",
        "translators/xlsx.py: independent reader of Profile.xlsx (python3 zipfile + xml.etree; reading rules R0-R7 in its header) — shares no code with the generator's parser/lookup/xlsxreader/misspell",
        "fitharness regen profiletables: dump of the compiled factory/profile/typedef packages; tied to the live packages by the family profilerows (every message, every (message, field number) through CreateField, every type and every constant's String/FromString)",
        "translators/registry.py: listing of typedef types / mesgdef constructors by their declaration signature",
        "sha256: equal digests are read as equal bytes",
    ],
    assumptions=["the generator program itself is not modelled: it is RUN on every check and its output is validated (translation validation by execution) against the tree (two independently produced digest tables compared by the kernel) and against the spreadsheet",
                 "the String()/FromString clause is likewise an execution check: the compiled functions are called on every listed constant and the table of results is what the kernel checks",
                 "python's float() and Go's strconv.ParseFloat both round a decimal to the nearest binary64",
                 "reading rule R7 (a row of the Types sheet commented 'deprecated' whose value another row of the same type carries is an alias, not a constant) is part of the reading of the spreadsheet; pinned to exactly one row (weather_report.forecast = 1) by C17_dedupe_exact"],
)

TEXT = dict(
    technique='Lean 4 kernel-checked statements (decide +kernel, sharded over lemma modules; general soundness lemmas for the Boolean tests) about finite tables regenerated on every run. Two of the clauses are execution checks (translation validation by execution), not statements about a model of a program: byte-for-byte (the generator is re-run; sha256 table of its fresh output vs an independently produced sha256 table of every *_gen.go of the tree) and String/FromString round trip (the compiled functions are called on every constant). The others compare a dump of the compiled factory / typedef / profile packages and the reflection+probing tables of the typed structs with an independent python reading of Profile.xlsx; reference resolution, bit-width fit; differential tie of the dump to the live packages row by row',
    text='On every run the repository\'s generator is re-run into a scratch directory and the sha256 of each of its 304 files is recorded (step gendigest); separately, with another tool, every *_gen.go of the whole tree is hashed and the generator its header names recorded (step treedigest, 306 files). C17_bytes: the kernel checks that the two tables agree — every emitted file is in the tree with the same digest, and every *_gen.go anywhere in the tree is emitted or is one of the two named outputs of other declared generators (cmd/fitprint/printer/typedef_gen.go, cmd/fitconv/fitcsv/lookup_gen.go), so a left-over generated file breaks it. This clause is translation validation by execution: the generator program is not modelled. The compiled factory (119 messages, 1382 fields, 98 sub-fields with components and reference maps), the 179 profile types (3658 rows of the Types sheet = 3657 constants + the one deprecated alias row weather_report.forecast = 1, whose value hourly_forecast = 1 keeps: reading rule R7, pinned by C17_dedupe_exact / C17_types_eq_xlsx_listed / C17_dedupe_no_value_lost; without the rule the statement is false, C17_types_without_R7_false), profile_gen.go (type list, String/FromString, BaseType), the untyped mesgnum/fieldnum constants, the typed structs of profile/mesgdef (slot kinds, base types, fixed lengths, eligible expanded numbers, emission order) and the version are proved equal, entry by entry, to an independent reading of Profile.xlsx up to exactly three spell-corrected identifiers (open finding KF-C17-1, C17_KF1_witness*). Internal consistency: component / sub-field references resolve within the message, component bits fit the containing field (a real bound for scalar and fixed-length fields; for variable-length arrays only the protocol maximum of 255 bytes bounds the sum), every listed constant round-trips through String/FromString with no duplicate value or string (an execution check of the compiled functions; C17_distinct_sound: the Boolean test implies List.Nodup).',
    note='Trusted: Lean kernel; the translators (generator re-run + python sha256 of its output; find + sha256sum of the tree as a separate step; python xlsx reader with reading rules R0-R7; dump of the compiled packages; source scan for the untyped constants; reflection/probing of the typed structs) and the harness/driver protocol. Execution checks, not proofs about a program: the byte-for-byte clause (C17_bytes: the generator is run per check, validated, not verified) and the String/FromString tables (C17_string_roundtrip: the compiled functions are called). R7 consequence: WeatherReportForecast is not generated and WeatherReportFromString("forecast") is invalid. The profile version is not in the spreadsheet: it is taken from version_gen.go\'s doc comment.',
)
