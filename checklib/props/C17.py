import json, os, subprocess, sys
from ._common import STD_TRUST


def _gen(ctx):
    import framework as F
    return os.path.join(F.LEAN, 'FitModel', 'Generated')


def _regen_registry(ctx):
    """harness/registry_gen.go: listing of every mesgdef constructor / typedef type of the current tree; the
    harness is rebuilt when the listing changed"""
    import framework as F
    out = os.path.join(F.ROOT, 'harness', 'registry_gen.go')
    rc, o = F.sh([sys.executable, os.path.join(F.ROOT, 'translators', 'registry.py'), F.REPO, out])
    if rc != 0:
        ctx.fail('tool', 'translator registry failed', detail=o[-2000:])
        return False
    ctx.cov.setdefault('extra', {})['registry'] = o.strip()
    if ' changed ' in o:
        return F.build_harness(ctx)
    return True


def _regen_xlsx(ctx):
    import framework as F
    rc, o = F.sh([sys.executable, os.path.join(F.ROOT, 'translators', 'xlsx.py'), F.REPO, os.path.join(_gen(ctx), 'Xlsx.lean'),
                  os.path.join(ctx.work, 'xlsx.json')])
    if rc != 0:
        ctx.fail('tool', 'independent reading of Profile.xlsx failed (workbook no longer readable by the stated rules)', detail=o[-2000:])
        return False
    ctx.cov.setdefault('extra', {})['xlsx'] = o.strip()
    return True


def _regen_profiletables(ctx):
    import framework as F
    return (_regen_registry(ctx) and F.harness_regen(ctx, 'profiletables', 'ProfileTables.lean') and
            F.harness_regen(ctx, 'profiletypes', 'ProfileTypes.lean') and F.harness_regen(ctx, 'profilestrs', 'ProfileStrs.lean'))


def _regen_gendigest(ctx):
    import framework as F
    rc, o = F.sh([sys.executable, os.path.join(F.ROOT, 'translators', 'gendigest.py'), F.REPO, os.path.join(_gen(ctx), 'GenDigest.lean'),
                  os.path.join(ctx.work, 'gendigest.json')], timeout=900)
    ctx.cov.setdefault('extra', {})['gendigest'] = o.strip()[-300:]
    # a generator that does not run is recorded in GenDigest.lean (generatorRan = false) and fails C17_bytes;
    # the step itself only fails when nothing could be written
    return os.path.exists(os.path.join(_gen(ctx), 'GenDigest.lean'))


def _regen_untyped(ctx):
    import framework as F
    rc, o = F.sh([sys.executable, os.path.join(F.ROOT, 'translators', 'untyped.py'), F.REPO, os.path.join(_gen(ctx), 'Untyped.lean')])
    if rc != 0:
        ctx.fail('tool', 'translator untyped failed (shape of profile/untyped/*_gen.go changed): ' + o.strip()[-300:], detail=o[-2000:])
        return False
    ctx.cov.setdefault('extra', {})['untyped'] = o.strip()
    return True


def _regen_mesgdef17(ctx):
    """the typed structs as the compiled code shows them (shared with C13)"""
    import framework as F
    return F.harness_regen(ctx, 'mesgdef', 'Mesgdef.lean')


REGEN = {'mesgdef17': _regen_mesgdef17, 'untyped': _regen_untyped, 'registry': _regen_registry, 'xlsx': _regen_xlsx, 'profiletables': _regen_profiletables, 'gendigest': _regen_gendigest}


def _extra(ctx, spec):
    """name the first differing generated file (with its diff) as the replay when the digests differ"""
    p = os.path.join(ctx.work, 'gendigest.json')
    try:
        info = json.load(open(p))
    except Exception:  # noqa
        return
    nfiles = len(info.get('files', []))
    diff = [f for f in info.get('files', []) if f['regen'] != f['tree']]
    ctx.cov.setdefault('extra', {})['generated_files'] = dict(emitted=nfiles, differing=len(diff), leftover=len(info.get('extra', [])),
                                                            profile_version=info.get('version'))
    ctx.cov['extra_evaluations'] = ctx.cov.get('extra_evaluations', 0) + nfiles
    ctx.cov['extra_distinct'] = ctx.cov.get('extra_distinct', 0) + nfiles
    if not info.get('ran'):
        ctx.fail('prop', 'the generator does not run on this tree (so the checked-in code is not what it produces)',
                 op='gendiff <generator>', impl=info.get('log', '')[-1500:], demanded='generator output = checked-in files')
    elif diff:
        fd = info.get('first_diff') or {}
        def row(f):
            r = f.get('row')
            return f"{f['path']}" + (f" line {r['line']}: checked-in `{r['tree']}` / regenerated `{r['regen']}`" if r else '')
        ctx.fail('prop', f"{len(diff)} generated file(s) differ from what the generator produces from Profile.xlsx: " +
                 '; '.join(row(f) for f in diff[:5]),
                 op='gendiff ' + diff[0]['path'], impl='checked-in sha256 ' + str(diff[0]['tree']), demanded='regenerated sha256 ' + str(diff[0]['regen']),
                 diff=fd.get('diff', ''))
    elif info.get('extra'):
        ctx.fail('prop', 'checked-in *_gen.go files the generator no longer emits: ' + ', '.join(info['extra'][:5]),
                 op='gendiff ' + info['extra'][0], impl='present', demanded='absent')


PROP = dict(
    level='proof',
    regen=['xlsx', 'profiletables', 'mesgdef17', 'untyped', 'gendigest'],
    theorems=['Fit.C17.C17_bytes', 'Fit.C17.C17_factory_eq_xlsx_partial', 'Fit.C17.C17_factory_eq_xlsx_outside_class',
              'Fit.C17.C17_KF1_witness', 'Fit.C17.C17_types_eq_xlsx_partial', 'Fit.C17.C17_KF1_witness_types',
              'Fit.C17.C17_refs_resolve', 'Fit.C17.C17_bitwidth_fit', 'Fit.C17.C17_string_roundtrip',
              'Fit.C17.C17_string_tables_cover', 'Fit.C17.C17_invalid_is_base_invalid', 'Fit.C17.C17_mesgnum_fieldnum_partial',
              'Fit.C17.C17_profile_types', 'Fit.C17.C17_version', 'Fit.C17.C17_mesgdef_matches_xlsx',
              'Fit.C17.C17_distinct_sound', 'Fit.C17.C17_sorted_eq_perm'],
    families=[dict(name='profilerows', spec=True, shrink=False)],
    lean_extra_targets=['driver'],   # built in the same lake invocation as the theorems (the C compilation of a changed table runs beside the kernel checks)
    extra=_extra,
    trusted_base=STD_TRUST + [
        "translators/gendigest.py: runs the repository's own generator (go run main.go -f Profile.xlsx -p <scratch> -b all --profile-version <from version_gen.go> -y) outside the repository and hashes its output and the checked-in files (sha256)",
        "translators/xlsx.py: independent reader of Profile.xlsx (python3 zipfile + xml.etree; reading rules R0-R6 in its header) — shares no code with the generator's parser/lookup/xlsxreader/misspell",
        "fitharness regen profiletables: dump of the compiled factory/profile/typedef packages; tied to the live packages by the family profilerows (every message, every (message, field number) through CreateField, every type and every constant's String/FromString)",
        "translators/registry.py: listing of typedef types / mesgdef constructors by their declaration signature",
    ],
    assumptions=["the generator program itself is not modelled: its output is validated (translation validation), per run, against the tree and against the spreadsheet",
                 "python's float() and Go's strconv.ParseFloat both round a decimal to the nearest binary64"],
)

TEXT = dict(
    technique='Lean 4 kernel-checked statements (decide +kernel, sharded over lemma modules) about finite tables regenerated on every run: sha256 of the generator\'s fresh output vs the tree; dump of the compiled factory / typedef / profile packages and the reflection+probing tables of the typed structs vs an independent python reading of Profile.xlsx; reference resolution, bit-width fit, String/FromString round trip; differential tie of the dump to the live packages row by row',
    text='On every run the repository\'s generator is re-run into a scratch directory and the digests of its 304 files are compared with the checked-in files inside Lean (C17_bytes; no left-over *_gen.go). The compiled factory (119 messages, 1382 fields, 98 sub-fields with components and reference maps), the 179 profile types (3658 constants), profile_gen.go (type list, String/FromString, BaseType), the untyped mesgnum/fieldnum constants, the typed structs of profile/mesgdef (slot kinds, base types, fixed lengths, eligible expanded numbers, emission order) and the version are proved equal, entry by entry, to an independent reading of Profile.xlsx up to exactly three spell-corrected identifiers (open finding KF-C17-1, C17_KF1_witness*). Internal consistency: component / sub-field references resolve within the message, component bits fit the containing field, every listed constant round-trips through String/FromString with no duplicate value or string (C17_distinct_sound: the Boolean test implies List.Nodup).',
    note='Trusted: Lean kernel; the translators (generator re-run + sha256, python xlsx reader with reading rules R0-R6, dump of the compiled packages, source scan for the untyped constants, reflection/probing of the typed structs) and the harness/driver protocol. The generator program is validated per run (translation validation), not verified. The profile version is not in the spreadsheet: it is taken from version_gen.go\'s doc comment.',
)
