from ._common import STD_TRUST


def _regen_csvprofile(ctx):
    """what the converters read from the profile (names, units, base types, scales, components, sub-fields) and the CSV
    reader's two lookup tables, printed from the compiled packages"""
    import framework as F
    return F.harness_regen(ctx, 'csvprofile', 'CsvProfile.lean')


REGEN = {'csvprofile': _regen_csvprofile}


def _extra(ctx, spec):
    """the edge stream (quotes, separators, `|`, line breaks, description scales, arbitrary float bits): run on the
    implementation only; its divergences are counted into the evidence, not asserted — except that nothing may panic"""
    import framework as F
    ops, impl, stats = F.run_family(ctx, 'csvedge')
    cats = {}
    for a in impl:
        k = 'panic' if a.startswith('panic') else ('rt=' + a.rsplit('rt=', 1)[1] if 'rt=' in a else (a.split(' ')[-1] if a else 'empty'))
        cats[k] = cats.get(k, 0) + 1
    ctx.cov.setdefault('extra', {})['csvedge'] = dict(ops=len(ops), outcomes=cats)
    ctx.cov['extra_evaluations'] = ctx.cov.get('extra_evaluations', 0) + len(ops)
    ctx.log(f'edge stream: {len(ops)} ops, outcomes {cats}')


PROP = dict(
    level='proof',
    regen=['consts', 'csvprofile'],
    theorems=['Fit.C19.C19_columns', 'Fit.C19.C19_columns_trim', 'Fit.C19.C19_tables', 'Fit.C19.C19_field_roundtrip_raw', 'Fit.C19.C19_raw_roundtrip_partial', 'Fit.C19.C19_scaled_roundtrip', 'Fit.C19.C19_sequences_partial',
              'Fit.C19.C19_scalar_roundtrip_raw'],
    families=[dict(name='csv', prop=True)],
    extra=_extra,
    trusted_base=STD_TRUST + [
        "the profile as the converters see it (factory fields: name, units, base type, array, scale/offset bits, component targets, sub-fields and their maps; MesgNum.String(); the reader's mesgNumLookup / fieldNumLookup through the verif hooks) is printed from the compiled packages on every run (Generated/CsvProfile.lean)",
        "text layer assumed, not modelled: strconv (decimal ↔ integer, shortest float text ↔ float64), encoding/csv quoting, unicode.IsPrint",
        "the arithmetic of the scaled mode is a parameter of the model (hypothesis: parse(format(apply(x))) = x); tested on the implementation through fitcsv.VerifFormat / VerifParseValue on every (base type, scale, offset) of the profile",
        "encoder and decoder between the two converters are those of C01/C10; the family feeds messages that are a fixed point of encode→decode",
    ],
    assumptions=["strings within the safe alphabet (printable, no quote, no `|`); non-empty arrays",
                 "float→integer conversions of out-of-range values are platform-defined (not reached by round trips)"],
)

TEXT = dict(
    technique='Lean 4 proof on a cell-level model of fit_to_csv.go / csv_to_fit.go over the regenerated profile table + differential tie driving the real converters in-process (FITToCSVConv as decoder listener with message copy, CSVToFITConv, decode)',
    text='C19_columns / _trim for any list of lines; C19_tables (regenerated profile and lookup tables consistent, kernel-decided); C19_scalar_roundtrip_raw, C19_field_roundtrip_raw, C19_scaled_roundtrip (under the tested arithmetic hypothesis) and the file-level C19_raw_roundtrip_partial / C19_sequences_partial for chains of files of plain messages; the model is compared with the real converters on generated FIT files over all profile messages (CSV structure, written messages, sequences) and the property predicate is evaluated on the implementation output.',
    note='Partial: the text layer (strconv, encoding/csv, unicode) is assumed; the scaled-mode arithmetic is a tested hypothesis.',
)
