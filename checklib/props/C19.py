from ._common import STD_TRUST


def _regen_csvprofile(ctx):
    """what the converters read from the profile (names, units, base types, scales, components, sub-fields) and the CSV
    reader's two lookup tables, printed from the compiled packages"""
    import framework as F
    return F.harness_regen(ctx, 'csvprofile', 'CsvProfile.lean')


REGEN = {'csvprofile': _regen_csvprofile}


def _extra(ctx, spec):
    """the edge stream (quotes, separators, `|`, line breaks, description scales, arbitrary float bits): run on the
    implementation only; its divergences are counted into the evidence, not asserted — except that nothing may panic"""
    import framework as F, os
    ops, impl, stats = F.run_family(ctx, 'csvedge')
    cats = {}
    for a in impl:
        k = 'panic' if a.startswith('panic') else ('rt=' + a.rsplit('rt=', 1)[1] if 'rt=' in a else (a.split(' ')[-1] if a else 'empty'))
        cats[k] = cats.get(k, 0) + 1
    ctx.cov.setdefault('extra', {})['csvedge'] = dict(ops=len(ops), outcomes=cats)
    ctx.cov['extra_evaluations'] = ctx.cov.get('extra_evaluations', 0) + len(ops)
    ctx.log(f'edge stream: {len(ops)} ops, outcomes {cats}')
    # how many generated inputs of the checked stream are inside `csvUnambiguousB`, and which conjunct the others fail
    try:
        cops = [l.split('\t', 1)[0] for l in open(os.path.join(ctx.work, 'csv.impl.tsv')) if l.startswith('csv ')]
        why = {}
        for a in F.run_driver(cops, mode='--spec'):
            why[a] = why.get(a, 0) + 1
        ctx.cov['extra']['scope'] = why
        ctx.log(f'scope of the {len(cops)} csv inputs: {why}')
    except Exception as e:
        ctx.log('scope count failed', e)


PROP = dict(
    level='proof',
    regen=['consts', 'csvprofile'],
    theorems=['Fit.C19.C19_columns', 'Fit.C19.C19_columns_trim', 'Fit.C19.C19_tables', 'Fit.C19.C19_field_roundtrip_raw', 'Fit.C19.C19_raw_roundtrip_partial', 'Fit.C19.C19_scaled_roundtrip', 'Fit.C19.C19_sequences_partial',
              'Fit.C19.C19_scalar_roundtrip_raw', 'Fit.C19.C19_scaled_roundtrip_profile', 'Fit.C19.C19_array_roundtrip', 'Fit.C19.C19_field_roundtrip_value',
              'Fit.C19.C19_unknown_field_roundtrip', 'Fit.C19.C19_dev_field_roundtrip', 'Fit.C19.C19_dev_float_scale_fixed', 'Fit.C19.C19_subfield_roundtrip', 'Fit.C19.C19_removes_expansion_targets',
              'Fit.C19.C19_roundtrip_partial', 'Fit.C19.C19_int64_fixed', 'Fit.C19.C19_roundtrip', 'Fit.C19.C19_roundtrip_convert', 'Fit.C19.C19_sequences',
              'Fit.C19.C19_copy_all_lines', 'Fit.C19.C19_copy_long_line_fixed',
              'Fit.C19.C19_int_text_roundtrip', 'Fit.C19.C19_csv_quoting_roundtrip', 'Fit.C19.C19_lines_roundtrip', 'Fit.C19.C19_columns_text', 'Fit.C19.C19_roundtrip_text'],
    families=[dict(name='csv', prop=True), dict(name='csvtext', prop=True)],
    extra=_extra,
    trusted_base=STD_TRUST + [
        "the profile as the converters see it (factory fields: name, units, base type, array, scale/offset bits, component targets, sub-fields and their maps; MesgNum.String(); the reader's mesgNumLookup / fieldNumLookup through the verif hooks) is printed from the compiled packages on every run (Generated/CsvProfile.lean)",
        "text layer: decimal integers (strconv.FormatInt/FormatUint/Itoa, ParseInt/ParseUint base 0 with bit sizes 8..64), writeCell quoting, the value cells, lines, header, the padding pass and encoding/csv (record by record, settings of NewCSVToFITConv) are MODELLED (FitModel/CsvText.lean) and tied byte for byte by the families csvtext / csvparse; still assumed: float text (strconv.FormatFloat / ParseFloat: the explicit hypothesis FloatOK of C19_roundtrip_text / C19_columns_text), unicode.IsPrint beyond ASCII (bytes >= 0x80 are taken as parts of printable runes), base prefixes / '_' separators of ParseInt base 0 (unmodelled, never written by FormatInt)",
        "the arithmetic of the scaled mode is a parameter of the model, instantiated by Arith.so = kit/scaleoffset + fitcsv.parseValue over the bit-exact binary64 of FitModel/F64.lean (the definitions of C12); the driver runs it and the `csvarith` operations compare it with fitcsv.VerifFormat / VerifParseValue on every (base type, scale, offset) of the profile; C12_csv discharges the round-trip hypothesis for every scaled profile field (integer types up to 32 bits; no 64-bit field of the profile is scaled)",
        "degrees option: ToSemicircles(ToDegrees(s)) is computed over the same binary64 model (FitModel/TimeAngle.lean) and is the identity on every int32 pattern by C12_semicircles; the float text in between is assumed as for every float; compared with the implementation on every run (positions incl. extremes and the invalid value)",
        "text layer assumed, in particular: the text of a scaled value contains a '.' (true for x.0 and for every mantissa of more than one digit; a one-digit mantissa with exponent below -4 such as 1e-05 has none — not produced by any (scale, raw) of the profile)",
        "encoder and decoder between the two converters are those of C01/C10; the family feeds messages that are a fixed point of encode→decode; the encoder's validator is modelled as far as it decides success (gateSeq) and proved to pass (C19_roundtrip_convert)",
    ],
    assumptions=["strings within the alphabet the formatter keeps (printable, no quote) and without `|`; non-empty arrays; no line break / CR in names and units (a record is one line)",
                 "float→integer conversions of out-of-range values are platform-defined (not reached by round trips)"],
)

TEXT = dict(
    technique='Lean 4 proof on a cell-level model of fit_to_csv.go / csv_to_fit.go over the regenerated profile table and on a character-level model of the CSV text (decimal integers, quoting, encoding/csv) + differential tie driving the real converters in-process (FITToCSVConv as decoder listener with message copy, CSVToFITConv, decode): cells, written messages and sequences (csv), the CSV text byte for byte and the real reader on mutated texts (csvtext, csvparse)',
    text='C19_roundtrip / C19_roundtrip_convert (theorems for EVERY chain of files within the decidable scope csvUnambiguousB, all options incl. degrees: developer fields through the description lists of writer and reader, any number of sub-field placeholders reverted, component targets removed = the fields flagged expanded, scaled arrays, the encoder gate), C19_sequences; text layer: C19_int_text_roundtrip (parse(format n) = n for ParseInt/ParseUint at every bit size, range and sign errors), C19_csv_quoting_roundtrip (encoding/csv reads back any cells writeCell wrote; commas counted by the padding pass = separators), C19_lines_roundtrip, C19_copy_all_lines (lines of any length: KF-C19-7 fixed), C19_columns_text (every line of the TEXT has the header column count as encoding/csv counts, any files), C19_roundtrip_text (FIT → CSV text → FIT under the explicit float-text hypothesis FloatOK); C19_columns / _trim, C19_tables and the cell-level theorems (scalar, array, scaled with the arithmetic of C12, unknown, developer, sub-field) as before. The scope predicate is evaluated by the driver on every generated input (about 95 % inside; reasons of the rest counted into the evidence) and the property predicate on the implementation output.',
    note='Float text (strconv.FormatFloat/ParseFloat) and unicode.IsPrint beyond ASCII stay assumptions (FloatOK is an explicit hypothesis, not an axiom); the degrees arithmetic is a parameter taken as the identity. Finding of this wave: KF-C19-7 (64 KiB line limit of the padding pass), fixed in /repo a4f13c7.',
)

# --- tie by translation (translators/go2lean, notes/go2lean.md; agreement theorems in lean/FitProps/C19Go2Lean.lean).
# Kept as a separate block so that it never collides with edits of the dictionary above.
PROP['regen'] = PROP['regen'] + ['go2lean:basetype']
PROP['go2lean_diff'] = []      # lean/Go2LeanDiff/<Topic>.lean: search for a differing argument when an agreement theorem breaks
PROP['theorems'] = PROP['theorems'] + [
    'Fit.C19.C19_go2lean_names',
    'Fit.C19.C19_go2lean_fromString_other',
    'Fit.C19.C19_go2lean_string_other']
PROP['trusted_base'] = PROP['trusted_base'] + [
    "translators/go2lean (Go→Lean for a small subset of Go, notes/go2lean.md) re-translates BaseType.String / basetype.FromString from the current source on every run; the agreement theorems *_go2lean_* state that the translated functions equal the hand-written model functions for all arguments; trusted: the translator's rendering of the subset (go/types computes constants and types) and FitModel/GoPrelude.lean"]
