from ._common import STD_TRUST


def _regen_csvprofile(ctx):
    """what the converters read from the profile (names, units, base types, scales, components, sub-fields) and the CSV
    reader's two lookup tables, printed from the compiled packages"""
    import framework as F
    return F.harness_regen(ctx, 'csvprofile', 'CsvProfile.lean')


REGEN = {'csvprofile': _regen_csvprofile}


def _extra(ctx, spec):
    """the edge stream (quotes, separators, `|`, line breaks, description scales, arbitrary float bits): run on the
    implementation only; its divergences are counted into the evidence, not asserted — except that nothing may panic"""
    import framework as F
    ops, impl, stats = F.run_family(ctx, 'csvedge')
    cats = {}
    for a in impl:
        k = 'panic' if a.startswith('panic') else ('rt=' + a.rsplit('rt=', 1)[1] if 'rt=' in a else (a.split(' ')[-1] if a else 'empty'))
        cats[k] = cats.get(k, 0) + 1
    ctx.cov.setdefault('extra', {})['csvedge'] = dict(ops=len(ops), outcomes=cats)
    ctx.cov['extra_evaluations'] = ctx.cov.get('extra_evaluations', 0) + len(ops)
    ctx.log(f'edge stream: {len(ops)} ops, outcomes {cats}')


PROP = dict(
    level='proof',
    regen=['consts', 'csvprofile'],
    theorems=['Fit.C19.C19_columns', 'Fit.C19.C19_columns_trim', 'Fit.C19.C19_tables', 'Fit.C19.C19_field_roundtrip_raw', 'Fit.C19.C19_raw_roundtrip_partial', 'Fit.C19.C19_scaled_roundtrip', 'Fit.C19.C19_sequences_partial',
              'Fit.C19.C19_scalar_roundtrip_raw', 'Fit.C19.C19_scaled_roundtrip_profile', 'Fit.C19.C19_array_roundtrip', 'Fit.C19.C19_field_roundtrip_value',
              'Fit.C19.C19_unknown_field_roundtrip', 'Fit.C19.C19_dev_field_roundtrip', 'Fit.C19.C19_dev_float_scale_fixed', 'Fit.C19.C19_subfield_roundtrip', 'Fit.C19.C19_removes_expansion_targets',
              'Fit.C19.C19_roundtrip_partial', 'Fit.C19.C19_int64_fixed'],
    families=[dict(name='csv', prop=True)],
    extra=_extra,
    trusted_base=STD_TRUST + [
        "the profile as the converters see it (factory fields: name, units, base type, array, scale/offset bits, component targets, sub-fields and their maps; MesgNum.String(); the reader's mesgNumLookup / fieldNumLookup through the verif hooks) is printed from the compiled packages on every run (Generated/CsvProfile.lean)",
        "text layer assumed, not modelled: strconv (decimal ↔ integer, shortest float text ↔ float64), encoding/csv quoting, unicode.IsPrint",
        "the arithmetic of the scaled mode is a parameter of the model, instantiated by Arith.so = kit/scaleoffset + fitcsv.parseValue over the bit-exact binary64 of FitModel/F64.lean (the definitions of C12); the driver runs it and the `csvarith` operations compare it with fitcsv.VerifFormat / VerifParseValue on every (base type, scale, offset) of the profile; C12_csv discharges the round-trip hypothesis for every scaled profile field (integer types up to 32 bits; no 64-bit field of the profile is scaled)",
        "text layer assumed, in particular: the text of a scaled value contains a '.' (true for x.0 and for every mantissa of more than one digit; a one-digit mantissa with exponent below -4 such as 1e-05 has none — not produced by any (scale, raw) of the profile)",
        "encoder and decoder between the two converters are those of C01/C10; the family feeds messages that are a fixed point of encode→decode",
    ],
    assumptions=["strings within the safe alphabet (printable, no quote, no `|`); non-empty arrays",
                 "float→integer conversions of out-of-range values are platform-defined (not reached by round trips)"],
)

TEXT = dict(
    technique='Lean 4 proof on a cell-level model of fit_to_csv.go / csv_to_fit.go over the regenerated profile table + differential tie driving the real converters in-process (FITToCSVConv as decoder listener with message copy, CSVToFITConv, decode)',
    text='C19_columns / _trim for any list of lines; C19_tables (regenerated profile and lookup tables consistent, kernel-decided); cell level: C19_scalar_roundtrip_raw, C19_array_roundtrip, C19_field_roundtrip_raw / _value, C19_scaled_roundtrip_profile (default scaled mode, unconditional for the profile: arithmetic discharged by C12), C19_unknown_field_roundtrip (verbose), C19_dev_field_roundtrip, C19_subfield_roundtrip (substitution, placeholder, reversal), C19_removes_expansion_targets; file level: C19_roundtrip_partial / C19_sequences_partial for chains of files whose messages consist of known fields (scalar/array, raw/unscaled/scaled) and unknown fields/messages (kept with verbose, dropped without), any number of files; the model is compared with the real converters on generated FIT files over all profile messages (CSV structure, written messages, sequences) and the property predicate is evaluated on the implementation output.',
    note='Partial: the text layer (strconv, encoding/csv, unicode) is assumed; developer fields and sub-field reversal are proved cell by cell, their message-level composition is tied by the correspondence (C19_roundtrip_full stays a def).',
)
