from ._common import STD_TRUST

PROP = dict(
    level='proof',
    regen=['crctable', 'wireconsts', 'integconsts'],
    theorems=['Fit.C11.C11_write_error_surfaces', 'Fit.C11.C11_error_surfaces_batch', 'Fit.C11.C11_success_means_no_fault',
              'Fit.C11.C11_error_surfaces_stream', 'Fit.C11.C11_call_error_surfaces', 'Fit.C11.C11_consts',
              'Fit.C11.C11_prefix_never_valid', 'Fit.C11.C11_prefix_never_valid_stream',
              'Fit.C11.C11_stale_header_witness'],
    families=[dict(name='enc-faults', prop=True)],
    trusted_base=STD_TRUST + [
        "fault model FitModel/Writer.lean `Faults`: any set of destination operations fails, each after taking at most j bytes; tied by family enc-faults: every fault point (operation x j in {0,1,len-1,len}) of real encodes, for all writer kinds, buffer sizes, batch and stream: result per API call, call in which the fault fired, operation log, destination content and the real CheckIntegrity verdict on it compared with the model",
        "the property predicate is evaluated on the implementation's answers: a fired fault makes the call in progress fail, no panic, and a destination content accepted by the real CheckIntegrity equals pre ++ completed sequences",
    ],
    assumptions=["a destination honours io.Writer's contract (n < len(p) comes with an error); after a failure it may or may not keep failing (any fault set)",
                 "default (zero) file headers for the never-valid clause, as the property states"],
)

TEXT = dict(
    technique='Lean 4 proof over the writer model under arbitrary fault schedules; exhaustive fault-point enumeration on the implementation',
    text='(filled in as the theorems land)',
    note='work in progress',
)
