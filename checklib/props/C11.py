import os, re
from ._common import STD_TRUST


def _extra(ctx, spec):
    """evidence: every `wrx` op stands for one faulted run per fault point; count them and the accepted crash states"""
    runs = sweeps = accepted = 0
    try:
        for l in open(os.path.join(ctx.work, 'enc-faults.impl.tsv')):
            if l.startswith('wrx '):
                m = re.search(r'\tn=(\d+)', l)
                if m:
                    sweeps += 1
                    runs += int(m.group(1))
                    accepted += l.count('/ok:')
    except OSError:
        return
    ctx.cov['extra_evaluations'] = runs
    ctx.cov['exhaustive'] = dict(
        what='per swept input and configuration (writer kind, buffer size, batch/stream): one faulted run of the real encoder for '
             'EVERY operation the destination sees in the fault-free run x bytes taken in {0, 1, len-1, len}; each run compared with '
             'the model (results per call, call in which the fault fired, content digest, real CheckIntegrity verdict) and judged by the property predicate',
        sweep_ops=sweeps, faulted_runs=runs, crash_states_accepted_by_CheckIntegrity=accepted)


PROP = dict(
    level='proof',
    regen=['crctable', 'wireconsts', 'integconsts'],
    theorems=['Fit.C11.C11_write_error_surfaces', 'Fit.C11.C11_error_surfaces_batch', 'Fit.C11.C11_success_means_no_fault',
              'Fit.C11.C11_error_surfaces_stream', 'Fit.C11.C11_call_error_surfaces', 'Fit.C11.C11_consts',
              'Fit.C11.C11_prefix_never_valid', 'Fit.C11.C11_crash_never_valid', 'Fit.C11.C11_prefix_never_valid_stream',
              'Fit.C11.C11_stale_header_witness',
              'Fit.C11.C11_fault_is_crash_prefix', 'Fit.C11.C11_fault_is_crash_prefix_stream',
              'Fit.C11.C11_call_fault_is_crash_prefix', 'Fit.C11.C11_validated_call_fault_is_crash_prefix',
              'Fit.C11.C11_crash_prefix_never_valid',
              'Fit.C11.C11_short_write_model_refines', 'Fit.C11.C11_short_write_buffered_safe', 'Fit.C11.C11_short_write_witness'],
    families=[dict(name='enc-faults', prop=True)],
    extra=_extra,
    trusted_base=STD_TRUST + [
        "fault model FitModel/Writer.lean `Faults`: any set of destination operations fails, each after taking at most j bytes; tied by family enc-faults: every fault point (operation x j in {0,1,len-1,len}) of real encodes, for all writer kinds, buffer sizes, batch and stream: result per API call, call in which the fault fired, operation log, destination content and the real CheckIntegrity verdict on it compared with the model",
        "the property predicate is evaluated on the implementation's answers: a fired fault makes the call in progress fail, no panic, and a destination content accepted by the real CheckIntegrity equals pre ++ completed sequences",
    ],
    assumptions=["a destination honours io.Writer's contract (n < len(p) comes with an error); after a failure it may or may not keep failing (any fault set). What the code does with a destination that breaks the contract (short count, nil error) is modelled in FitModel/WriterShort.lean (bufio.Writer.Write as the loop it is), tied by the k<s>j entries of family enc-faults and stated by C11_short_write_*: harmless behind any write buffer (retried or io.ErrShortWrite), unnoticed by an unbuffered encoder (witness) - so the assumption is necessary only for WithWriteBufferSize(0) and for the count of WriteAt",
                 "default (zero) file headers for the never-valid clause, as the property states"],
)

TEXT = dict(
    technique='Lean 4 proof over a model of destination + bufio + the encoder output paths + stream encoder under ARBITRARY fault schedules (any set of destination operations fails, each after taking at most j bytes): contracts Appended/Wrote/Rewrote/Outcome proved for every fault schedule, chains by induction, stream = batch call by call; the never-valid clause on top of the CheckIntegrity model of C04 (header step evaluation, C04_append, 16-bit burst lemma for partially rewritten data sizes); differential tie by exhaustive fault-point enumeration on the real encoder',
    text='C11_error_surfaces_batch / _stream: if any destination operation failed, the run of Encode calls (resp. WriteMessage…SequenceCompleted) does not report success; C11_call_error_surfaces: from ANY encoder state and for any validator, an Encode / WriteMessage / SequenceCompleted that reports success has seen no failed operation (the failing call is the one in progress); C11_success_means_no_fault (converse, non-vacuity). C11_prefix_never_valid / _stream: for default (zero) headers, any writer kind, buffer size, chain, pre-filled accepted destination and ANY fault schedule — in particular "operation k takes j bytes and fails", whose final content is the crash state — a destination content accepted by the CheckIntegrity model is d0 followed by the first m COMPLETE sequences. Hypotheses: records < 16 MiB per sequence, high byte of the placeholder CRC non-zero (C11_consts: proved for the regenerated profile.Version with protocol 1.0/2.0). C11_fault_is_crash_prefix / _stream / C11_call_fault_is_crash_prefix: from ANY encoder (stream encoder) state — every destination kind, with and without the bufio layer, every buffer size, any destination content/position, every chain, batch and stream, and each single Encode / WriteMessage / SequenceCompleted (C11_validated_call_fault_is_crash_prefix: also with the two validators in front, for any message validator: the functions the driver runs) — the destination under the schedule "operation k takes j bytes and fails" (write, write-at or seek) is exactly the replay (content, position, log) of the first k operations of the healthy run in full followed by operation k cut to j bytes and marked failed, nothing after it, and the entry point returns an error; identical runs when the healthy run has no operation k. C11_crash_prefix_never_valid combines it with the never-valid clause: every such crash state of the healthy operation sequence that the integrity check accepts is d0 + completed sequences. Finding F13 (stream encoder kept the previous data size in its header) was reported by this check, repaired in /repo (f65e050) and is kept as C11_stale_header_witness + corpus witness. Tie: family enc-faults (sweeps: every operation x {0,1,len-1,len} bytes; random multi-fault runs, continuing after errors).',
    note='Proved about the model; the model is tied to encoder.go/stream.go/writebuffer.go and bufio by differential testing (operation logs, results, contents, CheckIntegrity verdicts). That the single-fault schedule "operation k takes j bytes and fails" leaves exactly the crash state "the first k operations of the healthy run in full + j bytes of the next, and no operation afterwards" is a THEOREM about the model (C11_fault_is_crash_prefix, _stream, C11_call_fault_is_crash_prefix; no assumption on the destination or the encoder state) and is still CHECKED on every fault point of every sweep, for the real encoder (harness replays the recorded operations of the healthy run) and for the model (driver: `Dest.run (crashOps k j ops)`, the definitions the theorem is stated with) — a deviation prints `not-a-crash-prefix` and fails the property predicate. A (n<len, nil) short write breaks io.Writer\'s contract and is outside the property; what the code does then is modelled (FitModel/WriterShort.lean), tied (enc-faults entries k<s>j) and stated: C11_short_write_model_refines (the extended model equals the model on contract-abiding schedules; the unrolled bufio.Write is the loop), C11_short_write_buffered_safe (behind a write buffer of any size > 0 every successful Write…Flush series has delivered every byte in order, for EVERY schedule of errors and short counts), C11_short_write_witness (unbuffered: success reported with bytes missing; buffered: retried / io.ErrShortWrite; WriteAt count ignored).',
)
