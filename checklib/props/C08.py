from ._common import STD_TRUST
from ._links import with_links


def _regen_readerconsts(ctx):
    from framework import harness_regen
    return harness_regen(ctx, 'readerconsts', 'ReaderConsts.lean')


REGEN = {'readerconsts': _regen_readerconsts}


def _extra(ctx, spec):
    """evidence: the `dfragx` digest operations stand for many decodes each (every split point × 3 end-of-stream styles +
    a failure at every offset of one stream); count them"""
    fam = ctx.cov.get('families', {}).get('dfrag', {})
    dist = fam.get('distribution', {})
    n = dist.get('enum:exhaustive-sweep-schedules', 0)
    if n:
        ctx.cov['extra_evaluations'] = n
        ctx.cov['exhaustive'] = dict(
            what='per swept stream: every split point as a 2-chunk schedule × {EOF after, EOF with the last chunk, separate (0, EOF)} '
                 'and a reader failing at every offset, each decoded by the real Decoder (value-level comparison with the contiguous '
                 'decode included) and by the model; compared by digest',
            sweep_ops=dist.get('enum:exhaustive-sweep', 0), schedules=n)

PROP = dict(
    level='proof',
    regen=['crctable', 'integconsts', 'readerconsts'],
    theorems=['Fit.C08.C08_readN_refines', 'Fit.C08.C08_readN_sound', 'Fit.C08.C08_request_bound',
              'Fit.C08.C08_chunk_indep_partial', 'Fit.C08.C08_chunk_indep', 'Fit.C08.C08_chunk_indep_reused_buffer', 'Fit.C08.C08_full_false',
              'Fit.C08.C08_checkIntegrity_indep', 'Fit.C08.C08_reader_error', 'Fit.C08.C08_reader_error_decode',
              'Fit.C08.C08_reader_error_loop', 'Fit.C08.C08_raw_chunk_indep',
              'Fit.C08.C08_request_bound_ops', 'Fit.C08.C08_chunk_indep_ops', 'Fit.C08.C08_chunk_indep_ops_contiguous',
              'Fit.C08.C08_reader_error_ops'],
    families=[dict(name='readbuffer', spec=True), dict(name='dfrag', spec=True, prop=True), dict(name='dhfrag', spec=True, prop=True), dict(name='rawfrag', spec=True)],
    # link theorems between the decoder models this property composes with (additive: checklib/props/_links.py)
    extra=with_links(_extra, ['Fit.Links.Link_decprog_eq_api',
                             'Fit.Links.Link_chunk_indep_api',
                             'Fit.Links.Link_chunk_indep_api_two',
                             'Fit.Links.Link_chunk_indep_integrity',
                             'Fit.Links.Link_chunk_indep_decodeAll',
                             'Fit.Links.Link_stdFactory_ok',
                             # (C) DecoderApi.run = (D') DecHist.history call by call; what the API returns under every fragmentation
                             'Fit.Links.Link_dechist_eq_api_partial',
                             'Fit.Links.Link_dechist_values_partial',
                             'Fit.Links.Link_C08_ops_values_partial',
                             'Fit.Links.Link_C08_ops_values_partial_two'],
                     crosscheck=[('dfrag', 'linkinteg')]),
    trusted_base=STD_TRUST + [
        "the model of readBuffer.Reset/ReadN (FitModel/ReadBuffer.lean: backing array, len, cur, last, memmove into the reserved section, refill) is hand-written from decoder/readbuffer.go and tied by family readbuffer: the unexported type (hook decoder/verif_export.go) driven with arbitrary Reset/ReadN sequences × schedules × buffer sizes, every returned byte string and error compared",
        "io.ReadAtLeast / io.ReadFull (Go standard library) are modelled from their documentation and six-line loop (ral/readAtLeast); the io.Reader is a schedule of (bytes, error) results, delivered piecewise when the destination is shorter; a reader that violates the io.Reader contract (n > len(p), n < 0) is outside the model",
        "the decoder as a client of ReadN (FitModel/DecProg.lean: header, definitions, data incl. developer fields and field descriptions, CRC, Next/Decode loop, CheckIntegrity) is tied by family dfrag: real Decoder over fragmenting/failing readers with every buffer size vs the model decoder on the model read buffer over the same schedule (listener events, headers, CRCs, error class)",
        "every entry point and every history of calls as a client of ReadN (FitModel/DecHist.lean: the decoder object between calls - sticky error, Once of the header, position, running checksum, definitions, descriptions, file_id seen, byte consumed - over the record level of DecProg with the failure continuation as a parameter) is tied by family dhfrag: the real Decoder driven through generated call lists (dec, decx, decc, decx:k, pkh, pki, dis, nxt, final ci) over fragmenting / failing readers with every buffer size vs the model on the model read buffer (per-call results, listener events); --prop also compares the implementation's answer with the API model (C) of C03/C07 run on the delivered bytes (clean schedules, stream not ending inside a request)",
        "that the decoder consumes the bytes of a ReadN result before the next ReadN (the slice aliases the buffer) is not a theorem: it is sampled at value level by the `v=` comparison of family dfrag (everything the listeners and Decode hand out, fragmented vs contiguous)",
        "constants reservedbuf, minReadBufferSize, defaultReadBufferSize are re-extracted from the compiled tree on every run (Generated/ReaderConsts.lean); maxReadBufferSize (math.MaxUint32) is hand-copied: a 4 GiB buffer is never allocated by the check",
    ],
    assumptions=[
        "chunk independence is stated for schedules without failure (Clean): any partition into reads of any lengths incl. zero-length reads, io.EOF together with the last bytes or afterwards; reader failures are the subject of C08_reader_error / C08_readN_sound",
        "bytes are < 256 (IsBytes); streams below 4 GiB (Decoder.cur is a uint32; the model uses Nat)",
        "a fresh Decoder (decoder.New) per reader; the read buffer itself is verified for every prior state (any b in b.reset). Reset onto a new reader and the re-seek after CheckIntegrity start a new program (C07_reset_is_new / C07_integrity_check_is_new: the decoder is new then); a history program ends with its CheckIntegrity",
        "DecodeWithContext cancelled at the first Read of the call (decx:0 of family decapi) is not generated over fragmenting readers (k >= 1 is)",
        "`fuel` of the decode loop bounds the number of sequences; the theorems hold for every fuel, the correspondence uses fuel = stream length + 1",
    ],
)

TEXT = dict(
    technique='Lean 4 proof: exact model of readbuffer.go over arbitrary read schedules, window invariant, refinement of the exact-n reader for every schedule/buffer size/prior buffer state; decoders are programs over ReadN (free monad), so refinement lifts to every decode outcome by one simulation theorem; differential correspondence of buffer, decoder and CheckIntegrity over fragmenting and failing readers',
    text='Theorems: C08_readN_refines (any clean schedule, any buffer size, any prior buffer state: ReadN sequence = exact-n reader, errors up to the EOF class, exactly equal unless the stream ends inside a request), C08_readN_sound (any reader incl. failing ones: never panics, success only with exactly the next n bytes), C08_request_bound (every decoder request ≤ reservedbuf = 765; a short read ends the run), C08_chunk_indep_partial / C08_chunk_indep (decode outcome — events, headers, CRCs, error — equal for any two clean schedules and buffer sizes; up to EOF class in general, exactly when not truncated inside a request), C08_full_false (the strict statement fails: KF-C08-1 witness decided in the kernel), C08_reader_error (a reader error before the requested bytes are delivered is returned by ReadN), C08_reader_error_loop / C08_reader_error_decode (over any reader and buffer size, a reader failure handed to the decoder is the error the Next/Decode loop — and a single Decode — ends with; full strength since the fix 7644d6f of KF-C08-2), C08_checkIntegrity_indep, C08_chunk_indep_reused_buffer, C08_raw_chunk_indep (clients of io.ReadFull: exact incl. error class). EVERY ENTRY POINT: C08_request_bound_ops / C08_chunk_indep_ops / C08_chunk_indep_ops_contiguous (for every list of calls Decode / DecodeWithContext live, cancelled before, cancelled after k records / PeekFileHeader / PeekFileId / Discard / Next / final CheckIntegrity on one decoder: any two clean fragmentations, buffer sizes and prior buffer states give the same per-call results and listener events - up to the EOF class, exactly when the stream does not end inside a request; in particular those of the contiguous reader) and C08_reader_error_ops (a reader failure handed to the decoder during any call ends the reading and is the decoder\'s error). Value level: the dfrag answer carries m= - the digest of every message\'s VALUES as handed to the listener, which the model rebuilds from the field bytes of its message events with the decoder-API model\'s own functions (apiOf, standard factory, expansion off). Tie: families readbuffer (hook-driven, enumerated split points around the reserved-prefix boundary, random schedules × sizes × request sequences, buffer re-use) dfrag (real Decoder / CheckIntegrity over 1-byte, random, DataErrReader-style, failing-at-every-offset readers vs model and vs contiguous decode at value level) dhfrag (call histories over the same readers) and rawfrag (the real RawDecoder - io.ReadFull straight on the reader - on streams cut at every offset, each cut delivered in one Read together with io.EOF, with its last byte alone together with io.EOF, one byte per Read, in random partitions; reference: bytes.NewReader).',
    note='Proved about the model; tied by differential testing. Full strength (identical error class for truncated streams) is false on the pinned tree: io.EOF vs io.ErrUnexpectedEOF depends on fragmentation (F12, pinned by a test → open finding KF-C08-1). KF-C08-2 (Next() swallowed a reader failure) was found by this check and fixed in /repo (7644d6f).',
)

# --- tie by translation (translators/go2lean, notes/go2lean.md + notes/go2lean-add-r.md; agreement theorems in lean/FitProps/C08Go2Lean.lean).
# Kept as a separate block so that it never collides with edits of the dictionary above.
PROP['regen'] = PROP['regen'] + ['go2lean:readbuffer', 'go2lean:readbuffercap']
PROP['go2lean_diff'] = PROP.get('go2lean_diff', []) + ['ReadBuffer']      # lean/Go2LeanDiff/<Topic>.lean: search for a differing argument when an agreement theorem breaks
PROP['theorems'] = PROP['theorems'] + [
    'Fit.C08.C08_go2lean_consts',
    'Fit.C08.C08_go2lean_remaining',
    'Fit.C08.C08_go2lean_cur',
    'Fit.C08.C08_go2lean_copy',
    'Fit.C08.C08_go2lean_fill',
    'Fit.C08.C08_go2lean_refill',
    'Fit.C08.C08_go2lean_window',
    'Fit.C08.C08_go2lean_clamp',
    'Fit.C08.C08_go2lean_reset',
    'Fit.C08.C08_go2lean_oldsize',
    'Fit.C08.C08_go2lean_readN_recomposed']
PROP['trusted_base'] = PROP['trusted_base'] + [
    "translators/go2lean (Go→Lean for a small subset of Go, notes/go2lean.md, notes/go2lean-add-r.md) re-translates the index arithmetic of decoder/readbuffer.go from the current source on every run: the statement runs of readBuffer.ReadN around the io.ReadAtLeast call (remaining, the cursor of the refill, b.cur / b.last after it, b.cur += n), its two conditions, the bounds of all four slice expressions of b.buf, the minimum handed to io.ReadAtLeast, and of readBuffer.Reset the clamp of size, the grow condition, the allocated and the re-sliced length (items selected structurally: function + assigned variable, or call / sliced operand + occurrence number); the agreement theorems *_go2lean_* state that each translated piece equals the corresponding piece of Fit.ReadBuffer.RB.readN / RB.reset for all arguments; and C08_go2lean_readN_recomposed states that ReadN re-assembled from the translated pieces in the order of the Go text (Fit.Go2Lean.readNGo, hand-written glue of 25 lines in FitProps/Go2LeanReadBuffer.lean) is RB.readN for every state with cur ≤ last ≤ len ≤ cap; NOT translated (outside the subset; taken from the model in readNGo, tied by the correspondence families only): the calls copy, io.ReadAtLeast, make, cap themselves, Go's slice-bounds rule and the control flow between the pieces; trusted: the translator's rendering of the subset (go/types computes constants and types) and FitModel/GoPrelude.lean"]
