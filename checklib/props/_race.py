"""Race-detector runs of the harness (thorough tier of C14/C15): build `fitharness-race`, run a family, parse the
reports. A report = the text between 'WARNING: DATA RACE' and the closing '=================='."""
import os, re, subprocess, time


def parse_reports(stderr):
    reps = []
    for blk in re.findall(r'WARNING: DATA RACE\n(.*?)\n==================', stderr, re.S):
        # the two conflicting accesses: first frame (function + file:line) of each access stack
        accs = []
        for m in re.finditer(r'^(?:Previous )?(?:[Rr]ead|[Ww]rite) (?:at|of) .*?\n  (\S+)\(.*?\)\n\s+(\S+?):(\d+)', blk, re.M):
            accs.append((m.group(1), os.path.basename(m.group(2)), int(m.group(3)), m.group(2)))
        reps.append(dict(accesses=accs, text=blk[:1500]))
    return reps


def run_race(ctx, fam, tier='quick', extra_env=None, timeout=3000):
    """returns (ops, answers, reports, returncode) or None when the race build is impossible"""
    import framework as F
    if not F.build_harness(ctx, race=True):
        return None
    t = time.time()
    env = dict(F.GOENV, GORACE='halt_on_error=0 history_size=3', GOMEMLIMIT='8GiB')
    env.update(extra_env or {})
    p = subprocess.run([os.path.join(F.BIN, 'fitharness-race'), 'run', fam, '-tier', tier, '-seed', str(ctx.seed)],
                       stdout=subprocess.PIPE, stderr=subprocess.PIPE, text=True, timeout=timeout, env=env)
    ops, ans = [], []
    for l in p.stdout.split('\n'):
        if '\t' in l:
            a, b = l.split('\t', 1)
            ops.append(a); ans.append(b)
    ctx.timing[f'race_{fam}'] = round(time.time() - t, 2)
    return ops, ans, parse_reports(p.stderr), p.returncode
