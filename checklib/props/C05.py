from ._common import STD_TRUST
from .C12 import REGEN as _C12_REGEN

REGEN = dict(_C12_REGEN)


def _extra(ctx, spec):
    fams = ctx.cov.get('families', {})
    ex = fams.get('expand', {}).get('distribution', {})
    ctx.cov['exhaustive'] = {
        'profile fields / sub-fields that own components, each exercised (owners)': next((int(k.split('=')[1]) for k in ex if k.startswith('owners=')), 0),
        'scalar 8/16-bit containers swept over EVERY raw value through the real decoder (containers)': ex.get('exhaustive-8/16-container', 0),
        'Pull: every bit size 0..255 on fixed stores (ops)': fams.get('bits', {}).get('distribution', {}).get('every-bitsize', 0),
        'Accumulate: every width 0..255 (ops)': fams.get('accum', {}).get('distribution', {}).get('every-bits', 0),
    }


PROP = dict(
    level='proof',
    regen=['consts', 'profilearith'],
    extra=_extra,
    theorems=['Fit.C05.C05_pull_refines', 'Fit.C05.C05_pull_in_order', 'Fit.C05.C05_store_of_value', 'Fit.C05.C05_accumulate_total', 'Fit.C05.C05_rows_in_range', 'Fit.C05.C05_profile_depth',
              'Fit.C05.C05_value_exact', 'Fit.C05.C05_value_within_one', 'Fit.C05.C05_expansion_off', 'Fit.C05.C05_untouched', 'Fit.C05.C05_on_minus_expanded', 'Fit.C05.C05_F07_witness_fixed'],
    families=[dict(name='bits'), dict(name='accum'), dict(name='expand', spec=True, prop=True, shrink=False)],
    trusted_base=STD_TRUST + [
        "binary64 model (FitModel/F64.lean) tied to the hardware by the family f64 of C12",
        "Generated/ProfileArith.lean: fields, components, sub-fields and their maps of every message that owns components, printed on every run from the compiled factory",
        "the value reader of the decoder (bytes -> proto.Value) is outside this model: the family emits only wire messages that the real decoder (expansion off) reads back unchanged, and the model starts from those values",
        "decoder/bits.go is driven through the hook decoder/verif_export.go (VerifBits: makeBits, Pull, Store, SetStore); decoder.Accumulator is exported",
    ],
    assumptions=[
        "component recursion depth of the profile is below the model's fuel (8); checked against the regenerated profile",
        "float->integer conversions that the Go specification leaves to the platform (negative or out-of-range float containers, uint32(x) of a value beyond 2^32) follow amd64 in the model and are outside the theorems",
    ],
)

TEXT = dict(
    technique='Lean 4 proof: models of decoder/bits.go (32x64-bit store, Pull), decoder/accumulator.go and expandComponents/decodeFields tail (recursion, sub-field substitution, destination look-up, array append) over the regenerated profile; specification = exact rational physical value + bit slices of the containing value as one natural number; differential tie through the real decoder on crafted streams (every raw value of every 8/16-bit container, histories with wrapping counters, expansion on/off)',
    text='C05: expanded fields carry the physical value of their source bits; bit slices in order; accumulation = running total of a wrapping counter; expansion off / untouched wire fields.',
    note='Trusted: Lean kernel; profile translator; line protocol; binary64 model tied by differential testing.',
)

# --- tie by translation (translators/go2lean, notes/go2lean.md; agreement theorems in lean/FitProps/C05Go2Lean.lean).
# Kept as a separate block so that it never collides with edits of the dictionary above.
PROP['regen'] = PROP['regen'] + ['go2lean:decoderbits']
PROP['go2lean_diff'] = ['Bits', 'Accum']      # lean/Go2LeanDiff/<Topic>.lean: search for a differing argument when an agreement theorem breaks
PROP['theorems'] = PROP['theorems'] + [
    'Fit.C05.C05_go2lean_pull',
    'Fit.C05.C05_go2lean_pull_twice',
    'Fit.C05.C05_go2lean_collect',
    'Fit.C05.C05_go2lean_accumulate',
    'Fit.C05.C05_go2lean_accum_reset']
PROP['trusted_base'] = PROP['trusted_base'] + [
    "translators/go2lean (Go→Lean for a small subset of Go, notes/go2lean.md) re-translates (*bits).Pull of decoder/bits.go and (*Accumulator).Collect / Accumulate / Reset of decoder/accumulator.go (the accumulator is assumed to own its slice: no other live slice shares its backing array) from the current source on every run; the agreement theorems *_go2lean_* state that the translated functions equal the hand-written model functions for all arguments; trusted: the translator's rendering of the subset (go/types computes constants and types) and FitModel/GoPrelude.lean"]
