from ._common import STD_TRUST
from .C12 import REGEN as _C12_REGEN

REGEN = dict(_C12_REGEN)


def _extra(ctx, spec):
    fams = ctx.cov.get('families', {})
    ex = fams.get('expand', {}).get('distribution', {})
    ctx.cov['exhaustive'] = {
        'profile fields / sub-fields that own components, each exercised (owners)': next((int(k.split('=')[1]) for k in ex if k.startswith('owners=')), 0),
        'scalar 8/16-bit containers swept over EVERY raw value through the real decoder (containers)': ex.get('exhaustive-8/16-container', 0),
        'Pull: every bit size 0..255 on fixed stores (ops)': fams.get('bits', {}).get('distribution', {}).get('every-bitsize', 0),
        'Accumulate: every width 0..255 (ops)': fams.get('accum', {}).get('distribution', {}).get('every-bits', 0),
    }


PROP = dict(
    level='proof',
    regen=['consts', 'profilearith'],
    extra=_extra,
    theorems=['Fit.C05.C05_pull_refines', 'Fit.C05.C05_pull_in_order', 'Fit.C05.C05_store_of_value', 'Fit.C05.C05_running_total',
              'Fit.C05.C05_rows_in_range', 'Fit.C05.C05_rows_cover', 'Fit.C05.C05_profile_depth', 'Fit.C05.C05_profile_table', 'Fit.C05.C05_seed_exact',
              'Fit.C05.C05_value_exact', 'Fit.C05.C05_value_within_one', 'Fit.C05.C05_dest_representable', 'Fit.C05.C05_dest_types', 'Fit.C05.C05_expansion_values',
              'Fit.C05.C05_expansion_fields_partial', 'Fit.C05.C05_expansion_property_partial', 'Fit.C05.C05_KF2_witness',
              'Fit.C05.C05_expansion_off', 'Fit.C05.C05_untouched', 'Fit.C05.C05_on_minus_expanded', 'Fit.C05.C05_F07_witness_fixed'],
    families=[dict(name='bits'), dict(name='accum'), dict(name='expand', spec=True, prop=True, shrink=False)],
    trusted_base=STD_TRUST + [
        "binary64 model (FitModel/F64.lean) tied to the hardware by the family f64 of C12",
        "Generated/ProfileArith.lean: fields, components, sub-fields and their maps of every message that owns components, printed on every run from the compiled factory",
        "the value reader of the decoder (bytes -> proto.Value) is outside this model: the family emits only wire messages that the real decoder (expansion off) reads back unchanged, and the model starts from those values",
        "decoder/bits.go is driven through the hook decoder/verif_export.go (VerifBits: makeBits, Pull, Store, SetStore); decoder.Accumulator is exported",
        "shared between the specification (FitModel/ExpandSpec.lean) and the model of the code on purpose: convertU32 (the cast of the uint32 result to the destination's base type), valueAppend, toInt64? (sub-field reference values), Value.valid (C06)",
    ],
    assumptions=[
        "component recursion depth of the profile (3, C05_profile_depth) is below the fuel of model and specification (8)",
        "float->integer conversions that the Go specification leaves to the platform (negative or out-of-range float containers, uint32(x) of a value beyond 2^32 - 1) follow amd64 in the model and are outside the theorems; so are accumulated totals beyond 2^32 - 1 (the decoder's uint32 wraps)",
        "the specification is undetermined (no demand, oracle n/a) for: signed/float containers (none in the profile), a wire value of an accumulated destination that is not a whole number of the component's units (record.distance not a multiple of 0.25 m), a field of an accumulated destination not carrying the profile's accumulate flag",
        "for an array wire value of an accumulated destination the LAST element is the latest total (what Collect keeps)",
    ],
)

TEXT = dict(
    technique='Lean 4 proof: (1) a SPECIFICATION of the expansion of whole messages and histories (FitModel/ExpandSpec.lean: slices of the containing value as one natural number at the running bit offset, running totals per (message, destination) seeded by exactly converted wire values and advanced by the wrapping-counter delta, destination look-up in the regenerated profile, replace-or-append, depth-first recursion through destination components and sub-fields) written without the decoder\'s bit store, accumulator table and loops; (2) models of decoder/bits.go (32x64-bit store, Pull), decoder/accumulator.go and expandComponents / the tail of decodeFields; (3) a refinement proof that (2) computes exactly (1) for every history of messages and every arithmetic, by induction over fuel, component lists, wire positions and messages (bit store vs Nat slices, accumulator table vs running totals); (4) binary64 error analysis of the component arithmetic for every profile row and every value < 2^32 against the exact rational physical value; differential tie through the real decoder on crafted streams (every raw value of every 8/16-bit container, histories with wrapping counters, wire destinations mixed with every accumulating component, chained sequences, expansion on/off), with the specification as independent oracle',
    text='C05: for every sequence of messages outside the class of KF-C05-2 (a wire field that is the destination of an accumulating component counting in another unit: record.distance next to compressed_speed_distance), wherever the specification determines it, the model of the decoder\'s expansion returns exactly the specification\'s messages (C05_expansion_fields_partial): component k = bits [sum of earlier widths, +bits_k) of the little-endian container, first zero slice of a multi-component container stops it, accumulating components carry the running total of a wrapping counter of their width over the messages of the sequence (seeded by a wire value of the destination, C05_seed_exact / C05_running_total), value = convertU32(componentValue ...), replace-or-append at the last field with the destination number, recursion through destination components and sub-fields; the arithmetic is exact wherever the physical value is an integer in the uint32 range and within one unit otherwise, for every profile row and every slice or total < 2^32 (C05_expansion_values); expansion off = the wire messages; on = off plus flagged fields, and a wire field changes only if it is the destination of a component PRESENT in the message (C05_untouched). OPEN finding KF-C05-2: the decoder seeds the accumulator with record.distance in 1/100 m and adds 1/16 m deltas to it (641000 instead of 103400): C05_KF2_witness; the suite pins the unconverted Collect (TestDecodeFields), so it is not repaired.',
    note='Trusted: Lean kernel; profile translator; line protocol; binary64 model tied by differential testing. Partial: C05_expansion_fields_partial / C05_expansion_property_partial exclude the class of KF-C05-2 (seedsOtherUnit).',
)
