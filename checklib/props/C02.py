from ._common import STD_TRUST

PROP = dict(
    level='proof',
    regen=['crctable', 'wireconsts'],
    theorems=['Fit.C02.C02_parses', 'Fit.C02.C02_datasize', 'Fit.C02.C02_header_crc', 'Fit.C02.C02_crc_whole_sequence_partial',
              'Fit.C02.C02_legacy_crc_witness', 'Fit.C02.C02_decodes',
              'Fit.C02.C02_wellformed_mixed', 'Fit.C02.C02_wellformed'],
    families=[dict(name='encw', prop=True),
              # the destination side of 'what the encoder reports as written': operation log, final content and the real
              # CheckIntegrity verdict/count per writer kind and buffer size (shared with C09; seeded C02-5, C02-6)
              dict(name='enc-writers', prop=True)],
    trusted_base=STD_TRUST + [
        "FitModel/FitFormat.lean is the specification (an independent reading of the FIT framing); the driver evaluates it (parseStream, header CRC, file CRC over header+records, sequence count, header/CRC written back to the caller) on the bytes the REAL encoder wrote for every operation of family encw",
        "proved over the model: parseStream succeeds with one sequence per FIT value (C02_parses, via records_spec: the decoder's framing refines the spec's), data size exact, header CRC, file CRC = CRC of the whole sequence for 14-byte headers (crc_append_self), the SDK decoder accepts every successful encode (C02_decodes; like C01_wire_chain under Wire.msgsDescOK — no developer field written under a field description with an invalid base type, which the message validator guarantees: C01_e2e_validator_descs; the decoder rejects such a stream with errInvalidBaseType); the whole-stream statement through the SeqView offsets of a chain of any length: C02_wellformed (14-byte headers: FitFormat.WellFormed and one sequence per FIT value) and C02_wellformed_mixed (14- and 12-byte headers mixed: header CRC / file CRC over the whole sequence exactly for the 14-byte sequences, records-only file CRC for the 12-byte ones)",
    ],
    assumptions=["inputs satisfy FitOK (what validation lets through; C10)", "14-byte headers for the whole-sequence CRC (12-byte: KF-C02-legacy-crc)",
                 "C02_wellformed*: the output is a byte stream (C02_ByteOK: protocol version < 256, record bytes < 256) - true by type in the code ([]byte), a hypothesis over the model's Nat bytes; E2E.encodeMsgs_bytes derives it from the typing of validated messages"],
)

TEXT = dict(
    technique='Lean 4 proof over the wire-level encoder model (data size, header CRC, whole-sequence CRC via the CRC residue lemma, acceptance by the decoder model) + the independent framing spec FitFormat evaluated by the Lean driver on the real encoder output',
    text='For every message list and option combination the model encoder writes a header whose data size is the exact record byte count, a correct header CRC and — for 14-byte headers — a file CRC equal to the CRC-16 of every preceding byte of the sequence; the decoder model accepts the result with checksums on (one sequence per FIT value). On the implementation the same is evaluated directly: the bytes written by the real encoder (4 writer kinds × 10 buffer sizes × chained files) must parse under the independent spec with correct CRCs and match the header/CRC stored back into the caller. 12-byte headers store a records-only CRC (known finding). C02_wellformed: for chains of any length with 14-byte headers, encodeChain is WellFormed under FitFormat (parses with nothing between or after sequences; headerCrcOk and fileCrcOk hold for every sequence view, evaluated on the whole stream through the view offsets) with seqs.length = fits.length; C02_wellformed_mixed: the same per sequence for mixed chains - headerCrcStrict/headerCrcOk always, fileCrcOk exactly for the sequences with a 14-byte header, and for a 12-byte header: no header CRC and stored file CRC = CRC-16 of the records only (what the code does; KF-C02-legacy-crc).',
    note='Trusted: Lean kernel, FitFormat spec as written, harness/driver. The whole-stream statement is proved through the SeqView offsets of a chain (C02_wellformed, C02_wellformed_mixed; bookkeeping lemmas FitProps/C02ChainLemmas.lean). C02_wellformed_full (no restriction on the header size) stays a def: it is refuted for 12-byte headers by C02_legacy_crc_witness (open finding KF-C02-legacy-crc).',
)

# --- tie by translation (translators/go2lean, notes/go2lean.md + notes/go2lean-add-p.md; agreement theorems in
# lean/FitProps/Go2LeanProtoMarshal.lean / Go2LeanEncoderMesgDef.lean, restated in lean/FitProps/C02Go2Lean.lean). A block of its own.
PROP['regen'] = PROP['regen'] + ['go2lean:protomarshal', 'go2lean:encodermesgdef']
PROP['go2lean_diff'] = PROP.get('go2lean_diff', []) + ['ProtoMarshal']
PROP['theorems'] = PROP['theorems'] + [
    'Fit.C02.C02_go2lean_def_wire',
    'Fit.C02.C02_go2lean_enc_def_wire',
    'Fit.C02.C02_go2lean_def_length']
PROP['trusted_base'] = PROP['trusted_base'] + [
    "translators/go2lean (Go→Lean for a small subset of Go, notes/go2lean.md) re-translates proto/proto_marshal.go MessageDefinition.MarshalAppend (the whole function) and the statements of encoder.newMessageDefinition that set header / reserved / architecture / message number / developer-data flag from the current source on every run (units protomarshal, encodermesgdef); C02_go2lean_* state that for every message, byte order and buffer the translated code appends exactly Fit.Wire.defBytes (the definition records of the model C02's theorems are about) and that a definition record has 6 + 3·fields (+ 1 + 3·developer fields) bytes; trusted: the translator's rendering of the subset incl. binary.*.AppendUint16 as Go.le16 / Go.be16 (go/types computes constants and types) and FitModel/GoPrelude.lean; the loops of newMessageDefinition over proto.Value are outside the subset (tied by the correspondence families)"]
