import os
from ._common import STD_TRUST
from . import C17 as _c17


def _regen_mesgdef(ctx):
    """per-message tables of the typed layer by reflection + probing of the compiled mesgdef package"""
    import framework as F
    if not _c17._regen_registry(ctx):
        return False
    rc, out = F.sh([os.path.join(F.BIN, 'fitharness'), 'regen', 'mesgdef', os.path.join(F.LEAN, 'FitModel', 'Generated', 'Mesgdef.lean')], env=F.GOENV)
    if rc != 0:
        ctx.fail('tool', 'translator mesgdef: the compiled typed layer cannot be described by a table: ' + out.strip()[-400:], detail=out[-2000:])
        return False
    return True


def _regen_profiletables_c13(ctx):
    """the factory dump the driver answers CreateField from (shared with C17)"""
    import framework as F
    return F.harness_regen(ctx, 'profiletables', 'ProfileTables.lean')


REGEN = {'mesgdef': _regen_mesgdef, 'profiletables13': _regen_profiletables_c13}

PROP = dict(
    level='proof',
    regen=['mesgdef', 'profiletables13'],
    theorems=['Fit.C13.C13_tables_wf', 'Fit.C13.C13_tables_expressible', 'Fit.C13.C13_tables_match_factory', 'Fit.C13.C13_std_factory_ok', 'Fit.C13.C13_zero_time',
              'Fit.C13.C13_mesg_struct_mesg', 'Fit.C13.C13_struct_mesg_struct', 'Fit.C13.C13_no_panic', 'Fit.C13.C13_unknown_kept',
              'Fit.C13.C13_nil_fieldbase_panics', 'Fit.C13.C13_slot_read_emit', 'Fit.C13.C13_all_messages', 'Fit.C13.C13_mark_as_expanded', 'Fit.C13.C13_spec_valid_is_protocol_valid',
              'Fit.C13.C13_normal_idempotent', 'Fit.C13.C13_normal_is_fixed_point', 'Fit.C13.C13_spec_valid_fixed_arrays',
              'Fit.C13.C13_mesg_struct_mesg_partial', 'Fit.C13.C13_KF_witnesses', 'Fit.C13.C13_full_is_false',
              'Fit.C13.C13_struct_mesg_struct_norm', 'Fit.C13.C13_struct_mesg_struct_partial', 'Fit.C13.C13_inRange_iff', 'Fit.C13.C13_normDoc_fixes',
              'Fit.C13.C13_struct_class_witnesses', 'Fit.C13.C13_struct_full_is_false', 'Fit.C13.C13_dev_fields_kept', 'Fit.C13.C13_KF3_fixed_witness'],
    families=[dict(name='typed', spec=True, prop=True)],
    trusted_base=STD_TRUST + [
        "fitharness regen mesgdef: the per-message tables (slot kinds, accepted value type, read/emit field number, default, sentinel, emission order, guard, expanded-bitmap bound, eligible numbers) are obtained from the COMPILED code by reflection over the structs and by probing Reset/ToMesg/MarkAsExpandedField/IsExpandedField with one field per number 0..255 x 24 value types and candidate contents per slot; a behaviour the table cannot express fails the translator",
        "translators/registry.py lists every mesgdef.NewXxx by its declaration signature",
        "family typed: structs are built/read by reflection (unsafe only to move float32 bit patterns without quieting NaNs)",
    ],
    assumptions=["time.Time slots: whole seconds (the property's own restriction; the model's struct has no sub-second part — measured on the code: uint32(t.Sub(epoch).Seconds()) is a float64 sum truncated, i.e. the floor for small values and the NEXT second e.g. for epoch + 2^24 s + 0.999999999 s)",
                 "times from epoch + 0xFFFFFFFF s on (class hasTimeBeyond, outside the quantifier): the model follows what amd64 does with uint32(float64) (Go leaves an out-of-range conversion implementation-defined) and the saturation of time.Duration; the family checks it up to epoch + 2^40 s",
                 "a proto.Value built from a nil Go slice has no syntax in the line protocol; the op typednils hands every empty array of its message to the code as a nil slice, and the model reads it as the invalid value (what the accessors return)"],
)

TEXT = dict(
    technique='Lean 4 proof of generic round-trip / no-panic theorems for ONE table-driven model of the mesgdef template, for every table satisfying a decidable well-formedness predicate; the predicate is kernel-checked on the 119 tables regenerated from the compiled code by reflection and probing; differential tie through the real NewXxx/ToMesg of every message type',
    text=('Proved once for every table satisfying MesgTable.wf (wf, coverage of the factory, fitness of the standard factory kernel-checked on the 119 tables regenerated from the compiled code), for all messages / structs / factories / options. '
          'MESSAGE -> STRUCT -> MESSAGE: C13_mesg_struct_mesg (NewXxx(&m).ToMesg(o) = typedNormal m: last occurrence of each known field, kept iff its value has the field\'s type and is not the base type\'s invalid, fixed arrays padded/cut, expanded marks on eligible numbers, unknown fields unchanged and in order), C13_dev_fields_kept (developer fields unchanged for EVERY message type — since /repo 72c2963, the repair of KF-C13-3 which this check reported: the structs of file_id / developer_data_id / field_description had no DeveloperFields), C13_no_panic (any numbers, any value types; only a nil FieldBase panics). Against typedNormalFull, the normal form the property demands, the code is exact outside two classes (C13_mesg_struct_mesg_partial) and not inside them — a named field whose number the message lacks is dropped (KF-C13-1, open), the expanded mark of a non-component-target field is not kept (KF-C13-2, open): C13_KF_witnesses, C13_full_is_false. '
          'STRUCT -> MESSAGE -> STRUCT: C13_struct_mesg_struct_norm states what comes back for EVERY Go-typed struct whose UnknownFields are unknown to the message type (normStruct). Every class on which that is not the struct itself is a named decidable predicate, decided by running the real code: three are the typed layer\'s documented normalisation (normDoc) — hasBoolOther (a typedef.Bool other than 0/1/255 comes back 255: typedef/bool.go "other value should be treated as invalid"), hasPreEpoch (a time before the FIT epoch comes back time.Time{}: datetime.ToUint32 = invalid), hasMarkOnInvalid (the expanded mark of a slot whose content is invalid, hence not emitted, is gone); two are outside the property\'s quantifier — hasTimeBeyond (a time from epoch + 0xFFFFFFFF s on: not a FIT date_time; comes back time.Time{} resp. modulo 2^32 on amd64), not unknownsOk (UnknownFields holding a field the message type defines, or one without FieldBase); one is a defect — hasStrayBit (a mark on a non-eligible number, which only Reset sets: struct-level face of KF-C13-2). C13_struct_mesg_struct_partial: outside exactly the non-normalising classes the struct comes back as normDoc; C13_struct_mesg_struct: the identity on inRange = none of the classes (C13_inRange_iff); C13_struct_class_witnesses: every class is inhabited and what comes back in each; C13_struct_full_is_false. Sub-second times are outside the property by its own words and outside the model\'s struct. '
          'Also: typedNormal is idempotent and its values are fixed points (C13_normal_idempotent, C13_normal_is_fixed_point); fixed-length arrays are kept exactly when Value.Valid holds of the part that fits (C13_spec_valid_fixed_arrays); MarkAsExpandedField (C13_mark_as_expanded). '
          'The family typed runs the real NewXxx/ToMesg of every message type (every slot valid/invalid/boundary x marked, every other value type, field numbers 0..255 named and unknown, random messages with duplicates / unknown / developer fields under 9 option/factory settings, messages at and beyond the 156-field scratch pool for every type, Reset of a used struct with bare messages, nil-slice arrays, reflection-built structs inside and outside inRange incl. Bool bytes 2..254, pre-epoch and far-future times, marks on invalid slots, structs as Reset builds them from marked fields) against the model, against typedNormalFull / normDoc (--spec) and against "no invalid-valued known field is emitted" (--prop).'),
    note='Trusted: Lean kernel; the probing translator (reflection + probing of the compiled mesgdef package) and the factory dump; harness/driver protocol. Formalisation choices (typedNormal = the code, typedNormalFull / normDoc = the property, the class table) are stated in FitProps/C13.lean and FitModel/Typed.lean; decisions per class with the measured behaviour: notes/model-notes-C13-C17.md.',
)
