import os
from ._common import STD_TRUST
from . import C17 as _c17


def _regen_mesgdef(ctx):
    """per-message tables of the typed layer by reflection + probing of the compiled mesgdef package"""
    import framework as F
    return _c17._regen_registry(ctx) and F.harness_regen(ctx, 'mesgdef', 'Mesgdef.lean')


def _regen_profiletables_c13(ctx):
    """the factory dump the driver answers CreateField from (shared with C17)"""
    import framework as F
    return F.harness_regen(ctx, 'profiletables', 'ProfileTables.lean')


REGEN = {'mesgdef': _regen_mesgdef, 'profiletables13': _regen_profiletables_c13}

PROP = dict(
    level='proof',
    regen=['mesgdef', 'profiletables13'],
    theorems=['Fit.C13.C13_tables_wf', 'Fit.C13.C13_zero_time'],
    families=[dict(name='typed', spec=True)],
    trusted_base=STD_TRUST + [
        "fitharness regen mesgdef: the per-message tables (slot kinds, accepted value type, read/emit field number, default, sentinel, emission order, guard, expanded-bitmap bound, eligible numbers) are obtained from the COMPILED code by reflection over the structs and by probing Reset/ToMesg/MarkAsExpandedField/IsExpandedField with one field per number 0..255 x 24 value types and candidate contents per slot; a behaviour the table cannot express fails the translator",
        "translators/registry.py lists every mesgdef.NewXxx by its declaration signature",
        "family typed: structs are built/read by reflection (unsafe only to move float32 bit patterns without quieting NaNs)",
    ],
    assumptions=["time.Time slots: whole seconds (the property's restriction); uint32(float64) of an out-of-range duration is platform-defined and outside InRange",
                 "a proto.Value built from a nil Go slice is not expressible in the line protocol (it reads as nil, like a value of another type)"],
)

TEXT = dict(
    technique='Lean 4 proof of generic round-trip / no-panic theorems for ONE table-driven model of the mesgdef template, for every table satisfying a decidable well-formedness predicate; the predicate is kernel-checked on the 119 tables regenerated from the compiled code by reflection and probing; differential tie through the real NewXxx/ToMesg of every message type',
    text='(filled in below once the generic theorems are in)',
    note='Trusted: Lean kernel; the probing translator; harness/driver protocol.',
)
