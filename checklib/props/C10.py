from ._common import STD_TRUST
from .C06 import REGEN as _C06_REGEN

REGEN = dict(_C06_REGEN)

PROP = dict(
    level='proof',
    regen=['consts'],
    theorems=['Fit.C10.C10_validate_iff_spec', 'Fit.C10.C10_validate_filter', 'Fit.C10.C10_post', 'Fit.C10.C10_post_v1', 'Fit.C10.C10_def_sizes_are_bytes', 'Fit.C10.C10_reject', 'Fit.C10.C10_reject_batch', 'Fit.C10.C10_gate_no_panic', 'Fit.C10.C10_accept_batch', 'Fit.C10.C10_idempotent_partial', 'Fit.C10.C10_idempotent_full_fails_rescale'],
    families=[dict(name='validate', prop=True), dict(name='proto-validate', prop=True)],
    trusted_base=STD_TRUST + [
        "scaleoffset.DiscardValue on float64-typed values (binary64 arithmetic + conversion, C12) is a parameter of the model; the driver instantiates it with the results of the real function carried in each operation line (dv: table)",
        "what Factory.CreateField returns for native-field overrides is carried in the operation line (fac: table) and checked against the standard factory by the harness",
        "the in-place swap compaction of Validate is modelled by its effect (the kept fields in order) and tied by correspondence (0..300 fields x keep patterns)",
        "error kinds of package encoder are unexported sentinels: the harness classifies them by the sentinel text",
    ],
    assumptions=["values are well-formed proto.Values (Value.wf)"],
)

TEXT = dict(
    technique='Lean 4 proof: model of encoder.messageValidator.Validate, proto.Validator and the order in which the encoder calls them; the loops are proved equal to a declarative specification (filter keep / map restore + writability conditions); differential tie on generated message sequences incl. the real Encoder / StreamEncoder gates',
    text='C10: accepted messages satisfy the protocol limits, unwritable ones are rejected, validation = filter/map, idempotence (partial), definition sizes are bytes; no panic for any message (nil FieldBase under protocol 1.0, F11, was reported by this check and is repaired in /repo: fixed entry KF-C10-1); an accepted message is never empty (a message of which no field and no developer field survives was accepted as the empty message; reported by this check and repaired in /repo: fixed entry KF-C10-3).',
    note='Trusted: Lean kernel; consts translator; line protocol; DiscardValue arithmetic and factory look-ups are inputs of the model (carried in the line, produced by the real code).',
)

# --- tie by translation (translators/go2lean, notes/go2lean.md; agreement theorems in lean/FitProps/C10Go2Lean.lean).
# Kept as a separate block so that it never collides with edits of the dictionary above.
PROP['regen'] = PROP['regen'] + ['go2lean:basetype', 'go2lean:proto']
PROP['go2lean_diff'] = ['Basetype', 'Proto']      # lean/Go2LeanDiff/<Topic>.lean: search for a differing argument when an agreement theorem breaks
PROP['theorems'] = PROP['theorems'] + [
    'Fit.C10.C10_go2lean_size',
    'Fit.C10.C10_go2lean_valid',
    'Fit.C10.C10_go2lean_validator',
    'Fit.C10.C10_go2lean_version']
PROP['trusted_base'] = PROP['trusted_base'] + [
    "translators/go2lean (Go→Lean for a small subset of Go, notes/go2lean.md) re-translates BaseType.Size / Valid, the conditions of proto.Validator (proto/validator.go) and proto.Version (proto/version.go) from the current source on every run; the agreement theorems *_go2lean_* state that the translated functions equal the hand-written model functions for all arguments; trusted: the translator's rendering of the subset (go/types computes constants and types) and FitModel/GoPrelude.lean"]
