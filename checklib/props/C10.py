from ._common import STD_TRUST
from .C06 import REGEN as _C06_REGEN
from .C12 import REGEN as _C12_REGEN


def _regen_validatorfac(ctx):
    """Generated/ValidatorFactory.lean: every field of factory.StandardFactory() of the compiled repository
    (name known, base type, scale, offset) — the table the model resolves native-field overrides through."""
    import framework as F
    return F.harness_regen(ctx, 'validatorfac', 'ValidatorFactory.lean')


REGEN = dict(_C06_REGEN)
REGEN.update(_C12_REGEN)
REGEN['validatorfac'] = _regen_validatorfac


def _extra(ctx, spec):
    d = ctx.cov.get('families', {}).get('validate', {}).get('distribution', {})
    ctx.cov['extra'] = {
        'what': 'arithmetic inside the model (lines that carry no result of the real code: dv:=, fac:s/=)',
        'lines': d.get('arith-inside', 0),
        'of which: physical values that are exact images of raw values (every scaled field of the standard factory)': d.get('arith-exact-image', 0),
        'values next to a rounding boundary k+1/2': d.get('arith-near-half', 0),
        'values outside the range of the base type / wild floats': d.get('arith-out-of-range', 0),
        'hand-made fields: every base type x pairs inside and outside the range of C12': d.get('arith-handmade', 0),
        'developer fields, native override resolved through the regenerated factory': d.get('arith-native', 0),
        "developer fields, the description's own scale / offset": d.get('arith-description', 0),
        'custom factory': d.get('arith-custom-factory', 0),
        'lines with a platform-defined float -> integer conversion (model reproduces amd64; excluded by the guards of the theorems)': d.get('arith-inside-platform-defined', 0),
        'lines kept OUTSIDE (a NaN restored into a float32/float64 base type: payloads are not modelled)': d.get('arith-outside-nan-payload', 0),
    }

PROP = dict(
    level='proof',
    regen=['consts', 'profilearith', 'validatorfac'],
    extra=_extra,
    theorems=['Fit.C10.C10_validate_iff_spec', 'Fit.C10.C10_validate_filter', 'Fit.C10.C10_post', 'Fit.C10.C10_post_v1', 'Fit.C10.C10_def_sizes_are_bytes', 'Fit.C10.C10_reject', 'Fit.C10.C10_reject_batch', 'Fit.C10.C10_gate_no_panic', 'Fit.C10.C10_accept_batch', 'Fit.C10.C10_idempotent_partial', 'Fit.C10.C10_idempotent_full_fails_rescale',
              'Fit.C10.C10_reject_too_many_fields', 'Fit.C10.C10_reject_bad_value', 'Fit.C10.C10_reject_unbacked_dev', 'Fit.C10.C10_reject_too_many_dev_fields',
              'Fit.C10.C10_reject_bad_dev_value', 'Fit.C10.C10_reject_nothing_left', 'Fit.C10.C10_reject_v1', 'Fit.C10.C10_idempotent_not_f64',
              'Fit.C10.C10_idempotent_no_float64_base', 'Fit.C10.C10_batch_no_panic', 'Fit.C10.C10_accept_batch_all', 'Fit.C10.C10_select_version',
              'Fit.C10.C10_std_factory_in_range', 'Fit.C10.C10_validate_filter_arith', 'Fit.C10.C10_restore_exact', 'Fit.C10.C10_physical_eq_raw',
              'Fit.C10.C10_restore_exact_native', 'Fit.C10.C10_restore_exact_desc', 'Fit.C10.C10_rescale_witness_arith'],
    families=[dict(name='validate', prop=True), dict(name='proto-validate', prop=True)],
    trusted_base=STD_TRUST + [
        "several sequences through ONE real Encoder (one Encode per sequence: a chain) / StreamEncoder (SequenceCompleted between them) and Encoder.Reset / StreamEncoder.Reset with the same validator object: gate lines with the separators seq / reset; the model answers every sequence from a fresh validator state (gateBatch from {}, gateStream from {} after a separator) — that the encoder's reset() gives the validator back fresh is thereby tied, not modelled",
        "scaleoffset.DiscardValue on float64-typed values (binary64 arithmetic + conversion) is a parameter D of the validator model; the theorems of FitProps/C10.lean hold for every D (those with the arithmetic inside are in FitProps/C10Arith.lean). Every operation line that involves that arithmetic or a factory look-up runs TWICE: once with the results of the real function carried in the line (dv: / fac: tables, as before) and once with the arithmetic INSIDE the model (dv:= -> Fit.ValidatorA.D = Fit.ScaleOffset.discardValue over the binary64 model Fit.F64, the definitions of C12's theorems; fac:s/= -> Fit.ValidatorA.stdFactory, read from Generated/ValidatorFactory.lean): such a line carries the messages and the options only",
        "Generated/ValidatorFactory.lean (every field of factory.StandardFactory(): name known, base type, scale, offset) is printed on every run by `fitharness regen validatorfac` from the compiled packages; Generated/ProfileArith.lean by C12's translator. A custom factory (encoder.ValidatorWithFactory) is an option of the validator: its table is an input of the line in both modes",
        "F64 models NaN as one canonical quiet NaN: a line that restores a NaN into a float32/float64 base type (payload decides Valid()) stays in carried mode only (counted: arith-outside-nan-payload); float -> integer conversion of NaN / ±Inf / out-of-range values is platform-defined in Go: the model reproduces amd64 on such lines (counted: arith-inside-platform-defined) and the theorems about exact results prove their domain free of them",
        "the in-place swap compaction of Validate is modelled by its effect (the kept fields in order) and tied by correspondence (0..300 fields x keep patterns)",
        "error kinds of package encoder are unexported sentinels: the harness classifies them by the sentinel text",
    ],
    assumptions=["values are well-formed proto.Values (Value.wf)",
                 "C10_restore_exact / C10_physical_eq_raw / C10_restore_exact_native / C10_restore_exact_desc (explicit hypotheses, all decidable): integer base type of at most 32 bits (binary64 cannot carry every int64), (scale, offset) in C12's range InRangePair (unit pair, or positive normal scale in [1/2, 2^17) with |offset| < 2^10 — proved for every field of the regenerated standard factory and for every uint8 scale 1..254 / int8 offset of a field description), raw value fits its type; scales / offsets are float64 bit patterns (< 2^64)"],
)

TEXT = dict(
    technique='Lean 4 proof: model of encoder.messageValidator.Validate, proto.Validator and the order in which the encoder calls them; the loops are proved equal to a declarative specification (filter keep / map restore + writability conditions); differential tie on generated message sequences incl. the real Encoder / StreamEncoder gates',
    text='C10: accepted messages satisfy the protocol limits, unwritable ones are rejected — limit by limit (C10_reject_too_many_fields: more than 255 kept fields; C10_reject_bad_value: a kept value misaligned with its base type / not valid UTF-8 / longer than 255 bytes; C10_reject_unbacked_dev: developer data index not announced or (index, number) not described; C10_reject_too_many_dev_fields; C10_reject_bad_dev_value; C10_reject_nothing_left; C10_reject_v1: developer fields or a base type after byte under protocol 1.0) and completely (C10_accept_batch / C10_accept_batch_all: everything writable passes, stream and batch gate; C10_batch_no_panic; C10_select_version: which version the gate validates under) —, validation = filter/map (besides expanded and invalid-valued fields it removes fields WITHOUT a FieldBase: such a field cannot be written at all — no number, no base type — and the message validator skips it silently; under protocol 1.0 it used to panic, KF-C10-1), idempotence (partial; syntactic forms C10_idempotent_not_f64: no float64-typed value in the accepted message, C10_idempotent_no_float64_base: no float64 base type in the message and the known descriptions), definition sizes are bytes. The theorems end at the gate\'s return value: that nothing of a rejected message is written rests on the order of calls in encoder.go / stream.go (gate before encodeMessage; a StreamEncoder has written the file header by then), tied by the ops encgate / streamgate which observe the bytes. The property is about the library\'s own validators: an encoder built with a custom encoder.WithMessageValidator is outside it; no panic for any message (nil FieldBase under protocol 1.0, F11, was reported by this check and is repaired in /repo: fixed entry KF-C10-1); an accepted message is never empty (a message of which no field and no developer field survives was accepted as the empty message; reported by this check and repaired in /repo: fixed entry KF-C10-3). WITH THE ARITHMETIC INSIDE (Fit.ValidatorA: D = the model of scaleoffset.DiscardValue over binary64, factory = the regenerated standard factory; composed from C12): C10_std_factory_in_range — every field the standard factory knows carries the unit pair or a pair meeting C12\'s side condition on an integer base type of at most 32 bits; C10_validate_filter_arith — C10_validate_filter with "restored" a definite function of the field (ScaleOffset.validatorRestore, the function C12_validator is about); C10_restore_exact — in any accepted message a field holding what ApplyValue makes of a raw value p (its float64 physical value) comes out holding exactly p under its base type, for every pair in range, and no conversion on the way is platform-defined; C10_physical_eq_raw — Validate on a message in physical units returns exactly what it returns on the same message in raw units (verdict, message, state); C10_restore_exact_native — developer field with a native-field override: scale and offset looked up in the regenerated factory, no hypothesis on the pair; C10_restore_exact_desc — the description\'s own uint8 scale 1..254 and int8 offset, all in range; C10_rescale_witness_arith — KF-C10-2 for the real arithmetic ((1.5+0)*2 = 3, (3+0)*2 = 6 evaluated in the binary64 model).',
    note='Trusted: Lean kernel; the consts / profilearith / validatorfac translators; line protocol; the binary64 model Fit.F64 (tied by C12\'s family f64 and, through the validator, by the inside-mode lines of family validate). DiscardValue arithmetic and standard-factory look-ups are computed by the model on the inside-mode lines (the carried-mode lines remain as a second, independent tie); NaN payloads are outside the F64 model.',
)

# --- tie by translation (translators/go2lean, notes/go2lean.md; agreement theorems in lean/FitProps/C10Go2Lean.lean).
# Kept as a separate block so that it never collides with edits of the dictionary above.
PROP['regen'] = PROP['regen'] + ['go2lean:basetype', 'go2lean:proto']
PROP['go2lean_diff'] = ['Basetype', 'Proto']      # lean/Go2LeanDiff/<Topic>.lean: search for a differing argument when an agreement theorem breaks
PROP['theorems'] = PROP['theorems'] + [
    'Fit.C10.C10_go2lean_size',
    'Fit.C10.C10_go2lean_valid',
    'Fit.C10.C10_go2lean_validator',
    'Fit.C10.C10_go2lean_version']
PROP['trusted_base'] = PROP['trusted_base'] + [
    "translators/go2lean (Go→Lean for a small subset of Go, notes/go2lean.md) re-translates BaseType.Size / Valid, the conditions of proto.Validator (proto/validator.go) and proto.Version (proto/version.go) from the current source on every run; the agreement theorems *_go2lean_* state that the translated functions equal the hand-written model functions for all arguments; trusted: the translator's rendering of the subset (go/types computes constants and types) and FitModel/GoPrelude.lean"]
