from ._common import STD_TRUST
from ._links import with_links


def _regen_wireconsts(ctx):
    from framework import harness_regen
    return harness_regen(ctx, 'wireconsts', 'WireConsts.lean')


REGEN = {'wireconsts': _regen_wireconsts}

PROP = dict(
    level='proof',
    regen=['crctable', 'wireconsts'],
    theorems=['Fit.C01.C01_wire_records', 'Fit.C01.C01_wire_sequence', 'Fit.C01.C01_wire_chain',
              'Fit.C01.C01_ts_nonmonotone_roundtrip', 'Fit.C01.C01_ts_wild_roundtrip', 'Fit.C01.C01_fix_conservative'],
    families=[dict(name='encw'), dict(name='decw'), dict(name='rtw', prop=True)],
    # link of the wire model (A) with the reader-client model (D): the full link is FALSE (Link_wire_full_false, notes/links.md D1);
    # proved wherever (D) does not report an invalid base type; the cross-check compares the two models on every decw line
    # (additive: checklib/props/_links.py)
    extra=with_links(None, ['Fit.Links.Link_wire_full_false', 'Fit.Links.Link_wire_eq_decprog_partial',
                            'Fit.Links.Link_C01_chain_decprog', 'Fit.Links.Link_C01_chain_api'], crosscheck=[('decw', 'linkwire')]),
    trusted_base=STD_TRUST + [
        "wire-level model FitModel/Wire.lean (encoder framing, LRU, compressed timestamps, header/CRC, chained files; decoder framing and timestamp tracking) is hand-written and tied by the families encw (real encoder, pass-through validator, 4 writer kinds, 10 buffer sizes), decw (real decoder on fixtures, encoder outputs and mutants, listener events) and rtw (real encode→decode with the round-trip predicate evaluated by the Lean driver)",
        "a field value is its marshalled byte string at this level; unmarshal∘marshal is C06, validation is C10",
        "constants (masks, DateTimeMin, profile version, valid base types, messages whose field 253 the factory knows) are regenerated from the compiled repository on every run (Generated/WireConsts.lean)",
    ],
    assumptions=["inputs to the theorems satisfy MsgOK/FitOK (typing only: counts and sizes fit a byte, valid base types, field data are bytes, the record bytes fit the 32-bit data size; established by C10) — no hypothesis on timestamps any more (KF-C01-ts is fixed in /repo)"],
)

TEXT = dict(
    technique='Lean 4 proof: simulation invariant between the encoder LRU and the decoder definition table + timestamp invariant (LastInv, kept by both sides over every field 253 of every record: track_sim), induction over messages and over chained files; model tied by three differential families; property predicate evaluated on the real encode→decode output',
    text='C01_wire_records / C01_wire_sequence / C01_wire_chain: for every message list, byte order, header option, 1..16 local message types (every LRU eviction pattern), 12/14-byte headers, with or without checksum, single and chained files, whatever factory the decoder has, decoding what the encoder wrote returns the same message numbers in order with the same fields, developer fields and (for compressed-timestamp records) the original full timestamp — for ALL timestamp histories: going backwards inside or beyond the 32 s window, repeated, invalid, below DateTimeMin, several fields 253 in a message, fields 253 of any type and size (invariant: the encoder\'s lastTimestamp is 0 = "cannot tell" or exactly the decoder\'s active timestamp; a timestamp is compressed only within 32 s of both the roll-over reference and that last timestamp). The value layer (unmarshal∘marshal) is C06; the validated form of a message is C10. History: the pinned tree violated this for non-monotonic / invalid / duplicated / oddly typed timestamps (finding KF-C01-ts, found by this check, fixed in /repo by 1fdeae5); C01_ts_nonmonotone_roundtrip evaluates the former witness (t, t+20, t+5 came back as t, t+20, t+37) in the kernel, C01_ts_wild_roundtrip a history with all the oddities; C01_fix_conservative: on valid, unique, non-decreasing timestamps the repaired encoder model writes byte for byte what the pinned tree\'s encoder model wrote.',
    note='Trusted: Lean kernel; the hand-written wire model (tied, not verified, by encw/decw/rtw on the real packages); harness and driver parsers. Writer kind/buffering enter through C09; value interpretation by the decoder (profile look-ups, fallbacks) through the dec family once the value model is merged.',
)
