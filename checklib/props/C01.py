from ._common import STD_TRUST
from .C06 import REGEN as _C06_REGEN
from .C03 import REGEN as _C03_REGEN
from ._links import with_links


def _regen_wireconsts(ctx):
    from framework import harness_regen
    return harness_regen(ctx, 'wireconsts', 'WireConsts.lean')


REGEN = dict(_C06_REGEN)
REGEN.update(_C03_REGEN)
REGEN['wireconsts'] = _regen_wireconsts

PROP = dict(
    level='proof',
    regen=['crctable', 'wireconsts', 'consts', 'integconsts', 'decapiconsts', 'decapistdfac'],
    theorems=['Fit.C01.C01_wire_records', 'Fit.C01.C01_wire_sequence', 'Fit.C01.C01_wire_chain',
              'Fit.C01.C01_ts_nonmonotone_roundtrip', 'Fit.C01.C01_ts_wild_roundtrip', 'Fit.C01.C01_fix_conservative',
              # end to end (FitProps/C01E2E.lean): values, the real validator, the decoder-API model
              'Fit.C01.C01_e2e_actual', 'Fit.C01.C01_e2e_roundtrip_partial', 'Fit.C01.C01_e2e_reencode_partial', 'Fit.C01.C01_e2e_full_fails_arr',
              'Fit.C01.C01_e2e_full_fails_zero', 'Fit.C01.C01_e2e_full_fails_fffd', 'Fit.C01.C01_e2e_reencode_boolarr_roundtrip',
              'Fit.C01.C01_e2e_value_independent_of_byte_order'],
    families=[dict(name='encw'), dict(name='decw'), dict(name='rtw', prop=True), dict(name='rte2e', prop=True)],
    # link of the wire model (A) with the reader-client model (D): the full link is FALSE (Link_wire_full_false, notes/links.md D1);
    # proved wherever (D) does not report an invalid base type; the cross-check compares the two models on every decw line
    # (additive: checklib/props/_links.py)
    extra=with_links(None, ['Fit.Links.Link_wire_full_false', 'Fit.Links.Link_wire_eq_decprog_partial',
                            'Fit.Links.Link_C01_chain_decprog', 'Fit.Links.Link_C01_chain_api'], crosscheck=[('decw', 'linkwire')]),
    trusted_base=STD_TRUST + [
        "wire-level model FitModel/Wire.lean (encoder framing, LRU, compressed timestamps, header/CRC, chained files; decoder framing and timestamp tracking) is hand-written and tied by the families encw (real encoder, pass-through validator, 4 writer kinds, 10 buffer sizes), decw (real decoder on fixtures, encoder outputs and mutants, listener events) and rtw (real encode→decode with the round-trip predicate evaluated by the Lean driver)",
        "a field value is its marshalled byte string at this level; unmarshal∘marshal is C06, validation is C10",
        "constants (masks, DateTimeMin, profile version, valid base types, messages whose field 253 the factory knows) are regenerated from the compiled repository on every run (Generated/WireConsts.lean)",
        "end to end (C01_e2e_*): FitModel/EndToEnd.lean composes the models of C10 (Validator.gateBatch), C06 (Value.marshal), the wire encoder above and the decoder-API model of C03/C07 (DecoderApi: field decoding, developer fields, timestamps) — each tied by its own families; the composition itself is tied by family rte2e (REAL encoder.New with the REAL message validator — default, preserve-invalid, custom factory — on typed messages of the whole standard profile, unknown messages/fields, developer fields incl. the same (index, number) described twice, strings, boundary/invalid/array values, all header options / byte orders / local message types / protocol versions, chains of 1..3 files; REAL decoder.New(...).Next/Decode with checksum on/off, expansion off/on, standard or table factory; then the decoded messages through a second REAL encode/decode: observable re=)",
        "scaleoffset.DiscardValue on float64-typed values and Factory.CreateField for native-field overrides are carried in the operation line as in C10; the decoder's standard factory is the regenerated table of C03 (base type / array / bool / accumulate flags; lines whose fields have components run with expansion off)",
    ],
    assumptions=["C01_e2e_*: typing only (Fit.E2E.inDomain / CfgOK / PlainOpts, all decidable and evaluated by the driver; lines outside answer n/a): the messages are built from the decoder's factory (a field the factory knows carries the factory's base type / bool / array flags and a known name, any other field an unknown name), values are well-formed proto.Values, field / developer numbers are bytes, the members of a field_description message that key developer fields hold plain uint8 scalars, the factory reads field 253 as a plain uint32 wherever it knows it, header members fit their fields, the stream is below 4 GiB; decoder with component expansion off and no listeners (expansion on is tied by rte2e and belongs to C05)",
                 "inputs to the theorems satisfy MsgOK/FitOK (typing only: counts and sizes fit a byte, valid base types, field data are bytes, the record bytes fit the 32-bit data size; established by C10) — no hypothesis on timestamps any more (KF-C01-ts is fixed in /repo)"],
)

TEXT = dict(
    technique='Lean 4 proof: composition of layers (validator model → value marshalling → wire encoder → bridge lemma Wire.decodeRecords ⊑ DecApi.decodeMessages → pure field interpretation → agreement of encoder and decoder on timestamps and field descriptions), on top of: simulation invariant between the encoder LRU and the decoder definition table + timestamp invariant (LastInv, kept by both sides over every field 253 of every record: track_sim), induction over messages and over chained files; model tied by three differential families; property predicate evaluated on the real encode→decode output',
    text='END TO END (FitProps/C01E2E.lean, composed from the wire theorems below, C10_post / C10_validate_filter, the C06 value lemmas and a bridge between the two decoder models): C01_e2e_actual — every chain of files the encoder accepts (real validator model, state threaded, every option combination) decodes, sequence by sequence, to exactly what validation retained: message numbers in order, every field under its base type with the value Fit.E2E.reread gives (independent of the byte order), every developer field under the FIRST field description of (developer data index, number) — the one the validator resolved —, every compressed timestamp reconstructed in full (the message with that timestamp in front). C01_e2e_roundtrip_partial — outside three finding classes what comes back is the NORMAL FORM fixed in DESIGN §3 (Fit.E2E.normalValue: one element = scalar unless the factory says array, strings cut at NUL / split into non-empty pieces, profile-bool fields as typedef.Bool, header-borne timestamp first). C01_e2e_reencode_partial — messages whose values are in normal form (what a decoder returns) come back AS THEY ARE when encoded and decoded again (last sentence of the property). Refuted at full strength on kernel-evaluated witnesses: C01_e2e_full_fails_arr (F03: []uint8{70,71} in record.heart_rate decodes as 70), _zero (F04: a preserved zero-length array is skipped by the decoder), _fffd (F02: U+FFFD dropped) — three open findings, each with witness and --kf class. C01_e2e_reencode_boolarr_roundtrip: the witness of the fourth finding (KF-C01-boolarr, repaired in /repo 5da5106: UnmarshalValue now clamps the elements of a typedef.Bool array above 1 to BoolInvalid as proto.Bool does for one value) — the bytes 1C 01 in a profile-bool array field decode as {255, 1}, the decoded message is accepted as it is, meets every hypothesis of C01_e2e_reencode_partial (it is in wire-normal form now) and therefore comes back as itself; the value layer of the re-encoding sentence is C06_unmarshal_reencode_partial (any bytes, every numeric base type). WIRE LEVEL: C01_wire_records / C01_wire_sequence / C01_wire_chain: for every message list, byte order, header option, 1..16 local message types (every LRU eviction pattern), 12/14-byte headers, with or without checksum, single and chained files, whatever factory the decoder has, decoding what the encoder wrote returns the same message numbers in order with the same fields, developer fields and (for compressed-timestamp records) the original full timestamp — for ALL timestamp histories: going backwards inside or beyond the 32 s window, repeated, invalid, below DateTimeMin, several fields 253 in a message, fields 253 of any type and size (invariant: the encoder\'s lastTimestamp is 0 = "cannot tell" or exactly the decoder\'s active timestamp; a timestamp is compressed only within 32 s of both the roll-over reference and that last timestamp). The value layer (unmarshal∘marshal) is C06; the validated form of a message is C10. History: the pinned tree violated this for non-monotonic / invalid / duplicated / oddly typed timestamps (finding KF-C01-ts, found by this check, fixed in /repo by 1fdeae5); C01_ts_nonmonotone_roundtrip evaluates the former witness (t, t+20, t+5 came back as t, t+20, t+37) in the kernel, C01_ts_wild_roundtrip a history with all the oddities; C01_fix_conservative: on valid, unique, non-decreasing timestamps the repaired encoder model writes byte for byte what the pinned tree\'s encoder model wrote.',
    note='Trusted: Lean kernel; the hand-written wire model (tied, not verified, by encw/decw/rtw on the real packages); harness and driver parsers. Writer kind/buffering enter through C09; value interpretation by the decoder (profile look-ups, fallbacks) through the dec family once the value model is merged.',
)

# --- tie by translation (translators/go2lean, notes/go2lean.md; agreement theorems in lean/FitProps/C01Go2Lean.lean).
# Kept as a separate block so that it never collides with edits of the dictionary above.
PROP['regen'] = PROP['regen'] + ['go2lean:decoder', 'go2lean:encoder']
PROP['go2lean_diff'] = ['Timestamp', 'RecordHeader']      # lean/Go2LeanDiff/<Topic>.lean: search for a differing argument when an agreement theorem breaks
PROP['theorems'] = PROP['theorems'] + [
    'Fit.C01.C01_go2lean_dec_header',
    'Fit.C01.C01_go2lean_dec_header_wire',
    'Fit.C01.C01_go2lean_dec_field',
    'Fit.C01.C01_go2lean_dec_field_wire',
    'Fit.C01.C01_go2lean_dec_isCompressed',
    'Fit.C01.C01_go2lean_enc_decide',
    'Fit.C01.C01_go2lean_hdr_dec_kind',
    'Fit.C01.C01_go2lean_hdr_dec_local',
    'Fit.C01.C01_go2lean_hdr_enc',
    'Fit.C01.C01_go2lean_hdr_roundtrip']
PROP['trusted_base'] = PROP['trusted_base'] + [
    "translators/go2lean (Go→Lean for a small subset of Go, notes/go2lean.md) re-translates the compressed-timestamp and record-header statement blocks / conditions of decoder/decoder.go (decodeMessage, decodeMessageDefinition, decodeMessageData, decodeFields) and encoder/encoder.go (compressTimestampIntoHeader, encodeMessage), selected by function name + assigned variable from the current source on every run; the agreement theorems *_go2lean_* state that the translated functions equal the hand-written model functions for all arguments; trusted: the translator's rendering of the subset (go/types computes constants and types) and FitModel/GoPrelude.lean"]
