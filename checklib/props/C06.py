from ._common import STD_TRUST


def _regen_consts(ctx):
    import framework as F
    return F.harness_regen(ctx, 'consts', 'Consts.lean')


def _regen_typedefregistry(ctx):
    """harness/typedef_registry_gen.go: every named type of profile/typedef of the repository under test (source listing);
    rebuild the harness when it changed"""
    import os
    import framework as F
    import typedef_registry
    if typedef_registry.generate(F.REPO, os.path.join(F.ROOT, 'harness', 'typedef_registry_gen.go')):
        return F.build_harness(ctx)
    return True


REGEN = {'consts': _regen_consts, 'typedefregistry': _regen_typedefregistry}

def _extra(ctx, spec):
    """exhaustive parts of the tie, counted from the harness statistics of this run"""
    d = ctx.cov.get('families', {}).get('value', {}).get('distribution', {})
    u = ctx.cov.get('families', {}).get('utf8', {}).get('distribution', {})
    ctx.cov['exhaustive'] = {
        'every 8-bit scalar of bool/int8/uint8 x both byte orders x aligned and foreign base types (ops)': d.get('scalar8', 0),
        'every 16-bit scalar of int16/uint16 x both byte orders (ops)': d.get('scalar16', 0),
        'every value type x every base-type byte 0..255 (ops)': d.get('type-x-basetype', 0),
        'every array byte length 0..264 per slice type x both byte orders (ops)': d.get('array', 0) + d.get('array-order-sensitive', 0),
        'UnmarshalValue: every base-type byte x length 0..9 x array x bool flags (ops)': d.get('unm-grid', 0),
        'proto.Any -> Value.Any() on every named type of profile/typedef beyond the hand-picked ones: scalar, slice, behind a pointer (ops x4)': d.get('any-typedef-named', 0),
        'UnmarshalValue -> MarshalAppend -> UnmarshalValue on arbitrary bytes, every valid base type x flags x byte orders, every byte as typedef.Bool scalar / array element (ops)': d.get('unm-reencode', 0),
        'every 1- and 2-byte string through DecodeRune/Valid/utf8String (blocks)': u.get('exhaustive-2', 0),
    }


PROP = dict(
    level='proof',
    regen=['typedefregistry', 'consts'],
    extra=_extra,
    theorems=['Fit.C06.C06_size_eq_len', 'Fit.C06.C06_marshal_total', 'Fit.C06.C06_marshal_bytes', 'Fit.C06.C06_unmarshal_marshal_partial', 'Fit.C06.C06_unmarshal_marshal_full_fails', 'Fit.C06.C06_norm_id', 'Fit.C06.C06_norm_bool', 'Fit.C06.C06_norm_string', 'Fit.C06.C06_norm_strings', 'Fit.C06.C06_unmarshal_guard', 'Fit.C06.C06_unmarshal_no_panic', 'Fit.C06.C06_unmarshal_err_iff', 'Fit.C06.C06_unmarshal_marshal_actual', 'Fit.C06.C06_readBack_clean', 'Fit.C06.C06_any_reflect_agrees', 'Fit.C06.C06_any_wrap_unwrap', 'Fit.C06.C06_any_unsupported', 'Fit.C06.C06_any_names_transparent', 'Fit.C06.C06_unmarshal_bool_array', 'Fit.C06.C06_unmarshal_reencode', 'Fit.C06.C06_tag', 'Fit.C06.C06_no_cross_type', 'Fit.C06.C06_any_roundtrip', 'Fit.C06.C06_align_by_type'],
    families=[dict(name='value', spec=True, prop=True), dict(name='utf8')],
    trusted_base=STD_TRUST + [
        "Generated/Consts.lean is printed on every run by `fitharness consts` from the compiled packages (proto.Type numbers, proto's sizes table observed through Size(), vbits/vshift/vmask recovered from the raw num word of empty slices, base type numbers / sizes / invalid sentinels)",
        "unicode/utf8 (DecodeRune, AppendRune, Valid) is modelled after its documented behaviour in FitModel/Utf8.lean and tied by the family utf8 (every 1- and 2-byte string, all (lead, second byte) pairs with boundary continuation bytes, every Unicode scalar value in the thorough tier)",
        "proto.Any's reflection fallback (named types, pointers) is Go runtime behaviour (package reflect): the model describes it by KIND (FitModel/Value.lean: GoVal.named / .ptr, strip, byKind, quiet32) — which Go kinds map to which protocol type, names transparent, one pointer followed, typedef.Bool behind a name / pointer a uint8, unsupported kinds invalid — and the theorems C06_any_reflect_agrees / C06_any_wrap_unwrap / C06_any_unsupported / C06_any_names_transparent are about that description; that reflect behaves so is tied by the ops `vany` (+prop): every named type of profile/typedef (list regenerated from the source of the repository under test, harness/typedef_registry_gen.go: 178 types at this commit), scalar / slice / behind one and two pointers, 7 hand-written named types of the remaining kinds, unsupported values",
    ],
    assumptions=[
        "numbers are bit patterns that fit their Go type (Value.wf); typedef.Bool is one of 0, 1, 255",
        "float32 -> float64 -> float32 in the reflection path of proto.Any quiets a signalling NaN (amd64/arm64 behaviour, reproduced by the model, outside the property)",
    ],
)

TEXT = dict(
    technique='Lean 4 proof over a 25-constructor model of proto.Value (size/marshal/unmarshal/valid/align/tag representation, UTF-8 decoding) + constants regenerated from the compiled packages + differential tie with exhaustive 8/16-bit scalars, every array byte length 0..255 and every 1-2 byte UTF-8 prefix',
    text='C06: size = marshalled length, unmarshal . marshal = wire normal form, tag/accessor separation, for all values of the 24 types and both byte orders; U+FFFD removal (F02) reproduced as a known finding. typedef.Bool arrays (KF-C01-boolarr, repaired in /repo 5da5106): C06_unmarshal_bool_array — for ANY bytes the array read of a profile-bool field returns one element per byte, element i being what the scalar read of byte i returns, all in {0, 1, 255}; C06_unmarshal_reencode — for ANY bytes, EVERY base type (strings included: what utf8String returns is NUL-free valid UTF-8 without U+FFFD, Fit.Utf8.utf8String_good, on which it is the identity), any bool / array flags and any two byte orders, the value UnmarshalValue returned can be marshalled and reads back as itself (value layer of "re-encoding what the decoder returned"; evaluated on the implementation by the ops unmre). STRINGS — domain made explicit: the round-trip theorem C06_unmarshal_marshal_partial assumes `clean` (valid UTF-8 without U+FFFD), which leaves out (1) valid UTF-8 containing U+FFFD: inside the property, finding KF-C06-1; (2) byte strings that are not valid UTF-8 (class notUtf8): outside the property — a FIT string is UTF-8, the encoder refuses such a string (C10) and never writes one, proto.utf8String documents that it discards what does not decode; C06_unmarshal_marshal_actual states what the code returns for ALL strings, both classes included (readBack: utf8String of the bytes), C06_readBack_clean that this is the normal form on clean strings. ANY (wrap -> unwrap, reflection path included): C06_any_reflect_agrees — for every Go value (unnamed basic type, named type over any of them incl. every typedef type and slices of them, behind a pointer, names of names) proto.Any returns what the typed constructor returns for the value seen by kind; C06_any_wrap_unwrap — proto.Any(v).Any() is the content unchanged as the unnamed Go type of its kind (a Go bool as typedef.Bool 0/1, a typedef.Bool outside {0,1} as BoolInvalid, unsupported kinds nil); C06_any_unsupported; C06_any_names_transparent; guard: no float32 scalar signalling NaN through reflection (float32(rv.Float()) quiets it).',
    note='Trusted: Lean kernel; the consts translator; the harness/driver line protocol; the model of unicode/utf8 (tied, documented behaviour); the reflection path of proto.Any is described by kind in the model and proved about; that package reflect behaves as described is tied by the ops vany.',
)

# --- tie by translation (translators/go2lean, notes/go2lean.md; agreement theorems in lean/FitProps/C06Go2Lean.lean).
# Kept as a separate block so that it never collides with edits of the dictionary above.
PROP['regen'] = PROP['regen'] + ['go2lean:basetype']
PROP['go2lean_diff'] = ['Basetype']      # lean/Go2LeanDiff/<Topic>.lean: search for a differing argument when an agreement theorem breaks
PROP['theorems'] = PROP['theorems'] + [
    'Fit.C06.C06_go2lean_sizes',
    'Fit.C06.C06_go2lean_size',
    'Fit.C06.C06_go2lean_valid',
    'Fit.C06.C06_go2lean_list',
    'Fit.C06.C06_go2lean_spec_size',
    'Fit.C06.C06_go2lean_spec_valid',
    'Fit.C06.C06_go2lean_spec_list',
    'Fit.C06.C06_go2lean_spec_names',
    'Fit.C06.C06_go2lean_consts',
    'Fit.C06.C06_go2lean_spec_field']
PROP['trusted_base'] = PROP['trusted_base'] + [
    "translators/go2lean (Go→Lean for a small subset of Go, notes/go2lean.md) re-translates profile/basetype/basetype.go (sizes table, Size, Valid, List, String, FromString) from the current source on every run; the agreement theorems *_go2lean_* state that the translated functions equal the hand-written model functions for all arguments; trusted: the translator's rendering of the subset (go/types computes constants and types) and FitModel/GoPrelude.lean"]

# --- tie by translation, unit protomarshal, typedef.Bool part (translators/go2lean/targets_protomarshal.go,
# notes/go2lean-add-p.md; theorems in lean/FitProps/Go2LeanProtoMarshal.lean, restated at the end of C06Go2Lean.lean).
PROP['regen'] = PROP['regen'] + ['go2lean:protomarshal']
PROP['go2lean_diff'] = PROP.get('go2lean_diff', []) + ['ProtoBool']
PROP['theorems'] = PROP['theorems'] + [
    'Fit.C06.C06_go2lean_bool_clamp',
    'Fit.C06.C06_go2lean_bool_marshal',
    'Fit.C06.C06_go2lean_bool_unmarshal',
    'Fit.C06.C06_go2lean_scalar_marshal',
    'Fit.C06.C06_go2lean_sliceBool_marshal',
    'Fit.C06.C06_go2lean_sliceUint_marshal']
PROP['trusted_base'] = PROP['trusted_base'] + [
    "translators/go2lean re-translates the statement blocks that clamp a typedef.Bool (proto/value.go Bool: `num := uint64(v); if v > 1 {…}`; proto/value_marshal.go case TypeBool; proto/value_unmarshal.go the body of the loop over a bool array) and the eight fixed-width scalar cases + the bool-array case + the three unsigned fixed-width array cases (TypeSliceUint16/32/64) of Value.MarshalAppend (if arch == LittleEndian { b = binary.LittleEndian.AppendUintN(b, uintN(v.num)) } else {…}; return b, nil), selected by function name + assigned variable from the current source on every run (unit protomarshal); C06_go2lean_bool_* state that they equal Fit.Value.mkBool / boolByte / clampBool for every byte, resp. append Fit.Value.enc w arch n (what Fit.Value.marshal gives) for every v.num, byte order and buffer; additionally trusted: the rendering of binary.LittleEndian/BigEndian.AppendUint16/32/64 as Go.le16 … Go.be64 (FitModel/GoPrelude.lean)"]
