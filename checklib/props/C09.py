from ._common import STD_TRUST

PROP = dict(
    level='proof',
    regen=['crctable', 'wireconsts'],
    theorems=['Fit.C09.C09_bufio_transparent', 'Fit.C09.C09_bufio_eq_direct', 'Fit.C09.C09_dryrun_equals_run',
              'Fit.C09.C09_same_bytes_batch', 'Fit.C09.C09_kinds_agree', 'Fit.C09.C09_stream_equals_batch',
              'Fit.C09.C09_same_bytes_stream', 'Fit.C09.C09_same_bytes'],
    families=[dict(name='enc-writers', prop=True)],
    trusted_base=STD_TRUST + [
        "FitModel/Writer.lean (destination, bufio.Writer from its documented behaviour, writerAt/writeSeeker wrappers, the three output paths of encoder.go, stream.go) is tied to the code by family enc-writers: the real Encoder/StreamEncoder on instrumented destinations of the four kinds; results per API call, the destination's operation log (kind, length, offset, bytes taken) and final content compared with the model",
        "the property is also evaluated directly on the implementation: op `wrc` runs every kind x 13 buffer sizes x batch/stream on the same input and compares the destinations byte for byte; the prop mode compares every fault-free run with pre ++ Wire.encodeChain",
    ],
    assumptions=["the destination is positioned at its end when the encoder gets it (documented usage: Seek(0, io.SeekEnd)); a write-at destination holds only what this encoder wrote (documented caveat)",
                 "a destination honours io.Writer's contract (n < len(p) comes with an error)"],
)

TEXT = dict(
    technique='Lean 4 proof over a model of the destination, the write buffer and the encoder output paths; differential correspondence incl. operation logs; cross-configuration comparison on the implementation',
    text='(filled in as the theorems land)',
    note='work in progress',
)
