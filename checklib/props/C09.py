import os, re
from ._common import STD_TRUST


def _extra(ctx, spec):
    """evidence: every `wrc` op stands for one real encode per configuration"""
    runs = ops = 0
    try:
        for l in open(os.path.join(ctx.work, 'enc-writers.impl.tsv')):
            if l.startswith('wrc '):
                m = re.search(r'\tsame (\d+) ', l)
                if m:
                    ops += 1
                    runs += int(m.group(1))
    except OSError:
        return
    ctx.cov['extra_evaluations'] = runs
    ctx.cov['exhaustive'] = dict(
        what='per `wrc` input: the real Encoder on all 4 writer kinds x 13 buffer sizes (-1, 0, 1, 2, 3, 7, 13, 14, 15, 16, 64, 4096, 65536) and the real '
             'StreamEncoder on the 3 random-access kinds x 13 sizes; destinations compared byte for byte with each other and with pre ++ Wire.encodeChain',
        cross_config_ops=ops, encodes=runs)


PROP = dict(
    level='proof',
    regen=['crctable', 'wireconsts'],
    theorems=['Fit.C09.C09_bufio_transparent', 'Fit.C09.C09_bufio_eq_direct', 'Fit.C09.C09_dryrun_equals_run',
              'Fit.C09.C09_same_bytes_batch', 'Fit.C09.C09_kinds_agree', 'Fit.C09.C09_stream_equals_batch',
              'Fit.C09.C09_same_bytes_stream', 'Fit.C09.C09_same_bytes', 'Fit.C09.C09_validation_order',
              'Fit.C09.C09_caveat_writeAt_foreign_witness', 'Fit.C09.C09_caveat_not_at_end_witness',
              'Fit.C09.C09_caveat_writeAt_not_at_end_witness', 'Fit.C09.C09_caveat_append_mode_witness',
              # EncodeWithContext: a context that is never cancelled = Encode; the encoder left on io.Discard (KF-C09-ctx-discard)
              'Fit.C09.C09_ctx_equals_plain', 'Fit.C09.C09_ctx_discard_witness'],
    families=[dict(name='enc-writers', prop=True)],
    extra=_extra,
    trusted_base=STD_TRUST + [
        "FitModel/Writer.lean (destination, bufio.Writer from its documented behaviour, writerAt/writeSeeker wrappers, the three output paths of encoder.go, stream.go) is tied to the code by family enc-writers: the real Encoder/StreamEncoder on instrumented destinations of the four kinds; results per API call, the destination's operation log (kind, length, offset, bytes taken) and final content compared with the model",
        "the property is also evaluated directly on the implementation: op `wrc` runs every kind x 13 buffer sizes x batch/stream on the same input and compares the destinations byte for byte; the prop mode compares every fault-free run with pre ++ Wire.encodeChain",
    ],
    assumptions=["the destination is positioned at its end when the encoder gets it (documented usage: Seek(0, io.SeekEnd)); a write-at destination holds only what this encoder wrote (documented caveat)",
                 "a destination honours io.Writer's contract (n < len(p) comes with an error)"],
)

TEXT = dict(
    technique='Lean 4 proof by refinement: model of the destination (content, position, Write/WriteAt/Seek), of bufio.Writer and the writerAt/writeSeeker wrappers, of the three output paths of encoder.go (early check with dry run, seek rewrite, write-at rewrite) and of stream.go; every path is proved to leave d0 ++ Wire.encodeChain (the wire-level encoder of C01/C02) — contracts proved for arbitrary fault schedules and specialised to the healthy destination; differential tie incl. destination operation logs; cross-configuration comparison on the implementation',
    text='C09_ctx_equals_plain: EncodeWithContext with a context that is never cancelled leaves the same encoder and destination and returns the same result as Encode, for every validator, fault schedule, option set and encoder state (cancellation points are modelled: FitModel/Writer.lean Ctx / encodeCtxV; tied by m=c runs with cx=i.k: the context of call i is cancelled after k polls, every k); C09_ctx_discard_witness: finding KF-C09-ctx-discard (a cancelled dry run leaves the encoder on io.Discard: the next Encode reports success and writes nothing). C09_same_bytes_batch: for every writer kind, every buffer size (0 = unbuffered), every chain and every destination already holding d0, Encode succeeds and the destination holds exactly d0 ++ encodeChain o fits (an expression free of kind, buffer size and the caller\'s header data sizes); C09_stream_equals_batch: under EVERY fault schedule the stream encoder issues exactly the destination operations of Encode of the same messages (as pinned and as repaired); C09_same_bytes_stream / C09_same_bytes: stream and batch leave identical bytes; C09_bufio_transparent / _eq_direct: any chunking through any buffer size then Flush = direct writes; C09_dryrun_equals_run: the dry run computes exactly the data size the second pass writes and restores the compressed-timestamp field; C09_validation_order: validating up front (batch) and per message (stream) feed encodeMessage identically, for any validator. Tie: family enc-writers (single runs with operation logs; cross-configuration ops over 91 configurations).',
    note='Proved about the model; tied by differential testing of results, operation logs and contents on the four destination kinds. Assumes the destination is positioned at its end and — for write-at destinations — holds only what this encoder wrote (both documented caveats of encoder.New). Both assumptions are shown NECESSARY by kernel-evaluated witnesses (C09_caveat_writeAt_foreign_witness: header rewrite lands on the first 14 foreign bytes of a pre-filled write-at destination given to a new encoder; C09_caveat_not_at_end_witness / C09_caveat_writeAt_not_at_end_witness: a destination positioned before its end is overwritten, and a write-at rewrite then lands inside the records) ; C09_caveat_append_mode_witness: on an O_APPEND file the seek rewrite appends the final header — every call still reports success; the family runs such destinations too (pre= with a new write-at encoder, pos=<n>, ap=1): model and code agree on what is written, the property predicate is n/a there.',
)
