from ._common import STD_TRUST
from ._links import with_links

PROP = dict(
    level='proof',
    regen=['crctable', 'integconsts', 'readerconsts'],
    theorems=['Fit.C16.C16_concat', 'Fit.C16.C16_lengths', 'Fit.C16.C16_layout', 'Fit.C16.C16_count_is_consumed', 'Fit.C16.C16_agree',
              'Fit.C16.C16_reader_error', 'Fit.C16.C16_agree_api', 'Fit.C16.C16_api_results_are_fits'],
    families=[dict(name='raw', spec=True, prop=True)],
    # link theorem spec => raw decoder (additive: checklib/props/_links.py)
    extra=with_links(None, ['Fit.Links.Link_fitformat_raw'], crosscheck=[('raw', 'linkraw')]),
    trusted_base=STD_TRUST + [
        "the model of (*RawDecoder).Decode (FitModel/Raw.lean: callback flags, per-sequence table lenMesgs, record lengths, BytesArray bound, callback failure, byte count n) is hand-written from decoder/raw.go and tied by family raw: real RawDecoder vs model on fixtures, encoder outputs under assorted options, hand-made record streams (0..255 fields, developer fields, size-0 fields, compressed-timestamp headers with bit 6 set, redefinitions), mutations and arbitrary bytes; contiguous and fragmenting / failing readers; failing callbacks",
        "FitFormat (lean/FitModel/FitFormat.lean) is the independent reading of the protocol's framing the lengths are stated against; on every stream it parses, the real RawDecoder's segmentation is compared with it (--spec)",
        "the full decoder model (FitModel/DecProg.lean) is tied by family dfrag (C08) and by the dec= part of the rawdec ops; agreement of the two real decoders is evaluated directly on the implementation (--prop of rawdec: acceptance of the full decoder is reconstructed from its own listener events)",
        "constants (masks, '.FIT', RawFlag values, BytesArray length) are re-extracted from the compiled tree on every run (Generated/ReaderConsts.lean)",
    ],
    assumptions=[
        "bytes are < 256 (IsBytes); streams below 4 GiB (`uint32(n-pos)` in raw.go, Decoder.cur)",
        "the reader is the exact-n reader over the byte string; by C08_raw_chunk_indep every clean fragmentation gives the same outcome",
        "'the full decoder accepts a stream' := successive Decode calls all succeed and the stream ends exactly at a sequence boundary (DESIGN §3 C16, fixed before any result was seen)",
    ],
)

TEXT = dict(
    technique='Lean 4 proof: model of raw.go as a client of io.ReadFull; one weakest-precondition pass over the program proves, for every byte string and every callback behaviour, that reported segments continue the stream and have the lengths an independent framing spec (FitFormat) prescribes given the preceding definitions; simulation against the full decoder model; differential correspondence real RawDecoder vs model vs FitFormat vs real Decoder',
    text='Theorems: C16_agree (whenever the full decoder model, checksum ignored, accepts a stream — all Decodes succeed and the loop ends at a clean end of stream — the raw decoder model accepts it, consumes all of it, reports the same number of sequences and the same ordered series of definitions (header byte, architecture, global number, field and developer field definitions) and data messages (header byte); by simulation: both consume the same bytes per record whatever the field sizes), C16_concat (for every stream and callback: concatenated segments = the first bytes of the stream, ≤ n ≤ length; = exactly the n consumed bytes on success), C16_lengths (every segment has the FitFormat-prescribed length given the preceding definitions; data records always have a live definition; definitions do not survive a sequence), C16_layout (every segment sits where the protocol prescribes: a header only between sequences, records only while they fall short of the data size of the header — read by the independent FitFormat.parseHeader —, the CRC segment exactly when they have reached it; a run without error ends between sequences; the fuel of the inner loop never ends it), C16_count_is_consumed (over every reader schedule without failures the byte count the `raw` operation prints, runFullN … 0, is the consumedExact of the theorems, same outcome), C16_agree_api (FitProps/C16Api.lean: through Link_decprog_eq_api the Decode() results of the API model (C) are a function of the accepted run of (D); they are FITs only, as many as the raw decoder reports sequences). Tie: family raw (ops raw: real RawDecoder vs model incl. fragmenting/failing readers and failing callbacks, --spec: FitFormat segmentation on every well-framed stream; ops rawdec: real RawDecoder vs real Decoder with mesg-def and mesg listeners, --prop: concatenation, lengths, positions (layoutOK / layoutClosed) and — whenever the full decoder accepts — same number of sequences, same ordered series of definitions and data messages; ops rawdech: the same with a USED full decoder — PeekFileId [+ Discard] on another stream, then Reset — whose answer must be that of a new decoder, half of them on streams that lost their first definition).',
    note='Proved about the model; tied by differential testing.',
)

# --- tie by translation (translators/go2lean, notes/go2lean.md; agreement theorems in lean/FitProps/C16Go2Lean.lean).
# Kept as a separate block so that it never collides with edits of the dictionary above.
PROP['regen'] = PROP['regen'] + ['go2lean:proto']
PROP['go2lean_diff'] = ['Proto']      # lean/Go2LeanDiff/<Topic>.lean: search for a differing argument when an agreement theorem breaks
PROP['theorems'] = PROP['theorems'] + [
    'Fit.C16.C16_go2lean_localMesgNum',
    'Fit.C16.C16_go2lean_localMesgNum_lt',
    'Fit.C16.C16_go2lean_masks_reader',
    'Fit.C16.C16_go2lean_masks_format']
PROP['trusted_base'] = PROP['trusted_base'] + [
    "translators/go2lean (Go→Lean for a small subset of Go, notes/go2lean.md) re-translates proto.LocalMesgNum and the header masks of proto/proto.go from the current source on every run; the agreement theorems *_go2lean_* state that the translated functions equal the hand-written model functions for all arguments; trusted: the translator's rendering of the subset (go/types computes constants and types) and FitModel/GoPrelude.lean"]

# --- tie by translation, decoder/raw.go (unit rawsize; notes/go2lean-add-r.md; agreement theorems in lean/FitProps/Go2LeanRawSize.lean,
# restated in lean/FitProps/C16Go2Lean.lean)
PROP['regen'] = PROP['regen'] + ['go2lean:rawsize']
PROP['go2lean_diff'] = PROP['go2lean_diff'] + ['RawSize']
PROP['theorems'] = PROP['theorems'] + [
    'Fit.C16.C16_go2lean_raw_fieldSizes',
    'Fit.C16.C16_go2lean_raw_devCount',
    'Fit.C16.C16_go2lean_raw_devFieldSizes',
    'Fit.C16.C16_go2lean_raw_conds',
    'Fit.C16.C16_go2lean_raw_nFields',
    'Fit.C16.C16_go2lean_raw_moreData',
    'Fit.C16.C16_go2lean_raw_lensInit',
    'Fit.C16.C16_go2lean_raw_store',
    'Fit.C16.C16_go2lean_raw_lookup',
    'Fit.C16.C16_go2lean_raw_reads',
    'Fit.C16.C16_go2lean_raw_count']
PROP['trusted_base'] = PROP['trusted_base'] + [
    "translators/go2lean also re-translates the length bookkeeping of (*RawDecoder).Decode (decoder/raw.go) from the current source on every run: the statement runs that compute the data-record length at definition time (1 + field sizes + developer field sizes, both `i += 3` loops), store it per local message number and look it up, the per-sequence initialisation of that table, the header-byte conditions, the data-size loop condition `uint32(n-pos) < fileHeaderDataSize`, the bounds of all fifteen slice expressions of d.BytesArray (how many bytes each io.ReadFull asks for, which bytes the callback sees), the nine `n += int64(nr)` and `seq++` (items selected structurally: function + assigned variable, or sliced operand + occurrence number); the agreement theorems C16_go2lean_raw_* state that each translated piece equals the corresponding piece of Fit.Raw.msgs / Fit.Raw.decode for all arguments; NOT translated (outside the subset, covered by the correspondence families only): the calls io.ReadFull, binary.LittleEndian.Uint32, fn and the error returns themselves, and the order in which Decode composes the pieces"]
