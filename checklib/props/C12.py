from ._common import STD_TRUST
from .C06 import REGEN as _C06_REGEN
import os


def _regen_profilearith(ctx):
    """(1) harness/arith_typed_registry_gen.go: the constructors of the generated mesgdef structs of the
    repository under test (source listing); rebuild the harness when it changed. (2) Generated/ProfileArith.lean
    from the compiled factory / mesgdef structs."""
    import framework as F
    import arith_registry
    if arith_registry.generate(F.REPO, os.path.join(F.ROOT, 'harness', 'arith_typed_registry_gen.go')):
        if not F.build_harness(ctx):
            return False
    return F.harness_regen(ctx, 'profilearith', 'ProfileArith.lean')


def _regen_validatorfac(ctx):
    """Generated/ValidatorFactory.lean (every field of factory.StandardFactory()): the op `sodev` resolves the native field of a
    developer field through it"""
    import framework as F
    return F.harness_regen(ctx, 'validatorfac', 'ValidatorFactory.lean')


REGEN = dict(_C06_REGEN)
REGEN['profilearith'] = _regen_profilearith
REGEN['validatorfac'] = _regen_validatorfac


def _extra(ctx, spec):
    fams = ctx.cov.get('families', {})
    so = fams.get('scaleoffset', {}).get('distribution', {})
    ta = fams.get('timeangle', {}).get('distribution', {})
    ctx.cov['exhaustive'] = {
        'profile (base type, scale, offset) triples with an 8/16-bit base type: EVERY raw value x 8 routes (triples)': so.get('exhaustive-triple-8/16', 0),
        'every profile (scale, offset) pair x every 8/16-bit base type, every raw value (pair x type combinations)': so.get('exhaustive-pair-x-type-8/16', 0),
        'generated XxxScaled/SetXxxScaled pairs swept over every raw value (accessors)': so.get('typed-exhaustive', 0),
        'generated accessors sampled (strided / 32-bit windows)': so.get('typed-strided', 0) + so.get('typed-windows-32', 0),
        'all 2^32 semicircle values / all 2^32 timestamps on the implementation (sweeps)': ta.get('exhaustive-2^32', 0) + ta.get('exhaustive-2^32-sc', 0),
    }


PROP = dict(
    level='proof',
    regen=['consts', 'profilearith', 'validatorfac'],
    extra=_extra,
    theorems=['Fit.C12.C12_f64_round_err', 'Fit.C12.C12_scale_roundtrip_rounded', 'Fit.C12.C12_profile_pairs_in_range',
              'Fit.C12.C12_helpers', 'Fit.C12.C12_helpers_int64', 'Fit.C12.C12_value_route', 'Fit.C12.C12_validator', 'Fit.C12.C12_csv',
              'Fit.C12.C12_slice', 'Fit.C12.C12_unit_identity', 'Fit.C12.C12_datetime', 'Fit.C12.C12_semicircles',
              'Fit.C12.C12_typed', 'Fit.C12.C12_typed_invalid', 'Fit.C12.C12_typed_witness_fixed', 'Fit.C12.C12_F07_witness_fixed'],
    families=[dict(name='f64'), dict(name='scaleoffset', spec=True, shrink=False), dict(name='timeangle', spec=True, shrink=False)],
    trusted_base=STD_TRUST + [
        "binary64: FitModel/F64.lean (exact rational operation + one round-to-nearest-even, gradual underflow, overflow, signed zeros; NaN canonical) is tied to Go's float64 on this machine by the family f64 (add/sub/mul/div/compare/math.Round/int<->float conversions on bit patterns: structured + random operands); amd64 does not fuse multiply-add",
        "float->integer conversion of NaN / out-of-range values is platform-defined in Go: the model reproduces amd64 (CVTTSD2SL/CVTTSD2SQ and the uint64 sequence), flags those cases (cvtFlag) and every theorem excludes them",
        "Generated/ProfileArith.lean (scale/offset/base type triples, components, generated accessors and the factory field each maps to) is printed on every run from the compiled factory and by reflection + ToMesg probing over the mesgdef structs",
        "strconv shortest float formatting / parsing in the CSV route is exact (round-trips) and prints a '.' for every finite value met here: assumed, exercised by the csv route of the family",
        "time.Time: instants without monotonic reading; Sub saturates; Duration.Seconds() = float64(d/1e9)+float64(d%1e9)/1e9 (documented behaviour, tied by the family timeangle incl. all 2^32 timestamps)",
    ],
    assumptions=[
        "raw values are bit patterns of the Go type of the base type; scales/offsets are the float64 values of the compiled factory",
        "64-bit base types: the identity is demanded (and proved) for |raw| <= 2^49 only (C12_helpers_int64) — binary64 has 53 significand bits; no 64-bit profile field is scaled (scaled64 = 0 in the regenerated profile)",
    ],
)

TEXT = dict(
    technique='Lean 4 proof over an executable IEEE-754 binary64 model (bit patterns; exact rational operation + round-to-nearest-even) of kit/scaleoffset, the validator restoration, the generated typed accessors, the CSV scaled path, kit/datetime and kit/semicircles; profile pairs regenerated from the compiled factory; exhaustive differential tie (every 8/16-bit raw value x every profile pair x every route, all 2^32 timestamps / semicircles on the implementation)',
    text='C12: raw -> scaled -> raw through every route of the SDK.',
    note='Trusted: Lean kernel; profile translator; line protocol; the binary64 model is tied to the hardware by differential testing, not proved against IEEE-754 text.',
)
