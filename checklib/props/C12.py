from ._common import STD_TRUST
from .C06 import REGEN as _C06_REGEN
import os


def _regen_profilearith(ctx):
    """(1) harness/arith_typed_registry_gen.go: the constructors of the generated mesgdef structs of the
    repository under test (source listing); rebuild the harness when it changed. (2) Generated/ProfileArith.lean
    from the compiled factory / mesgdef structs."""
    import framework as F
    import arith_registry
    if arith_registry.generate(F.REPO, os.path.join(F.ROOT, 'harness', 'arith_typed_registry_gen.go')):
        if not F.build_harness(ctx):
            return False
    return F.harness_regen(ctx, 'profilearith', 'ProfileArith.lean')


def _regen_validatorfac(ctx):
    """Generated/ValidatorFactory.lean (every field of factory.StandardFactory()): the op `sodev` resolves the native field of a
    developer field through it"""
    import framework as F
    return F.harness_regen(ctx, 'validatorfac', 'ValidatorFactory.lean')


REGEN = dict(_C06_REGEN)
REGEN['profilearith'] = _regen_profilearith
REGEN['validatorfac'] = _regen_validatorfac


def _extra(ctx, spec):
    fams = ctx.cov.get('families', {})
    so = fams.get('scaleoffset', {}).get('distribution', {})
    ta = fams.get('timeangle', {}).get('distribution', {})
    ctx.cov['exhaustive'] = {
        'profile (base type, scale, offset) triples with an 8/16-bit base type: EVERY raw value x 8 routes (triples)': so.get('exhaustive-triple-8/16', 0),
        'every profile (scale, offset) pair x every 8/16-bit base type, every raw value (pair x type combinations)': so.get('exhaustive-pair-x-type-8/16', 0),
        'generated XxxScaled/SetXxxScaled pairs swept over every raw value (accessors)': so.get('typed-exhaustive', 0),
        'generated accessors sampled (strided / 32-bit windows)': so.get('typed-strided', 0) + so.get('typed-windows-32', 0),
        'all 2^32 semicircle values / all 2^32 timestamps on the implementation (sweeps)': ta.get('exhaustive-2^32', 0) + ta.get('exhaustive-2^32-sc', 0),
        'generated slice / fixed-array accessors exercised element-wise (nil, empty, sentinel in every position, negative elements, random lists) (accessors)': so.get('typed-slice-accessors', 0),
        'one-validator sequences with two natively-mapped developer fields whose native fields share the field number in different messages (lines)': so.get('validator-seq-collision', 0),
        'one-validator random sequences (several developer data ids, descriptions with native / own / no scale, missing descriptions) (lines)': so.get('validator-seq-random', 0),
    }


PROP = dict(
    level='proof',
    regen=['consts', 'profilearith', 'validatorfac'],
    extra=_extra,
    theorems=['Fit.C12.C12_f64_round_err', 'Fit.C12.C12_scale_roundtrip_rounded', 'Fit.C12.C12_profile_pairs_in_range',
              'Fit.C12.C12_helpers', 'Fit.C12.C12_helpers_int64', 'Fit.C12.C12_value_route', 'Fit.C12.C12_validator', 'Fit.C12.C12_csv',
              'Fit.C12.C12_slice', 'Fit.C12.C12_unit_identity', 'Fit.C12.C12_datetime', 'Fit.C12.C12_semicircles',
              'Fit.C12.C12_typed', 'Fit.C12.C12_typed_invalid', 'Fit.C12.C12_typed_witness_fixed', 'Fit.C12.C12_F07_witness_fixed',
              'Fit.C12.C12_typed_table', 'Fit.C12.C12_typed_all', 'Fit.C12.C12_typed_slice', 'Fit.C12.C12_typed_array',
              'Fit.C12.C12_typed_slice_all', 'Fit.C12.C12_native_table', 'Fit.C12.C12_validator_dev', 'Fit.C12.C12_validator_dev_std', 'Fit.C12.C12_validator_dev_own',
              'Fit.C12.C12_validator_seq', 'Fit.C12.C12_csv_pairs', 'Fit.C12.C12_csv_text', 'Fit.C12.C12_csv_cell'],
    families=[dict(name='f64'), dict(name='scaleoffset', spec=True, shrink=False), dict(name='timeangle', spec=True, shrink=False)],
    trusted_base=STD_TRUST + [
        "binary64: FitModel/F64.lean (exact rational operation + one round-to-nearest-even, gradual underflow, overflow, signed zeros; NaN canonical) is tied to Go's float64 on this machine by the family f64 (add/sub/mul/div/compare/math.Round/int<->float conversions on bit patterns: structured + random operands); amd64 does not fuse multiply-add",
        "float->integer conversion of NaN / out-of-range values is platform-defined in Go: the model reproduces amd64 (CVTTSD2SL/CVTTSD2SQ and the uint64 sequence), flags those cases (cvtFlag) and every theorem excludes them",
        "Generated/ProfileArith.lean (scale/offset/base type triples, components, generated accessors and the factory field each maps to) is printed on every run from the compiled factory and by reflection + ToMesg probing over the mesgdef structs",
        "Generated/ProfileArith.lean `typed` (every generated XxxScaled/SetXxxScaled pair: element kind, sentinel, shape scalar / slice / [N], scale/offset of the factory field it maps to; the accessor's own return type must have the shape of the struct field) and `fields` (every field of the standard factory: base type, scale, offset) come from the same translator; C12_typed_table / C12_native_table / C12_csv_pairs are kernel-evaluated over them on every run",
        "CSV text: ScaleOffset.csvHasDot models `strings.Contains(format(float64), \".\")` = fitcsv format (whole value -> 'f' with one decimal, else 'g' shortest) + strconv's rule for 'g' (%e form iff decimal exponent < -4 or >= 6 for the shortest precision; %e without '.' iff the shortest decimal has ONE digit; the shortest decimal has one digit iff the value is the float64 nearest to d*10^k): tied to the real formatter by the operation socd on whole values, one-digit decimals of every exponent and their neighbours, the scaled values of small raw numbers at every profile pair and arbitrary operands — not proved against strconv's source. That the '.' is present for every scaled value is then a theorem (C12_csv_text), no longer an assumption",
        "strconv.ParseFloat of the shortest text strconv.FormatFloat wrote gives back the same float64 (documented round-trip property of the shortest formatting): assumed, exercised by the csv route of the family on every 8/16-bit raw value and 32-bit windows",
        "encoder validator, developer fields: ScaleOffset.validatorDevField / validatorSeq model encoder/validator.go:157-227 for numeric scalar developer values with ValidatorWithPreserveInvalidValues (state = developer data indexes + field descriptions in order; first matching description; native field looked up per description; alignment against the description's base type); the field_description message -> mesgdef.NewFieldDescription step is real code on the harness side and a direct reading of the item on the model side (tied by the operation sov)",
        "time.Time: instants without monotonic reading; Sub saturates; Duration.Seconds() = float64(d/1e9)+float64(d%1e9)/1e9 (documented behaviour, tied by the family timeangle incl. all 2^32 timestamps)",
    ],
    assumptions=[
        "raw values are bit patterns of the Go type of the base type; scales/offsets are the float64 values of the compiled factory",
        "64-bit base types: the identity is demanded (and proved) for |raw| <= 2^49 only (C12_helpers_int64) — binary64 has 53 significand bits; no 64-bit profile field is scaled (scaled64 = 0 in the regenerated profile)",
    ],
)

TEXT = dict(
    technique='Lean 4 proof over an executable IEEE-754 binary64 model (bit patterns; exact rational operation + round-to-nearest-even) of kit/scaleoffset, the validator restoration, the generated typed accessors, the CSV scaled path, kit/datetime and kit/semicircles; profile pairs regenerated from the compiled factory; exhaustive differential tie (every 8/16-bit raw value x every profile pair x every route, all 2^32 timestamps / semicircles on the implementation)',
    text=('C12: raw -> scaled (physical float64) -> raw is the identity through every conversion route of the SDK, proved on an executable '
          'binary64 model for all raw values, not sampled. '
          'ARITHMETIC: C12_f64_round_err (one rounding: relative error <= 2^-53, exact when representable); C12_scale_roundtrip_rounded: for every '
          'integer |r| <= 2^49 and every pair meeting the decidable condition pairOK (positive normal scale in [1/2, 2^17), |offset| < 2^10), '
          'math.Round(((float64(r)/scale - offset) + offset)*scale) is finite with exact value r; C12_profile_pairs_in_range: every (scale, offset) of the '
          'regenerated profile meets pairOK, no 64-bit and no float field is scaled (kernel-evaluated). '
          'ROUTES, each for EVERY integer type of at most 32 bits, EVERY raw bit pattern of the type (the invalid sentinel is an ordinary value here) and '
          'EVERY profile pair: C12_helpers (Apply -> DiscardValue/DiscardAny scalar path, also the unit pair), C12_value_route (ApplyValue -> DiscardValue on '
          'proto.Value), C12_slice (ApplySlice -> DiscardSlice[T] and slice values, every element, any length), C12_validator (the encoder validator\'s '
          'restoration of a native field), C12_validator_dev / _dev_std / _dev_own / _seq (a developer field mapped to a native field is restored with the base type / '
          'scale / offset of ITS OWN native (message, field), in every state of one validator: the answer depends on the earlier messages only through the '
          'developer data ids and field descriptions they announced; with the standard factory every scaled native field has a profile pair: C12_native_table; a description without native field but with a scale 1..254 and an int8 offset of its own: _dev_own), '
          'C12_csv (parseValue\'s scaled path), C12_csv_text (the text fitcsv writes for the scaled value of any such raw value contains a \'.\', so the reader '
          'takes the scaled path and never ParseUint/ParseInt: a whole value is written x.0, the values below 10^-4 are evaluated and are not one-digit '
          'decimals; side condition C12_csv_pairs kernel-checked over the profile), C12_csv_cell (both together). '
          '64-BIT: C12_helpers_int64: int64 raw values with |raw| <= 2^49 only (binary64 has 53 significand bits; counter-example 2^53+1 given; no 64-bit profile '
          'field is scaled); C12_unit_identity: with the unit pair the value-level helpers do not touch a value of any type or width. '
          'GENERATED ACCESSORS of profile/mesgdef (381 pairs, regenerated table): C12_typed (scalar XxxScaled -> SetXxxScaled: every raw value other than the '
          'sentinel = largest value of the type comes back, every type <= 32 bits, every profile pair), C12_typed_invalid (the sentinel maps to the float64 '
          'invalid pattern and back), C12_typed_table (EVERY row of the regenerated table has an element type <= 32 bits, sentinel = largest value, pair in the '
          'profile) hence C12_typed_all (the identity for every generated accessor, as a theorem over the table); slice accessors []T (66) and fixed-array '
          'accessors [N]T (2) have their own generated loops: C12_typed_slice (nil stays nil, empty stays empty, EVERY element comes back, sentinel and '
          'negative elements included, any length), C12_typed_array (the same for [N]T, all-sentinel array answered by the whole-array test included), '
          'C12_typed_slice_all (for every slice / array row of the table). '
          'TIME, ANGLE: C12_datetime (ToUint32(ToTime(v)) = v for all 2^32 v, sentinel included), C12_semicircles (ToSemicircles(ToDegrees(s)) = s for all 2^32 s). '
          'Witnesses of the repaired findings: C12_F07_witness_fixed, C12_typed_witness_fixed. '
          'ASSUMED (see trusted_base): the binary64 model = the hardware (family f64); the csvHasDot model of strconv formatting (operation socd); ParseFloat '
          'inverts shortest FormatFloat; time.Time / Duration.Seconds as documented. NOT COVERED: 64-bit raw values beyond 2^49 through the float path; '
          'the validator without ValidatorWithPreserveInvalidValues (the sentinel is dropped by design); string / array developer values in the sequence model.'),
    note='Trusted: Lean kernel; profile translator; line protocol; the binary64 model is tied to the hardware by differential testing, not proved against IEEE-754 text.',
)

# --- tie by translation (translators/go2lean, notes/go2lean.md + notes/go2lean-add-p.md; agreement theorems in
# lean/FitProps/Go2LeanKitInt.lean, restated in lean/FitProps/C12Go2Lean.lean). Kept as a separate block.
PROP['regen'] = PROP['regen'] + ['go2lean:kitint', 'go2lean:kitangle']
PROP['go2lean_diff'] = PROP.get('go2lean_diff', []) + ['KitInt']
PROP['theorems'] = PROP['theorems'] + [
    'Fit.C12.C12_go2lean_toTime',
    'Fit.C12.C12_go2lean_toDegrees',
    'Fit.C12.C12_go2lean_piRadians',
    'Fit.C12.C12_go2lean_tzOffset']
PROP['trusted_base'] = PROP['trusted_base'] + [
    "translators/go2lean (Go→Lean for a small subset of Go, notes/go2lean.md) re-translates the integer parts of kit/datetime/datetime.go (the guard of ToTime, TzOffsetHoursFromUint32) and kit/semicircles/semicircles.go (the guard of ToDegrees, the constant piRadians) from the current source on every run; C12_go2lean_* state that they are the guards / the constant of Fit.TimeAngle.toTime / toDegrees / conversionFactor; time.Time, Duration.Seconds() and all float arithmetic are outside the subset and stay tied by the family timeangle; trusted: the translator's rendering of the subset and FitModel/GoPrelude.lean"]
