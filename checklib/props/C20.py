from ._common import STD_TRUST


def _regen_toolconsts(ctx):
    """message / field numbers the fitactivity tools use and the remover's known-number list, printed from the compiled packages"""
    import framework as F
    return F.harness_regen(ctx, 'toolconsts', 'ToolConsts.lean')


REGEN = {'toolconsts': _regen_toolconsts}

PROP = dict(
    level='proof',
    regen=['consts', 'toolconsts'],
    theorems=['Fit.C20.C20_conceal_hides', 'Fit.C20.C20_conceal_records_exact', 'Fit.C20.C20_conceal_only_positions',
              'Fit.C20.C20_remove_exact', 'Fit.C20.C20_reduce_exact_distance', 'Fit.C20.C20_reduce_exact_distance_mono',
              'Fit.C20.C20_reduce_exact_time', 'Fit.C20.C20_reduce_conserves', 'Fit.C20.C20_reduce_rdp_sublist', 'Fit.C20.C20_reduce_rdp_exact',
              'Fit.C20.C20_combine_order', 'Fit.C20.C20_combine_sort', 'Fit.C20.C20_combine_accumulate', 'Fit.C20.C20_combine_closed_form', 'Fit.C20.C20_conceal_lap_session_F17_witness',
              'Fit.C20.C20_conceal_lap_session_partial', 'Fit.C20.C20_conceal_lap_session_start_partial', 'Fit.C20.C20_conceal_lap_session_end', 'Fit.C20.C20_conceal_lap_session_none_revealed', 'Fit.C20.C20_agg_invalid_neutral',
              'Fit.C20.C20_conceal_lap_session_allend_fixed', 'Fit.C20.C20_remove_sublist'],
    families=[dict(name='activity', prop=True), dict(name='agg')],
    trusted_base=STD_TRUST + [
        "message and field numbers (record/lap/session/…, position, distance, start_time, total_timer_time) and the remover's list of known message numbers are printed from the compiled packages on every run (Generated/ToolConsts.lean)",
        "the in-place swap-compaction loops are modelled with the array content explicit (kept ++ garbage ++ rest) and proved equal to a filter; the hand-written model is tied by the differential family `activity` (real concealer/remover/reducer/combiner in-process)",
        "carto/rdp (external): its answer is a parameter of the model (the op line carries the Index list rdp.Simplify returns on the same points); slices.SortStableFunc is taken as a stable sort",
    ],
    assumptions=["every field carries a FieldBase (messages as the decoder produces them)",
                 "float64→uint32 conversion of a negative session time gap follows amd64 (flagged in the model; outside every theorem)"],
)

TEXT = dict(
    technique='Lean 4 proof on a message-level model of cmd/fitactivity (scans, lap/session rewrite, swap-compaction loops, accumulator) + differential tie running the real packages on generated activities',
    text='Theorems C20_conceal_hides / _records_exact / _only_positions, C20_conceal_lap_session_partial (no lap/session position into a concealed stretch, for every activity outside the class of the open finding KF-C20-1; the full statement is refuted on the F17 witness) with its stage theorems _start_partial / _end / _none_revealed, C20_remove_exact, C20_reduce_exact_*, C20_reduce_rdp_sublist / _exact, C20_combine_order, C20_combine_sort and C20_combine_accumulate (closed form out = in + Σ last values of the earlier files, through the accumulator invariant) hold for every message list; the model is compared with the real concealer, remover, reducer and combiner on generated activities and the property predicates are evaluated on the implementation output.',
    note='Trusted: Lean kernel; the harness/driver line protocol; rdp.Simplify and the stable sort per contract.',
)
