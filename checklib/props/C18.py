from ._common import STD_TRUST

PROP = dict(
    level='proof',
    regen=['crctable'],
    theorems=['Fit.C18.C18_crc_eq_spec', 'Fit.C18.C18_split_indep', 'Fit.C18.C18_split_many',
              'Fit.C18.C18_reset', 'Fit.C18.C18_state_is_value', 'Fit.C18.C18_sum_layout', 'Fit.C18.C18_write_eq_spec'],
    families=[dict(name='crc', spec=True)],
    trusted_base=STD_TRUST + [
        "crc16.go's 16 table literals are extracted by go/ast on every run (Generated/CrcTable.lean); the shape of compute() is tied by the exhaustive family: all 2^24 three-byte strings = every (state, byte) pair of the step function, digest-compared between implementation, model and bitwise spec",
    ],
    assumptions=["hash state is a uint16 (model: Nat < 2^16, preserved by every step: compute_lt)"],
)

TEXT = dict(
    technique='Lean 4 proof (structural: GF(2)-linearity + 32 kernel-evaluated table rows, induction over the byte string and over write/reset histories); table regenerated from crc16.go; exhaustive differential tie over all 2^24 (state, byte) steps',
    text='Theorems C18_crc_eq_spec / C18_split_indep / C18_split_many / C18_reset / C18_sum_layout hold for every byte string of any length and every partition into writes; the 16 table literals are re-extracted from crc16.go on every run and re-checked by the kernel; the step function of the real code is compared with model and bitwise spec on all 65536×256 (state, byte) pairs plus random write/reset/sum histories.',
    note='Trusted: Lean kernel; go/ast extraction of the table; the harness/driver line protocol; the model of compute() (8 lines) is tied exhaustively at the step level, longer strings by induction in the model and by sampling on the implementation.',
)
