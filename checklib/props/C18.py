from ._common import STD_TRUST

PROP = dict(
    level='proof',
    regen=['crctable'],
    theorems=['Fit.C18.C18_crc_eq_spec', 'Fit.C18.C18_split_indep', 'Fit.C18.C18_split_many',
              'Fit.C18.C18_reset', 'Fit.C18.C18_state_is_value', 'Fit.C18.C18_sum_layout', 'Fit.C18.C18_write_eq_spec'],
    families=[dict(name='crc', spec=True)],
    trusted_base=STD_TRUST + [
        "crc16.go's 16 table literals are extracted by go/ast on every run (Generated/CrcTable.lean); the shape of compute() is tied by the exhaustive family: all 2^24 three-byte strings = every (state, byte) pair of the step function, digest-compared between implementation, model and bitwise spec",
    ],
    assumptions=["hash state is a uint16 (model: Nat < 2^16, preserved by every step: compute_lt)"],
)

TEXT = dict(
    technique='Lean 4 proof (structural: GF(2)-linearity + 32 kernel-evaluated table rows, induction over the byte string and over write/reset histories); table regenerated from crc16.go; exhaustive differential tie over all 2^24 (state, byte) steps',
    text='Theorems C18_crc_eq_spec / C18_split_indep / C18_split_many / C18_reset / C18_sum_layout hold for every byte string of any length and every partition into writes; the 16 table literals are re-extracted from crc16.go on every run and re-checked by the kernel; the step function of the real code is compared with model and bitwise spec on all 65536×256 (state, byte) pairs plus random write/reset/sum histories.',
    note='Trusted: Lean kernel; go/ast extraction of the table; the harness/driver line protocol; the model of compute() (8 lines) is tied exhaustively at the step level, longer strings by induction in the model and by sampling on the implementation.',
)

# --- tie by translation (translators/go2lean, notes/go2lean.md; agreement theorems in lean/FitProps/C18Go2Lean.lean).
# Kept as a separate block so that it never collides with edits of the dictionary above.
PROP['regen'] = PROP['regen'] + ['go2lean:crc16']
PROP['go2lean_diff'] = ['Crc']      # lean/Go2LeanDiff/<Topic>.lean: search for a differing argument when an agreement theorem breaks
PROP['theorems'] = PROP['theorems'] + [
    'Fit.C18.C18_go2lean_table',
    'Fit.C18.C18_go2lean_compute',
    'Fit.C18.C18_go2lean_write',
    'Fit.C18.C18_go2lean_sum16',
    'Fit.C18.C18_go2lean_sum',
    'Fit.C18.C18_go2lean_reset',
    'Fit.C18.C18_go2lean_crc_of_source']
PROP['trusted_base'] = PROP['trusted_base'] + [
    "translators/go2lean (Go→Lean for a small subset of Go, notes/go2lean.md) re-translates kit/hash/crc16/crc16.go (table, compute, Write, Sum16, Sum, Reset, Size, BlockSize; the method set of crc16 must be exactly these) from the current source on every run; the agreement theorems *_go2lean_* state that the translated functions equal the hand-written model functions for all arguments; trusted: the translator's rendering of the subset (go/types computes constants and types) and FitModel/GoPrelude.lean"]
