"""Shared texts for the per-property configuration files (props/Cxx.py).

Each props/Cxx.py defines
  PROP = dict(level=…, regen=[…], theorems=[…], families=[dict(name=…, spec=bool, prop=bool, shrink=bool)],
              trusted_base=[…], assumptions=[…], extra=callable(ctx, spec) | None)
  TEXT = dict(technique=…, text=…, note=…)           (for MANIFEST.json)
  REGEN = {name: callable(ctx) -> bool}               (optional; translators specific to the property)
"""
STD_TRUST = [
    "Lean 4.33.0 kernel (thorough tier: also leanchecker); axioms allowed: propext, Classical.choice, Quot.sound",
    "no native_decide / bv_decide / sorry / own axioms (source scan + #print axioms on every property theorem)",
    "translators (regenerated tables) and the differential correspondence harness (Go) + model driver (Lean) tie the model to /repo",
    "Go compiler/runtime and standard library behave as documented",
]
