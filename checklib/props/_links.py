"""Link theorems between the decoder models (lean/FitProps/Links.lean) as part of a property's check.

The tree holds several models of decoder.go, each tied to the code by its own family; `FitProps/Links.lean` relates them by
machine-checked refinement theorems (`Link_*`), so that the property theorems compose (chunk independence of C08 reaches the
API-level results of C03/C07, the rejections of C04 reach the API, ...). A property that relies on such a composition lists
the link theorems it uses:

    from ._links import with_links
    PROP = dict(..., extra=with_links(_extra_or_None, ['Fit.Links.Link_decprog_eq_api', ...],
                                      crosscheck=[('decapi', 'linkdecapi')]))

On every run of that property's check the hook
  1. builds `FitProps.Links` and the other modules that state listed theorems (`MODULE_OF`; incremental),
  2. audits every listed theorem with `#print axioms` (must exist; axioms within {propext, Classical.choice, Quot.sound}) —
     the source scan for sorry / native_decide / ... of the framework already covers every file under lean/FitProps,
  3. runs the executable cross-check ops of `lean/Driver/Links.lean` on the operation lines of the named families
     (corpus + generated, first token replaced): both models are evaluated by the Lean driver on the same line and the
     projections compared — a disagreement means one of the two models is wrong about the code on that input and is
     reported with the line as replay.
Results go to evidence (`coverage.extra.links`)."""
import os
import re
import subprocess
import time

ALLOWED = {'propext', 'Classical.choice', 'Quot.sound'}

# link theorems that live outside FitProps/Links.lean: name -> module that states them (built and imported by the audit on demand)
MODULE_OF = {
    'Fit.Links.Link_decode_is_apiOf': 'FitProps.LinksApi',
    # (C) DecoderApi.run against (D') DecHist.history, call by call (FitProps/LinksHist.lean, notes/links.md)
    'Fit.Links.Link_dechist_eq_api_partial': 'FitProps.LinksHist',
    'Fit.Links.Link_dechist_values_partial': 'FitProps.LinksHist',
    'Fit.Links.Link_C08_ops_values_partial': 'FitProps.LinksHist',
    'Fit.Links.Link_C08_ops_values_partial_two': 'FitProps.LinksHist',
    'Fit.Links.Link_C07_any_reader_partial': 'FitProps.LinksHist',
}


def _modules(names):
    """the Lean modules that state the listed theorems (`FitProps.Links` always)"""
    return ['FitProps.Links'] + sorted({MODULE_OF[n] for n in names if n in MODULE_OF})


def _audit(ctx, F, names):
    os.makedirs(os.path.join(F.LEAN, 'Audit'), exist_ok=True)
    f = os.path.join(F.LEAN, 'Audit', f'Links_{ctx.prop}.lean')
    with open(f, 'w') as fh:
        for mod in _modules(names):
            fh.write(f'import {mod}\n')
        for th in names:
            fh.write(f'#print axioms {th}\n')
    rc, out = F.sh(['lake', 'env', 'lean', f], cwd=F.LEAN)
    res = {}
    for th in names:
        m = re.search(r"'" + re.escape(th) + r"' depends on axioms: \[([^\]]*)\]", out, re.S)
        if m:
            res[th] = [a.strip() for a in m.group(1).replace('\n', ' ').split(',') if a.strip()]
        elif re.search(r"'" + re.escape(th) + r"' does not depend on any axioms", out):
            res[th] = []
        else:
            res[th] = None
    return res, out


def _family_lines(ctx, F, fam):
    hb = os.path.join(F.BIN, 'fitharness')
    p = subprocess.run([hb, 'gen', fam, '-tier', ctx.tier, '-seed', str(ctx.seed)], stdout=subprocess.PIPE,
                       stderr=subprocess.PIPE, text=True, env=F.GOENV)
    if p.returncode != 0:
        ctx.fail('tool', f'links: harness gen {fam} failed', detail=p.stderr[-1500:])
        return []
    return F.corpus_lines(fam) + [l for l in p.stdout.split('\n') if l.strip() and not l.startswith('#')]


def check_links(ctx, names, crosscheck=(), limit=None):
    import framework as F
    t = time.time()
    info = dict(theorems={}, crosscheck={})
    ok, out = F.lake_build(ctx, _modules(names))
    if not ok:
        br = F.broken_decls(out)
        ctx.fail('proof', 'link theorems no longer check: ' +
                 (', '.join(sorted(set(f'{n} ({f}:{l})' for f, l, n, m in br))[:8]) if br else 'lake build ' + ' '.join(_modules(names)) + ' failed'),
                 broken=[dict(file=f, line=l, decl=n, msg=m[:300]) for f, l, n, m in br], detail=out[-3000:] if not br else '')
        ctx.cov.setdefault('extra', {})['links'] = info
        return
    ax, raw = _audit(ctx, F, names)
    for th, a in ax.items():
        if a is None:
            ctx.fail('proof', f'link theorem {th} not found by #print axioms', detail=raw[-500:])
        elif set(a) - ALLOWED:
            ctx.fail('proof', f'link theorem {th} depends on disallowed axioms {sorted(set(a) - ALLOWED)}')
    info['theorems'] = ax
    ctx.log(f'links: {sum(1 for a in ax.values() if a is not None and not (set(a) - ALLOWED))}/{len(names)} link theorems check with allowed axioms')
    if crosscheck:
        ok, out = F.lake_build(ctx, ['driver'])
        if not ok:
            ctx.fail('tool', 'links: model driver does not build', detail=out[-2000:])
            crosscheck = ()
    for fam, op in crosscheck:
        lines = _family_lines(ctx, F, fam)
        cap = limit or (4000 if ctx.tier == 'quick' else 40000)
        if len(lines) > cap:
            # corpus first, then an even sample of the generated lines
            nc = len(F.corpus_lines(fam))
            step = max(1, (len(lines) - nc) // (cap - min(nc, cap) or 1))
            lines = lines[:nc] + lines[nc::step]
        ops = [op + ' ' + l.split(' ', 1)[1] for l in lines if ' ' in l]
        ans = F.run_driver(ops)
        dist = {}
        for a in ans:
            k = a.split(':')[0] if a.startswith('n/a') or a.startswith('diff') else a
            dist[k] = dist.get(k, 0) + 1
        info['crosscheck'][op] = dict(family=fam, ops=len(ops), answers=dist)
        bad = [(o, a) for o, a in zip(ops, ans) if a != 'ok' and not a.startswith('n/a')]
        if bad:
            o, a = min(bad, key=lambda x: len(x[0]))
            ctx.fail('corr', f'links: two models of the decoder disagree on {len(bad)} of {len(ops)} operations of family {fam} '
                             f'(cross-check {op}: {a}) — one of them is wrong about the code on this input',
                     family=fam, op=o, model=a)
        ctx.log(f'links: cross-check {op} on {len(ops)} operations of family {fam}: {dist}')
    info['time_s'] = round(time.time() - t, 2)
    ctx.timing['links'] = info['time_s']
    ctx.cov.setdefault('extra', {})['links'] = info


def with_links(extra, names, crosscheck=()):
    """compose a property's own `extra` hook (or None) with the link audit"""
    def hook(ctx, spec):
        if extra:
            extra(ctx, spec)
        check_links(ctx, names, crosscheck)
    return hook
