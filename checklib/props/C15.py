import os, re, subprocess, time
from ._common import STD_TRUST


def _regen_sharedstate(ctx):
    """translators/sharedstate: the shared-state inventory of REPO's source (go/types + go/ssa), rebuilt from the files on
    disk when stale, run on every check. Any failure (the repository no longer type-checks, the analysis does not reach a
    fixpoint, the factory tables are not seen, ...) is a tool failure: never a silent pass."""
    import framework as F
    src = os.path.join(F.ROOT, 'translators', 'sharedstate')
    exe = os.path.join(F.BIN, 'sharedstate')
    t = time.time()
    newest = max(os.path.getmtime(os.path.join(src, f)) for f in os.listdir(src))
    if not os.path.exists(exe) or os.path.getmtime(exe) < newest:
        rc, out = F.sh(['go', 'build', '-o', exe, '.'], cwd=src, env=F.GOENV)
        if rc != 0:
            ctx.fail('tool', 'translator sharedstate does not build', detail=out[-2000:])
            return False
    os.makedirs(F.WORK, exist_ok=True)
    rc, out = F.sh([exe, F.REPO, os.path.join(F.LEAN, 'FitModel', 'Generated', 'SharedState.lean'),
                    os.path.join(F.WORK, 'sharedstate.txt')], env=F.GOENV, timeout=600)
    ctx.timing['regen_sharedstate'] = round(time.time() - t, 2)
    if rc != 0:
        ctx.fail('tool', 'translator sharedstate failed: the shared-state inventory could not be derived from the source', detail=out[-2000:])
        return False
    return True


REGEN = {'sharedstate': _regen_sharedstate}

def _race_exec(ctx, lines):
    """run operation lines on the race build; returns (answers, reports)"""
    import framework as F
    from . import _race
    env = dict(F.GOENV, GORACE='halt_on_error=0 history_size=3')
    p = subprocess.run([os.path.join(F.BIN, 'fitharness-race'), 'exec'], input='\n'.join(lines) + '\n',
                       stdout=subprocess.PIPE, stderr=subprocess.PIPE, text=True, env=env, timeout=1800)
    return [l for l in p.stdout.split('\n') if l], _race.parse_reports(p.stderr)


def _sites(rep):
    return '; '.join(f'{a[0]} {a[1]}:{a[2]}' for a in rep['accesses']) or rep['text'][:300]


def _reproducing_line(ctx, candidates, budget=12):
    """an operation line that, run alone on the race build (6 repetitions), makes the detector report: the replay of a
    report that came out of a whole family run. None if no candidate reproduces it (the report stays the evidence)."""
    for l in candidates[:budget]:
        _, reps = _race_exec(ctx, [l] * 6)
        if reps:
            return l
    return None


def _extra(ctx, spec):
    """the `concurrent` family under the race detector (both tiers; sizes differ). Since the repair of KF-C15-1 there
    is no excused site: ANY data race report is a violation.
    (a) the family (a quarter of the mixes share a nil-Factory options object, two fixed dense mixes of them come first):
        answers must equal the model's, no report may appear;
    (b) the corpus lines (witness of the repaired KF-C15-1 and its twin with the Factory set), 6 repetitions each: no report."""
    import framework as F
    from . import _race, _crash
    _crash.report_crashes(ctx)
    if any(f['kind'] == 'tool' for f in ctx.failures):
        return
    n = '600' if ctx.tier == 'thorough' else '80'
    tot = dict(ops=0, mixes_sharing_nil_factory_options=0, reports=0, witness_runs=0, witness_reports=0)
    r = _race.run_race(ctx, 'concurrent', tier=ctx.tier, extra_env=dict(VERIF_CONC_N=n))
    if r is None:
        return
    ops, ans, reports, rc = r
    tot['ops'] = len(ops)
    tot['mixes_sharing_nil_factory_options'] = sum(1 for o in ops if sum(1 for t in o.split(' ') if t.startswith('file:') and t.endswith(':z')) >= 2)
    if not ops:
        ctx.fail('tool', 'race build of the harness produced no operations for family concurrent')
        return
    if not tot['mixes_sharing_nil_factory_options']:
        ctx.fail('tool', 'family concurrent produced no mix in which two conversions share a nil-Factory options object')
        return
    model = F.run_driver(ops)
    bad = [(o, a, b) for o, a, b in zip(ops, ans, model) if a != b]
    if bad:
        o, a, b = min(bad, key=lambda x: len(x[0]))
        ctx.fail('prop', f'under -race: the answer of the implementation (concurrent = solo results, shared options only read) differs from the model on {len(bad)} of {len(ops)} mixes',
                 family='concurrent', op=o, impl=a, model=b, demanded=b)
    tot['reports'] = len(reports)
    corpus = F.corpus_lines('concurrent')
    if reports:
        rep = reports[0]
        dense = [o for o in ops[:3] if 'fresh' not in o.split(' ')]
        op = _reproducing_line(ctx, corpus + dense + sorted(set(ops[3:]), key=len)) or f'(family concurrent under -race, seed {ctx.seed})'
        ctx.fail('prop', f'race detector: {len(reports)} data race report(s) in family concurrent: {_sites(rep)}',
                 family='concurrent', op=op, impl=rep['text'], demanded='no data race')
    # (b) the corpus lines on the race build
    for w in corpus:
        wans, reps = _race_exec(ctx, [w] * 6)
        tot['witness_runs'] += 6
        tot['witness_reports'] += len(reps)
        wm = F.run_driver([w])[0]
        if any(a != wm for a in wans) or len(wans) != 6:
            ctx.fail('prop', 'corpus line under -race: the answer of the implementation differs from the model', family='concurrent',
                     op=w, impl=next((a for a in wans if a != wm), 'no answer'), model=wm, demanded=wm)
        if reps:
            ctx.fail('prop', f'race detector: {len(reps)} data race report(s) on a corpus line (6 repetitions): {_sites(reps[0])}',
                     family='concurrent', op=w, impl=reps[0]['text'], demanded='no data race')
    ctx.cov.setdefault('extra', {})['race'] = tot
    ctx.cov['extra_evaluations'] = ctx.cov.get('extra_evaluations', 0) + tot['ops'] + tot['witness_runs']
    ctx.log(f"concurrent under -race: {tot}")


PROP = dict(
    level='proof',
    regen=['filedefs', 'sharedstate'],
    theorems=['Fit.C15.C15_inventory_writes_guarded', 'Fit.C15.C15_inventory_exceptions_used', 'Fit.C15.C15_no_caller_options_written',
              'Fit.C15.C15_inventory_escapes_listed', 'Fit.C15.C15_no_table_entry_named_unknown', 'Fit.C15.C15_inventory_sees_known_state',
              'Fit.C15.C15_generated_env_ok', 'Fit.C15.C15_generated_programs_wf',
              'Fit.C15.C15_non_interference_prefix', 'Fit.C15.C15_solo_run_is_exec', 'Fit.C15.C15_non_interference',
              'Fit.C15.C15_pool_no_alias', 'Fit.C15.C15_shared_rows_stable', 'Fit.C15.C15_entry_points_non_interference',
              'Fit.C15.C15_witness_double_put', 'Fit.C15.C15_witness_unguarded_read', 'Fit.C15.C15_witness_unguarded_write',
              'Fit.C15.C15_witness_options_write'],
    families=[dict(name='concurrent', prop=True, shrink=True)],
    extra=_extra,
    trusted_base=STD_TRUST + [
        "translators/sharedstate (go/parser + go/types + go/ssa v0.29.0, own reference analysis): the inventory is only as complete as the analysis — "
        "inclusion-based, flow-insensitive points-to with function summaries, one level of field sensitivity for local structs, a one-level type-based heap for "
        "pointers into package state stored in struct fields, interface calls by class hierarchy; pointers into package state buried deeper in heap objects of "
        "unknown provenance are not followed (notes/model-notes-C14-C15.md lists the rules); reflection, unsafe arithmetic, cgo and assembly are not analysed",
        "the model's actions are taken to be what the compiled code does: an access guarded by sync.Once / sync.Pool / a channel is atomic with respect to the "
        "other operations (Go memory model), sync.Pool.Get returns a previously Put value or a fresh New() one",
        "data-race freedom of the compiled binary is SAMPLED, not proved: family `concurrent` runs under the race detector in both tiers (k = 2, 4, 16 "
        "goroutines, GOMAXPROCS 1..16; decoders, encoders with the default validator and developer data, stream encoders, listeners, typed conversions with "
        "shared options, factory first use in a fresh process, the opener's decoder pool); every report is a violation",
        "the 13 listed exceptions of the inventory (FitModel/SharedGen.lean `exceptions`, each with its reason) and the list of tables whose references may "
        "leave the library (`allowedEscapes`)",
    ],
    assumptions=["operations act on distinct objects (own decoder/encoder/listener/file/buffers); only package-level state and read-only option values are shared",
                 "the registration APIs (factory.RegisterMesg, typedef.FileRegister, typedef.MesgNumRegister: documented unsynchronised, start-up only) are not "
                 "called while objects are used concurrently"],
    rule='operations = mixes of k in {2,4,16} goroutines x 2..24 operations on distinct objects; an evaluation = one mix (every operation of it compared with its solo run); race-detector runs counted in extra_evaluations',
)

TEXT = dict(
    technique='(1) shared-state inventory regenerated from the Go source by a go/ssa reference analysis, obligations over it decided by the Lean kernel; '
              '(2) Lean 4 proof of non-interference for all interleavings of all well-formed programs over a hand-written model of exactly the inventory rows '
              '(simulation of every thread by its solo run under a no-alias / Once / read-only invariant); (3) the programs of the real entry points derived from '
              'the regenerated call-graph touches and decided well formed; differential tie (concurrent vs solo on the real code) and race-detector runs',
    text='REGENERATED AND PROVED (kernel-decided over FitModel/Generated/SharedState.lean on every run): every package-level variable of the packages behind the '
         'public API that is written after initialisation is a sync.Pool used only through Get/Put by users that obey the pool discipline (balance along all '
         'paths, the object put back is the one taken, not used after Put, Reset after Get or used only as an empty append scratch), or is written only inside one '
         'sync.Once and read only after a Do call on it, or is one of 13 listed (variable, function) exceptions with reasons; no exported function writes through a '
         'caller-supplied pointer to an options type; references into package state leave the library only for the listed read-only tables; no factory table entry '
         'carries the name by which the decoder recognises a field description it may complete in place. '
         'HAND-MODELLED AND PROVED for all programs, all interleavings, all resolutions of sync.Pool.Get: over a model whose shared state is exactly the inventory '
         'rows (data cells, a three-state Once whose closure publishes and fills step by step while others block, pools of objects with identity, caller option '
         'objects), every well-formed operation observes exactly what it observes when run alone (the solo run is the same semantics with one thread and '
         'terminates), no pooled object has two holders, a done Once has all its rows built; four witness theorems show that dropping a guard (object put back '
         'twice, table read in front of its Once, unguarded write of shared state, write to a caller options object) breaks this in the model. '
         'TIED BY REGENERATION: the program of every exported function is derived from the rows its call graph touches and is decided well formed, so the theorem '
         'applies to every set of entry points; the driver executes these programs.',
    note='Proof level covers the inventory obligations, the model theorem and the well-formedness of the derived programs. NOT proved, only sampled: that the '
         'model\'s atomic actions are what the compiled code does and that the binary has no word-level data race — family `concurrent` compares every goroutine\'s '
         'result with its solo result on the real code and runs under the race detector in both tiers (quick: 125 + 80 mixes, thorough: 1500 + 600; k = 2, 4, 16 '
         'goroutines, GOMAXPROCS 1..16; decoders, encoders and stream encoders with the default validator and developer data, listeners, typed conversions with '
         'shared set / nil-Factory options, factory first use in a fresh process, opener pool); the inventory is as complete as the reference analysis '
         '(trusted_base). Assumption: the registration APIs are not called concurrently with use.',
)
