import os, re, subprocess, time
from ._common import STD_TRUST

KF_ID = 'KF-C15-1'


def _is_f16_site(acc):
    """an access of a race report is the known site iff its source line is the options.Factory nil check / assignment
    of a generated ToMesg"""
    fn, base, line, path = acc
    if '/profile/mesgdef/' not in path or not base.endswith('_gen.go'):
        return False
    try:
        src = open(path).read().split('\n')[line - 1]
    except Exception:  # noqa
        return False
    return 'options.Factory' in src


def _classify(reports):
    known, other = [], []
    for r in reports:
        accs = r['accesses']
        if len(accs) >= 2 and all(_is_f16_site(a) for a in accs):
            known.append(r)
        else:
            other.append(r)
    return known, other


def _race_exec(ctx, lines):
    """run operation lines on the race build; returns (answers, reports)"""
    import framework as F
    from . import _race
    env = dict(F.GOENV, GORACE='halt_on_error=0 history_size=3')
    p = subprocess.run([os.path.join(F.BIN, 'fitharness-race'), 'exec'], input='\n'.join(lines) + '\n',
                       stdout=subprocess.PIPE, stderr=subprocess.PIPE, text=True, env=env, timeout=1800)
    return [l for l in p.stdout.split('\n') if l], _race.parse_reports(p.stderr)


def _extra(ctx, spec):
    """the `concurrent` family under the race detector (both tiers; sizes differ):
    (a) mixes WITHOUT a shared nil-factory options object: no report at all may appear;
    (b) mixes with it: every report must be the KF-C15-1 site (options.Factory in a generated ToMesg);
    (c) the witness of KF-C15-1 alone: if the detector reports the site, the finding is still there."""
    import framework as F
    from . import _race, _crash
    _crash.report_crashes(ctx)
    if any(f['kind'] == 'tool' for f in ctx.failures):
        return
    n = '300' if ctx.tier == 'thorough' else '40'
    tot = dict(ops=0, reports_without_shared_nil=0, reports_known_site=0, reports_other=0)
    for label, env in (('noz', dict(VERIF_CONC_NOZ='1', VERIF_CONC_N=n)), ('z', dict(VERIF_CONC_N=n))):
        r = _race.run_race(ctx, 'concurrent', tier=ctx.tier, extra_env=env)
        if r is None:
            return
        ops, ans, reports, rc = r
        ctx.timing['race_concurrent_' + label] = ctx.timing.get('race_concurrent', 0)
        tot['ops'] += len(ops)
        if not ops:
            ctx.fail('tool', 'race build of the harness produced no operations for family concurrent')
            return
        model = F.run_driver(ops)
        bad = [(o, a, b) for o, a, b in zip(ops, ans, model) if a != b]
        if bad:
            o, a, b = min(bad, key=lambda x: len(x[0]))
            ctx.fail('prop', f'under -race ({label}): the result of an operation run concurrently differs from its solo run on {len(bad)} of {len(ops)} mixes',
                     family='concurrent', op=o, impl=a, model=b, demanded=b)
        known, other = _classify(reports)
        listed = any(k.get('id') == KF_ID and k.get('status') == 'open' for k in F.load_known('C15'))
        if not listed:      # nothing is excused unless the finding is listed
            other, known = known + other, []
        if label == 'noz':
            tot['reports_without_shared_nil'] = len(reports)
            other = reports   # nothing is excused here
        else:
            tot['reports_known_site'] += len(known)
        tot['reports_other'] += len(other)
        if other:
            rep = other[0]
            sites = '; '.join(f'{a[0]} {a[1]}:{a[2]}' for a in rep['accesses']) or rep['text'][:300]
            # an operation line to replay: the first mix of this run whose class is the options sharing, if the report is that site
            op = f'(family concurrent under -race, {label}, seed {ctx.seed})'
            if len(rep['accesses']) >= 2 and all(_is_f16_site(a) for a in rep['accesses']):
                cls = F.run_driver(ops, mode='--kf')
                op = next((o for o, c in zip(ops, cls) if KF_ID in c.split(',')), op)
            ctx.fail('prop', f'race detector: {len(other)} data race report(s) outside the listed site ({label} run): {sites}',
                     family='concurrent', op=op, impl=rep['text'], demanded='no data race')
    ctx.cov.setdefault('extra', {})['race'] = tot
    ctx.cov['extra_evaluations'] = ctx.cov.get('extra_evaluations', 0) + tot['ops']
    ctx.log(f"concurrent under -race: {tot}")
    # (c) the listed finding: replay its witness on the race build
    for k in F.load_known('C15'):
        if k.get('status') != 'open' or k.get('id') != KF_ID:
            continue
        w = k['witness']
        seen = 0
        for attempt in range(4):
            ans, reps = _race_exec(ctx, [w] * 6)
            kn, ot = _classify(reps)
            if ot:
                ctx.fail('prop', 'witness of KF-C15-1 under -race: a report outside the listed site', op=w, impl=ot[0]['text'], demanded='no data race')
            seen += len(kn)
            if seen:
                break
        cl = F.run_driver([w], mode='--kf')[0]
        if seen and KF_ID in cl.split(','):
            ctx.known.append(f"{k['id']} {k['what']}")
        else:
            ctx.log(f'note: the race detector no longer reports the site of {KF_ID} on its witness')


PROP = dict(
    level='proof',
    regen=['filedefs'],
    theorems=['Fit.C15.C15_pool_inv', 'Fit.C15.C15_op_result_indep_of_pool', 'Fit.C15.C15_actions_commute',
              'Fit.C15.C15_non_interference_prefix', 'Fit.C15.C15_non_interference', 'Fit.C15.C15_no_conflict_partial',
              'Fit.C15.C15_KF1_witness'],
    families=[dict(name='concurrent', prop=True, shrink=True)],
    extra=_extra,
    trusted_base=STD_TRUST + [
        "the list of shared cells in FitModel/Shared.lean (factory table behind sync.Once, mesgdef's sync.Pool, caller-provided Options) comes from reading the code and from -race runs; an unmodelled shared word is visible only to the race detector",
        "sync.Once / sync.Pool / channels synchronise as documented (Go memory model); sync.Pool.Get returns a previously Put value or a fresh New() one",
        "data-race freedom of the compiled binary is SAMPLED: family `concurrent` runs under the race detector in both tiers (mixes without a shared nil-factory options object must be report-free; with it, only the KF-C15-1 site may be reported)",
    ],
    assumptions=["operations act on distinct objects (own decoder/encoder/listener/file/buffers); only package-level state and read-only option values are shared"],
    rule='operations = mixes of k in {2,4,16} goroutines x 2..24 operations on distinct objects; an evaluation = one mix (every operation of it compared with its solo run); race-detector runs counted in extra_evaluations',
)

TEXT = dict(
    technique='Lean 4 proof of non-interference for interleavings of atomic actions over a model of the shared package state (simulation invariant, commutation), differential tie (concurrent vs solo results on the real code) and race-detector runs',
    text='For every set of operations over the modelled alphabet (pool Get/Put, once-guarded factory table, options nil check, private steps), every interleaving and every resolution of sync.Pool.Get, each operation ends with the result of its solo run; the pool only holds zeroed arrays and results do not depend on that; actions of different operations commute. Sharing one *mesgdef.Options with nil Factory makes every ToMesg write it: proved conflict in the model and reported by the race detector (open finding KF-C15-1); with Factory set no operation writes a shared options object.',
    note='Proof level for the model; partial for the binary: word-level races of the compiled code are sampled by the race detector (k = 2, 4, 16 goroutines, GOMAXPROCS 1..16, decoders, encoders, listeners, typed conversions, factory first use in a fresh process, opener pool), not proved.',
)
