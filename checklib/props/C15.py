import os, re, subprocess, time
from ._common import STD_TRUST

def _race_exec(ctx, lines):
    """run operation lines on the race build; returns (answers, reports)"""
    import framework as F
    from . import _race
    env = dict(F.GOENV, GORACE='halt_on_error=0 history_size=3')
    p = subprocess.run([os.path.join(F.BIN, 'fitharness-race'), 'exec'], input='\n'.join(lines) + '\n',
                       stdout=subprocess.PIPE, stderr=subprocess.PIPE, text=True, env=env, timeout=1800)
    return [l for l in p.stdout.split('\n') if l], _race.parse_reports(p.stderr)


def _sites(rep):
    return '; '.join(f'{a[0]} {a[1]}:{a[2]}' for a in rep['accesses']) or rep['text'][:300]


def _reproducing_line(ctx, candidates, budget=12):
    """an operation line that, run alone on the race build (6 repetitions), makes the detector report: the replay of a
    report that came out of a whole family run. None if no candidate reproduces it (the report stays the evidence)."""
    for l in candidates[:budget]:
        _, reps = _race_exec(ctx, [l] * 6)
        if reps:
            return l
    return None


def _extra(ctx, spec):
    """the `concurrent` family under the race detector (both tiers; sizes differ). Since the repair of KF-C15-1 there
    is no excused site: ANY data race report is a violation.
    (a) the family (a quarter of the mixes share a nil-Factory options object, two fixed dense mixes of them come first):
        answers must equal the model's, no report may appear;
    (b) the corpus lines (witness of the repaired KF-C15-1 and its twin with the Factory set), 6 repetitions each: no report."""
    import framework as F
    from . import _race, _crash
    _crash.report_crashes(ctx)
    if any(f['kind'] == 'tool' for f in ctx.failures):
        return
    n = '600' if ctx.tier == 'thorough' else '80'
    tot = dict(ops=0, mixes_sharing_nil_factory_options=0, reports=0, witness_runs=0, witness_reports=0)
    r = _race.run_race(ctx, 'concurrent', tier=ctx.tier, extra_env=dict(VERIF_CONC_N=n))
    if r is None:
        return
    ops, ans, reports, rc = r
    tot['ops'] = len(ops)
    tot['mixes_sharing_nil_factory_options'] = sum(1 for o in ops if sum(1 for t in o.split(' ') if t.startswith('file:') and t.endswith(':z')) >= 2)
    if not ops:
        ctx.fail('tool', 'race build of the harness produced no operations for family concurrent')
        return
    if not tot['mixes_sharing_nil_factory_options']:
        ctx.fail('tool', 'family concurrent produced no mix in which two conversions share a nil-Factory options object')
        return
    model = F.run_driver(ops)
    bad = [(o, a, b) for o, a, b in zip(ops, ans, model) if a != b]
    if bad:
        o, a, b = min(bad, key=lambda x: len(x[0]))
        ctx.fail('prop', f'under -race: the answer of the implementation (concurrent = solo results, shared options only read) differs from the model on {len(bad)} of {len(ops)} mixes',
                 family='concurrent', op=o, impl=a, model=b, demanded=b)
    tot['reports'] = len(reports)
    corpus = F.corpus_lines('concurrent')
    if reports:
        rep = reports[0]
        dense = [o for o in ops[:3] if 'fresh' not in o.split(' ')]
        op = _reproducing_line(ctx, corpus + dense + sorted(set(ops[3:]), key=len)) or f'(family concurrent under -race, seed {ctx.seed})'
        ctx.fail('prop', f'race detector: {len(reports)} data race report(s) in family concurrent: {_sites(rep)}',
                 family='concurrent', op=op, impl=rep['text'], demanded='no data race')
    # (b) the corpus lines on the race build
    for w in corpus:
        wans, reps = _race_exec(ctx, [w] * 6)
        tot['witness_runs'] += 6
        tot['witness_reports'] += len(reps)
        wm = F.run_driver([w])[0]
        if any(a != wm for a in wans) or len(wans) != 6:
            ctx.fail('prop', 'corpus line under -race: the answer of the implementation differs from the model', family='concurrent',
                     op=w, impl=next((a for a in wans if a != wm), 'no answer'), model=wm, demanded=wm)
        if reps:
            ctx.fail('prop', f'race detector: {len(reps)} data race report(s) on a corpus line (6 repetitions): {_sites(reps[0])}',
                     family='concurrent', op=w, impl=reps[0]['text'], demanded='no data race')
    ctx.cov.setdefault('extra', {})['race'] = tot
    ctx.cov['extra_evaluations'] = ctx.cov.get('extra_evaluations', 0) + tot['ops'] + tot['witness_runs']
    ctx.log(f"concurrent under -race: {tot}")


PROP = dict(
    level='proof',
    regen=['filedefs'],
    theorems=['Fit.C15.C15_pool_inv', 'Fit.C15.C15_op_result_indep_of_pool', 'Fit.C15.C15_actions_commute',
              'Fit.C15.C15_non_interference_prefix', 'Fit.C15.C15_non_interference', 'Fit.C15.C15_options_never_written',
              'Fit.C15.C15_no_conflict', 'Fit.C15.C15_shared_options_result'],
    families=[dict(name='concurrent', prop=True, shrink=True)],
    extra=_extra,
    trusted_base=STD_TRUST + [
        "the list of shared cells in FitModel/Shared.lean (factory table behind sync.Once, mesgdef's sync.Pool, caller-provided Options) comes from reading the code and from -race runs; an unmodelled shared word is visible only to the race detector",
        "sync.Once / sync.Pool / channels synchronise as documented (Go memory model); sync.Pool.Get returns a previously Put value or a fresh New() one",
        "data-race freedom of the compiled binary is SAMPLED: family `concurrent` runs under the race detector in both tiers; every report is a violation (no excused site since the repair of KF-C15-1); that shared option values are only read is also observed directly (the shared options objects are compared with their values before the concurrent phase)",
    ],
    assumptions=["operations act on distinct objects (own decoder/encoder/listener/file/buffers); only package-level state and read-only option values are shared"],
    rule='operations = mixes of k in {2,4,16} goroutines x 2..24 operations on distinct objects; an evaluation = one mix (every operation of it compared with its solo run); race-detector runs counted in extra_evaluations',
)

TEXT = dict(
    technique='Lean 4 proof of non-interference for interleavings of atomic actions over a model of the shared package state (simulation invariant, commutation), differential tie (concurrent vs solo results on the real code) and race-detector runs',
    text='For every set of operations over the modelled alphabet (pool Get/Put, once-guarded factory table, options nil check, private steps), every interleaving and every resolution of sync.Pool.Get, each operation ends with the result of its solo run; the pool only holds zeroed arrays and results do not depend on that; actions of different operations commute. No operation ever writes an options object of the caller, whether its Factory is set or nil, shared or not (ToMesg takes the default factory in a local since the repair of KF-C15-1), so there is no conflict on shared option values and conversions sharing one yield their solo results; the shared options objects of the implementation are observed unchanged and the race detector must stay silent.',
    note='Proof level for the model; partial for the binary: word-level races of the compiled code are sampled by the race detector (k = 2, 4, 16 goroutines, GOMAXPROCS 1..16, decoders, encoders, listeners, typed conversions, factory first use in a fresh process, opener pool), not proved.',
)
