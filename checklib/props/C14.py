import os
from ._common import STD_TRUST


def _regen_filedefs(ctx):
    """black-box probe of every file type of filedef.PredefinedFileSet() → Generated/FileDefs.lean"""
    import framework as F
    out = os.path.join(F.LEAN, 'FitModel', 'Generated', 'FileDefs.lean')
    try:
        ans = F.run_harness_exec(['filedefprobe ' + out], timeout=300)[0]
    except Exception as e:  # noqa
        ans = f'error {e!r}'
    if not ans.startswith('ok '):
        ctx.fail('tool', 'file-type probe failed: the behaviour of a file type is not expressible in the table (' + ans[:300] + ')')
        return False
    ctx.cov.setdefault('extra', {})['filedef_probe'] = ans
    return True


REGEN = {'filedefs': _regen_filedefs}

PROP = dict(
    level='proof',
    regen=['filedefs'],
    theorems=['Fit.C14.C14_tables_ok', 'Fit.C14.C14_build_keeps_last', 'Fit.C14.C14_conservation',
              'Fit.C14.C14_conservation_no_file_id', 'Fit.C14.C14_prefix_order', 'Fit.C14.C14_sort_stable',
              'Fit.C14.C14_sort_unique', 'Fit.C14.C14_timestampless_first', 'Fit.C14.C14_sorted_stable_partial',
              'Fit.C14.C14_sorted_suffix', 'Fit.C14.C14_KF2_witness'],
    families=[dict(name='filedef', prop=True), dict(name='listener', spec=True)],
    trusted_base=STD_TRUST + [
        "file-type tables (slot kinds, emission order, sort start, candidate-field modes) are regenerated on every run by black-box probing of filedef.PredefinedFileSet() with tagged messages",
    ],
    assumptions=["slices.SortStableFunc returns the stable sorted permutation (unique: sortStable_unique)"],
)

TEXT = dict(
    technique='Lean 4 proof over regenerated file-type tables + labelled transition system of the listener; differential tie',
    text='(in progress)',
    note='(in progress)',
)
