import os
from ._common import STD_TRUST


def _regen_filedefs(ctx):
    """black-box probe of every file type of filedef.PredefinedFileSet() → Generated/FileDefs.lean"""
    import framework as F
    out = os.path.join(F.LEAN, 'FitModel', 'Generated', 'FileDefs.lean')
    try:
        ans = F.run_harness_exec(['filedefprobe ' + out], timeout=300)[0]
    except Exception as e:  # noqa
        ans = f'error {e!r}'
    if not ans.startswith('ok '):
        ctx.fail('tool', 'file-type probe failed: the behaviour of a file type is not expressible in the table (' + ans[:300] + ')')
        return False
    ctx.cov.setdefault('extra', {})['filedef_probe'] = ans
    return True


def _regen_listenerfacts(ctx):
    """obsolete since the repair of KF-C14-1 (the model follows the code for buffer size 0; nothing is probed any more).
    The step name is kept because checklib/props/C15.py still lists it; it only removes the file older runs generated."""
    import framework as F
    out = os.path.join(F.LEAN, 'FitModel', 'Generated', 'ListenerFacts.lean')
    if os.path.exists(out):
        os.remove(out)   # the registries are regenerated from what is on disk before every lake build
    return True


REGEN = {'filedefs': _regen_filedefs, 'listenerfacts': _regen_listenerfacts}


def _detector_selftest(ctx):
    """the deadlock detector of the listener family must still recognise a deadlock (a listener that certainly blocks
    forever: the zero Listener, whose pool channel is nil) — otherwise "no deadlock observed" would mean nothing"""
    import framework as F
    try:
        ans = F.run_harness_exec(['listenerselftest'], timeout=300)[0]
    except Exception as e:  # noqa
        ans = f'error {e!r}'
    ctx.cov.setdefault('extra', {})['listener_deadlock_detector'] = ans
    if not ans.startswith('ok '):
        ctx.fail('tool', 'deadlock detector self-test of the listener family failed (' + ans[:300] + ')')


def _extra(ctx, spec):
    from . import _crash
    _crash.report_crashes(ctx)
    _detector_selftest(ctx)
    _race_extra(ctx, spec)


def _race_extra(ctx, spec):
    """both tiers: the listener family (quick-tier size: 1500 operations, all buffer sizes, Reset chains, customised file
    sets) once more under the race detector; any report is a violation ("without deadlock or data race"), answers must
    equal the model's as in the plain run. (≈ 15 s once the race build of the harness is cached.)"""
    import framework as F
    from . import _race
    r = _race.run_race(ctx, 'listener', tier='quick')
    if r is None:
        return
    ops, ans, reports, rc = r
    model = F.run_driver(ops)
    nd = sum(1 for a, b in zip(ans, model) if a != b)
    ctx.cov.setdefault('extra', {})['listener_race'] = dict(ops=len(ops), race_reports=len(reports), disagreements=nd)
    ctx.cov['extra_evaluations'] = ctx.cov.get('extra_evaluations', 0) + len(ops)
    ctx.log(f'listener under -race: {len(ops)} ops, {len(reports)} race reports, {nd} disagreements')
    if len(ops) == 0:
        ctx.fail('tool', 'race build of the harness produced no operations')
    if nd:
        o, a, b = next((o, a, b) for o, a, b in zip(ops, ans, model) if a != b)
        ctx.fail('corr', f'listener under -race: implementation and model differ on {nd} operations', family='listener', op=o, impl=a[:2000], model=b[:2000])
    if reports:
        ctx.fail('prop', f'race detector reported {len(reports)} data race(s) in the listener family', family='listener',
                 op='(whole family run under -race)', impl=reports[0]['text'], demanded='no data race')

PROP = dict(
    level='proof',
    regen=['filedefs', 'mesgdef', 'profiletables13'],   # the last two: the typed-struct tables and the factory dump of C13 (content theorems, family op filedefc)
    theorems=['Fit.C14.C14_tables_ok', 'Fit.C14.C14_build_keeps_last', 'Fit.C14.C14_conservation',
              'Fit.C14.C14_conservation_no_file_id', 'Fit.C14.C14_prefix_order', 'Fit.C14.C14_sort_stable',
              'Fit.C14.C14_sort_unique', 'Fit.C14.C14_timestampless_first', 'Fit.C14.C14_sorted_stable_partial',
              'Fit.C14.C14_sorted_suffix', 'Fit.C14.C14_KF2_witness', 'Fit.C14.C14_file_types_pinned', 'Fit.C14.C14_stable_within_kind',
              'Fit.C14.C14_KF2_class', 'Fit.C14.C14_sorted_unrelated_only', 'Fit.C14.C14_content_stable_within_kind',
              'Fit.C14.C14_content_tables_ok', 'Fit.C14.C14_content_no_panic', 'Fit.C14.C14_content_nil_fieldbase_panics',
              'Fit.C14.C14_content_model_eq', 'Fit.C14.C14_content_norm', 'Fit.C14.C14_content_is_typed_normal',
              'Fit.C14.C14_content_first_sentence_partial', 'Fit.C14.C14_content_conservation_no_file_id',
              'Fit.C14.C14_listener_inv', 'Fit.C14.C14_listener_progress', 'Fit.C14.C14_listener_deadlock_free', 'Fit.C14.C14_listener_eq_sequential',
              'Fit.C14.C14_listener_never_deadlocked', 'Fit.C14.C14_listener_no_carry_over', 'Fit.C14.C14_listener_run_is_path',
              'Fit.C14.C14_listener_unbuffered_handover', 'Fit.C14.C14_listener_buffer0_completes',
              'Fit.C14.C14_listener_builds_file', 'Fit.C14.C14_listener_no_data_race', 'Fit.C14.C14_listener_access_frame',
              'Fit.C14.C14_listener_terminates', 'Fit.C14.C14_listener_file_sets', 'Fit.C14.C14_listener_legacy_is_instance'],
    extra=_extra,
    families=[dict(name='filedef', prop=True, spec=True), dict(name='listener', spec=True)],
    trusted_base=STD_TRUST + [
        "the listener is a hand-written transition system over listener.go (channel semantics per the Go spec: buffered send/receive, unbuffered rendezvous, close; the options cell l.options.fileSets written by Reset and read by the worker); it is tied to the code by behaviour: results of every File(), and deadlock / termination, for buffer sizes 0..8, 64, 128, chained sequences, Reset/Close reuse, file sets customised with WithFileSets (a fresh map, and an edited copy of PredefinedFileSet()) and WithFileFunc in NewListener and in Reset, GOMAXPROCS 1/2/16, against the model run under a seeded scheduler and against the one-thread specification",
        "the access annotation of the no-data-race theorem (which memory cells each step of either thread reads and writes) is read off listener.go; its write side is proved complete for the model (C14_listener_access_frame), its correspondence to the compiled code is what the race detector samples",
        "deadlock of the real listener is observed by a stop-the-world goroutine snapshot (calling goroutine and every listener worker blocked in channel operations), not by a timeout",
        "data-race freedom of the COMPILED listener is sampled by the race detector (both tiers: the 1500 quick-tier operations of the listener family), not proved; proved is data-race freedom of the model (C14_listener_no_data_race, from the invariant)",
        "file-type tables (slot kinds, emission order, sort start, candidate-field modes) are regenerated on every run by black-box probing of filedef.PredefinedFileSet() with tagged messages",
        "content of messages: the typed-struct tables of C13 (fitharness regen mesgdef) and the factory dump; that a file type's Add/ToFIT use mesgdef.NewXxx / ToMesg of the message number's own struct and keep other messages verbatim is tied by the op filedefc (real messages in, every output message compared in full with the model and with the demanded normal forms)",
    ],
    assumptions=["slices.SortStableFunc returns the stable sorted permutation (unique: sortStable_unique)"],
)

TEXT = dict(
    technique='Lean 4 proof: multiset conservation / prefix / unique stable sort over file-type tables regenerated by black-box probing, generic in the message representation and instantiated on real protocol messages where Add = C13 ofMesg and ToFIT = C13 toMesg (content = typedNormal, by the C13 theorem); invariant, data-race freedom, deadlock freedom, termination measure and refinement to a one-thread specification for a labelled transition system of the listener with its options (every buffer size >= 0, every file set, every script, every interleaving); differential tie + race detector',
    text=('FILE TYPES. The regenerated table is pinned to the 17 file types by type byte and Go type (C14_file_types_pinned: a type dropped from the registry or the probe cannot pass). For all 17 and every message list: ToFIT(build) is a permutation of the input with singletons keeping their last occurrence (C14_conservation, C14_build_keeps_last), starts with file_id / developer_data_id / field_description (C14_prefix_order), and the rest is the unique stable sort by the timestamp key for the 9 types that sort everything (C14_sorted_stable_partial, C14_sort_unique). Stability is against the emission (slot) order; in terms of ARRIVAL order it is proved within a kind, for all 17 types: the output messages of one number and one timestamp key are in the order in which they were added (C14_stable_within_kind) — between different kinds with equal timestamps the order is the file type\'s slot order. The other 8 types (exactly among device, settings, sport, workout, schedules, goals, segment, segment_list: C14_KF2_class) sort only their unrelated messages, workout nothing: open finding KF-C14-2; what they do guarantee is C14_sorted_unrelated_only (typed kinds in slot order, each in arrival order; unrelated messages stably sorted among themselves / in arrival order for workout). On real protocol messages (C14_content_*): Add stores mesgdef.NewXxx(&m) (C13 ofMesg), ToFIT emits ToMesg (C13 toMesg) and sorts on the emitted messages; by C13_mesg_struct_mesg this equals the same layer applied to the normal forms, so every output message is typedNormal of an input message (typed kinds) or an input message itself (unrelated kinds) and the first sentence of the property holds of real messages (C14_content_first_sentence_partial, C14_content_stable_within_kind). '
          'LISTENER. A two-thread transition system (pool / message / done channels, OnMesg / File / Close / Reset, worker loop) INCLUDING the options: the file sets (WithFileSets / WithFileFunc; generic type, any constructor) are a memory cell that Reset writes and the worker reads when it processes a file_id. For every buffer size >= 0 (0 = unbuffered message channel with a one-slice pool), every file set, every script (Reset through 0 and back, Reset with other file sets) and every interleaving: every pooled slice is exclusively owned (C14_listener_inv); NO DATA RACE in the model — no access of the producer\'s next step conflicts with an access of the worker\'s next step on l.file, l.options or the memory of a slice, derived from the invariant, with an access annotation whose writes are proved complete (C14_listener_no_data_race, C14_listener_access_frame); no deadlock (C14_listener_progress, C14_listener_never_deadlocked; C14_listener_deadlock_free is the same for the model without options, through the embedding — the statement C03 uses); TERMINATION — a measure that every step of either thread decreases: no infinite run, no run longer than mu (linear in the script and the buffer sizes), and every run that cannot be continued has made all its calls and handed out exactly the files of the one-thread execution under the file sets each Reset installed (C14_listener_terminates, C14_listener_eq_sequential); nothing carried from one sequence into the next (C14_listener_no_carry_over); a file_id whose type the file sets in force map to file type T yields T\'s file, one without constructor yields nil (C14_listener_builds_file, C14_listener_file_sets). The model without options (on which C03 states theorems) is this model at the trivial configuration (C14_listener_legacy_is_instance). The deadlock of buffer size 0 (F15) was reported by this check and is repaired in /repo (fixed entry KF-C14-1).'),
    note='Trusted: Lean kernel; the probe that regenerates the file-type tables; the hand-written listener model, its access annotation and Go channel semantics; harness/driver protocol. Content: abstract messages carry an opaque digest (listener model, digest ops); the op filedefc and the C14_content_* theorems are about real messages with the typed normalisation of C13. Data-race freedom of the BINARY is sampled (-race, both tiers), not proved; data-race freedom of the model is proved.',
)
