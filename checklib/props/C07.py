from ._common import STD_TRUST
from ._links import with_links


def _extra(ctx, spec):
    d = ctx.cov.get('families', {}).get('dechist', {}).get('distribution', {})
    ctx.cov['extra'] = {
        'history/sequence pairs by kind of S (0 well-formed, 1 data record without definition, 2 compressed timestamp first, 3 developer field without description)': {k: v for k, v in d.items() if k.startswith('S-kind')},
        'leak probes (predecessor with the file_id last x S that shows surviving definitions / descriptions / accumulator / timestamp x 13 histories)': sum(v for k, v in d.items() if k.startswith('leak-probe')),
        'failing integrity check in a chain, then decode from the start': d.get('failing-integrity-check', 0),
    }


PROP = dict(
    level='proof',
    regen=['crctable', 'consts', 'integconsts', 'decapiconsts', 'decapistdfac'],
    # link theorems between the decoder models this property composes with (additive: checklib/props/_links.py)
    extra=with_links(_extra, ['Fit.Links.Link_decprog_eq_api',
                             'Fit.Links.Link_chunk_indep_api_two',
                             'Fit.Links.Link_stdFactory_ok'],
                     crosscheck=[('dechist', 'linkdecapi')]),
    theorems=['Fit.C07.C07_decode_from_clean', 'Fit.C07.C07_boundary_clean', 'Fit.C07.C07_reset_is_new', 'Fit.C07.C07_integrity_check_is_new',
              'Fit.C07.C07_history_indep_partial', 'Fit.C07.C07_full_fails', 'Fit.C07.C07_overrun_depends_on_op',
              'Fit.C07.C07_rejected_everywhere_partial', 'Fit.C07.C07_decode_ignores_tail', 'Fit.C07.C07_peek_transparent',
              'Fit.C07.C07_former_witnesses'],
    families=[dict(name='dechist', prop=True), dict(name='decapi')],
    trusted_base=STD_TRUST + [
        "the state-machine model of the decoder API (FitModel/DecoderApi.lean; see C03) tied to decoder.go by the families dechist and decapi: per-operation results, returned messages and listener calls of whole API histories compared between the real decoder object and the model",
        "the specification (FitModel/DecoderApiSpec.lean: specRun) says what every call of a history must return using NEW decoders only (St.fresh on the bytes of the current sequence): a function of the sequence's bytes and the options by construction; the next sequence starts at the protocol's end of the consumed one (seqExtent = header size + declared data size + 2 CRC bytes), whatever operation consumed it; --prop evaluates it on the implementation's answers",
        "the documented use of CheckIntegrity is modelled: the operation `ci` is CheckIntegrity() followed by reader.Seek(0, io.SeekStart)",
    ],
    assumptions=[
        "streams are byte strings shorter than 4 GiB (Decoder.cur is a uint32); exact-n reader (C08); acyclic factory components (see C03); factories of the tie: scale-1 components, no sub-fields (see C03)",
        "NoOverrun (open finding KF-C07-4, hypothesis of C07_history_indep_partial, decidable, printed by --kf): no operation follows - without a Reset / CheckIntegrity+re-seek in between - the consumption of a sequence whose last record runs past the declared data size (a new decoder performing the consuming operation does not stop at header + data size + 2), and none is the Discard after a PeekFileId whose last record overran",
        "the verdict of CheckIntegrity itself is C04's subject (nothing demanded here); its effect on what follows is demanded",
    ],
)

TEXT = dict(
    technique='Lean 4 proof: simulation between the decoder object (state machine) and a book-keeping that only uses new decoders, by phases (start / header read / file id peeked / peek failed / dead); loop-splitting lemma (the record loop of Decode continues the loop of PeekFileId), tail independence by a relational Hoare layer over the result monad, fuel irrelevance, header decode independent of the checksum option, Discard ends at the end of the data window wherever inside the window it starts; then a second simulation from that operation-dependent book-keeping (SameOp.specRun, a proof device) to the operation-INDEPENDENT specification specRun (next sequence at the protocol end of the consumed one), valid on histories without an overrunning predecessor; refutation of the full statement by kernel evaluation of a witness; differential correspondence and the specification as oracle on the real decoder',
    text='OPEN FINDING KF-C07-4 - the property as written is FALSE on the current tree (C07_full_fails, C07_overrun_depends_on_op, both kernel-decided on the model the driver runs, reproduced on the real code): Decode / DecodeWithContext / PeekFileId let the last record of a sequence run past the data size its header declares, Discard and CheckIntegrity skip exactly the declared size; after such a predecessor (25 bytes: data size 10, 11 bytes of records) followed by a valid sequence P: Decode,Decode -> ok,ok; Discard,Decode -> ok,"not a FIT file"; PeekFileId,Discard,Decode -> ok,ok,ok. What is proved: C07_history_indep_partial - for every byte stream (< 4 GiB), option set, acyclic factory and every history of Decode / DecodeWithContext (context live, cancelled before the call, or cancelled at any record boundary during it) / PeekFileHeader / PeekFileId / Discard / Next / CheckIntegrity+re-seek / Reset(new reader, new options) THAT SATISFIES NoOverrun (no operation follows the consumption of a sequence whose last record overruns its declared data size, and none is the Discard after an overrunning PeekFileId), every result the decoder object returns - outcome class, FIT, header, file id, listener calls - equals what the specification computes with new decoders on the bytes from the protocol end (header + data size + 2) of the previous sequence, whatever operation consumed that one. The full statement without NoOverrun is kept as def C07_history_indep_full. C07_boundary_clean: every operation ending a sequence leaves per-sequence state and look-ups as new. C07_reset_is_new (no hypothesis at all): after Reset(r, opts) the whole state of the object equals decoder.New(r, opts); C07_integrity_check_is_new: after CheckIntegrity + re-seek a live decoder equals a new one on the same stream, whatever the check found. C07_rejected_everywhere_partial: under NoOverrun a sequence a new decoder rejects with e is rejected with e after every history. C07_decode_ignores_tail: what a new decoder returns on S ++ T is what it returns on S alone (closed for Decode only; Discard / PeekFileHeader / PeekFileId on S ++ T are not covered by a tail theorem). C07_peek_transparent / C07_former_witnesses: kernel evaluations of the witnesses of the three repaired findings (instances, not general statements). F08, F10, F09 were reported by this check on the unchanged tree, repaired in /repo (bbd9d2d, 318ff80, 2f8ae41) and are inside the proved statement; reverting any of the three makes the check print a VIOLATION again.',
    note='One exclusion: the class of KF-C07-4 (NoOverrun), open - a candidate repair (Decode / PeekFileId return an error when the messages end past the declared data size, as the official Java SDK does; the unedited suite passes with it: notes/candidate-fix-KF-C07-4.patch) is not landed because it changes which inputs Decode accepts and every decode-loop model and link theorem of C01/C02/C04/C08/C16 would have to follow (RawDecoder has the same tolerant loop). The former "blind" phase of the specification (nothing demanded after PeekFileId(overrun)+Discard) is gone: it was this class. Proved about the model with scale-1 / no-sub-field factories; tie = differential testing of whole histories (9k histories quick incl. ~800 with overrunning predecessors, plus the decapi family).',
)
