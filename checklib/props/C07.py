from ._common import STD_TRUST
from ._links import with_links


def _extra(ctx, spec):
    d = ctx.cov.get('families', {}).get('dechist', {}).get('distribution', {})
    ctx.cov['extra'] = {
        'history/sequence pairs by kind of S (0 well-formed, 1 data record without definition, 2 compressed timestamp first, 3 developer field without description)': {k: v for k, v in d.items() if k.startswith('S-kind')},
        'leak probes (predecessor with the file_id last x S that shows surviving definitions / descriptions / accumulator / timestamp x 13 histories)': sum(v for k, v in d.items() if k.startswith('leak-probe')),
        'failing integrity check in a chain, then decode from the start': d.get('failing-integrity-check', 0),
    }


PROP = dict(
    level='proof',
    regen=['crctable', 'consts', 'integconsts', 'decapiconsts', 'decapistdfac'],
    # link theorems between the decoder models this property composes with (additive: checklib/props/_links.py)
    extra=with_links(_extra, ['Fit.Links.Link_decprog_eq_api',
                             'Fit.Links.Link_chunk_indep_api_two',
                             'Fit.Links.Link_stdFactory_ok'],
                     crosscheck=[('dechist', 'linkdecapi')]),
    theorems=['Fit.C07.C07_decode_from_clean', 'Fit.C07.C07_boundary_clean', 'Fit.C07.C07_reset_is_new', 'Fit.C07.C07_integrity_check_is_new',
              'Fit.C07.C07_history_indep', 'Fit.C07.C07_rejected_everywhere', 'Fit.C07.C07_decode_ignores_tail', 'Fit.C07.C07_peek_transparent',
              'Fit.C07.C07_former_witnesses'],
    families=[dict(name='dechist', prop=True), dict(name='decapi')],
    trusted_base=STD_TRUST + [
        "the state-machine model of the decoder API (FitModel/DecoderApi.lean; see C03) tied to decoder.go by the families dechist and decapi: per-operation results, returned messages and listener calls of whole API histories compared between the real decoder object and the model",
        "the specification (FitModel/DecoderApiSpec.lean: specRun) says what every call of a history must return using NEW decoders only (St.fresh on the bytes of the current sequence): a function of the sequence's bytes and the options by construction; --prop evaluates it on the implementation's answers",
        "the documented use of CheckIntegrity is modelled: the operation `ci` is CheckIntegrity() followed by reader.Seek(0, io.SeekStart)",
    ],
    assumptions=[
        "streams are byte strings shorter than 4 GiB (Decoder.cur is a uint32); exact-n reader (C08); acyclic factory components (see C03)",
        "after a PeekFileId whose last record overran the data window (malformed predecessor) the specification demands nothing of a following Discard (position not comparable with a new decoder's) until Reset",
        "the verdict of CheckIntegrity itself is C04's subject (nothing demanded here); its effect on what follows is demanded",
    ],
)

TEXT = dict(
    technique='Lean 4 proof: simulation between the decoder object (state machine) and a specification that only uses new decoders, by phases (start / header read / file id peeked / peek failed / dead / blind); loop-splitting lemma (the record loop of Decode continues the loop of PeekFileId), tail independence by a relational Hoare layer over the result monad (every function of the model on a longer stream does what it does on the shorter one), fuel irrelevance, header decode independent of the checksum option, Discard ends at the end of the data window wherever inside the window it starts; differential correspondence and the specification as oracle on the real decoder',
    text='C07_history_indep (full strength, no exclusion): for every byte stream (< 4 GiB), option set, acyclic factory and every history of Decode / DecodeWithContext (context live, cancelled before the call, or cancelled at any record boundary during it) / PeekFileHeader / PeekFileId / Discard / Next / CheckIntegrity+re-seek / Reset(new reader, new options), every result the decoder object returns — outcome class, FIT, header, file id, listener calls — equals what the specification computes with new decoders on the bytes of the current sequence. C07_boundary_clean: every operation ending a sequence leaves per-sequence state and look-ups as new. C07_reset_is_new (no hypothesis at all): after Reset(r, opts) the whole state of the object equals decoder.New(r, opts); C07_integrity_check_is_new: after CheckIntegrity + re-seek a live decoder equals a new one on the same stream, whatever the check found. C07_rejected_everywhere: a sequence a new decoder rejects with e is rejected with e after every history. C07_decode_ignores_tail: what a new decoder returns on S ++ T is what it returns on S alone (same FIT, same listener calls, T left unread; same error unless S merely ended early) — so "the stream from the current sequence on" in the specification is "the bytes of the sequence". C07_peek_transparent / C07_former_witnesses: the witnesses of the three repaired findings now agree with the specification. F08 (look-ups surviving Discard / Reset / CheckIntegrity after PeekFileId), F10 (stale read-buffer bytes after a failing CheckIntegrity) and F09 (PeekFileId reading past a sequence without file_id) were reported by this check on the unchanged tree, repaired in /repo (bbd9d2d, 318ff80, 2f8ae41) and are now part of the proved statement; reverting any of the three makes the check print a VIOLATION again.',
    note='No exclusion left. Proved about the model; tie = differential testing of whole histories (6-8k histories quick, 160k thorough, plus the decapi family).',
)
