from ._common import STD_TRUST

PROP = dict(
    level='proof',
    regen=['crctable', 'consts', 'integconsts', 'decapiconsts'],
    theorems=['Fit.C07.C07_decode_from_clean', 'Fit.C07.C07_boundary_clean', 'Fit.C07.C07_history_indep_partial',
              'Fit.C07.C07_rejected_everywhere_partial', 'Fit.C07.C07_full_fails', 'Fit.C07.C07_witness_peek_past'],
    families=[dict(name='dechist', prop=True), dict(name='decapi')],
    trusted_base=STD_TRUST + [],
    assumptions=[],
)

TEXT = dict(
    technique='Lean 4 proof about a state-machine model of the decoder API; differential correspondence',
    text='(work in progress)',
    note='(work in progress)',
)
