"""A family run that died (a panic in a goroutine of the library cannot be recovered by the harness): find one
operation that crashes a fresh harness process, by bisection over the regenerated operation list, and report it
as a property failure with that operation as the replay."""
import os


def _locate_crash(ctx, fam):
    """a family run died (a panic in a goroutine of the library cannot be recovered by the harness): find one
    operation that crashes a fresh harness process, by bisection over the regenerated operation list"""
    import subprocess
    import framework as F
    hb = os.path.join(F.BIN, 'fitharness')
    p = subprocess.run([hb, 'gen', fam, '-tier', ctx.tier, '-seed', str(ctx.seed)], stdout=subprocess.PIPE,
                       stderr=subprocess.PIPE, text=True, env=F.GOENV)
    ops = F.corpus_lines(fam) + [l for l in p.stdout.split('\n') if l.strip()]

    def crashes(sub):
        q = subprocess.run([hb, 'exec'], input='\n'.join(sub) + '\n', stdout=subprocess.PIPE, stderr=subprocess.PIPE,
                           text=True, env=F.GOENV, timeout=900)
        return q.returncode != 0, q.stderr
    cand, err = ops, ''
    ok, err0 = crashes(cand)
    if not ok:
        return None
    err = err0
    while len(cand) > 1:
        h = len(cand) // 2
        a, e = crashes(cand[:h])
        if a:
            cand, err = cand[:h], e
            continue
        b, e = crashes(cand[h:])
        if b:
            cand, err = cand[h:], e
            continue
        break   # not reproducible on the halves (schedule dependent): report the first op of the smallest crashing set
    first = next((l for l in err.split('\n') if l.startswith('panic:') or l.startswith('fatal error:')), err[:200])
    where = next((l.strip() for l in err.split('\n') if '/profile/' in l or '/decoder/' in l or '/encoder/' in l), '')
    return cand[0], f'crash: {first} {where}'[:400], len(cand)



def report_crashes(ctx):
    import framework as F
    for f in list(ctx.failures):
        if f['kind'] == 'tool' and f['what'].startswith('harness family '):
            fam = f['what'].split(' ')[2]
            try:
                r = _locate_crash(ctx, fam)
            except Exception as e:  # noqa
                ctx.log('crash localisation failed', e)
                r = None
            if r:
                op, how, n = r
                ctx.fail('prop', f'an operation of family {fam} crashes the process (panic outside the calling goroutine); smallest crashing set has {n} operation(s)',
                         family=fam, op=op, impl=how, model=F.run_driver([op])[0][:2000], demanded=F.run_driver([op], mode='--spec')[0][:2000])
