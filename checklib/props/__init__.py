import importlib, os, pkgutil
PROPS, TEXTS, REGEN_EXTRA = {}, {}, {}
for m in sorted(pkgutil.iter_modules([os.path.dirname(__file__)]), key=lambda m: m.name):
    if m.name.startswith('_'):
        continue
    mod = importlib.import_module('props.' + m.name)
    PROPS[m.name] = mod.PROP
    TEXTS[m.name] = mod.TEXT
    REGEN_EXTRA.update(getattr(mod, 'REGEN', {}))
