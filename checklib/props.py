"""Per-property configuration of ./check (what to regenerate, prove, tie and test)."""

STD_TRUST = [
    "Lean 4.33.0 kernel (thorough tier: also leanchecker); axioms allowed: propext, Classical.choice, Quot.sound",
    "no native_decide / bv_decide / sorry / own axioms (source scan + #print axioms on every property theorem)",
    "translators (regenerated tables) and the differential correspondence harness (Go) + model driver (Lean) tie the model to /repo",
    "Go compiler/runtime and standard library behave as documented",
]

PROPS = {}

PROPS['C18'] = dict(
    level='proof',
    regen=['crctable'],
    theorems=['Fit.C18.C18_crc_eq_spec', 'Fit.C18.C18_split_indep', 'Fit.C18.C18_split_many',
              'Fit.C18.C18_reset', 'Fit.C18.C18_state_is_value', 'Fit.C18.C18_sum_layout'],
    families=[dict(name='crc', spec=True)],
    trusted_base=STD_TRUST + [
        "crc16.go's 16 table literals are extracted by go/ast on every run (Generated/CrcTable.lean); the shape of compute() is tied by the exhaustive family: all 2^24 three-byte strings = every (state, byte) pair of the step function, digest-compared between implementation, model and bitwise spec",
    ],
    assumptions=["hash state is a uint16 (model: Nat < 2^16, preserved by every step: compute_lt)"],
)
