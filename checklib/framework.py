"""Framework behind ./check — see DESIGN.md §2.5–2.7."""
import json, os, re, subprocess, sys, time, hashlib, shutil
from concurrent.futures import ThreadPoolExecutor

ROOT = os.path.dirname(os.path.dirname(os.path.abspath(__file__)))
REPO = os.environ.get('VERIF_REPO', '/repo')
LEAN = os.path.join(ROOT, 'lean')
BIN = os.path.join(ROOT, 'bin')
WORK = os.path.join(ROOT, 'work')
# evidence of runs against a scratch copy (VERIF_REPO) never overwrites the evidence for /repo
EVID = os.path.join(ROOT, 'evidence') if REPO == '/repo' else os.path.join(WORK, 'evidence-scratch')
NCPU = os.cpu_count() or 4

ALLOWED_AXIOMS = {'propext', 'Classical.choice', 'Quot.sound'}
# `axiom` / `opaque` as declaration keywords (after attributes and modifiers), `@[extern …]`, `partial def`
FORBIDDEN = re.compile(r'\b(sorry|admit|native_decide|bv_decide|implemented_by|unsafe)\b'
                       r'|^\s*(?:@\[[^\]]*\]\s*)*(?:(?:private|protected|noncomputable|nonrec)\s+)*(?:axiom|opaque)\s'
                       r'|@\[[^\]]*\bextern\b|\bpartial\s+def\b|maxHeartbeats\s+0\b')

GOENV = dict(os.environ, GOFLAGS='-mod=mod', GOPROXY='off', GOSUMDB='off', GOTOOLCHAIN='local',
             CGO_ENABLED=os.environ.get('CGO_ENABLED', '0'))


def sh(cmd, cwd=None, env=None, timeout=None, input=None):
    p = subprocess.run(cmd, cwd=cwd, env=env, timeout=timeout, input=input,
                       stdout=subprocess.PIPE, stderr=subprocess.STDOUT, text=True)
    return p.returncode, p.stdout


class Ctx:
    def __init__(self, prop, tier, seed):
        self.prop, self.tier, self.seed = prop, tier, seed
        self.t0 = time.time()
        self.work = os.path.join(WORK, prop)
        shutil.rmtree(self.work, ignore_errors=True)
        os.makedirs(self.work, exist_ok=True)
        os.makedirs(os.path.join(EVID, 'replays'), exist_ok=True)
        self.failures = []        # dicts: kind (proof|corr|prop|tool), what, replay lines
        self.known = []           # (finding id, what)
        self.log_lines = []
        self.cov = {}             # coverage bits gathered on the way
        self.timing = {}

    def log(self, *a):
        s = ' '.join(str(x) for x in a)
        self.log_lines.append(s)
        print(f'[{self.prop} {time.time()-self.t0:6.1f}s] {s}', flush=True)

    def fail(self, kind, what, **kw):
        d = dict(kind=kind, what=what); d.update(kw)
        self.failures.append(d)
        self.log(f'FAIL[{kind}] {what}')


# ---------------------------------------------------------------- build steps

def build_tools(ctx):
    """(re)build translators and harness from files on disk; the harness links /repo's working tree."""
    os.makedirs(BIN, exist_ok=True)
    t = time.time()
    for tool in ('astfacts', 'go2lean'):
        af = os.path.join(BIN, tool)
        src = os.path.join(ROOT, 'translators', tool)
        if not os.path.exists(af) or os.path.getmtime(af) < max(os.path.getmtime(os.path.join(src, f)) for f in os.listdir(src)):
            rc, out = sh(['go', 'build', '-o', af, '.'], cwd=src, env=GOENV)
            if rc != 0:
                ctx.fail('tool', f'{tool} does not build', detail=out[-2000:])
                return False
    ctx.timing['build_astfacts'] = round(time.time() - t, 2)
    return True


def build_harness(ctx, race=False):
    """the harness is linked against REPO's working tree (default /repo; VERIF_REPO=<scratch copy> to
    try the checks on a modified copy without touching /repo)"""
    t = time.time()
    h = os.path.join(ROOT, 'harness')
    gomod = open(os.path.join(h, 'go.mod')).read()
    gomod = re.sub(r'(replace github.com/muktihari/fit => ).*', lambda m: m.group(1) + REPO, gomod)
    os.makedirs(WORK, exist_ok=True)
    modfile = os.path.join(WORK, 'harness.mod')
    if not os.path.exists(modfile) or open(modfile).read() != gomod:
        open(modfile, 'w').write(gomod)
    try:
        shutil.copy(os.path.join(REPO, 'go.sum'), os.path.join(WORK, 'harness.sum'))
    except OSError:
        pass
    out_bin = os.path.join(BIN, 'fitharness-race' if race else 'fitharness')
    cmd = ['go', 'build', '-modfile', modfile, '-tags', 'verif', '-o', out_bin]
    env = dict(GOENV)
    if race:
        cmd.insert(2, '-race'); env['CGO_ENABLED'] = '1'
    rc, out = sh(cmd + ['.'], cwd=h, env=env)
    ctx.timing['build_harness' + ('_race' if race else '')] = round(time.time() - t, 2)
    if rc != 0:
        # REPO (or the hooks) no longer compile against the harness: the tie cannot be run
        ctx.fail('tool', f'harness does not build against {REPO} working tree', detail=out[-3000:])
        return False
    return True


REGEN = {}

try:
    FLOORS = json.load(open(os.path.join(ROOT, 'checklib', 'floors.json')))
except (OSError, ValueError):
    FLOORS = {}

def regen_step(name):
    def deco(f):
        REGEN[name] = f
        return f
    return deco


@regen_step('crctable')
def _regen_crctable(ctx):
    rc, out = sh([os.path.join(BIN, 'astfacts'), 'crctable', REPO,
                  os.path.join(LEAN, 'FitModel', 'Generated', 'CrcTable.lean')])
    if rc != 0:
        ctx.fail('tool', 'translator crctable failed (source shape changed?)', detail=out[-2000:])
        return False
    return True


# Go → Lean translation of the CURRENT bodies of selected functions of REPO (translators/go2lean, notes/go2lean.md):
# one regeneration step per unit, `go2lean:<unit>` → lean/FitModel/Generated/Go_<unit>.lean. A construct outside the
# translator's subset is a broken tie (kind `tool`): the unit's file is replaced by a stub that does not compile.
GO2LEAN_UNITS = ('crc16', 'basetype', 'proto', 'decoder', 'decoderbits', 'encoder',
                 # units of translators/go2lean/targets_*.go (one file per unit)
                 'encoderlru', 'protomarshal', 'readbuffer', 'readbuffercap', 'rawsize', 'kitint', 'decodersize',
                 'kitangle',
                 'encodermesgdef',
                 )

def _go2lean_step(unit):
    def step(ctx):
        rc, out = sh([os.path.join(BIN, 'go2lean'), REPO, os.path.join(LEAN, 'FitModel', 'Generated'), unit], env=GOENV)
        if rc != 0:
            ctx.fail('tool', f'translator go2lean failed on unit {unit}: a translated function left the subset of Go the translator '
                             f'supports, or its anchor was not found (the tie by translation is broken, not necessarily the property): '
                             + out.strip()[-400:], detail=out[-2000:], go2lean_unit=unit)
            return False
        return True
    return step

for _u in GO2LEAN_UNITS:
    REGEN['go2lean:' + _u] = _go2lean_step(_u)


def go2lean_search(ctx, spec):
    """An agreement theorem (`Cxx_go2lean_*`: translated Go function = hand-written model function) no longer checks, or the
    translation failed: look for a concrete argument on which the two differ (lean/Go2LeanDiff/<Topic>.lean evaluates both on
    boundary and enumerated arguments) and, where the script can name an operation line that reaches those arguments, test the
    property on the implementation with it. The differing arguments go into the replay of the proof failure."""
    topics = spec.get('go2lean_diff', [])
    if not topics:
        return
    pf = [f for f in ctx.failures if f['kind'] == 'proof' and any('go2lean' in (b.get('decl') or '').lower() or 'Go2Lean' in (b.get('file') or '')
                                                                  or 'Generated/Go_' in (b.get('file') or '') for b in f.get('broken', []))]
    if not pf:
        return
    t = time.time()
    diffs = []
    for topic in topics:
        rc, out = sh(['lake', 'env', 'lean', '--run', os.path.join('Go2LeanDiff', topic + '.lean')], cwd=LEAN, timeout=600)
        lines = [l for l in out.split('\n') if l.startswith('DIFF ')]
        if 'DONE' not in out:
            ctx.log(f'go2lean: difference search {topic} did not run to its end (the translated definitions changed shape?): ' + out.strip()[-300:].replace('\n', ' '))
        diffs += lines
    ctx.timing['go2lean_search'] = round(time.time() - t, 2)
    pf[0]['go2lean_diff'] = diffs[:20]
    if not diffs:
        ctx.log('go2lean: no argument found on which the translated functions and the model differ (enumerated/boundary arguments)')
        return
    ctx.log(f'go2lean: translated function and model differ, e.g. {diffs[0][:200]}')
    fams = [f if isinstance(f, dict) else dict(name=f) for f in spec.get('families', [])]
    sm = any(f.get('spec') for f in fams); pm = any(f.get('prop') for f in fams)
    ops = []
    for l in diffs:
        m = re.search(r' op=(.*)$', l)
        if m and m.group(1).strip() not in ('-', ''):
            ops.append(m.group(1).strip())
    ops = list(dict.fromkeys(ops))
    if not ops or any(f['kind'] == 'prop' for f in ctx.failures):
        return
    res = prop_fails(ops, sm, pm)
    model = run_driver(ops)
    for o, r, mo in zip(ops, res, model):
        if r[0]:
            ctx.fail('prop', 'property fails on the implementation on the input derived from the argument on which the translated '
                             'function and the model differ', op=o, impl=r[1], demanded=r[2], model=mo, go2lean_diff=diffs[:5])
            return
    ctx.log(f'go2lean: the property holds on the implementation for the {len(ops)} derived inputs')


def harness_regen(ctx, sub, outfile):
    """regeneration steps implemented inside the harness (they need the compiled repository)"""
    rc, out = sh([os.path.join(BIN, 'fitharness'), 'regen', sub, os.path.join(LEAN, 'FitModel', 'Generated', outfile)], env=GOENV)
    if rc != 0:
        ctx.fail('tool', f'translator {sub} failed', detail=out[-2000:])
        return False
    return True


def lake_build(ctx, targets):
    import gen_registry
    gen_registry.main()
    t = time.time()
    rc, out = sh(['lake', 'build'] + targets, cwd=LEAN)
    ctx.timing['lake_build'] = ctx.timing.get('lake_build', 0) + round(time.time() - t, 2)
    return rc == 0, out


def broken_decls(out):
    """names of the declarations in which lake reported errors (file:line → enclosing theorem)"""
    res = []
    for m in re.finditer(r'error: ([\w/\.]+\.lean):(\d+):(\d+): (.*)', out):
        f, line, msg = m.group(1), int(m.group(2)), m.group(4)
        path = os.path.join(LEAN, f) if not os.path.isabs(f) else f
        name = '?'
        try:
            src = open(path).read().split('\n')
            for i in range(min(line, len(src)) - 1, -1, -1):
                mm = re.match(r'\s*(?:@\[[^\]]*\]\s*)?(?:private\s+|protected\s+)?(theorem|lemma|def|example|instance)\s+([\w\.\']+)?', src[i])
                if mm:
                    name = mm.group(2) or 'example'
                    break
        except OSError:
            pass
        res.append((f, line, name, msg))
    return res


def prop_modules(prop):
    """the files holding the property theorems of <prop>: FitProps/<prop>.lean and, when a property's theorems are
    split over several files, FitProps/<prop><Suffix>.lean with a capitalised suffix (e.g. C01E2E.lean)"""
    d = os.path.join(LEAN, 'FitProps')
    extra = sorted(f[:-5] for f in os.listdir(d) if re.fullmatch(re.escape(prop) + r'[A-Z]\w*\.lean', f))
    return [prop] + extra


def source_theorems(prop):
    """property theorems declared in FitProps/<prop>.lean (and FitProps/<prop><Suffix>.lean): every `theorem <prop>_…`"""
    res = []
    for mod in prop_modules(prop):
        path = os.path.join(LEAN, 'FitProps', mod + '.lean')
        if mod != prop and not os.path.exists(path):
            continue
        src = open(path).read()
        ns = re.search(r'^namespace\s+([\w\.]+)', src, re.M)
        ns = ns.group(1) + '.' if ns else ''
        # `theorem` possibly preceded by attributes (`@[simp]`, also on the line before) and modifiers (`private`, `protected`, …)
        res += [ns + n for n in re.findall(r'^\s*(?:@\[[^\]]*\]\s*)*(?:(?:private|protected|nonrec|noncomputable)\s+)*theorem\s+(' + prop + r"_[\w\']+)", src, re.M)]
    return res


def forbidden_scan(ctx):
    bad = []
    for d in ('FitModel', 'FitProps', 'Driver'):
        for dp, _, fs in os.walk(os.path.join(LEAN, d)):
            for f in fs:
                if not f.endswith('.lean'):
                    continue
                p = os.path.join(dp, f)
                txt = open(p).read()
                txt = re.sub(r'/-.*?-/', lambda m: '\n' * m.group(0).count('\n'), txt, flags=re.S)
                for i, l in enumerate(txt.split('\n')):
                    l = l.split('--')[0]
                    if FORBIDDEN.search(l):
                        bad.append(f'{os.path.relpath(p, LEAN)}:{i+1}: {l.strip()[:80]}')
    for p in (os.path.join(LEAN, 'Main.lean'),):
        pass
    return bad


def audit_axioms(ctx, prop, theorems):
    """#print axioms for each property theorem; returns {theorem: [axioms]} (None if it does not exist)"""
    os.makedirs(os.path.join(LEAN, 'Audit'), exist_ok=True)
    f = os.path.join(LEAN, 'Audit', prop + '.lean')
    with open(f, 'w') as fh:
        for mod in prop_modules(prop):
            fh.write(f'import FitProps.{mod}\n')
        for th in theorems:
            fh.write(f'#print axioms {th}\n')
    t = time.time()
    rc, out = sh(['lake', 'env', 'lean', f], cwd=LEAN)
    ctx.timing['audit'] = round(time.time() - t, 2)
    res = {}
    for th in theorems:
        m = re.search(r"'" + re.escape(th) + r"' depends on axioms: \[([^\]]*)\]", out, re.S)
        if m:
            res[th] = [a.strip() for a in m.group(1).replace('\n', ' ').split(',') if a.strip()]
        elif re.search(r"'" + re.escape(th) + r"' does not depend on any axioms", out):
            res[th] = []
        else:
            res[th] = None
    return res, out


# ---------------------------------------------------------------- correspondence

def run_driver(lines, mode=None):
    """model answers for operation lines (parallel over chunks; order preserved)"""
    if not lines:
        return []
    drv = os.path.join(LEAN, '.lake', 'build', 'bin', 'driver')
    n = max(1, min(NCPU, len(lines) // 50 + 1))
    # weight-balance chunks by line length (round-robin over length-sorted order)
    order = sorted(range(len(lines)), key=lambda i: -len(lines[i]))
    chunks = [[] for _ in range(n)]
    for k, i in enumerate(order):
        chunks[k % n].append(i)
    args = [drv] + ([mode] if mode else [])   # mode ∈ None | --spec | --prop | --kf

    def work(idx):
        inp = '\n'.join(lines[i] for i in idx) + '\n'
        p = subprocess.run(args, input=inp, stdout=subprocess.PIPE, stderr=subprocess.PIPE, text=True)
        outl = p.stdout.split('\n')
        if outl and outl[-1] == '':
            outl.pop()
        if p.returncode != 0 or len(outl) != len(idx):
            outl = (outl + ['driver-crash:' + p.stderr.strip()[-200:].replace('\n', ' ')] * len(idx))[:len(idx)]
        return idx, outl
    res = [None] * len(lines)
    with ThreadPoolExecutor(n) as ex:
        for idx, outl in ex.map(work, chunks):
            for i, o in zip(idx, outl):
                res[i] = o
    return res


def run_harness_exec(lines, race=False, timeout=600):
    hb = os.path.join(BIN, 'fitharness-race' if race else 'fitharness')
    p = subprocess.run([hb, 'exec'], input='\n'.join(lines) + '\n', stdout=subprocess.PIPE,
                       stderr=subprocess.PIPE, text=True, timeout=timeout)
    outl = p.stdout.split('\n')
    if outl and outl[-1] == '':
        outl.pop()
    if len(outl) != len(lines):
        outl = (outl + ['harness-crash'] * len(lines))[:len(lines)]
    return outl


def run_family(ctx, fam, extra_args=(), timeout=3600):
    """generate + execute on the implementation; returns (ops, impl answers, stats)"""
    t = time.time()
    statsf = os.path.join(ctx.work, f'{fam}.stats.json')
    outf = os.path.join(ctx.work, f'{fam}.impl.tsv')
    class _P:
        returncode, stderr = -9, 'family run exceeded its time limit and was killed'
    with open(outf, 'w') as fh:
        try:
            p = subprocess.run([os.path.join(BIN, 'fitharness'), 'run', fam, '-tier', ctx.tier, '-seed', str(ctx.seed),
                                '-stats', statsf] + list(extra_args), stdout=fh, stderr=subprocess.PIPE, text=True,
                               timeout=timeout, env=dict(GOENV, GOMEMLIMIT='8GiB'))
        except subprocess.TimeoutExpired:
            p = _P()
    ops, impl = [], []
    with open(outf) as fh:
        for l in fh:
            l = l.rstrip('\n')
            if '\t' in l:
                a, b = l.split('\t', 1)
                ops.append(a); impl.append(b)
    stats = {}
    try:
        stats = json.load(open(statsf))
    except Exception:
        pass
    if p.returncode == 4 and impl and impl[-1] == 'hang':
        # the harness watchdog: the last operation did not come back within the per-operation limit. The model
        # never answers `hang`, so the correspondence reports it too; here it is named as the failing input.
        ctx.fail('prop', f'an operation of family {fam} does not terminate on the implementation (per-operation time limit); '
                         f'the remaining operations of the family were not run', family=fam, op=ops[-1], impl='hang')
    elif p.returncode != 0:
        ctx.fail('tool', f'harness family {fam} exited {p.returncode}', detail=p.stderr[-2000:])
    ctx.timing[f'impl_{fam}'] = round(time.time() - t, 2)
    return ops, impl, stats


def corpus_lines(fam):
    p = os.path.join(ROOT, 'corpus', fam + '.txt')
    if not os.path.exists(p):
        return []
    return [l.rstrip('\n') for l in open(p) if l.strip() and not l.startswith('#')]


def shrink(line, still_fails, budget=40):
    """token-level shrinking of an operation line: drop tokens, halve hex payloads"""
    toks = line.split(' ')
    rounds = 0
    changed = True
    while changed and rounds < budget:
        changed = False
        rounds += 1
        cands = []
        for i in range(1, len(toks)):
            cands.append(toks[:i] + toks[i+1:])
        for i in range(1, len(toks)):
            if ':' in toks[i]:
                k, v = toks[i].split(':', 1)
                if len(v) >= 4 and re.fullmatch(r'[0-9a-f]+', v):
                    h = (len(v) // 4) * 2
                    cands.append(toks[:i] + [k + ':' + v[:h]] + toks[i+1:])
                    cands.append(toks[:i] + [k + ':' + v[h:]] + toks[i+1:])
        cands = [' '.join(c) for c in cands if len(c) > 1]
        if not cands:
            break
        flags = still_fails(cands)
        for c, f in zip(cands, flags):
            if f:
                toks = c.split(' ')
                changed = True
                break
    return ' '.join(toks)


def correspond(ctx, fam, spec_mode=False, prop_mode=False, shrinkable=True):
    """run one family; compare impl vs model (and vs spec when asked). Returns counts."""
    ops_c = corpus_lines(fam)
    ops, impl, stats = run_family(ctx, fam)
    if ops_c:
        impl = run_harness_exec(ops_c) + impl
        ops = ops_c + ops
    t = time.time()
    model = run_driver(ops)
    ctx.timing[f'model_{fam}'] = round(time.time() - t, 2)
    ndiff = 0
    first = []
    for o, a, b in zip(ops, impl, model):
        if a != b:
            ndiff += 1
            if len(first) < 400:
                first.append((o, a, b))
    if len(ops) == 0:
        ctx.fail('tool', f'family {fam} produced no operations')
    distinct = len(set(ops))
    nontriv = len(set(o for o, a in zip(ops, impl) if a not in ('bad-op', '')))
    ctx.cov.setdefault('families', {})[fam] = dict(ops=len(ops), distinct=distinct, distinct_nontrivial=nontriv,
                                                   disagreements=ndiff, corpus=len(ops_c),
                                                   distribution=stats.get('counts', {}))
    ctx.cov.setdefault('samples', []).extend([{'family': fam, 'op': o[:300], 'impl': a[:300]} for o, a in list(zip(ops, impl))[:3]] +
                                             [{'family': fam, 'op': o[:300], 'impl': a[:300]} for o, a in list(zip(ops, impl))[-2:]])
    ctx.log(f'family {fam}: {len(ops)} ops ({distinct} distinct), {ndiff} disagreements with the model')
    if ndiff:
        # smallest disagreeing op first
        o, a, b = min(first, key=lambda x: (x[0].split(' ')[0].endswith('x'), len(x[0])))
        if shrinkable:
            def still(cands):
                ia = run_harness_exec(cands); ma = run_driver(cands)
                return [x != y and x != 'bad-op' and y != 'bad-op' for x, y in zip(ia, ma)]
            try:
                o2 = shrink(o, still)
                a, b = run_harness_exec([o2])[0], run_driver([o2])[0]
                o = o2
            except Exception as e:
                ctx.log('shrink failed', e)
        ctx.fail('corr', f'correspondence family {fam}: implementation and model differ on {ndiff} of {len(ops)} operations',
                 family=fam, op=o, impl=a, model=b)
    bad = []   # (op, impl, demanded) for every operation on which the property fails on the implementation
    demanded_on = [False] * len(ops)   # the oracle (spec and/or prop) gave a verdict on this operation (not n/a)
    if spec_mode:
        t = time.time()
        spec = run_driver(ops, mode='--spec')
        ctx.timing[f'spec_{fam}'] = round(time.time() - t, 2)
        bad += [(o, a, s) for o, a, s in zip(ops, impl, spec) if s != 'n/a' and a != s]
        ctx.cov['families'][fam]['spec_checked'] = sum(1 for s in spec if s != 'n/a')
        demanded_on = [d or s != 'n/a' for d, s in zip(demanded_on, spec)]
    if prop_mode:
        t = time.time()
        verdict = run_driver([o + '\t' + a for o, a in zip(ops, impl)], mode='--prop')
        ctx.timing[f'prop_{fam}'] = round(time.time() - t, 2)
        bad += [(o, a, v) for o, a, v in zip(ops, impl, verdict) if v not in ('n/a', 'ok')]
        ctx.cov['families'][fam]['prop_checked'] = sum(1 for v in verdict if v != 'n/a')
        demanded_on = [d or v != 'n/a' for d, v in zip(demanded_on, verdict)]
    ctx.cov['families'][fam]['property_failures'] = len(bad)
    before = dict(ctx.cov.get('attributed', {}))
    if bad:
        triage(ctx, fam, bad, dict(zip(ops, zip(impl, model))), spec_mode, prop_mode, shrinkable)
    if spec_mode or prop_mode:
        # honest accounting of what the oracle actually decided (audit X2): on how many generated operations the property
        # was DEMANDED (a verdict other than n/a), on how many of those it HELD, how many failures were attributed to a
        # listed open finding (model = implementation and class predicate), how many operations the oracle abstained on
        after = ctx.cov.get('attributed', {})
        attr = {k: after[k] - before.get(k, 0) for k in after if after[k] - before.get(k, 0)}
        failing_ops = len(set(o for o, _, _ in bad))
        dem = sum(demanded_on)
        fv = ctx.cov['families'][fam]
        fv['oracle'] = dict(demanded=dem, held=dem - failing_ops, failed=failing_ops, attributed_to_known_findings=attr,
                            abstained_na=len(ops) - dem, demanded_fraction=round(dem / max(len(ops), 1), 4))
        floor = FLOORS.get(ctx.prop, {}).get(fam)
        if floor is not None and len(ops) and dem / len(ops) < floor:
            # a property predicate that degrades to n/a must not pass silently
            ctx.fail('tool', f'family {fam}: the property oracle gave a verdict on only {dem} of {len(ops)} operations '
                             f'({dem / len(ops):.3f} < floor {floor}): the check no longer decides what it claims', family=fam)
    return ops, impl, model


# ---------------------------------------------------------------- known findings

def load_known(prop):
    """entries of /verif/known_findings.jsonl for this property (never written at run time)"""
    p = os.path.join(ROOT, 'known_findings.jsonl')
    res = []
    if os.path.exists(p):
        for l in open(p):
            l = l.strip()
            if not l or l.startswith('#'):
                continue
            d = json.loads(l)
            if d.get('property') == prop:
                res.append(d)
    return res


def prop_fails(ops, spec_mode=True, prop_mode=True):
    """does the property fail on the implementation for these operation lines? → list of (bool, impl, demanded)"""
    impl = run_harness_exec(ops)
    res = [(False, a, '') for a in impl]
    if spec_mode:
        spec = run_driver(ops, mode='--spec')
        res = [(r[0] or (s not in ('n/a', 'bad-op') and a != s and a != 'bad-op'), a, s if s != 'n/a' else r[2]) for r, a, s in zip(res, impl, spec)]
    if prop_mode:
        v = run_driver([o + '\t' + a for o, a in zip(ops, impl)], mode='--prop')
        res = [(r[0] or (x not in ('n/a', 'ok', 'bad-op') and a != 'bad-op'), a, x if x not in ('n/a', 'ok') else r[2]) for r, a, x in zip(res, impl, v)]
    return res


def triage(ctx, fam, bad, by_op, spec_mode, prop_mode, shrinkable):
    """attribute property failures to listed open findings (class predicate evaluated by the Lean driver,
    and only when the model reproduces the implementation's answer); everything else is a violation"""
    open_ids = {k['id']: k for k in load_known(ctx.prop) if k.get('status') == 'open'}
    classes = run_driver([o for o, _, _ in bad], mode='--kf')
    unexplained = []
    for (o, a, d), cl in zip(bad, classes):
        ids = [c for c in cl.split(',') if c and c != '-']
        im = by_op.get(o, (None, None))
        hit = [c for c in ids if c in open_ids]
        if hit and im[0] == im[1]:
            ctx.cov.setdefault('attributed', {}).setdefault(hit[0], 0)
            ctx.cov['attributed'][hit[0]] += 1
        else:
            unexplained.append((o, a, d, cl))
    if not unexplained:
        return
    o, a, d, cl = min(unexplained, key=lambda x: (x[0].split(' ')[0].endswith('x'), len(x[0])))
    if shrinkable:
        def still(cands):
            r = prop_fails(cands, spec_mode, prop_mode)
            k = run_driver(cands, mode='--kf')
            return [x[0] and not any(c in open_ids for c in kk.split(',')) for x, kk in zip(r, k)]
        try:
            o2 = shrink(o, still)
            r = prop_fails([o2], spec_mode, prop_mode)[0]
            if r[0]:
                o, a, d = o2, r[1], r[2]
        except Exception as e:
            ctx.log('shrink failed', e)
    ctx.fail('prop', f'property fails on the implementation (family {fam}) on {len(unexplained)} operations not covered by a listed finding',
             family=fam, op=o, impl=a, demanded=d, model=run_driver([o])[0])


def report_known(ctx, spec):
    """replay the witness of every listed open finding; print KNOWN-FINDING for those that still fail"""
    for k in load_known(ctx.prop):
        if k.get('status') != 'open':
            continue
        w = k.get('witness')
        if not w:
            continue
        r = prop_fails([w])[0]
        cl = run_driver([w], mode='--kf')[0]
        model = run_driver([w])[0]
        if r[0] and k['id'] in cl.split(',') and model == r[1]:
            ctx.known.append(f"{k['id']} {k['what']}")
        elif r[0]:
            ctx.fail('prop', f"witness of {k['id']} fails in a way the model does not reproduce (class {cl})", op=w, impl=r[1], model=model, demanded=r[2])
        else:
            ctx.log(f"note: witness of listed finding {k['id']} no longer fails on this tree")


# ---------------------------------------------------------------- decide / evidence

def write_replay(ctx, idx, f):
    p = os.path.join(EVID, 'replays', f'{ctx.prop}-{idx}.json')
    d = dict(property=ctx.prop, tier=ctx.tier, seed=ctx.seed)
    d.update({k: v for k, v in f.items()})
    json.dump(d, open(p, 'w'), indent=1)
    return p


def finish(ctx, spec, proof):
    """print verdict lines, write evidence, return exit code"""
    real = [f for f in ctx.failures]
    has_input = [f for f in real if f['kind'] in ('prop',) or (f['kind'] == 'corr' and f.get('prop_fails'))]
    violations = 0
    for kf in ctx.known:
        print(f"KNOWN-FINDING: property={ctx.prop} {kf}")
    if real:
        # one VIOLATION line per check run; prefer a failure that carries a failing input
        real.sort(key=lambda f: {'prop': 0, 'corr': 1, 'proof': 2, 'tool': 3}[f['kind']])
        seen_input = any(f['kind'] == 'prop' for f in real)
        for i, f in enumerate(real):
            f['replay_path'] = write_replay(ctx, i, f)
        top = real[0]
        violations = len(real)
        tail = '' if seen_input else ' no-failing-input-found'
        print(f"VIOLATION property={ctx.prop} replay={top['replay_path']}{tail}")
    wall = round(time.time() - ctx.t0, 2)
    fams = ctx.cov.get('families', {})
    evaluations = sum(v['ops'] for v in fams.values()) + ctx.cov.get('extra_evaluations', 0)
    dn = sum(v['distinct_nontrivial'] for v in fams.values()) + ctx.cov.get('extra_distinct', 0)
    coverage = dict(
        obligations=proof.get('obligations', 0), discharged=proof.get('discharged', 0),
        checker_cmd=proof.get('checker_cmd', ''), trusted_base=spec.get('trusted_base', []),
        theorems=proof.get('axioms', {}),
        evaluations=max(evaluations, 1), distinct_nontrivial=dn,
        rule=spec.get('rule', 'operations generated by the harness families (structure-aware, one PRNG); distinct = distinct operation lines; non-trivial = the implementation executed it (answer other than bad-op)'),
        samples=ctx.cov.get('samples', [])[:12] or [{'note': 'no operations run'}],
        families=fams, timing_s=ctx.timing,
        known_findings_reported=ctx.known,
        attributed_to_known_findings=ctx.cov.get('attributed', {}),
    )
    if 'extra' in ctx.cov:
        coverage['extra'] = ctx.cov['extra']
    if 'exhaustive' in ctx.cov:
        # the schema wants a boolean under `exhaustive` (true only when the whole run enumerated a finite space);
        # the sub-spaces a check enumerated completely are listed under `exhaustive_parts`
        ex = ctx.cov['exhaustive']
        if isinstance(ex, bool):
            coverage['exhaustive'] = ex
        else:
            coverage['exhaustive'] = False
            coverage['exhaustive_parts'] = ex
    ev = dict(property_id=ctx.prop, tier=ctx.tier, seed=ctx.seed, level=spec.get('level', 'proof'),
              coverage=coverage, assumptions=spec.get('assumptions', []), wall_s=wall, violations=violations)
    if proof.get('obligations', 0) != proof.get('discharged', 0) or proof.get('obligations', 0) == 0:
        ev['coverage']['proof_incomplete'] = True
    json.dump(ev, open(os.path.join(EVID, ctx.prop + '.json'), 'w'), indent=1)
    ctx.log(f'done in {wall}s: {violations} violation(s), {len(ctx.known)} known finding(s)')
    return 1 if real else 0


def prove(ctx, spec):
    """regenerate, build the property's theorems, audit. Returns proof summary dict."""
    prop = ctx.prop
    proof = dict(obligations=0, discharged=0, axioms={}, checker_cmd=f'lake build FitProps.{prop} && lake env lean Audit/{prop}.lean  (#print axioms ⊆ {{propext, Classical.choice, Quot.sound}})')
    for r in spec.get('regen', []):
        if not REGEN[r](ctx):
            if not r.startswith('go2lean:'):
                return proof
            # a unit whose translation failed leaves a stub that does not compile: go on to the build, so that the agreement
            # theorems over the OTHER units (and everything that does not import the stub) are still checked and reported
    required = spec.get('theorems', [])
    ok, out = lake_build(ctx, [f'FitProps.{m}' for m in prop_modules(prop)] + spec.get('lean_extra_targets', []))
    try:
        declared = source_theorems(prop)
    except OSError:
        declared = []
    names = list(dict.fromkeys(declared + [t for t in required]))
    proof['obligations'] = len(names)
    if not ok:
        br = broken_decls(out)
        ctx.log('lake build failed:', '; '.join(f'{f}:{l} in {n}: {m[:120]}' for f, l, n, m in br[:6]) or out[-800:])
        ctx.fail('proof', 'proof obligations no longer check: ' + ', '.join(sorted(set(f'{n} ({f}:{l})' for f, l, n, m in br))[:8]) if br else 'lake build failed',
                 broken=[dict(file=f, line=l, decl=n, msg=m[:300]) for f, l, n, m in br], detail=out[-3000:] if not br else '')
        return proof
    missing = [t for t in required if t not in declared]
    if missing:
        ctx.fail('proof', 'required property theorems missing from source: ' + ', '.join(missing))
    bad = forbidden_scan(ctx)
    if bad:
        ctx.fail('proof', 'forbidden constructs in Lean sources: ' + '; '.join(bad[:5]))
    ax, raw = audit_axioms(ctx, prop, names)
    disch = 0
    for th, a in ax.items():
        if a is None:
            ctx.fail('proof', f'theorem {th} not found by #print axioms', detail=raw[-500:])
        elif set(a) - ALLOWED_AXIOMS:
            ctx.fail('proof', f'theorem {th} depends on disallowed axioms {sorted(set(a) - ALLOWED_AXIOMS)}')
        else:
            disch += 1
    proof['discharged'] = disch
    proof['axioms'] = {k: v for k, v in ax.items()}
    if ctx.tier == 'thorough' and spec.get('leanchecker', True):
        t = time.time()
        rc, o = 0, ''
        for mod in [m for m in prop_modules(prop) if m == prop or m.endswith('Go2Lean')]:   # FitProps.Cxx and FitProps.CxxGo2Lean
            rc1, o1 = sh(['lake', 'env', 'leanchecker', f'FitProps.{mod}'], cwd=LEAN)
            if rc1 != 0:
                rc, o = rc1, o + f'FitProps.{mod}: ' + o1
        ctx.timing['leanchecker'] = round(time.time() - t, 2)
        proof['leanchecker'] = 'ok' if rc == 0 else 'FAILED'
        if rc != 0:
            ctx.fail('proof', 'leanchecker rejected FitProps.' + prop, detail=o[-1500:])
    ctx.log(f'proof: {disch}/{len(names)} property theorems check with allowed axioms')
    return proof


def run_check(prop, tier, seed):
    from props import PROPS
    if prop not in PROPS:
        print(f'unknown property {prop}', file=sys.stderr)
        return 2
    spec = PROPS[prop]
    ctx = Ctx(prop, tier, seed)
    from props import REGEN_EXTRA
    REGEN.update(REGEN_EXTRA)
    proof = dict(obligations=0, discharged=0)
    try:
        if build_tools(ctx) and build_harness(ctx):
            proof = prove(ctx, spec)
            ok, out = lake_build(ctx, ['driver'])
            if not ok:
                ctx.fail('tool', 'model driver does not build', detail=out[-3000:])
            else:
                for fam in spec.get('families', []):
                    if isinstance(fam, str):
                        fam = dict(name=fam)
                    correspond(ctx, fam['name'], spec_mode=fam.get('spec', False), prop_mode=fam.get('prop', False), shrinkable=fam.get('shrink', True))
                hook = spec.get('extra')
                if hook:
                    hook(ctx, spec)
                go2lean_search(ctx, spec)
        if not any(f['kind'] == 'tool' for f in ctx.failures):
            report_known(ctx, spec)
    except Exception as e:  # the check itself broke: never a silent pass
        import traceback
        ctx.fail('tool', f'check crashed: {e!r}', detail=traceback.format_exc()[-3000:])
    return finish(ctx, spec, proof)


def run_replay(prop, path):
    d = json.load(open(path))
    ctx = Ctx(prop, 'quick', d.get('seed', 1))
    build_tools(ctx); build_harness(ctx); lake_build(ctx, ['driver'])
    op = d.get('op')
    if not op:
        print(json.dumps(d, indent=1)); return 0
    r = prop_fails([op])[0]
    model = run_driver([op])[0]
    print('op      :', op); print('impl    :', r[1]); print('model   :', model); print('property:', 'FAILS, demanded ' + r[2] if r[0] else 'holds')
    print('kf-class:', run_driver([op], mode='--kf')[0])
    return 1 if r[0] or r[1] != model else 0


def main(argv):
    import argparse
    ap = argparse.ArgumentParser()
    ap.add_argument('prop')
    ap.add_argument('--tier', default=os.environ.get('VERIF_TIER', 'quick'), choices=['quick', 'thorough'])
    ap.add_argument('--replay')
    a = ap.parse_args(argv)
    seed = int(os.environ.get('VERIF_SEED', '1') or 1)
    if a.replay:
        return run_replay(a.prop, a.replay)
    return run_check(a.prop, a.tier, seed)
