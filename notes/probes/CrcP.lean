namespace CrcP

def tbl : Nat := 0x4400_8801_9C01_5000_B401_7800_6C00_A001_E401_2800_3C00_F001_1400_D801_CC01_0000
def T (i : Nat) : Nat := (tbl >>> (16 * i)) &&& 0xFFFF

def nibStep (c n : Nat) : Nat := (c >>> 4) ^^^ T (c &&& 0xF) ^^^ T n
def compute (c b : Nat) : Nat := nibStep (nibStep c (b &&& 0xF)) (b >>> 4)

def f (x : Nat) : Nat := (x >>> 1) ^^^ (if x % 2 = 1 then 0xA001 else 0)
def bitStep (c bit : Nat) : Nat := f (c ^^^ bit)
def bit4 (c n : Nat) : Nat :=
  bitStep (bitStep (bitStep (bitStep c (n % 2)) (n / 2 % 2)) (n / 4 % 2)) (n / 8 % 2)
def byteSpec (c b : Nat) : Nat := bit4 (bit4 c (b % 16)) (b / 16)

theorem xor_parity (u v : Nat) : (u ^^^ v) % 2 = (u % 2 + v % 2) % 2 := by
  have := @Nat.xor_mod_two_eq_one u v
  omega

theorem f_linear (u v : Nat) : f (u ^^^ v) = f u ^^^ f v := by
  unfold f
  rw [Nat.shiftRight_xor_distrib, xor_parity]
  rcases Nat.mod_two_eq_zero_or_one u with hu | hu <;>
  rcases Nat.mod_two_eq_zero_or_one v with hv | hv
  · simp [hu, hv]
  · simp [hu, hv]; ac_rfl
  · simp [hu, hv]; ac_rfl
  · simp only [hu, hv]
    have e : ∀ a b p : Nat, a ^^^ b = (a ^^^ p) ^^^ (b ^^^ p) := by
      intro a b p
      calc a ^^^ b = a ^^^ b ^^^ (p ^^^ p) := by simp
        _ = (a ^^^ p) ^^^ (b ^^^ p) := by ac_rfl
    simpa using e _ _ _

theorem f_even (x : Nat) (h : x % 2 = 0) : f x = x / 2 := by
  simp [f, h, Nat.shiftRight_eq_div_pow]

theorem bitStep_linear (a b x y : Nat) : bitStep (a ^^^ b) (x ^^^ y) = bitStep a x ^^^ bitStep b y := by
  unfold bitStep
  rw [← f_linear]; congr 1; ac_rfl

theorem bit4_linear (a b m n : Nat) (hm : m < 16) (hn : n < 16) :
    bit4 (a ^^^ b) (m ^^^ n) = bit4 a m ^^^ bit4 b n := by
  -- bits of m ^^^ n are xors of bits
  have b0 : (m ^^^ n) % 2 = (m % 2) ^^^ (n % 2) := by
    have := @Nat.xor_mod_two_pow m n 1; simpa using this
  have b1 : (m ^^^ n) / 2 % 2 = (m / 2 % 2) ^^^ (n / 2 % 2) := by
    rw [Nat.xor_div_two]; have := @Nat.xor_mod_two_pow (m/2) (n/2) 1; simpa using this
  have b2 : (m ^^^ n) / 4 % 2 = (m / 4 % 2) ^^^ (n / 4 % 2) := by
    have h := @Nat.xor_div_two_pow m n 2; simp at h; rw [h]
    have := @Nat.xor_mod_two_pow (m/4) (n/4) 1; simpa using this
  have b3 : (m ^^^ n) / 8 % 2 = (m / 8 % 2) ^^^ (n / 8 % 2) := by
    have h := @Nat.xor_div_two_pow m n 3; simp at h; rw [h]
    have := @Nat.xor_mod_two_pow (m/8) (n/8) 1; simpa using this
  unfold bit4
  rw [b0, b1, b2, b3, bitStep_linear, bitStep_linear, bitStep_linear, bitStep_linear]

/-- shifting down a multiple of 16: four even steps -/
theorem bit4_hi (h : Nat) : bit4 (16 * h) 0 = h := by
  unfold bit4 bitStep
  simp only [Nat.zero_mod, Nat.zero_div, Nat.xor_zero]
  rw [f_even (16 * h) (by omega), f_even (16 * h / 2) (by omega),
      f_even (16 * h / 2 / 2) (by omega), f_even (16 * h / 2 / 2 / 2) (by omega)]
  omega

theorem testBit_lo (c i : Nat) (hi : i < 4) : (2 ^ 4 * (c / 2 ^ 4)).testBit i = false := by
  rw [Nat.testBit_two_pow_mul]; simp; omega

theorem split16 (c : Nat) : c = (2 ^ 4 * (c / 2 ^ 4)) ^^^ (c % 2 ^ 4) := by
  apply Nat.eq_of_testBit_eq
  intro i
  have hlt : c % 2 ^ 4 < 2 ^ 4 := Nat.mod_lt _ (by decide)
  have key := Nat.testBit_two_pow_mul_add (c / 2 ^ 4) (b := c % 2 ^ 4) (i := 4) hlt i
  have hc : 2 ^ 4 * (c / 2 ^ 4) + c % 2 ^ 4 = c := Nat.div_add_mod c (2 ^ 4)
  rw [hc] at key
  rw [key, Nat.testBit_xor]
  by_cases hi : i < 4
  · rw [testBit_lo c i hi]; simp [hi]
  · have h4 : 4 ≤ i := Nat.le_of_not_lt hi
    have hb : (c % 2 ^ 4).testBit i = false :=
      Nat.testBit_lt_two_pow (Nat.lt_of_lt_of_le hlt (Nat.pow_le_pow_right (by decide) h4))
    rw [Nat.testBit_two_pow_mul, hb]; simp [hi, h4]


/-- 32 kernel-evaluated cases: the table is the image of the 16 nibbles under four bit steps -/
theorem table_lo : ∀ l, l < 16 → T l = bit4 l 0 := by decide +kernel
theorem table_n  : ∀ n, n < 16 → T n = bit4 0 n := by decide +kernel

theorem nib_eq_spec (c n : Nat) (hn : n < 16) : nibStep c n = bit4 c n := by
  have hl : c % 2 ^ 4 < 16 := Nat.mod_lt _ (by decide)
  have hs := split16 c
  have e1 : c >>> 4 = c / 2 ^ 4 := by simp [Nat.shiftRight_eq_div_pow]
  have e2 : c &&& 0xF = c % 2 ^ 4 := by
    have : (0xF : Nat) = 2 ^ 4 - 1 := by decide
    rw [this, Nat.and_two_pow_sub_one_eq_mod]
  have lin := bit4_linear (2 ^ 4 * (c / 2 ^ 4)) (c % 2 ^ 4) 0 n (by decide) hn
  have lin2 := bit4_linear (c % 2 ^ 4) 0 0 n (by decide) hn
  simp only [Nat.zero_xor, Nat.xor_zero] at lin lin2
  unfold nibStep
  rw [e1, e2, table_lo _ hl, table_n n hn]
  conv => rhs; rw [hs]
  rw [lin]
  have hh : bit4 (2 ^ 4 * (c / 2 ^ 4)) 0 = c / 2 ^ 4 := by
    have := bit4_hi (c / 2 ^ 4); simpa using this
  rw [hh]
  -- bit4 (c % 16) n = bit4 (c%16) 0 ^^^ bit4 0 n
  have := bit4_linear (c % 2 ^ 4) 0 0 n (by decide) hn
  simp only [Nat.xor_zero, Nat.zero_xor] at this
  rw [this]; ac_rfl

theorem compute_eq_spec (c b : Nat) (hb : b < 256) : compute c b = byteSpec c b := by
  unfold compute byteSpec
  have e1 : b &&& 0xF = b % 16 := by
    have : (0xF : Nat) = 2 ^ 4 - 1 := by decide
    rw [this, Nat.and_two_pow_sub_one_eq_mod]
  have e2 : b >>> 4 = b / 16 := by simp [Nat.shiftRight_eq_div_pow]
  rw [e1, e2, nib_eq_spec _ _ (Nat.mod_lt _ (by decide)), nib_eq_spec _ _ (by omega)]

def write (c : Nat) (p : List Nat) : Nat := p.foldl compute c
def crcSpec (c : Nat) (p : List Nat) : Nat := p.foldl byteSpec c

theorem write_eq_spec (p : List Nat) (hp : ∀ b ∈ p, b < 256) (c : Nat) : write c p = crcSpec c p := by
  induction p generalizing c with
  | nil => rfl
  | cons b p ih =>
    simp only [write, crcSpec, List.foldl_cons]
    rw [compute_eq_spec c b (hp b (by simp))]
    exact ih (fun x hx => hp x (by simp [hx])) _

theorem write_append (c : Nat) (xs ys : List Nat) : write (write c xs) ys = write c (xs ++ ys) := by
  simp [write, List.foldl_append]

end CrcP
#print axioms CrcP.write_eq_spec
#print axioms CrcP.write_append
