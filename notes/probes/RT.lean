/-! Probe: definition-directed record stream with an LRU of local numbers on the encoder side and a
    definition table on the decoder side; round trip by a simulation invariant. Reduced (no dev
    fields, little-endian only, field payloads already marshalled). -/
namespace RT

abbrev Bytes := List Nat   -- each < 256 (carried as hypothesis where needed)

structure FieldDef where
  num : Nat
  size : Nat
  bt : Nat
deriving DecidableEq, Repr

structure MesgDef where
  mesgNum : Nat          -- < 65536
  fields : List FieldDef
deriving DecidableEq, Repr

structure Field where
  num : Nat
  bt : Nat
  data : Bytes
deriving DecidableEq, Repr

structure Msg where
  num : Nat
  fields : List Field
deriving DecidableEq, Repr

def defOf (m : Msg) : MesgDef :=
  { mesgNum := m.num, fields := m.fields.map fun f => ⟨f.num, f.data.length, f.bt⟩ }

/-- definition bytes without the header byte -/
def defBody (d : MesgDef) : Bytes :=
  [0, 0, d.mesgNum % 256, d.mesgNum / 256, d.fields.length] ++
    d.fields.flatMap fun f => [f.num, f.size, f.bt]

def payload (m : Msg) : Bytes := m.fields.flatMap (·.data)

/-! ### LRU as in encoder/lru.go: items indexed by local number, bucket = use order (LRU first) -/
structure Lru where
  cap : Nat
  items : List (Nat × Bytes)   -- association list: local number ↦ item (only numbers in bucket matter)
  bucket : List Nat            -- local numbers, least recently used first

def Lru.get (l : Lru) (i : Nat) : Option Bytes := (l.items.find? (·.1 == i)).map (·.2)
def Lru.set (l : Lru) (i : Nat) (b : Bytes) : Lru :=
  { l with items := (i, b) :: l.items.filter (·.1 != i) }

def Lru.put (l : Lru) (item : Bytes) : Lru × Nat × Bool :=
  match l.bucket.find? (fun i => l.get i == some item) with
  | some i => ({ l with bucket := l.bucket.filter (· != i) ++ [i] }, i, false)
  | none =>
    if l.bucket.length < l.cap then
      let i := l.bucket.length
      ({ (l.set i item) with bucket := l.bucket ++ [i] }, i, true)
    else
      match l.bucket with
      | [] => (l, 0, true)          -- cap = 0: not used (cap ≥ 1)
      | i :: rest => ({ (l.set i item) with bucket := rest ++ [i] }, i, true)

/-! ### encoder -/
def encodeMsg (l : Lru) (m : Msg) : Lru × Bytes :=
  let body := defBody (defOf m)
  let (l', i, isNew) := l.put body
  (l', (if isNew then (64 + i) :: body else []) ++ (i :: payload m))

def encodeAll (l : Lru) : List Msg → Bytes
  | [] => []
  | m :: ms => let (l', out) := encodeMsg l m; out ++ encodeAll l' ms

/-! ### decoder -/
abbrev Table := Nat → Option MesgDef

def parseFieldDefs : Nat → Bytes → Option (List FieldDef × Bytes)
  | 0, bs => some ([], bs)
  | n+1, a :: b :: c :: bs => do
      let (fs, rest) ← parseFieldDefs n bs
      pure (⟨a, b, c⟩ :: fs, rest)
  | _+1, _ => none

def parseDef : Bytes → Option (MesgDef × Bytes)
  | _r :: _a :: lo :: hi :: n :: bs => do
      let (fs, rest) ← parseFieldDefs n bs
      pure (⟨lo + 256 * hi, fs⟩, rest)
  | _ => none

def takeFields : List FieldDef → Bytes → Option (List Field × Bytes)
  | [], bs => some ([], bs)
  | fd :: fds, bs =>
    if bs.length < fd.size then none else do
      let (fs, rest) ← takeFields fds (bs.drop fd.size)
      pure (⟨fd.num, fd.bt, bs.take fd.size⟩ :: fs, rest)

/-- fuel-bounded decoder loop (fuel = input length suffices) -/
def decode : Nat → Table → Bytes → Option (List Msg)
  | _, _, [] => some []
  | 0, _, _ :: _ => none
  | fuel+1, t, h :: bs =>
    if 64 ≤ h then
      match parseDef bs with
      | some (d, rest) => decode fuel (fun i => if i = h - 64 then some d else t i) rest
      | none => none
    else
      match t h with
      | none => none
      | some d =>
        match takeFields d.fields bs with
        | some (fs, rest) => (decode fuel t rest).map (fun ms => ⟨d.mesgNum, fs⟩ :: ms)
        | none => none

/-! ### lemmas -/
theorem parseFieldDefs_print (fds : List FieldDef) (rest : Bytes) :
    parseFieldDefs fds.length ((fds.flatMap fun f => [f.num, f.size, f.bt]) ++ rest) = some (fds, rest) := by
  induction fds with
  | nil => simp [parseFieldDefs]
  | cons f fs ih => simp [parseFieldDefs, List.flatMap_cons, ih]

theorem parseDef_print (d : MesgDef) (h : d.mesgNum < 65536) (rest : Bytes) :
    parseDef (defBody d ++ rest) = some (d, rest) := by
  simp only [defBody, List.cons_append, List.nil_append, parseDef, List.append_assoc]
  rw [parseFieldDefs_print]
  simp only [bind, Option.bind]
  have : d.mesgNum % 256 + 256 * (d.mesgNum / 256) = d.mesgNum := by omega
  cases d; simp_all

theorem takeFields_print (fs : List Field) (rest : Bytes) :
    takeFields (fs.map fun f => ⟨f.num, f.data.length, f.bt⟩) (fs.flatMap (·.data) ++ rest) = some (fs, rest) := by
  induction fs with
  | nil => simp [takeFields]
  | cons f fs ih =>
    simp only [List.map_cons, takeFields, List.flatMap_cons, List.append_assoc]
    have h1 : ¬ (f.data ++ (fs.flatMap (·.data) ++ rest)).length < f.data.length := by simp
    simp only [h1, if_false, List.drop_left, List.take_left, ih]
    cases f; rfl


theorem defBody_inj (d1 d2 : MesgDef) (h1 : d1.mesgNum < 65536) (h2 : d2.mesgNum < 65536)
    (h : defBody d1 = defBody d2) : d1 = d2 := by
  have a := parseDef_print d1 h1 []
  have b := parseDef_print d2 h2 []
  rw [h] at a
  rw [a] at b
  simpa using b

/-- simulation invariant between the encoder's LRU and the decoder's table -/
structure Inv (l : Lru) (t : Table) : Prop where
  lt : ∀ i ∈ l.bucket, i < l.cap
  cap16 : l.cap ≤ 16
  live : ∀ i ∈ l.bucket, ∃ d, l.get i = some (defBody d) ∧ t i = some d ∧ d.mesgNum < 65536

theorem get_set_same (l : Lru) (i : Nat) (b : Bytes) : (l.set i b).get i = some b := by
  simp [Lru.get, Lru.set]

theorem get_set_other (l : Lru) (i j : Nat) (b : Bytes) (h : j ≠ i) : (l.set i b).get j = l.get j := by
  simp only [Lru.get, Lru.set]
  have hji : ((i, b).1 == j) = false := by simp; omega
  rw [List.find?_cons_of_neg (by simpa using hji)]
  congr 1
  induction l.items with
  | nil => rfl
  | cons x xs ih =>
    by_cases hx : x.1 = i
    · have : (x.1 != i) = false := by simp [hx]
      have hxj : (x.1 == j) = false := by simp [hx]; omega
      simp [List.filter_cons, this, List.find?_cons, hxj, ih]
    · have : (x.1 != i) = true := by simp [hx]
      simp only [List.filter_cons, this, if_true, List.find?_cons]
      split <;> simp_all

theorem decode_mono (f : Nat) : ∀ (t : Table) (bs : Bytes) (r : List Msg),
    decode f t bs = some r → decode (f + 1) t bs = some r := by
  induction f with
  | zero =>
    intro t bs r h
    cases bs with
    | nil => simpa [decode] using h
    | cons b bs => simp [decode] at h
  | succ f ih =>
    intro t bs r h
    cases bs with
    | nil => simpa [decode] using h
    | cons b bs =>
      simp only [decode] at h ⊢
      by_cases hb : 64 ≤ b
      · simp only [hb, if_true] at h ⊢
        cases hp : parseDef bs with
        | none => simp [hp] at h
        | some p =>
          obtain ⟨d, rest⟩ := p
          simp only [hp] at h ⊢
          exact ih _ _ _ h
      · simp only [hb, if_false] at h ⊢
        cases hd : t b with
        | none => simp [hd] at h
        | some d =>
          simp only [hd] at h ⊢
          cases htf : takeFields d.fields bs with
          | none => simp [htf] at h
          | some p =>
            obtain ⟨fs, rest⟩ := p
            simp only [htf] at h ⊢
            cases hdec : decode f t rest with
            | none => simp [hdec] at h
            | some ms =>
              simp only [hdec, Option.map_some] at h
              simp [ih _ _ _ hdec, h]

/-- the decoder consumes a definition record -/
theorem decode_def (fuel : Nat) (t : Table) (i : Nat) (d : MesgDef) (hd : d.mesgNum < 65536) (rest : Bytes) :
    decode (fuel + 1) t ((64 + i) :: (defBody d ++ rest)) =
      decode fuel (fun j => if j = i then some d else t j) rest := by
  simp only [decode]
  have : 64 ≤ 64 + i := by omega
  simp only [this, if_true, parseDef_print d hd rest]
  congr 1
  funext j
  have : 64 + i - 64 = i := by omega
  simp [this]

/-- the decoder consumes a data record whose definition is live -/
theorem decode_data (fuel : Nat) (t : Table) (i : Nat) (hi : i < 64) (m : Msg) (ht : t i = some (defOf m)) (rest : Bytes) :
    decode (fuel + 1) t (i :: (payload m ++ rest)) = (decode fuel t rest).map (fun ms => m :: ms) := by
  simp only [decode]
  have : ¬ 64 ≤ i := by omega
  simp only [this, if_false, ht]
  have := takeFields_print m.fields rest
  simp only [defOf, payload] at this ⊢
  rw [this]

/-- what `put` guarantees -/
theorem put_spec (l : Lru) (item : Bytes) (hcap : 0 < l.cap) (hlt : ∀ i ∈ l.bucket, i < l.cap) :
    let r := l.put item
    r.1.cap = l.cap ∧ r.2.1 < l.cap ∧ r.1.get r.2.1 = some item ∧ r.2.1 ∈ r.1.bucket ∧
    (∀ j ∈ r.1.bucket, j = r.2.1 ∨ (j ∈ l.bucket ∧ r.1.get j = l.get j)) ∧
    (r.2.2 = false → l.get r.2.1 = some item ∧ r.2.1 ∈ l.bucket) := by
  simp only [Lru.put]
  cases hf : l.bucket.find? (fun i => l.get i == some item) with
  | some i =>
    have hmem := List.mem_of_find?_eq_some hf
    have hp := List.find?_some hf
    simp only [beq_iff_eq] at hp
    refine ⟨rfl, hlt i hmem, ?_, by simp, ?_, fun _ => ⟨hp, hmem⟩⟩
    · simpa [Lru.get] using hp
    · intro j hj
      simp only [List.mem_append, List.mem_filter, List.mem_singleton] at hj
      rcases hj with ⟨hj, _⟩ | hj
      · exact Or.inr ⟨hj, rfl⟩
      · exact Or.inl hj
  | none =>
    by_cases hlen : l.bucket.length < l.cap
    · simp only [hlen, if_true]
      refine ⟨rfl, by first | exact hlen | trivial, get_set_same _ _ _, by simp, ?_, by simp⟩
      intro j hj
      simp only [List.mem_append, List.mem_singleton] at hj
      rcases hj with hj | hj
      · by_cases hji : j = l.bucket.length
        · exact Or.inl hji
        · exact Or.inr ⟨hj, get_set_other _ _ _ _ hji⟩
      · exact Or.inl hj
    · simp only [hlen, if_false]
      cases hb : l.bucket with
      | nil => simp [hb] at hlen; omega
      | cons i rest =>
        have hi : i ∈ l.bucket := by simp [hb]
        refine ⟨rfl, hlt i hi, get_set_same _ _ _, by simp, ?_, by simp⟩
        intro j hj
        simp only [List.mem_append, List.mem_singleton] at hj
        by_cases hji : j = i
        · exact Or.inl hji
        · rcases hj with hj | hj
          · exact Or.inr ⟨by simp [hj], get_set_other _ _ _ _ hji⟩
          · exact absurd hj hji

theorem step (l : Lru) (t : Table) (m : Msg) (hm : m.num < 65536) (inv : Inv l t) (hcap : 0 < l.cap)
    (rest : Bytes) :
    ∃ t', Inv (encodeMsg l m).1 t' ∧ (encodeMsg l m).1.cap = l.cap ∧
      ∀ fuel r, decode fuel t' rest = some r →
        decode (fuel + 2) t ((encodeMsg l m).2 ++ rest) = some (m :: r) := by
  obtain ⟨hc, hi, hget, hin, hothers, hold⟩ := put_spec l (defBody (defOf m)) hcap inv.lt
  simp only [encodeMsg]
  generalize hput : l.put (defBody (defOf m)) = p at *
  obtain ⟨l', i, isNew⟩ := p
  simp only at hc hi hget hin hothers hold ⊢
  have hi64 : i < 64 := by have := inv.cap16; omega
  have hdm : (defOf m).mesgNum < 65536 := hm
  cases isNew with
  | false =>
    obtain ⟨hg, hmem⟩ := hold rfl
    obtain ⟨d, hd1, hd2, hd3⟩ := inv.live i hmem
    have : d = defOf m := defBody_inj d (defOf m) hd3 hdm (by rw [hg] at hd1; exact (Option.some.inj hd1).symm)
    subst this
    refine ⟨t, ⟨?_, by rw [hc]; exact inv.cap16, ?_⟩, hc, ?_⟩
    · intro j hj; rw [hc]
      rcases hothers j hj with h | ⟨h, _⟩
      · rw [h]; exact hi
      · exact inv.lt j h
    · intro j hj
      rcases hothers j hj with h | ⟨h, hgj⟩
      · subst h; exact ⟨defOf m, hget, hd2, hdm⟩
      · obtain ⟨d', a, b, c⟩ := inv.live j h; exact ⟨d', by rw [hgj]; exact a, b, c⟩
    · intro fuel r hr
      simp only [Bool.false_eq_true, if_false, List.nil_append, List.cons_append]
      have := decode_data (fuel + 1) t i hi64 m hd2 rest
      rw [this, decode_mono _ _ _ _ hr]; rfl
  | true =>
    let t' : Table := fun j => if j = i then some (defOf m) else t j
    refine ⟨t', ⟨?_, by rw [hc]; exact inv.cap16, ?_⟩, hc, ?_⟩
    · intro j hj; rw [hc]
      rcases hothers j hj with h | ⟨h, _⟩
      · rw [h]; exact hi
      · exact inv.lt j h
    · intro j hj
      by_cases hji : j = i
      · subst hji; exact ⟨defOf m, hget, by simp [t'], hdm⟩
      · rcases hothers j hj with h | ⟨h, hgj⟩
        · exact absurd h hji
        · obtain ⟨d', a, b, c⟩ := inv.live j h
          exact ⟨d', by rw [hgj]; exact a, by simp [t', hji, b], c⟩
    · intro fuel r hr
      simp only [if_true, List.cons_append, List.append_assoc]
      rw [decode_def (fuel + 1) t i (defOf m) hdm]
      have := decode_data fuel t' i hi64 m (by simp [t']) rest
      rw [this, hr]; rfl

theorem roundtrip (ms : List Msg) : ∀ (l : Lru) (t : Table), Inv l t → 0 < l.cap →
    (∀ m ∈ ms, m.num < 65536) → decode (2 * ms.length) t (encodeAll l ms) = some ms := by
  induction ms with
  | nil => intro l t _ _ _; simp [encodeAll, decode]
  | cons m ms ih =>
    intro l t inv hcap hms
    obtain ⟨t', inv', hc, hstep⟩ := step l t m (hms m (by simp)) inv hcap (encodeAll (encodeMsg l m).1 ms)
    have := ih (encodeMsg l m).1 t' inv' (by rw [hc]; exact hcap) (fun x hx => hms x (by simp [hx]))
    have := hstep _ _ this
    simp only [encodeAll, List.length_cons]
    have e : 2 * (ms.length + 1) = 2 * ms.length + 2 := by omega
    rw [e]; exact this

/-- top level: fresh encoder (LRU of size k ≤ 16) and fresh decoder -/
theorem roundtrip_fresh (k : Nat) (hk : 0 < k) (hk16 : k ≤ 16) (ms : List Msg) (h : ∀ m ∈ ms, m.num < 65536) :
    decode (2 * ms.length) (fun _ => none) (encodeAll ⟨k, [], []⟩ ms) = some ms :=
  roundtrip ms _ _ ⟨by simp, hk16, by simp⟩ hk h

end RT
#print axioms RT.roundtrip_fresh
