import Mathlib.Tactic.Linarith
import Mathlib.Tactic.Ring
import Mathlib.Tactic.NormNum
import Mathlib.Tactic.GCongr
import Mathlib.Tactic.Positivity

/-! Probe: normalisation + rounding of a positive rational a/b to a 53-bit significand,
    stated with naturals only; relative error bound. -/
namespace F64P

/-- (N, D, e) with a/b = (N/D)·2^e and 2^52 ≤ ⌊N/D⌋ < 2^53 -/
def normalize (a b : Nat) : Nat × Nat × Int :=
  let la := a.log2
  let lb := b.log2
  let r : Nat × Nat × Int :=
    if lb + 52 ≤ la then (a, b * 2 ^ (la - lb - 52), ((la - lb - 52 : Nat) : Int))
    else (a * 2 ^ (lb + 52 - la), b, -((lb + 52 - la : Nat) : Int))
  if r.1 / r.2.1 < 2 ^ 52 then (2 * r.1, r.2.1, r.2.2 - 1) else r

theorem normalize_range (a b : Nat) (ha : 0 < a) (hb : 0 < b) :
    let r := normalize a b
    0 < r.2.1 ∧ 2 ^ 52 * r.2.1 ≤ r.1 ∧ r.1 < 2 ^ 53 * r.2.1 := by
  have ha1 : 2 ^ a.log2 ≤ a := Nat.log2_self_le (Nat.pos_iff_ne_zero.mp ha)
  have ha2 : a < 2 ^ (a.log2 + 1) := Nat.lt_log2_self
  have hb1 : 2 ^ b.log2 ≤ b := Nat.log2_self_le (Nat.pos_iff_ne_zero.mp hb)
  have hb2 : b < 2 ^ (b.log2 + 1) := Nat.lt_log2_self
  simp only [normalize]
  generalize a.log2 = la at *
  generalize b.log2 = lb at *
  by_cases hcase : lb + 52 ≤ la
  · simp only [hcase, if_true]
    obtain ⟨k, hk⟩ : ∃ k, la = lb + 52 + k := ⟨la - lb - 52, by omega⟩
    have hk' : la - lb - 52 = k := by omega
    rw [hk'] at *
    subst hk
    have hDpos : 0 < b * 2 ^ k := by positivity
    -- upper: a < 2^53 * (b*2^k)
    have up : a < 2 ^ 53 * (b * 2 ^ k) := by
      calc a < 2 ^ (lb + 52 + k + 1) := ha2
        _ = 2 ^ 53 * (2 ^ lb * 2 ^ k) := by ring
        _ ≤ 2 ^ 53 * (b * 2 ^ k) := by gcongr
    -- lower (after possible doubling): 2^52 * D < 2 * a
    have lo2 : 2 ^ 52 * (b * 2 ^ k) < 2 * a := by
      calc 2 ^ 52 * (b * 2 ^ k) < 2 ^ 52 * (2 ^ (lb + 1) * 2 ^ k) := by gcongr
        _ = 2 * 2 ^ (lb + 52 + k) := by ring
        _ ≤ 2 * a := by gcongr
    by_cases hlt : a / (b * 2 ^ k) < 2 ^ 52
    · simp only [hlt, if_true]
      refine ⟨hDpos, le_of_lt lo2, ?_⟩
      have : a < 2 ^ 52 * (b * 2 ^ k) := by
        have := (Nat.div_lt_iff_lt_mul hDpos).mp hlt; linarith
      linarith
    · simp only [hlt, if_false]
      refine ⟨hDpos, ?_, up⟩
      have := (Nat.le_div_iff_mul_le hDpos).mp (Nat.le_of_not_lt hlt); linarith
  · simp only [hcase, if_false]
    obtain ⟨k, hk⟩ : ∃ k, lb + 52 = la + k := ⟨lb + 52 - la, by omega⟩
    have hk' : lb + 52 - la = k := by omega
    rw [hk'] at *
    have up : a * 2 ^ k < 2 ^ 53 * b := by
      calc a * 2 ^ k < 2 ^ (la + 1) * 2 ^ k := by gcongr
        _ = 2 * 2 ^ (la + k) := by ring
        _ = 2 * 2 ^ (lb + 52) := by rw [hk]
        _ = 2 ^ 53 * 2 ^ lb := by ring
        _ ≤ 2 ^ 53 * b := by gcongr
    have lo2 : 2 ^ 52 * b < 2 * (a * 2 ^ k) := by
      calc 2 ^ 52 * b < 2 ^ 52 * 2 ^ (lb + 1) := by gcongr
        _ = 2 * 2 ^ (lb + 52) := by ring
        _ = 2 * 2 ^ (la + k) := by rw [hk]
        _ = 2 * (2 ^ la * 2 ^ k) := by ring
        _ ≤ 2 * (a * 2 ^ k) := by gcongr
    by_cases hlt : a * 2 ^ k / b < 2 ^ 52
    · simp only [hlt, if_true]
      refine ⟨hb, le_of_lt lo2, ?_⟩
      have : a * 2 ^ k < 2 ^ 52 * b := by
        have := (Nat.div_lt_iff_lt_mul hb).mp hlt; linarith
      linarith
    · simp only [hlt, if_false]
      refine ⟨hb, ?_, up⟩
      have := (Nat.le_div_iff_mul_le hb).mp (Nat.le_of_not_lt hlt); linarith

/-- nearest-even rounding of N/D to an integer -/
def rnd (N D : Nat) : Nat :=
  let t := N / D
  let r := N % D
  if 2 * r > D || (2 * r == D && t % 2 == 1) then t + 1 else t

theorem rnd_err (N D : Nat) (hD : 0 < D) :
    (2 * (rnd N D * D) ≤ 2 * N + D) ∧ (2 * N ≤ 2 * (rnd N D * D) + D) := by
  have h1 := Nat.div_add_mod N D
  have h2 := Nat.mod_lt N hD
  unfold rnd
  simp only
  split
  · rename_i h
    have : 2 * (N % D) ≥ D := by
      simp only [Bool.or_eq_true, decide_eq_true_eq, Bool.and_eq_true, beq_iff_eq] at h
      rcases h with h | ⟨h, _⟩ <;> omega
    have e : (N / D + 1) * D = D * (N / D) + D := by ring
    rw [e]; omega
  · rename_i h
    have : 2 * (N % D) ≤ D := by
      simp only [Bool.or_eq_true, decide_eq_true_eq, Bool.and_eq_true, beq_iff_eq, not_or] at h
      omega
    have e : N / D * D = D * (N / D) := by ring
    rw [e]; omega

/-- relative error of the rounded significand: |m·D − N| ≤ N / 2^53 -/
theorem rnd_rel_err (a b : Nat) (ha : 0 < a) (hb : 0 < b) :
    2 ^ 53 * (rnd (normalize a b).1 (normalize a b).2.1 * (normalize a b).2.1) ≤ (2 ^ 53 + 1) * (normalize a b).1 ∧
    2 ^ 53 * (normalize a b).1 ≤ 2 ^ 53 * (rnd (normalize a b).1 (normalize a b).2.1 * (normalize a b).2.1) + (normalize a b).1 ∧
    2 ^ 52 ≤ rnd (normalize a b).1 (normalize a b).2.1 ∧ rnd (normalize a b).1 (normalize a b).2.1 ≤ 2 ^ 53 := by
  obtain ⟨hD, hlo, hhi⟩ := normalize_range a b ha hb
  generalize (normalize a b).1 = N at *
  generalize (normalize a b).2.1 = D at *
  obtain ⟨e1, e2⟩ := rnd_err N D hD
  refine ⟨?_, ?_, ?_, ?_⟩
  · generalize rnd N D * D = mD at *; omega
  · generalize rnd N D * D = mD at *; omega
  · have ht : 2 ^ 52 ≤ N / D := (Nat.le_div_iff_mul_le hD).mpr (by linarith)
    unfold rnd; simp only; split <;> omega
  · have ht : N / D < 2 ^ 53 := (Nat.div_lt_iff_lt_mul hD).mpr (by linarith)
    unfold rnd; simp only; split <;> omega

end F64P
#print axioms F64P.rnd_rel_err
