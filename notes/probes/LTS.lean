/-! Probe: the filedef.Listener pool/queue handshake as a transition system, for every channel
    buffer size N ≥ 1, every number of messages n and every interleaving:
    conservation invariant, deadlock freedom, FIFO result. -/
namespace LTS

inductive P | take (i : Nat) | send (i : Nat) | close | drainRecv (k : Nat) | drainSend (k : Nat) | waitDone | fin
deriving DecidableEq, Repr
inductive C | recv | proc (m : Nat) | ret | exited
deriving DecidableEq, Repr

structure St where
  pool : Nat
  queue : List Nat
  closed : Bool
  done : Bool
  p : P
  c : C
  processed : List Nat

def holdP : P → Nat | .send _ => 1 | .drainSend _ => 1 | _ => 0
def holdC : C → Nat | .proc _ => 1 | .ret => 1 | _ => 0
def inflight : C → List Nat | .proc m => [m] | _ => []

variable (N n : Nat)

def afterSend (i : Nat) : P := if i + 1 < n then .take (i + 1) else .close
def afterDrain (k : Nat) : P := if k + 1 < N then .drainRecv (k + 1) else .waitDone

inductive Step : St → St → Prop
  | take (s i) : s.p = .take i → 0 < s.pool → Step s { s with pool := s.pool - 1, p := .send i }
  | send (s i) : s.p = .send i → s.queue.length < N →
      Step s { s with queue := s.queue ++ [i], p := afterSend n i }
  | close (s) : s.p = .close → Step s { s with closed := true, p := .drainRecv 0 }
  | drainRecv (s k) : s.p = .drainRecv k → 0 < s.pool → Step s { s with pool := s.pool - 1, p := .drainSend k }
  | drainSend (s k) : s.p = .drainSend k → s.pool < N →
      Step s { s with pool := s.pool + 1, p := afterDrain N k }
  | waitDone (s) : s.p = .waitDone → s.done = true → Step s { s with p := .fin }
  | recv (s m q) : s.c = .recv → s.queue = m :: q → Step s { s with queue := q, c := .proc m }
  | exit (s) : s.c = .recv → s.queue = [] → s.closed = true → Step s { s with done := true, c := .exited }
  | proc (s m) : s.c = .proc m → Step s { s with processed := s.processed ++ [m], c := .ret }
  | ret (s) : s.c = .ret → s.pool < N → Step s { s with pool := s.pool + 1, c := .recv }

/-- number of ids already handed to the queue, as determined by the producer's pc -/
def sent : P → Nat | .take i => i | .send i => i | _ => n

structure Inv (s : St) : Prop where
  conserve : s.pool + s.queue.length + holdP s.p + holdC s.c = N
  order : s.processed ++ inflight s.c ++ s.queue = List.range (sent n s.p)
  pbound : match s.p with | .take i => i < n | .send i => i < n | .drainRecv k => k < N | .drainSend k => k < N | _ => True
  closedIff : s.closed = true ↔ (match s.p with | .take _ => False | .send _ => False | .close => False | _ => True)
  doneIff : s.done = true → s.c = .exited
  exitedImp : s.c = .exited → s.closed = true ∧ s.queue = [] ∧ s.done = true

def init : St := { pool := N, queue := [], closed := false, done := false,
                   p := if 0 < n then .take 0 else .close, c := .recv, processed := [] }

theorem inv_init (hN : 0 < N) : Inv N n (init N n) := by
  by_cases h : 0 < n <;> constructor <;> simp [init, h, holdP, holdC, inflight, sent] <;> omega

theorem holdP_afterSend (i : Nat) : holdP (afterSend n i) = 0 := by
  unfold afterSend; split <;> rfl
theorem sent_afterSend (i : Nat) (hi : i < n) : sent n (afterSend n i) = i + 1 := by
  unfold afterSend; split <;> simp [sent]; omega
theorem holdP_afterDrain (k : Nat) : holdP (afterDrain N k) = 0 := by
  unfold afterDrain; split <;> rfl
theorem sent_afterDrain (k : Nat) : sent n (afterDrain N k) = n := by
  unfold afterDrain; split <;> rfl

theorem inv_step (hN : 0 < N) {s s' : St} (inv : Inv N n s) (st : Step N n s s') : Inv N n s' := by
  obtain ⟨hc, ho, hb, hcl, hd, he⟩ := inv
  cases st with
  | take i hp hpool =>
    refine ⟨?_, ?_, ?_, ?_, ?_, ?_⟩ <;> simp_all [holdP, holdC, sent] <;> omega
  | send i hp hq =>
    have hi : i < n := by simpa [hp] using hb
    refine ⟨?_, ?_, ?_, ?_, ?_, ?_⟩
    · simp only [holdP_afterSend, List.length_append, List.length_singleton]
      simp [hp, holdP] at hc; omega
    · simp only [sent_afterSend n i hi, List.range_succ]
      simp only [hp, sent] at ho
      rw [← ho]; simp [List.append_assoc]
    · show (match afterSend n i with | .take i => i < n | .send i => i < n | .drainRecv k => k < N | .drainSend k => k < N | _ => True)
      unfold afterSend; by_cases h : i + 1 < n <;> simp [h]
    · show (s.closed = true ↔ (match afterSend n i with | .take _ => False | .send _ => False | .close => False | _ => True))
      have hcl' : s.closed = false := by simpa [hp] using hcl
      unfold afterSend; by_cases h : i + 1 < n <;> simp [h, hcl']
    · exact hd
    · intro h; have := he h; have hcl' : s.closed = false := by simpa [hp] using hcl
      simp [hcl'] at this
  | close hp =>
    refine ⟨?_, ?_, ?_, ?_, ?_, ?_⟩ <;> simp_all [holdP, holdC, sent]
  | drainRecv k hp hpool =>
    refine ⟨?_, ?_, ?_, ?_, ?_, ?_⟩ <;> simp_all [holdP, holdC, sent] <;> omega
  | drainSend k hp hpool =>
    refine ⟨?_, ?_, ?_, ?_, ?_, ?_⟩
    · simp only [holdP_afterDrain]; simp [hp, holdP] at hc; omega
    · simp only [sent_afterDrain]; simpa [hp, sent] using ho
    · show (match afterDrain N k with | .take i => i < n | .send i => i < n | .drainRecv k => k < N | .drainSend k => k < N | _ => True)
      unfold afterDrain; by_cases h : k + 1 < N <;> simp [h]
    · show (s.closed = true ↔ (match afterDrain N k with | .take _ => False | .send _ => False | .close => False | _ => True))
      have hcl' : s.closed = true := by simpa [hp] using hcl
      unfold afterDrain; by_cases h : k + 1 < N <;> simp [h, hcl']
    · exact hd
    · exact he
  | waitDone hp hdone =>
    refine ⟨?_, ?_, ?_, ?_, ?_, ?_⟩ <;> simp_all [holdP, holdC, sent]
  | recv m q hcpc hq =>
    refine ⟨?_, ?_, ?_, ?_, ?_, ?_⟩ <;> simp_all [holdP, holdC, inflight, sent] <;> omega
  | exit hcpc hq hclosed =>
    refine ⟨?_, ?_, ?_, ?_, ?_, ?_⟩ <;> simp_all [holdP, holdC, inflight, sent]
  | proc m hcpc =>
    refine ⟨?_, ?_, ?_, ?_, ?_, ?_⟩ <;> simp_all [holdP, holdC, inflight, sent]
  | ret hcpc hpool =>
    refine ⟨?_, ?_, ?_, ?_, ?_, ?_⟩ <;> simp_all [holdP, holdC, inflight, sent] <;> omega

def terminal (s : St) : Prop := s.p = .fin ∧ s.c = .exited

/-- deadlock freedom: every reachable non-terminal state can step -/
theorem progress (hN : 0 < N) (s : St) (inv : Inv N n s) (ht : ¬ terminal s) : ∃ s', Step N n s s' := by
  obtain ⟨hc, ho, hb, hcl, hd, he⟩ := inv
  cases hcp : s.c with
  | proc m => exact ⟨_, Step.proc s m hcp⟩
  | ret => exact ⟨_, Step.ret s hcp (by simp [hcp, holdC] at hc; omega)⟩
  | recv =>
    cases hq : s.queue with
    | cons m q => exact ⟨_, Step.recv s m q hcp hq⟩
    | nil =>
      cases hp : s.p with
      | take i => exact ⟨_, Step.take s i hp (by simp [hp, hcp, hq, holdP, holdC] at hc; omega)⟩
      | send i => exact ⟨_, Step.send s i hp (by simp [hp, hcp, hq, holdP, holdC] at hc; simp [hq]; omega)⟩
      | close => exact ⟨_, Step.close s hp⟩
      | drainRecv k => exact ⟨_, Step.exit s hcp hq (by simp [hp] at hcl; exact hcl)⟩
      | drainSend k => exact ⟨_, Step.exit s hcp hq (by simp [hp] at hcl; exact hcl)⟩
      | waitDone => exact ⟨_, Step.exit s hcp hq (by simp [hp] at hcl; exact hcl)⟩
      | fin => exact ⟨_, Step.exit s hcp hq (by simp [hp] at hcl; exact hcl)⟩
  | exited =>
    obtain ⟨hclosed, hq, hdone⟩ := he hcp
    cases hp : s.p with
    | take i => simp [hp] at hcl; simp [hcl] at hclosed
    | send i => simp [hp] at hcl; simp [hcl] at hclosed
    | close => exact ⟨_, Step.close s hp⟩
    | drainRecv k => exact ⟨_, Step.drainRecv s k hp (by simp [hp, hcp, hq, holdP, holdC] at hc; omega)⟩
    | drainSend k => exact ⟨_, Step.drainSend s k hp (by simp [hp, hcp, hq, holdP, holdC] at hc; omega)⟩
    | waitDone => exact ⟨_, Step.waitDone s hp hdone⟩
    | fin => exact absurd ⟨hp, hcp⟩ ht

/-- FIFO: at termination the worker has processed exactly the ids 0..n-1 in order -/
theorem final_result (s : St) (inv : Inv N n s) (ht : terminal s) : s.processed = List.range n := by
  obtain ⟨hp, hcp⟩ := ht
  have := inv.order
  obtain ⟨_, hq, _⟩ := inv.exitedImp hcp
  simpa [hp, hcp, hq, inflight, sent] using this

end LTS

#print axioms LTS.progress
#print axioms LTS.final_result
#print axioms LTS.inv_step
