package main

// C14, first half: the common file types of profile/filedef.
//
//	filedef <filetype byte> <msg>...          → n=<k> <omsg>... again=<0|1>
//
//	filedefc <filetype byte> <opts> <message>...  → n=<k> <message>...           (real messages, syntax of msgcodec.go;
//	                                                 options of the typed family; "panic" if Add / ToFIT panics)
//
// <msg>  = num:f1:f253:f254:tag:seed:dg:ft     (input message descriptor, see mkMesg)
// <omsg> = num:f1:f253:f254:tag:dg             (canonical form of one output message)
// f1/f253/f254 describe the fields with these numbers (the candidates for the sort key):
// "-" absent, "o" present with a non-uint32 value, otherwise 8 hex digits of the uint32 value.
// tag is carried in an unknown field (number 249, name "unknown": every mesgdef struct keeps those verbatim),
// dg is the FNV-1a-64 digest of the canonical serialisation of the whole message.
// The dg of an input descriptor is the digest of the message's *solo* normal form: what the same
// file type returns for it when it is the only message added (typed-message normalisation, C13).

import (
	"encoding/binary"
	"fmt"
	"math"
	"os"
	"reflect"
	"sort"
	"strconv"
	"strings"
	"sync"

	"github.com/muktihari/fit/profile/basetype"
	"github.com/muktihari/fit/profile/factory"
	"github.com/muktihari/fit/profile/filedef"
	"github.com/muktihari/fit/profile/typedef"
	"github.com/muktihari/fit/profile/untyped/fieldnum"
	"github.com/muktihari/fit/profile/untyped/mesgnum"
	"github.com/muktihari/fit/proto"
)

func init() {
	families["filedef"] = genFileDef
	executors["filedef"] = execFileDef
	executors["filedefprobe"] = execFileDefProbe
	executors["filedefc"] = execFileDefC
}

// ---------------------------------------------------------------- message descriptors

type tsF struct {
	kind byte // '-' absent, 'o' other type, 'u' uint32
	v    uint32
}

func (t tsF) String() string {
	switch t.kind {
	case 'u':
		return fmt.Sprintf("%08x", t.v)
	case 'o':
		return "o"
	}
	return "-"
}

func parseTsF(s string) (tsF, bool) {
	if s == "-" {
		return tsF{kind: '-'}, true
	}
	if s == "o" {
		return tsF{kind: 'o'}, true
	}
	if len(s) != 8 {
		return tsF{}, false
	}
	v, err := strconv.ParseUint(s, 16, 32)
	if err != nil {
		return tsF{}, false
	}
	return tsF{kind: 'u', v: uint32(v)}, true
}

type mdesc struct {
	num          int
	f1, f253, f4 tsF // fields 1, 253, 254
	tag          uint32
	seed         uint64
	dg           uint64
	ft           int // file_id.type, 255 = absent
}

func (d mdesc) String() string {
	return fmt.Sprintf("%d:%s:%s:%s:%d:%d:%016x:%d", d.num, d.f1, d.f253, d.f4, d.tag, d.seed, d.dg, d.ft)
}

func parseMdesc(s string) (mdesc, bool) {
	p := strings.Split(s, ":")
	if len(p) != 8 {
		return mdesc{}, false
	}
	var d mdesc
	var err error
	var ok bool
	if d.num, err = strconv.Atoi(p[0]); err != nil || d.num < 0 || d.num > 65535 {
		return d, false
	}
	if d.f1, ok = parseTsF(p[1]); !ok {
		return d, false
	}
	if d.f253, ok = parseTsF(p[2]); !ok {
		return d, false
	}
	if d.f4, ok = parseTsF(p[3]); !ok {
		return d, false
	}
	t, err := strconv.ParseUint(p[4], 10, 32)
	if err != nil {
		return d, false
	}
	d.tag = uint32(t)
	if d.seed, err = strconv.ParseUint(p[5], 10, 64); err != nil {
		return d, false
	}
	if d.dg, err = strconv.ParseUint(p[6], 16, 64); err != nil {
		return d, false
	}
	if d.ft, err = strconv.Atoi(p[7]); err != nil || d.ft < 0 || d.ft > 255 {
		return d, false
	}
	return d, true
}

func isCand(n byte) bool { return n == 1 || n == 253 || n == 254 }

func randValue(rng *Rng, bt basetype.BaseType, array bool) proto.Value {
	n := 1
	if array {
		n = 1 + rng.Intn(4)
	}
	switch bt {
	case basetype.Enum, basetype.Uint8, basetype.Uint8z, basetype.Byte:
		if array {
			b := make([]uint8, n)
			for i := range b {
				b[i] = uint8(1 + rng.Intn(200))
			}
			return proto.SliceUint8(b)
		}
		return proto.Uint8(uint8(1 + rng.Intn(200)))
	case basetype.Sint8:
		if array {
			b := make([]int8, n)
			for i := range b {
				b[i] = int8(rng.Intn(100))
			}
			return proto.SliceInt8(b)
		}
		return proto.Int8(int8(rng.Intn(100)))
	case basetype.Sint16:
		if array {
			b := make([]int16, n)
			for i := range b {
				b[i] = int16(rng.Intn(30000))
			}
			return proto.SliceInt16(b)
		}
		return proto.Int16(int16(rng.Intn(30000)))
	case basetype.Uint16, basetype.Uint16z:
		if array {
			b := make([]uint16, n)
			for i := range b {
				b[i] = uint16(1 + rng.Intn(60000))
			}
			return proto.SliceUint16(b)
		}
		return proto.Uint16(uint16(1 + rng.Intn(60000)))
	case basetype.Sint32:
		if array {
			b := make([]int32, n)
			for i := range b {
				b[i] = int32(rng.Intn(1 << 30))
			}
			return proto.SliceInt32(b)
		}
		return proto.Int32(int32(rng.Intn(1 << 30)))
	case basetype.Uint32, basetype.Uint32z:
		if array {
			b := make([]uint32, n)
			for i := range b {
				b[i] = uint32(1 + rng.Intn(1<<31))
			}
			return proto.SliceUint32(b)
		}
		return proto.Uint32(uint32(1 + rng.Intn(1<<31)))
	case basetype.String:
		if array {
			b := make([]string, n)
			for i := range b {
				b[i] = fmt.Sprintf("s%d", rng.Intn(1000))
			}
			return proto.SliceString(b)
		}
		return proto.String(fmt.Sprintf("s%d", rng.Intn(1000)))
	case basetype.Float32:
		return proto.Float32(float32(rng.Intn(1000)) / 4)
	case basetype.Float64:
		return proto.Float64(float64(rng.Intn(1000)) / 4)
	case basetype.Sint64:
		return proto.Int64(int64(rng.Intn(1 << 40)))
	case basetype.Uint64, basetype.Uint64z:
		return proto.Uint64(uint64(1 + rng.Intn(1<<40)))
	}
	return proto.Uint8(1)
}

// mkMesg builds the proto.Message a descriptor stands for (deterministic in the descriptor).
func mkMesg(d mdesc) proto.Message {
	num := typedef.MesgNum(d.num)
	m := proto.Message{Num: num}
	var cands []proto.Field
	addCand := func(n byte, t tsF) {
		if t.kind == '-' {
			return
		}
		f := factory.CreateField(num, n)
		if t.kind == 'u' {
			f.Value = proto.Uint32(t.v)
		} else {
			f.Value = proto.Uint8(7)
		}
		cands = append(cands, f)
	}
	addCand(1, d.f1)
	addCand(253, d.f253)
	addCand(254, d.f4)
	if d.num == int(mesgnum.FileId) && d.ft != 255 {
		f := factory.CreateField(num, fieldnum.FileIdType)
		f.Value = proto.Uint8(uint8(d.ft))
		m.Fields = append(m.Fields, f)
	}
	// the tag travels in an unknown field (every mesgdef struct keeps unknown fields verbatim;
	// file_id, developer_data_id and field_description drop developer fields)
	m.Fields = append(m.Fields, proto.Field{FieldBase: &proto.FieldBase{Name: factory.NameUnknown, Num: tagFieldNum, Scale: 1}, Value: proto.Uint32(d.tag)})
	candFirst := true
	if d.seed != 0 {
		rng := NewRng(d.seed)
		candFirst = rng.Bool()
		base := factory.CreateMesg(num)
		for i := range base.Fields {
			fb := base.Fields[i]
			if isCand(fb.Num) || fb.Num == tagFieldNum || (d.num == int(mesgnum.FileId) && fb.Num == fieldnum.FileIdType) {
				continue
			}
			if rng.Intn(5) >= 2 {
				continue
			}
			fb.Value = randValue(rng, fb.BaseType, fb.Array)
			m.Fields = append(m.Fields, fb)
			if len(m.Fields) >= 12 {
				break
			}
		}
		for k := rng.Intn(3); k > 0; k-- { // unknown fields (numbers no profile message defines)
			f := factory.CreateField(num, byte(230+rng.Intn(15)))
			f.Value = randValue(rng, []basetype.BaseType{basetype.Uint8, basetype.Uint16, basetype.Uint32, basetype.String, basetype.Byte}[rng.Intn(5)], rng.Intn(4) == 0)
			m.Fields = append(m.Fields, f)
		}
		if rng.Intn(4) == 0 {
			m.DeveloperFields = append(m.DeveloperFields, proto.DeveloperField{Num: byte(rng.Intn(3)), DeveloperDataIndex: byte(rng.Intn(2)), Value: proto.Uint16(uint16(rng.Intn(60000)))})
		}
	}
	if candFirst {
		m.Fields = append(cands, m.Fields...)
	} else {
		m.Fields = append(m.Fields, cands...)
	}
	return m
}

// ---------------------------------------------------------------- canonical form of a message

type fnv64 uint64

func newFnv() fnv64 { return 0xcbf29ce484222325 }
func (h *fnv64) b(x byte) {
	*h ^= fnv64(x)
	*h *= 0x100000001b3
}
func (h *fnv64) u64(x uint64) {
	var b [8]byte
	binary.LittleEndian.PutUint64(b[:], x)
	for _, c := range b {
		h.b(c)
	}
}
func (h *fnv64) str(s string) {
	h.u64(uint64(len(s)))
	for i := 0; i < len(s); i++ {
		h.b(s[i])
	}
}

func (h *fnv64) value(v proto.Value) {
	h.b(byte(v.Type()))
	switch x := v.Any().(type) {
	case nil:
	case typedef.Bool:
		h.u64(uint64(x))
	case int8:
		h.u64(uint64(x))
	case uint8:
		h.u64(uint64(x))
	case int16:
		h.u64(uint64(x))
	case uint16:
		h.u64(uint64(x))
	case int32:
		h.u64(uint64(x))
	case uint32:
		h.u64(uint64(x))
	case int64:
		h.u64(uint64(x))
	case uint64:
		h.u64(x)
	case float32:
		h.u64(uint64(math.Float32bits(x)))
	case float64:
		h.u64(math.Float64bits(x))
	case string:
		h.str(x)
	case []typedef.Bool:
		h.u64(uint64(len(x)))
		for _, e := range x {
			h.u64(uint64(e))
		}
	case []int8:
		h.u64(uint64(len(x)))
		for _, e := range x {
			h.u64(uint64(e))
		}
	case []uint8:
		h.u64(uint64(len(x)))
		for _, e := range x {
			h.u64(uint64(e))
		}
	case []int16:
		h.u64(uint64(len(x)))
		for _, e := range x {
			h.u64(uint64(e))
		}
	case []uint16:
		h.u64(uint64(len(x)))
		for _, e := range x {
			h.u64(uint64(e))
		}
	case []int32:
		h.u64(uint64(len(x)))
		for _, e := range x {
			h.u64(uint64(e))
		}
	case []uint32:
		h.u64(uint64(len(x)))
		for _, e := range x {
			h.u64(uint64(e))
		}
	case []int64:
		h.u64(uint64(len(x)))
		for _, e := range x {
			h.u64(uint64(e))
		}
	case []uint64:
		h.u64(uint64(len(x)))
		for _, e := range x {
			h.u64(e)
		}
	case []float32:
		h.u64(uint64(len(x)))
		for _, e := range x {
			h.u64(uint64(math.Float32bits(e)))
		}
	case []float64:
		h.u64(uint64(len(x)))
		for _, e := range x {
			h.u64(math.Float64bits(e))
		}
	case []string:
		h.u64(uint64(len(x)))
		for _, e := range x {
			h.str(e)
		}
	default:
		h.str(fmt.Sprintf("%T", x))
	}
}

// mesgDigest: num, every field (number, name-known flag, value with its type) in order, every developer field.
func mesgDigest(m *proto.Message) uint64 {
	h := newFnv()
	h.u64(uint64(m.Num))
	h.u64(uint64(len(m.Fields)))
	for i := range m.Fields {
		f := &m.Fields[i]
		if f.FieldBase == nil {
			h.b(0xEE)
		} else {
			h.b(f.Num)
			if f.Name == factory.NameUnknown {
				h.b(1)
			} else {
				h.b(0)
			}
		}
		h.value(f.Value)
	}
	h.u64(uint64(len(m.DeveloperFields)))
	for i := range m.DeveloperFields {
		d := &m.DeveloperFields[i]
		h.b(d.Num)
		h.b(d.DeveloperDataIndex)
		h.value(d.Value)
	}
	return uint64(h)
}

const tagFieldNum = 249

func mesgTag(m *proto.Message) uint32 {
	for i := range m.Fields {
		f := &m.Fields[i]
		if f.FieldBase != nil && f.Num == tagFieldNum && f.Name == factory.NameUnknown && f.Value.Type() == proto.TypeUint32 {
			return f.Value.Uint32()
		}
	}
	return 0
}

func candOf(m *proto.Message, n byte) tsF {
	for i := range m.Fields {
		if m.Fields[i].FieldBase != nil && m.Fields[i].Num == n {
			if m.Fields[i].Value.Type() == proto.TypeUint32 {
				return tsF{kind: 'u', v: m.Fields[i].Value.Uint32()}
			}
			return tsF{kind: 'o'}
		}
	}
	return tsF{kind: '-'}
}

func canonMesg(m *proto.Message) string {
	return fmt.Sprintf("%d:%s:%s:%s:%d:%016x", m.Num, candOf(m, 1), candOf(m, 253), candOf(m, 254), mesgTag(m), mesgDigest(m))
}

func canonFIT(msgs []proto.Message) string {
	var sb strings.Builder
	fmt.Fprintf(&sb, "n=%d", len(msgs))
	for i := range msgs {
		sb.WriteByte(' ')
		sb.WriteString(canonMesg(&msgs[i]))
	}
	return sb.String()
}

// ---------------------------------------------------------------- file types

type fileType struct {
	b    byte
	name string
	fn   func() filedef.File
}

var (
	fileTypesOnce sync.Once
	fileTypesList []fileType
)

// fileTypes: the registry the library itself publishes (PredefinedFileSet), sorted by file type byte.
func fileTypes() []fileType {
	fileTypesOnce.Do(func() {
		for k, fn := range filedef.PredefinedFileSet() {
			if fn == nil {
				continue
			}
			name := strings.Map(func(r rune) rune {
				if r >= 'a' && r <= 'z' || r >= 'A' && r <= 'Z' || r >= '0' && r <= '9' {
					return r
				}
				return '_'
			}, k.String())
			fileTypesList = append(fileTypesList, fileType{b: byte(k), name: name, fn: fn})
		}
		sort.Slice(fileTypesList, func(i, j int) bool { return fileTypesList[i].b < fileTypesList[j].b })
	})
	return fileTypesList
}

func fileTypeByByte(b int) *fileType {
	fts := fileTypes()
	for i := range fts {
		if int(fts[i].b) == b {
			return &fts[i]
		}
	}
	return nil
}

func buildFile(ft *fileType, ds []mdesc) filedef.File {
	f := ft.fn()
	for _, d := range ds {
		f.Add(mkMesg(d))
	}
	return f
}

// soloDigest: the digest of d's normal form under file type ft (d added alone to a fresh file);
// 0 if the file type does not give the message back.
func soloDigest(ft *fileType, d mdesc) uint64 {
	out := buildFile(ft, []mdesc{d}).ToFIT(nil).Messages
	for i := range out {
		if mesgTag(&out[i]) == d.tag {
			return mesgDigest(&out[i])
		}
	}
	return 0
}

func execFileDef(args []string) string {
	if len(args) < 1 {
		return "bad-op"
	}
	b, err := strconv.Atoi(args[0])
	if err != nil {
		return "bad-op"
	}
	ft := fileTypeByByte(b)
	if ft == nil {
		return "bad-op"
	}
	ds := make([]mdesc, 0, len(args)-1)
	for _, a := range args[1:] {
		d, ok := parseMdesc(a)
		if !ok || d.tag == 0 {
			return "bad-op"
		}
		ds = append(ds, d)
	}
	f := buildFile(ft, ds)
	out := canonFIT(f.ToFIT(nil).Messages)
	again := 0
	if canonFIT(f.ToFIT(nil).Messages) == out {
		again = 1
	}
	return fmt.Sprintf("%s again=%d", out, again)
}

// ---------------------------------------------------------------- black-box probe → Generated/FileDefs.lean

type slotInfo struct {
	num            int
	decl           string // kind declared by the shape of the struct field (reflection): value | single | list | dropped (= no such field)
	kind           string // value | single | list | dropped
	m1, m253, m254 string // verbatim | time | opaque
}

type ftInfo struct {
	ft        fileType
	slots     []slotInfo
	sortFrom  int
	defaultDg uint64
	defCands  [3]tsF // candidate fields 1/253/254 of the default file_id
	dropped   []int // non-slot message numbers the file type does not give back
	declOnly  []int // numbers with a declared typed field that Add nevertheless keeps as unrelated messages
	unrelated []int // probed message numbers kept as unrelated messages
}

// message numbers probed: every number the factory knows, plus numbers no profile message has
func probeNums() []int {
	var res []int
	for n := 0; n < 420; n++ {
		if n >= 410 || len(factory.CreateMesg(typedef.MesgNum(n)).Fields) > 0 {
			res = append(res, n)
		}
	}
	res = append(res, 1000, 0xFF00, 0xFFFE)
	return res
}

func tagsOf(out []proto.Message) []uint32 {
	r := make([]uint32, len(out))
	for i := range out {
		r[i] = mesgTag(&out[i])
	}
	return r
}

// declaredKinds: what the exported struct of the file type declares for each message number: a field of type
// mesgdef.X is a value, *mesgdef.X a single message, []*mesgdef.X a list. The message number of X is taken from
// (&X{}).ToMesg(nil).Num. This is the independent source for "which kinds are singletons".
func declaredKinds(f filedef.File) map[int]string {
	res := map[int]string{}
	v := reflect.ValueOf(f)
	if v.Kind() != reflect.Ptr || v.Elem().Kind() != reflect.Struct {
		return res
	}
	t := v.Elem().Type()
	for i := 0; i < t.NumField(); i++ {
		ft := t.Field(i).Type
		kind := ""
		var st reflect.Type
		switch {
		case ft.Kind() == reflect.Struct:
			kind, st = "value", ft
		case ft.Kind() == reflect.Ptr && ft.Elem().Kind() == reflect.Struct:
			kind, st = "single", ft.Elem()
		case ft.Kind() == reflect.Slice && ft.Elem().Kind() == reflect.Ptr && ft.Elem().Elem().Kind() == reflect.Struct:
			kind, st = "list", ft.Elem().Elem()
		default:
			continue
		}
		if !strings.HasSuffix(st.PkgPath(), "/profile/mesgdef") {
			continue
		}
		m := reflect.New(st).MethodByName("ToMesg")
		if !m.IsValid() || m.Type().NumIn() != 1 {
			continue
		}
		out := m.Call([]reflect.Value{reflect.Zero(m.Type().In(0))})
		if len(out) != 1 {
			continue
		}
		if mesg, ok := out[0].Interface().(proto.Message); ok {
			res[int(mesg.Num)] = kind
		}
	}
	return res
}

func probeFileType(ft fileType) (ftInfo, error) {
	info := ftInfo{ft: ft}
	decl := declaredKinds(ft.fn())
	empty := ft.fn().ToFIT(nil).Messages
	if len(empty) != 1 || empty[0].Num != mesgnum.FileId {
		return info, fmt.Errorf("%s: an empty file does not emit exactly one file_id message (%d messages): not expressible in the table", ft.name, len(empty))
	}
	info.defaultDg = mesgDigest(&empty[0])
	info.defCands = [3]tsF{candOf(&empty[0], 1), candOf(&empty[0], 253), candOf(&empty[0], 254)}
	nums := probeNums()
	// kind of every number: add two tagged messages of that number
	kind := map[int]string{}
	for _, n := range nums {
		a := mdesc{num: n, f1: tsF{kind: '-'}, f253: tsF{kind: '-'}, f4: tsF{kind: '-'}, tag: 1, ft: 255}
		b := a
		b.tag = 2
		out := buildFile(&ft, []mdesc{a, b}).ToFIT(nil).Messages
		var seen []uint32
		for _, t := range tagsOf(out) {
			if t != 0 {
				seen = append(seen, t)
			}
		}
		switch {
		case len(seen) == 2 && seen[0] == 1 && seen[1] == 2:
			kind[n] = "list"
		case len(seen) == 1 && seen[0] == 2:
			kind[n] = "single"
		case len(seen) == 0:
			kind[n] = "dropped"
		default:
			return info, fmt.Errorf("%s: message number %d: two added messages come back as tags %v: not expressible in the table", ft.name, n, seen)
		}
		if n == int(mesgnum.FileId) && kind[n] == "single" {
			kind[n] = "value"
		}
	}
	// emission order: one message per number, added in ascending and in descending order of the number;
	// typed slots come out in the same (table) order both times, unrelated messages in arrival order
	run := func(order []int) []int {
		var ds []mdesc
		for _, n := range order {
			if kind[n] == "dropped" {
				continue
			}
			ds = append(ds, mdesc{num: n, f1: tsF{kind: '-'}, f253: tsF{kind: '-'}, f4: tsF{kind: '-'}, tag: uint32(n + 1), ft: 255})
		}
		out := buildFile(&ft, ds).ToFIT(nil).Messages
		r := make([]int, len(out))
		for i := range out {
			r[i] = int(out[i].Num)
		}
		return r
	}
	asc := append([]int(nil), nums...)
	desc := make([]int, len(nums))
	for i, n := range nums {
		desc[len(nums)-1-i] = n
	}
	o1, o2 := run(asc), run(desc)
	if len(o1) != len(o2) {
		return info, fmt.Errorf("%s: emission probe lengths differ", ft.name)
	}
	k := 0
	for k < len(o1) && o1[k] == o2[k] {
		k++
	}
	for i := k; i < len(o1); i++ {
		if o1[i] != o2[len(o1)-1-(i-k)] {
			return info, fmt.Errorf("%s: the messages after the typed slots are not emitted in arrival order: not expressible in the table", ft.name)
		}
	}
	if len(o1)-k < 2 {
		return info, fmt.Errorf("%s: fewer than two unrelated message numbers", ft.name)
	}
	slotNums := o1[:k]
	isSlot := map[int]bool{}
	for _, n := range slotNums {
		isSlot[n] = true
	}
	for _, n := range nums {
		if kind[n] == "dropped" {
			// a dropped number is a slot (emits nothing) if ... we cannot see its position: list it apart
			info.dropped = append(info.dropped, n)
			continue
		}
		if !isSlot[n] {
			if kind[n] != "list" {
				return info, fmt.Errorf("%s: message number %d is kept after the typed slots but is a %s", ft.name, n, kind[n])
			}
			info.unrelated = append(info.unrelated, n)
		}
	}
	for n := range decl {
		if !isSlot[n] && kind[n] != "dropped" {
			info.declOnly = append(info.declOnly, n)
		}
	}
	sort.Ints(info.declOnly)
	// how the three candidate fields survive in each slot
	mode := func(n int, which int) string {
		mk := func(t tsF) mdesc {
			d := mdesc{num: n, f1: tsF{kind: '-'}, f253: tsF{kind: '-'}, f4: tsF{kind: '-'}, tag: 9, ft: 255}
			switch which {
			case 1:
				d.f1 = t
			case 253:
				d.f253 = t
			default:
				d.f4 = t
			}
			return d
		}
		get := func(t tsF) tsF {
			out := buildFile(&ft, []mdesc{mk(t)}).ToFIT(nil).Messages
			for i := range out {
				if mesgTag(&out[i]) == 9 {
					return candOf(&out[i], byte(which))
				}
			}
			return tsF{kind: '?'}
		}
		v1, v2, v3, v4 := tsF{kind: 'u', v: 1000}, tsF{kind: 'u', v: 0xFFFFFFFF}, tsF{kind: 'o'}, tsF{kind: 'u', v: 0}
		g1, g2, g3, g4 := get(v1), get(v2), get(v3), get(v4)
		switch {
		case g1 == v1 && g2 == v2 && g3 == v3 && g4 == v4:
			return "verbatim"
		case g1 == v1 && g4 == v4 && g2.kind == '-' && g3.kind == '-':
			return "time"
		}
		return "opaque"
	}
	for _, n := range slotNums {
		d, ok := decl[n]
		if !ok {
			d = "dropped"
		}
		info.slots = append(info.slots, slotInfo{num: n, decl: d, kind: kind[n], m1: mode(n, 1), m253: mode(n, 253), m254: mode(n, 254)})
	}
	// where sorting starts: groups = slots ++ [unrelated]; strictly descending keys in emission order
	var ds []mdesc
	ts := uint32(100000)
	tag := uint32(1)
	addTs := func(n int, s *slotInfo) error {
		d := mdesc{num: n, f1: tsF{kind: '-'}, f253: tsF{kind: '-'}, f4: tsF{kind: '-'}, tag: tag, ft: 255}
		tag++
		t := tsF{kind: 'u', v: ts}
		ts -= 10
		which, m := 253, ""
		if s != nil {
			m = s.m253
		}
		if n == int(mesgnum.CoursePoint) {
			which = 1
			if s != nil {
				m = s.m1
			}
		} else if n == int(mesgnum.Set) {
			which = 254
			if s != nil {
				m = s.m254
			}
		}
		if s != nil && m == "opaque" {
			return fmt.Errorf("%s: slot %d cannot carry a timestamp key (field %d is opaque)", ft.name, n, which)
		}
		switch which {
		case 1:
			d.f1 = t
		case 254:
			d.f4 = t
		default:
			d.f253 = t
		}
		ds = append(ds, d)
		return nil
	}
	for i := range info.slots {
		s := &info.slots[i]
		cnt := 1
		if s.kind == "list" {
			cnt = 2
		}
		for j := 0; j < cnt; j++ {
			if err := addTs(s.num, s); err != nil {
				return info, err
			}
		}
	}
	addTs(info.unrelated[0], nil)
	addTs(info.unrelated[len(info.unrelated)-1], nil)
	got := tagsOf(buildFile(&ft, ds).ToFIT(nil).Messages)
	// prediction for each start k: groups in order; the first k groups untouched, the rest reversed as a whole
	var groups [][]uint32
	t := uint32(1)
	for i := range info.slots {
		cnt := 1
		if info.slots[i].kind == "list" {
			cnt = 2
		}
		var g []uint32
		for j := 0; j < cnt; j++ {
			g = append(g, t)
			t++
		}
		groups = append(groups, g)
	}
	groups = append(groups, []uint32{t, t + 1})
	info.sortFrom = -1
	for k := 0; k <= len(groups); k++ {
		var pred, rest []uint32
		for i, g := range groups {
			if i < k {
				pred = append(pred, g...)
			} else {
				rest = append(rest, g...)
			}
		}
		for i := len(rest) - 1; i >= 0; i-- {
			pred = append(pred, rest[i])
		}
		if fmt.Sprint(pred) == fmt.Sprint(got) {
			if info.sortFrom >= 0 {
				return info, fmt.Errorf("%s: sort start ambiguous", ft.name)
			}
			info.sortFrom = k
		}
	}
	if info.sortFrom < 0 {
		return info, fmt.Errorf("%s: the emitted order matches no 'sort the suffix from group k' shape: %v", ft.name, got)
	}
	return info, nil
}

var (
	probeOnce sync.Once
	probeRes  []ftInfo
	probeErr  error
)

func probeAll() ([]ftInfo, error) {
	probeOnce.Do(func() {
		for _, ft := range fileTypes() {
			info, err := probeFileType(ft)
			if err != nil {
				probeErr = err
				return
			}
			probeRes = append(probeRes, info)
		}
	})
	return probeRes, probeErr
}

func leanTsF(t tsF) string {
	switch t.kind {
	case 'u':
		return fmt.Sprintf("(.u32 %d)", t.v)
	case 'o':
		return ".other"
	}
	return ".absent"
}

func leanNatList(xs []int) string {
	s := make([]string, len(xs))
	for i, x := range xs {
		s[i] = strconv.Itoa(x)
	}
	return "[" + strings.Join(s, ", ") + "]"
}

// filedefprobe <path>: writes Generated/FileDefs.lean (only if changed); answers "ok <n file types>".
func execFileDefProbe(args []string) string {
	if len(args) != 1 {
		return "bad-op"
	}
	infos, err := probeAll()
	if err != nil {
		return "error " + strings.ReplaceAll(err.Error(), "\n", " ")
	}
	var sb strings.Builder
	sb.WriteString("import FitModel.FileDefTypes\n")
	sb.WriteString("/-! GENERATED on every run by `fitharness exec` op `filedefprobe` (harness/fam_filedef.go): black-box probing of\n")
	sb.WriteString("every file type of filedef.PredefinedFileSet() with tagged messages. Do not edit. -/\n")
	sb.WriteString("namespace Fit.FileDef.Generated\nopen Fit.FileDef\n\n")
	fmt.Fprintf(&sb, "def mesgNumFileId : Nat := %d\ndef mesgNumDeveloperDataId : Nat := %d\ndef mesgNumFieldDescription : Nat := %d\n", mesgnum.FileId, mesgnum.DeveloperDataId, mesgnum.FieldDescription)
	fmt.Fprintf(&sb, "def mesgNumCoursePoint : Nat := %d\ndef mesgNumSet : Nat := %d\n", mesgnum.CoursePoint, mesgnum.Set)
	fmt.Fprintf(&sb, "def fieldNumTimestamp : Nat := %d\ndef fieldNumCoursePointTimestamp : Nat := %d\ndef fieldNumSetTimestamp : Nat := %d\n\n", proto.FieldNumTimestamp, fieldnum.CoursePointTimestamp, fieldnum.SetTimestamp)
	var names []string
	for _, in := range infos {
		dn := fmt.Sprintf("ft%d", in.ft.b)
		names = append(names, dn)
		fmt.Fprintf(&sb, "def %s : FileType := {\n  name := \"%s\", gotype := \"%s\", ftype := %d, sortFrom := %d, defaultDg := 0x%016x,\n  d1 := %s, d253 := %s, d254 := %s,\n  dropped := %s, declOnly := %s,\n  slots := [\n", dn, in.ft.name, strings.TrimPrefix(fmt.Sprintf("%T", in.ft.fn()), "*"), in.ft.b, in.sortFrom, in.defaultDg, leanTsF(in.defCands[0]), leanTsF(in.defCands[1]), leanTsF(in.defCands[2]), leanNatList(in.dropped), leanNatList(in.declOnly))
		for i, s := range in.slots {
			sep := ","
			if i == len(in.slots)-1 {
				sep = ""
			}
			fmt.Fprintf(&sb, "    ⟨%d, .%s, .%s, .%s, .%s, .%s⟩%s\n", s.num, s.decl, s.kind, s.m1, s.m253, s.m254, sep)
		}
		sb.WriteString("  ] }\n\n")
	}
	fmt.Fprintf(&sb, "def fileTypes : List FileType := [%s]\n\n", strings.Join(names, ", "))
	fmt.Fprintf(&sb, "/-- message numbers the probe fed to every file type -/\ndef probedNums : List Nat := %s\n", leanNatList(probeNums()))
	sb.WriteString("end Fit.FileDef.Generated\n")
	s := sb.String()
	if old, err := os.ReadFile(args[0]); err != nil || string(old) != s {
		if err := os.WriteFile(args[0], []byte(s), 0o644); err != nil {
			return "error write"
		}
	}
	return fmt.Sprintf("ok %d", len(infos))
}

// ---------------------------------------------------------------- generator

func slotOfInfo(in *ftInfo, n int) *slotInfo {
	for i := range in.slots {
		if in.slots[i].num == n {
			return &in.slots[i]
		}
	}
	return nil
}

type tsGen struct {
	base  uint32
	width int
}

func (g tsGen) pick(rng *Rng, allowOther bool) tsF {
	switch x := rng.Intn(20); {
	case x < 3:
		return tsF{kind: '-'}
	case x < 5:
		return tsF{kind: 'u', v: 0xFFFFFFFF}
	case x == 5 && allowOther:
		return tsF{kind: 'o'}
	case x == 6:
		return tsF{kind: 'u', v: uint32(rng.U64())}
	case x == 7:
		return tsF{kind: 'u', v: []uint32{0, 1, 0xFFFFFFFE, 0x7FFFFFFF, 0x80000000}[rng.Intn(5)]}
	}
	return tsF{kind: 'u', v: g.base + uint32(rng.Intn(g.width))}
}

// genMesgList: a message list for file type `in`, descriptors complete with solo digests.
func genMesgList(in *ftInfo, rng *Rng, n int, tagBase uint32) []mdesc {
	g := tsGen{base: uint32(rng.Intn(1 << 30)), width: []int{1, 2, 5, 50, 100000}[rng.Intn(5)]}
	var ds []mdesc
	unknownNums := []int{410, 1000, 0xFF00, 0xFFFE, 500}
	fileIdMode := rng.Intn(10) // 0: none, 1: several anywhere, else: one first
	for i := 0; i < n; i++ {
		var num int
		switch x := rng.Intn(20); {
		case i == 0 && fileIdMode >= 2:
			num = int(mesgnum.FileId)
		case x < 9 && len(in.slots) > 3:
			num = in.slots[3+rng.Intn(len(in.slots)-3)].num
		case x < 11:
			num = []int{int(mesgnum.DeveloperDataId), int(mesgnum.FieldDescription)}[rng.Intn(2)]
		case x < 13:
			num = []int{int(mesgnum.CoursePoint), int(mesgnum.Set)}[rng.Intn(2)]
		case x < 16:
			num = in.unrelated[rng.Intn(len(in.unrelated))]
		case x < 18:
			num = unknownNums[rng.Intn(len(unknownNums))]
		case x == 18 && fileIdMode == 1:
			num = int(mesgnum.FileId)
		default:
			num = in.slots[rng.Intn(len(in.slots))].num
			if num == int(mesgnum.FileId) && fileIdMode != 1 {
				num = int(mesgnum.Record)
			}
		}
		d := mdesc{num: num, f1: tsF{kind: '-'}, f253: tsF{kind: '-'}, f4: tsF{kind: '-'}, tag: tagBase + uint32(i), ft: 255}
		if rng.Intn(3) != 0 {
			d.seed = 1 + rng.U64()%1000000007
		}
		if num == int(mesgnum.FileId) {
			d.ft = int(in.ft.b)
			if rng.Intn(8) == 0 {
				d.ft = rng.Intn(256)
			}
		}
		s := slotOfInfo(in, num)
		allow := func(m string) bool { return s == nil || m == "verbatim" || m == "time" }
		m1, m253, m254 := "", "", ""
		if s != nil {
			m1, m253, m254 = s.m1, s.m253, s.m254
		}
		// the key field of this message number
		switch num {
		case int(mesgnum.CoursePoint):
			if allow(m1) {
				d.f1 = g.pick(rng, true)
			}
		case int(mesgnum.Set):
			if allow(m254) {
				d.f4 = g.pick(rng, true)
			}
		default:
			if allow(m253) {
				d.f253 = g.pick(rng, true)
			}
		}
		// the other candidates now and then (they must not influence the order)
		if rng.Intn(4) == 0 && allow(m1) && d.f1.kind == '-' {
			d.f1 = g.pick(rng, true)
		}
		if rng.Intn(4) == 0 && allow(m253) && d.f253.kind == '-' {
			d.f253 = g.pick(rng, true)
		}
		if rng.Intn(4) == 0 && allow(m254) && d.f4.kind == '-' {
			d.f4 = g.pick(rng, true)
		}
		d.dg = soloDigest(&in.ft, d)
		ds = append(ds, d)
	}
	return ds
}

func descsString(ds []mdesc) string {
	s := make([]string, len(ds))
	for i := range ds {
		s[i] = ds[i].String()
	}
	return strings.Join(s, " ")
}

func genFileDef(emit func(string), tier string, rng *Rng) {
	infos, err := probeAll()
	if err != nil {
		fmt.Fprintln(os.Stderr, "probe failed:", err)
		os.Exit(3)
	}
	// fixed: empty list and one message of every slot for every file type
	for i := range infos {
		in := &infos[i]
		emit(fmt.Sprintf("filedef %d", in.ft.b))
		var ds []mdesc
		for j, s := range in.slots {
			d := mdesc{num: s.num, f1: tsF{kind: '-'}, f253: tsF{kind: '-'}, f4: tsF{kind: '-'}, tag: uint32(j + 1), ft: 255}
			d.dg = soloDigest(&in.ft, d)
			ds = append(ds, d)
		}
		emit(fmt.Sprintf("filedef %d %s", in.ft.b, descsString(ds)))
	}
	n := 12000
	if tier == "thorough" {
		n = 40000
	}
	for i := 0; i < n; i++ {
		in := &infos[rng.Intn(len(infos))]
		var k int
		switch x := rng.Intn(50); {
		case x < 15:
			k = rng.Intn(6)
		case x < 40:
			k = rng.Intn(40)
		case x < 49 || tier != "thorough":
			k = rng.Intn(200)
		default:
			k = rng.Intn(2000)
		}
		ds := genMesgList(in, rng, k, 1)
		count("ft:" + in.ft.name)
		count(fmt.Sprintf("len<%d", bucket(k)))
		emit(fmt.Sprintf("filedef %d %s", in.ft.b, descsString(ds)))
	}
	genFileDefC(emit, tier, rng.Fork(0xC14C), infos)
}

// ---------------------------------------------------------------- the file types on real messages (filedefc)

func printFITC(msgs []proto.Message) string {
	var sb strings.Builder
	fmt.Fprintf(&sb, "n=%d", len(msgs))
	for i := range msgs {
		sb.WriteByte(' ')
		sb.WriteString(printMessage(&msgs[i]))
	}
	return sb.String()
}

// execFileDefC: Add every message, ToFIT(options), print every message in full. After the last Add the Fields slices of
// the inputs are overwritten (the listener hands Add a pooled slice that is reused for the next message: a file must not
// keep referring to it), and ToFIT is observed twice.
func execFileDefC(args []string) string {
	if len(args) < 2 {
		return "bad-op"
	}
	b, err := strconv.Atoi(args[0])
	if err != nil {
		return "bad-op"
	}
	ft := fileTypeByByte(b)
	opts, ok := parseTypedOpts(args[1])
	if ft == nil || !ok {
		return "bad-op"
	}
	msgs := make([]proto.Message, 0, len(args)-2)
	for _, a := range args[2:] {
		m, ok := parseMessage(a)
		if !ok {
			return "bad-op"
		}
		msgs = append(msgs, m)
	}
	f := ft.fn()
	for i := range msgs {
		f.Add(msgs[i])
	}
	for i := range msgs {
		for j := range msgs[i].Fields {
			msgs[i].Fields[j] = proto.Field{FieldBase: &proto.FieldBase{Name: "scribble", Num: 253, Scale: 1}, Value: proto.Uint32(0xdeadbeef)}
		}
	}
	out := printFITC(f.ToFIT(opts).Messages)
	if again := printFITC(f.ToFIT(opts).Messages); again != out {
		return out + " again-differs"
	}
	return out
}

var fileDefCOpts = []string{"o:nil", "o:nil", "o:-,std", "o:i,std", "o:i,std", "o:-,zero", "o:i,unk", "o:-,alt", "o:i,alt"}

// setKeyField: makes the message's sort-key field(s) follow the timestamp generator g (equal / invalid / missing / other type),
// so that the order of the output depends on them. which = the key field number of this message number.
func setKeyField(m *proto.Message, which byte, g tsGen, rng *Rng, t *mdTable) {
	pick := g.pick(rng, true)
	mk := func() proto.Field {
		var f proto.Field
		if t != nil && slotByNum(t, int(which)) != nil {
			f = factory.StandardFactory().CreateField(m.Num, which)
		} else {
			f = unknownField(int(which), proto.Value{}, false)
		}
		if pick.kind == 'u' {
			f.Value = proto.Uint32(pick.v)
		} else {
			f.Value = proto.Uint8(7)
		}
		return f
	}
	var kept []proto.Field
	seen := false
	for _, f := range m.Fields {
		if f.FieldBase != nil && f.Num == which {
			if pick.kind == '-' {
				continue
			}
			if !seen || rng.Intn(3) == 0 {
				nf := mk()
				nf.FieldBase = f.FieldBase
				f = nf
			}
			seen = true
		}
		kept = append(kept, f)
	}
	if !seen && pick.kind != '-' {
		if rng.Bool() {
			kept = append([]proto.Field{mk()}, kept...)
		} else {
			kept = append(kept, mk())
		}
	}
	m.Fields = kept
}

func genFileDefC(emit func(string), tier string, rng *Rng, infos []ftInfo) {
	ts, err := allTables()
	if err != nil {
		return // the mesgdef translator reports the error itself
	}
	byNum := map[int]*mdTable{}
	for _, t := range ts {
		byNum[int(t.num)] = t
	}
	pv := probeValues()
	// fixed: for every file type the empty file (the zero-valued file_id) under every option
	for i := range infos {
		for _, o := range []string{"o:nil", "o:i,std", "o:i,unk", "o:-,alt"} {
			emit(fmt.Sprintf("filedefc %d %s", infos[i].ft.b, o))
		}
	}
	n := 2500
	if tier == "thorough" {
		n = 12000
	}
	unknownNums := []int{410, 1000, 0xFF00, 0xFFFE, 500}
	for i := 0; i < n; i++ {
		in := &infos[rng.Intn(len(infos))]
		var k int
		switch x := rng.Intn(20); {
		case x < 8:
			k = rng.Intn(5)
		case x < 19:
			k = rng.Intn(16)
		default:
			k = rng.Intn(60)
		}
		g := tsGen{base: uint32(rng.Intn(1 << 30)), width: []int{1, 2, 5, 50, 100000}[rng.Intn(5)]}
		fileIdMode := rng.Intn(10)
		parts := make([]string, 0, k)
		for j := 0; j < k; j++ {
			var num int
			switch x := rng.Intn(20); {
			case j == 0 && fileIdMode >= 2:
				num = int(mesgnum.FileId)
			case x < 9 && len(in.slots) > 3:
				num = in.slots[3+rng.Intn(len(in.slots)-3)].num
			case x < 11:
				num = []int{int(mesgnum.DeveloperDataId), int(mesgnum.FieldDescription)}[rng.Intn(2)]
			case x < 13:
				num = []int{int(mesgnum.CoursePoint), int(mesgnum.Set)}[rng.Intn(2)]
			case x < 16:
				num = in.unrelated[rng.Intn(len(in.unrelated))]
			case x < 18:
				num = unknownNums[rng.Intn(len(unknownNums))]
			case x == 18 && fileIdMode == 1:
				num = int(mesgnum.FileId)
			default:
				num = in.slots[rng.Intn(len(in.slots))].num
				if num == int(mesgnum.FileId) && fileIdMode != 1 {
					num = int(mesgnum.Record)
				}
			}
			t := byNum[num]
			var m proto.Message
			typedSlot := slotOfInfo(in, num) != nil
			if t != nil {
				nilEvery := 0
				if typedSlot {
					nilEvery = 150 // a typed message with a nil FieldBase: Add panics (outside the property; model and code must agree)
				}
				m = typedRandomMesg(t, rng, pv, nilEvery)
			} else {
				m.Num = typedef.MesgNum(num)
				for c := rng.Intn(5); c > 0; c-- {
					if rng.Bool() {
						m.Fields = append(m.Fields, unknownField(rng.Intn(256), pv[rng.Intn(len(pv))], rng.Intn(4) == 0))
					} else {
						m.Fields = append(m.Fields, namedField(rng.Intn(256), pv[rng.Intn(len(pv))], rng.Intn(4) == 0))
					}
				}
				m.DeveloperFields = randomDevFields(rng)
			}
			which := byte(proto.FieldNumTimestamp)
			switch num {
			case int(mesgnum.CoursePoint):
				which = fieldnum.CoursePointTimestamp
			case int(mesgnum.Set):
				which = fieldnum.SetTimestamp
			}
			if rng.Intn(6) != 0 {
				setKeyField(&m, which, g, rng, t)
			}
			if typedSlot {
				count("c:typed")
			} else if t != nil {
				count("c:unrelated-profile")
			} else {
				count("c:unrelated-unknown")
			}
			parts = append(parts, printMessage(&m))
		}
		count("c:ft:" + in.ft.name)
		count(fmt.Sprintf("c:len<%d", bucket(k)))
		emit(strings.TrimRight(fmt.Sprintf("filedefc %d %s %s", in.ft.b, fileDefCOpts[rng.Intn(len(fileDefCOpts))], strings.Join(parts, " ")), " "))
	}
}

// filedefmk <filetype byte> num:f1:f253:f254:tag:seed[:ft] ... → the complete `filedef` operation line (solo digests
// filled in). A tool for writing corpus lines and witnesses by hand; not used by the check.
func execFileDefMk(args []string) string {
	if len(args) < 1 {
		return "bad-op"
	}
	b, err := strconv.Atoi(args[0])
	if err != nil {
		return "bad-op"
	}
	ft := fileTypeByByte(b)
	if ft == nil {
		return "bad-op"
	}
	var ds []mdesc
	for _, a := range args[1:] {
		p := strings.Split(a, ":")
		if len(p) == 6 {
			p = append(p, "255")
		}
		if len(p) != 7 {
			return "bad-op"
		}
		d, ok := parseMdesc(strings.Join(append(append([]string{}, p[:6]...), "0", p[6]), ":"))
		if !ok {
			return "bad-op"
		}
		d.dg = soloDigest(ft, d)
		ds = append(ds, d)
	}
	return fmt.Sprintf("filedef %d %s", b, descsString(ds))
}

func init() { executors["filedefmk"] = execFileDefMk }
