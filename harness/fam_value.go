package main

// Families `value` (ops value / unm / vany) and `utf8` (op utf8): proto.Value against the Lean model
// FitModel/Value.lean, unicode/utf8 + proto.utf8String against FitModel/Utf8.lean.
//
//	value <value> a:<arch> bt:<hex>
//	    → t=<Type> sz=<Size> m=<MarshalAppend hex|err> v=<Valid(bt)> al=<Align(bt)> raw=<num hex16>.<m<i>|x>
//	      acc=<hex bitmask of accepting accessors> any=<Any() as go value> back=<proto.Any(Any())>
//	      rt=<UnmarshalValue(m, arch, bt, isBool(value), isSlice(value))>
//	unm b:<hex> a:<arch> bt:<hex> pb:<0|1> arr:<0|1>        → ok:<value> | err | panic
//	vany <gotag>[@<k>][*][*]:<payload>                      → <value> any=<go value>   (proto.Any, then Value.Any(); @k = k-th named type of that kind, * = pointer)
//	utf8 b:<hex> → r=<rune hex> n=<width> ok=<utf8.Valid> app=<AppendRune(r) hex> s=<utf8String hex>

import (
	"encoding/hex"
	"fmt"
	"math"
	"reflect"
	"strconv"
	"strings"
	"unicode/utf8"

	"github.com/muktihari/fit/profile"
	"github.com/muktihari/fit/profile/basetype"
	"github.com/muktihari/fit/profile/typedef"
	"github.com/muktihari/fit/proto"
)

func init() {
	// every named type of profile/typedef (regenerated list, typedef_registry_gen.go) behind the hand-picked ones: the
	// first entries of each kind keep their index (@k of existing corpus lines)
	for kind, ts := range typedefNamedRegistry {
		have := map[reflect.Type]bool{}
		for _, t := range namedTypes[kind] {
			have[t] = true
		}
		sorted := append([]reflect.Type(nil), ts...)
		for _, t := range sorted {
			if !have[t] {
				namedTypes[kind] = append(namedTypes[kind], t)
			}
		}
	}
	families["value"] = genValue
	families["utf8"] = genUtf8
	executors["value"] = execValue
	executors["unm"] = execUnm
	executors["unmre"] = execUnmRe
	executors["vany"] = execVany
	executors["utf8"] = execUtf8
}

func kv(args []string, key string) (string, bool) {
	for _, a := range args {
		if strings.HasPrefix(a, key+":") {
			return a[len(key)+1:], true
		}
	}
	return "", false
}

func kvByte(args []string, key string) (byte, bool) {
	s, ok := kv(args, key)
	if !ok {
		return 0, false
	}
	x, err := strconv.ParseUint(s, 16, 8)
	return byte(x), err == nil
}

func b2i(b bool) int {
	if b {
		return 1
	}
	return 0
}

func isSliceType(t proto.Type) bool { return t >= proto.TypeSliceBool && t <= proto.TypeSliceString }

func printOutcome(v proto.Value, err error) string {
	if err != nil {
		return "err"
	}
	return "ok:" + printValue(v)
}

// unmarshalGuarded turns the documented panic of UnmarshalValue on short input into an outcome.
func unmarshalGuarded(b []byte, arch byte, bt basetype.BaseType, pt profile.ProfileType, arr bool) (out string) {
	defer func() {
		if r := recover(); r != nil {
			out = "panic"
		}
	}()
	// The decoder unmarshals out of a read buffer it overwrites with the next chunk: a value must own its
	// memory. The input is scribbled over before the value is printed (seeded change C06-6: an array returned
	// as a view of the input bytes).
	in := append([]byte(nil), b...)
	v, err := proto.UnmarshalValue(in, arch, bt, pt, arr)
	for i := range in {
		in[i] ^= 0xA5
	}
	return printOutcome(v, err)
}

// acceptMask: bit i is set when the i-th accessor returns something else than its wrong-type default
// (sentinel, "" or an empty/nil slice).
func acceptMask(v proto.Value) uint32 {
	var m uint32
	set := func(i int, c bool) {
		if c {
			m |= 1 << uint(i)
		}
	}
	set(0, v.Bool() != typedef.BoolInvalid)
	set(1, v.Int8() != basetype.Sint8Invalid)
	set(2, v.Uint8() != basetype.Uint8Invalid)
	set(3, v.Uint8z() != basetype.Uint8zInvalid)
	set(4, v.Int16() != basetype.Sint16Invalid)
	set(5, v.Uint16() != basetype.Uint16Invalid)
	set(6, v.Uint16z() != basetype.Uint16zInvalid)
	set(7, v.Int32() != basetype.Sint32Invalid)
	set(8, v.Uint32() != basetype.Uint32Invalid)
	set(9, v.Uint32z() != basetype.Uint32zInvalid)
	set(10, v.Int64() != basetype.Sint64Invalid)
	set(11, v.Uint64() != basetype.Uint64Invalid)
	set(12, v.Uint64z() != basetype.Uint64zInvalid)
	set(13, math.Float32bits(v.Float32()) != basetype.Float32Invalid)
	set(14, math.Float64bits(v.Float64()) != basetype.Float64Invalid)
	set(15, v.String() != basetype.StringInvalid)
	set(16, len(v.SliceBool()) > 0)
	set(17, len(v.SliceInt8()) > 0)
	set(18, len(v.SliceUint8()) > 0)
	set(19, len(v.SliceInt16()) > 0)
	set(20, len(v.SliceUint16()) > 0)
	set(21, len(v.SliceInt32()) > 0)
	set(22, len(v.SliceUint32()) > 0)
	set(23, len(v.SliceInt64()) > 0)
	set(24, len(v.SliceUint64()) > 0)
	set(25, len(v.SliceFloat32()) > 0)
	set(26, len(v.SliceFloat64()) > 0)
	set(27, len(v.SliceString()) > 0)
	return m
}

func execValue(args []string) string {
	if len(args) != 3 {
		return "bad-op"
	}
	v, ok := parseValue(args[0])
	arch, ok2 := kvByte(args, "a")
	btb, ok3 := kvByte(args, "bt")
	if !ok || !ok2 || !ok3 {
		return "bad-op"
	}
	bt := basetype.BaseType(btb)
	var out []string
	t := v.Type()
	out = append(out, fmt.Sprintf("t=%d", t), fmt.Sprintf("sz=%d", v.Size()))
	prefix := []byte{0xAA, 0x55}
	m, err := v.MarshalAppend(append([]byte(nil), prefix...), arch)
	if len(m) < 2 || m[0] != 0xAA || m[1] != 0x55 {
		return "marshal-clobbered-prefix"
	}
	m = m[2:]
	if err != nil {
		if len(m) != 0 {
			return "marshal-error-with-bytes"
		}
		out = append(out, "m=err")
	} else {
		out = append(out, "m="+hex.EncodeToString(m))
	}
	out = append(out, fmt.Sprintf("v=%d", b2i(v.Valid(bt))), fmt.Sprintf("al=%d", b2i(v.Align(bt))))
	p := "x"
	base := rawPtr(proto.Bool(0)) - uintptr(proto.TypeBool)
	if q := rawPtr(v); q >= base && q < base+12 {
		p = fmt.Sprintf("m%d", q-base)
	}
	out = append(out, fmt.Sprintf("raw=%016x.%s", rawNum(v), p))
	out = append(out, fmt.Sprintf("acc=%x", acceptMask(v)))
	a := v.Any()
	out = append(out, "any="+printGo(a), "back="+printValue(proto.Any(a)))
	if err != nil {
		out = append(out, "rt=-")
	} else {
		pt := profile.ProfileType(profile.Uint8)
		if t == proto.TypeBool || t == proto.TypeSliceBool {
			pt = profile.Bool
		}
		out = append(out, "rt="+unmarshalGuarded(m, arch, bt, pt, isSliceType(t)))
	}
	return strings.Join(out, " ")
}

func execUnm(args []string) string {
	if len(args) != 5 {
		return "bad-op"
	}
	bs, ok := kv(args, "b")
	arch, ok2 := kvByte(args, "a")
	bt, ok3 := kvByte(args, "bt")
	pb, ok4 := kv(args, "pb")
	arr, ok5 := kv(args, "arr")
	b, err := hex.DecodeString(bs)
	if !ok || !ok2 || !ok3 || !ok4 || !ok5 || err != nil || (pb != "0" && pb != "1") || (arr != "0" && arr != "1") {
		return "bad-op"
	}
	pt := profile.ProfileType(profile.Uint16)
	if pb == "1" {
		pt = profile.Bool
	}
	return unmarshalGuarded(b, arch, basetype.BaseType(bt), pt, arr == "1")
}

// execUnmRe: UnmarshalValue on arbitrary bytes, then the returned value through MarshalAppend (byte order a2) and
// UnmarshalValue again under the same base type and flags ("re-encoding what the decoder returned", value layer):
// `<first outcome> m=<bytes|err|-> re=<second outcome|->`.
func execUnmRe(args []string) string {
	if len(args) != 6 {
		return "bad-op"
	}
	bs, ok := kv(args, "b")
	arch, ok2 := kvByte(args, "a")
	arch2, ok6 := kvByte(args, "a2")
	bt, ok3 := kvByte(args, "bt")
	pb, ok4 := kv(args, "pb")
	arr, ok5 := kv(args, "arr")
	b, err := hex.DecodeString(bs)
	if !ok || !ok2 || !ok3 || !ok4 || !ok5 || !ok6 || err != nil || (pb != "0" && pb != "1") || (arr != "0" && arr != "1") {
		return "bad-op"
	}
	pt := profile.ProfileType(profile.Uint16)
	if pb == "1" {
		pt = profile.Bool
	}
	first := unmarshalGuarded(b, arch, basetype.BaseType(bt), pt, arr == "1")
	if !strings.HasPrefix(first, "ok:") {
		return first + " m=- re=-"
	}
	in := append([]byte(nil), b...)
	v, _ := proto.UnmarshalValue(in, arch, basetype.BaseType(bt), pt, arr == "1")
	// spare capacity and a prefix in the destination: MarshalAppend must append, not overwrite
	dst := append(make([]byte, 0, 64), 0xEE, 0xEE, 0xEE)
	out, merr := v.MarshalAppend(dst, arch2)
	if merr != nil {
		return first + " m=err re=-"
	}
	if len(out) < 3 || out[0] != 0xEE || out[1] != 0xEE || out[2] != 0xEE {
		return first + " m=overwritten re=-"
	}
	m := append([]byte(nil), out[3:]...)
	return first + " m=" + hex.EncodeToString(m) + " re=" + unmarshalGuarded(m, arch2, basetype.BaseType(bt), pt, arr == "1")
}

// named types per kind, reached only through the reflection fallback of proto.Any
type (
	nBool    bool
	nInt8    int8
	nInt16   int16
	nInt32   int32
	nInt64   int64
	nUint64  uint64
	nFloat32 float32
	nFloat64 float64
	nString  string
	nInt     int
	nStruct  struct{ A int }
)

var namedTypes = map[string][]reflect.Type{
	"gobool": {reflect.TypeOf(nBool(false))},
	"tbool":  {reflect.TypeOf(typedef.Bool(0))}, // @0 is typedef.Bool itself (fast path)
	"i8":     {reflect.TypeOf(nInt8(0))},
	"u8": {reflect.TypeOf(typedef.Sport(0)), reflect.TypeOf(typedef.File(0)), reflect.TypeOf(typedef.Event(0)),
		reflect.TypeOf(typedef.DeviceIndex(0)), reflect.TypeOf(basetype.BaseType(0)), reflect.TypeOf(proto.Type(0))},
	"i16":  {reflect.TypeOf(nInt16(0))},
	"u16":  {reflect.TypeOf(typedef.Manufacturer(0)), reflect.TypeOf(typedef.MesgNum(0)), reflect.TypeOf(typedef.GarminProduct(0)), reflect.TypeOf(typedef.MessageIndex(0))},
	"i32":  {reflect.TypeOf(nInt32(0))},
	"u32":  {reflect.TypeOf(typedef.DateTime(0)), reflect.TypeOf(typedef.LocalDateTime(0)), reflect.TypeOf(typedef.WorkoutCapabilities(0)), reflect.TypeOf(typedef.LocaltimeIntoDay(0))},
	"i64":  {reflect.TypeOf(nInt64(0))},
	"u64":  {reflect.TypeOf(nUint64(0))},
	"f32":  {reflect.TypeOf(nFloat32(0))},
	"f64":  {reflect.TypeOf(nFloat64(0))},
	"str":  {reflect.TypeOf(nString(""))},
	"int":  {reflect.TypeOf(nInt(0))},
	"uint": {reflect.TypeOf(uint(0))},
}

// buildGo builds the Go value described by <gotag>[@k]:<payload> (not yet wrapped in pointers).
func buildGo(tag string, named int, payload string) (any, bool) {
	switch tag {
	case "nil":
		return nil, payload == ""
	case "struct":
		if named >= 0 {
			return nStruct{A: 1}, true
		}
		return struct{ X byte }{1}, true
	case "anys":
		return []any{1, "x"}, true
	case "map":
		return map[string]int{"a": 1}, true
	}
	if strings.HasPrefix(tag, "val(") && strings.HasSuffix(tag, ")") { // val(<tag>):<payload>
		v, ok := parseValue(tag[4:len(tag)-1] + ":" + payload)
		return v, ok
	}
	if tag == "strs" || tag == "str" {
		var ss []string
		if tag == "str" {
			b, err := hex.DecodeString(payload)
			if err != nil {
				return nil, false
			}
			ss = []string{string(b)}
		} else {
			var ok bool
			if ss, ok = parseStrs(payload); !ok {
				return nil, false
			}
		}
		et := reflect.TypeOf("")
		if named >= 0 {
			et = namedTypes["str"][named%len(namedTypes["str"])]
		}
		if tag == "str" {
			rv := reflect.New(et).Elem()
			rv.SetString(ss[0])
			return rv.Interface(), true
		}
		// spare capacity beyond len (filled with junk) is legal and must never show: slices grown by append,
		// re-slices, make with capacity (seeded change C06-2: Cap() instead of Len() in the reflection fallback)
		extra := len(payload) % 4
		rv := reflect.MakeSlice(reflect.SliceOf(et), len(ss)+extra, len(ss)+extra)
		for i := range ss {
			rv.Index(i).SetString(ss[i])
		}
		for i := len(ss); i < len(ss)+extra; i++ {
			rv.Index(i).SetString("junk")
		}
		return rv.Slice(0, len(ss)).Interface(), true
	}
	b, err := hex.DecodeString(payload)
	if err != nil {
		return nil, false
	}
	base := tag
	slice := false
	if _, ok := basicTypes[base]; !ok {
		if strings.HasSuffix(tag, "s") {
			base, slice = tag[:len(tag)-1], true
		}
	}
	et, ok := basicTypes[base]
	if !ok {
		return nil, false
	}
	if named >= 0 {
		nts := namedTypes[base]
		if len(nts) == 0 {
			return nil, false
		}
		et = nts[named%len(nts)]
	}
	w := int(et.Size())
	if base == "int" || base == "uint" {
		w = 8
	}
	if len(b)%w != 0 || (!slice && len(b) != w) {
		return nil, false
	}
	setEl := func(rv reflect.Value, x uint64) {
		switch rv.Kind() {
		case reflect.Bool:
			rv.SetBool(x != 0)
		case reflect.Int, reflect.Int8, reflect.Int16, reflect.Int32, reflect.Int64:
			switch w {
			case 1:
				rv.SetInt(int64(int8(x)))
			case 2:
				rv.SetInt(int64(int16(x)))
			case 4:
				rv.SetInt(int64(int32(x)))
			default:
				rv.SetInt(int64(x))
			}
		case reflect.Uint, reflect.Uint8, reflect.Uint16, reflect.Uint32, reflect.Uint64:
			rv.SetUint(x)
		case reflect.Float32:
			// write the bit pattern without a float conversion (SetFloat would go through float64)
			*(*uint32)(rv.Addr().UnsafePointer()) = uint32(x)
		case reflect.Float64:
			*(*uint64)(rv.Addr().UnsafePointer()) = x
		}
	}
	if !slice {
		rv := reflect.New(et).Elem()
		setEl(rv, leUint(b))
		return rv.Interface(), true
	}
	n := len(b) / w
	extra := (len(b) + n) % 4 // spare capacity filled with junk, see above
	rv := reflect.MakeSlice(reflect.SliceOf(et), n+extra, n+extra)
	for i := 0; i < n; i++ {
		setEl(rv.Index(i), leUint(b[i*w:(i+1)*w]))
	}
	for i := n; i < n+extra; i++ {
		setEl(rv.Index(i), 1)
	}
	return rv.Slice(0, n).Interface(), true
}

var basicTypes = map[string]reflect.Type{
	"gobool": reflect.TypeOf(false), "tbool": reflect.TypeOf(typedef.Bool(0)),
	"i8": reflect.TypeOf(int8(0)), "u8": reflect.TypeOf(uint8(0)), "i16": reflect.TypeOf(int16(0)), "u16": reflect.TypeOf(uint16(0)),
	"i32": reflect.TypeOf(int32(0)), "u32": reflect.TypeOf(uint32(0)), "i64": reflect.TypeOf(int64(0)), "u64": reflect.TypeOf(uint64(0)),
	"f32": reflect.TypeOf(float32(0)), "f64": reflect.TypeOf(float64(0)),
	"int": reflect.TypeOf(int(0)), "uint": reflect.TypeOf(uint(0)),
}

func execVany(args []string) string {
	if len(args) != 1 {
		return "bad-op"
	}
	head, payload, ok := splitTag(args[0])
	if !ok {
		return "bad-op"
	}
	ptrs := 0
	for strings.HasSuffix(head, "*") {
		head = head[:len(head)-1]
		ptrs++
	}
	named := -1
	if i := strings.IndexByte(head, '@'); i >= 0 && !strings.HasPrefix(head, "val(") {
		k, err := strconv.Atoi(head[i+1:])
		if err != nil || k < 0 {
			return "bad-op"
		}
		named, head = k, head[:i]
	}
	if ptrs > 2 {
		return "bad-op"
	}
	g, ok := buildGo(head, named, payload)
	if !ok {
		return "bad-op"
	}
	for i := 0; i < ptrs; i++ {
		if g == nil {
			var p *int8 // typed nil pointer
			g = p
			continue
		}
		rv := reflect.New(reflect.TypeOf(g))
		rv.Elem().Set(reflect.ValueOf(g))
		g = rv.Interface()
	}
	// wrap, and unwrap again (the property: type and content are preserved)
	v := proto.Any(g)
	return printValue(v) + " any=" + printGo(v.Any())
}

func execUtf8(args []string) string {
	if len(args) != 1 || !strings.HasPrefix(args[0], "b:") {
		return "bad-op"
	}
	b, err := hex.DecodeString(args[0][2:])
	if err != nil {
		return "bad-op"
	}
	r, n := utf8.DecodeRune(b)
	v, _ := proto.UnmarshalValue(b, 0, basetype.String, 0, false)
	return fmt.Sprintf("r=%x n=%d ok=%d app=%s s=%s", r, n, b2i(utf8.Valid(b)),
		hex.EncodeToString(utf8.AppendRune(nil, r)), hex.EncodeToString([]byte(v.String())))
}

// ---------------------------------------------------------------- generators

var allBaseTypes = func() []byte {
	var l []byte
	for _, t := range basetype.List() {
		l = append(l, byte(t))
	}
	return l
}()

// base types a value of the given tag aligns with (first = the canonical one), plus foreign ones
var alignedBT = map[string][]byte{
	"bool": {0x00}, "i8": {0x01}, "u8": {0x02, 0x00, 0x0d, 0x0a}, "i16": {0x83}, "u16": {0x84, 0x8b}, "i32": {0x85},
	"u32": {0x86, 0x8c}, "i64": {0x8e}, "u64": {0x8f, 0x90}, "f32": {0x88}, "f64": {0x89}, "str": {0x07},
}

var scalarTags = []string{"bool", "i8", "u8", "i16", "u16", "i32", "u32", "i64", "u64", "f32", "f64"}

func btsFor(tag string) []byte {
	base := tag
	if _, ok := alignedBT[base]; !ok {
		base = strings.TrimSuffix(tag, "s")
	}
	return alignedBT[base]
}

func pickBT(tag string, rng *Rng) byte {
	l := btsFor(tag)
	switch rng.Intn(10) {
	case 0:
		return allBaseTypes[rng.Intn(len(allBaseTypes))]
	case 1:
		return byte(rng.Intn(256))
	}
	if len(l) == 0 {
		return allBaseTypes[rng.Intn(len(allBaseTypes))]
	}
	return l[rng.Intn(len(l))]
}

func interestingU64(rng *Rng, w int) uint64 {
	mask := uint64(math.MaxUint64)
	if w < 8 {
		mask = 1<<(8*uint(w)) - 1
	}
	switch rng.Intn(8) {
	case 0:
		return []uint64{0, 1, 2, mask, mask - 1, mask >> 1, mask>>1 + 1, mask>>1 - 1, 0x80, 0xff, 0x7f, 0x100}[rng.Intn(12)] & mask
	case 1:
		return (uint64(1) << uint(rng.Intn(8*w))) & mask
	case 2:
		return (mask - uint64(rng.Intn(300))) & mask
	case 3:
		return uint64(rng.Intn(300)) & mask
	}
	return rng.U64() & mask
}

func randElems(rng *Rng, w, n int) string {
	var sb strings.Builder
	mode := rng.Intn(6)
	for i := 0; i < n; i++ {
		var x uint64
		switch mode {
		case 0: // all invalid sentinels (unsigned)
			x = math.MaxUint64
		case 1: // all signed sentinels
			x = math.MaxUint64 >> (65 - 8*uint(w))
		case 2:
			x = 0
		case 3: // one valid element among sentinels
			x = math.MaxUint64
			if i == n/2 {
				x = rng.U64()
			}
		default:
			x = interestingU64(rng, w)
		}
		sb.WriteString(leHex(x, w))
	}
	return sb.String()
}

var stringCorpus = []string{
	"", "\x00", "a", "a\x00", "ab", "hello world", "a\x00b", "a\x00b\x00", "\x00a", "\x00\x00", "a\x00\x00",
	"é", "日本語", "😀", "a😀b", "€", " ", "߿", "ࠀ", "￿", "\U00010000", "\U0010ffff",
	"a\ufffdb", "\ufffd", "\ufffd\ufffd", "x\x00\ufffd", "\ufffd\x00x",
	"\xff", "a\xffb", "\xc3", "\xc3\x28", "\xe2\x82", "\xe2\x28\xa1", "\xf0\x9f\x98", "\xf0\x28\x8c\xbc", "\xc0\x80", "\xc1\xbf",
	"\xed\xa0\x80", "\xed\x9f\xbf", "\xee\x80\x80", "\xf4\x90\x80\x80", "\xf4\x8f\xbf\xbf", "\xf5\x80\x80\x80", "\xe0\x9f\xbf", "\xe0\xa0\x80",
	"\xf0\x8f\xbf\xbf", "\xf0\x90\x80\x80", "\x80", "\xbf", "a\x80", "\xef\xbf", "\xef\xbf\xbe", "\xef\xbf\xbd\x00",
	"\x7f", "\x01", "tab\there", "nl\n",
}

func randString(rng *Rng) string {
	switch rng.Intn(10) {
	case 0, 1, 2:
		return stringCorpus[rng.Intn(len(stringCorpus))]
	case 3: // ascii
		n := rng.Intn(40)
		b := make([]byte, n)
		for i := range b {
			b[i] = byte(0x20 + rng.Intn(0x5f))
		}
		return string(b)
	case 4: // random runes (valid UTF-8)
		n := rng.Intn(20)
		var b []byte
		for i := 0; i < n; i++ {
			var r rune
			switch rng.Intn(6) {
			case 0:
				r = rune(rng.Intn(0x80))
			case 1:
				r = rune(0x80 + rng.Intn(0x780))
			case 2:
				r = rune(0x800 + rng.Intn(0xf800))
			case 3:
				r = rune(0x10000 + rng.Intn(0x100000))
			case 4:
				r = []rune{0xfffd, 0xfffc, 0xfffe, 0xd7ff, 0xe000, 0, 1, 0x7f, 0x80, 0x7ff, 0x800, 0xffff, 0x10000, 0x10ffff}[rng.Intn(14)]
			default:
				r = rune(1 + rng.Intn(0x7f))
			}
			if r >= 0xd800 && r <= 0xdfff {
				r = 0x41
			}
			b = utf8.AppendRune(b, r)
		}
		return string(b)
	case 5: // random bytes
		return string(rng.Bytes(rng.Intn(16)))
	case 6: // valid text with one byte damaged / truncated
		s := []byte(stringCorpus[11+rng.Intn(11)] + "xyz" + stringCorpus[11+rng.Intn(11)])
		if rng.Bool() {
			s[rng.Intn(len(s))] = byte(rng.Intn(256))
		} else {
			s = s[:rng.Intn(len(s)+1)]
		}
		return string(s)
	case 7: // concatenation of corpus entries
		return stringCorpus[rng.Intn(len(stringCorpus))] + stringCorpus[rng.Intn(len(stringCorpus))]
	case 8: // long
		n := 200 + rng.Intn(100)
		b := make([]byte, n)
		for i := range b {
			b[i] = byte('a' + rng.Intn(26))
		}
		if rng.Bool() {
			b[n-1] = 0
		}
		return string(b)
	}
	return strings.Repeat(stringCorpus[rng.Intn(len(stringCorpus))], 1+rng.Intn(4))
}

func strsPayload(ss []string) string {
	var sb strings.Builder
	for _, s := range ss {
		sb.WriteString(hex.EncodeToString([]byte(s)))
		sb.WriteByte(',')
	}
	return sb.String()
}

var float32Specials = []uint32{0, 0x80000000, 0x7f800000, 0xff800000, 0x7fc00000, 0xffc00000, 0x7fa00000, 0x7f800001, 0xff800001,
	0x7fffffff, 0xffffffff, 0x00000001, 0x007fffff, 0x00800000, 0x3f800000, 0xbf800000, 0x7f7fffff, 0xffbfffff, 0x7fc12345, 0x7f812345}
var float64Specials = []uint64{0, 0x8000000000000000, 0x7ff0000000000000, 0xfff0000000000000, 0x7ff8000000000000, 0xfff8000000000000,
	0x7ff4000000000000, 0x7ff0000000000001, 0xfff0000000000001, 0x7fffffffffffffff, 0xffffffffffffffff, 1, 0x000fffffffffffff,
	0x0010000000000000, 0x3ff0000000000000, 0xbff0000000000000, 0x7fefffffffffffff, 0xfff7ffffffffffff, 0x7ff8000012345678, 0x7ff0000012345678}

func genValue(emit func(string), tier string, rng *Rng) {
	thorough := tier == "thorough"
	val := func(v string, arch int, bt byte) {
		emit(fmt.Sprintf("value %s a:%x bt:%02x", v, arch, bt))
	}
	archs := []int{0, 1}
	// the invalid value against every base type
	for _, bt := range allBaseTypes {
		val("inv:", 0, bt)
	}
	val("inv:", 1, 0xff)
	// --- every value type against every base-type byte 0..255 (Align / Valid / the unmarshal that follows)
	for _, v := range []string{"inv:", "bool:01", "i8:7e", "u8:00", "u8:ff", "i16:0100", "u16:0000", "u16:ffff", "i32:01000000", "u32:00000000",
		"u32:ffffffff", "i64:0100000000000000", "u64:0000000000000000", "u64:ffffffffffffffff", "f32:0000803f", "f64:000000000000f03f",
		"str:6162", "bools:0100ff", "i8s:017f", "u8s:00ff", "u8s:0000", "i16s:0100ff7f", "u16s:0000ffff", "u16s:0000", "i32s:01000000",
		"u32s:00000000ffffffff", "u32s:00000000", "i64s:0100000000000000", "u64s:0000000000000000", "u64s:ffffffffffffffff", "f32s:0000803f",
		"f64s:000000000000f03f", "strs:6162,63,"} {
		for bt := 0; bt < 256; bt++ {
			val(v, bt&1, byte(bt))
			count("type-x-basetype")
		}
	}
	// --- exhaustive: every 8-bit scalar of bool/i8/u8 × both byte orders × every base type it aligns with + two foreign ones
	for _, tag := range []string{"bool", "i8", "u8"} {
		for x := 0; x < 256; x++ {
			for _, a := range archs {
				for _, bt := range append(append([]byte{}, btsFor(tag)...), 0x84, 0x07, 0x33) {
					val(fmt.Sprintf("%s:%02x", tag, x), a, bt)
					count("scalar8")
				}
			}
		}
	}
	// --- exhaustive: every 16-bit scalar × both byte orders (canonical base type; the z-variant for the boundary rows)
	for _, tag := range []string{"i16", "u16"} {
		for x := 0; x < 65536; x++ {
			for _, a := range archs {
				val(fmt.Sprintf("%s:%s", tag, leHex(uint64(x), 2)), a, btsFor(tag)[0])
				count("scalar16")
			}
			if tag == "u16" && (x < 2 || x > 65533 || x&0xff == 0xff) {
				val(fmt.Sprintf("%s:%s", tag, leHex(uint64(x), 2)), x&1, 0x8b)
			}
		}
	}
	// --- wider scalars: boundaries and samples
	nw := 4000
	if thorough {
		nw = 100000
	}
	for _, tag := range []string{"i32", "u32", "i64", "u64", "f32", "f64"} {
		w := scalarWidth[tag]
		for i := 0; i < nw; i++ {
			val(fmt.Sprintf("%s:%s", tag, leHex(interestingU64(rng, w), w)), rng.Intn(2)*(1+rng.Intn(255)), pickBT(tag, rng))
			count("scalar-wide")
		}
	}
	for _, a := range []int{0, 1, 2, 255} {
		for _, x := range float32Specials {
			val("f32:"+leHex(uint64(x), 4), a, 0x88)
			val("f32s:"+leHex(uint64(x), 4)+leHex(uint64(x)^1, 4), a, 0x88)
			count("float-special")
		}
		for _, x := range float64Specials {
			val("f64:"+leHex(x, 8), a, 0x89)
			val("f64s:"+leHex(x, 8)+leHex(x^1, 8), a, 0x89)
			count("float-special")
		}
	}
	// --- arrays: every byte length 0..255 (and a few beyond) per slice type × both byte orders
	for _, tag := range scalarTags {
		w := scalarWidth[tag]
		for blen := 0; blen <= 264; blen += 1 {
			if blen%w != 0 {
				continue
			}
			for _, a := range archs {
				reps := 1
				if thorough {
					reps = 6
				}
				for r := 0; r < reps; r++ {
					val(tag+"s:"+randElems(rng, w, blen/w), a, pickBT(tag, rng))
					count("array")
				}
				// one content per (type, length, byte order) in which every byte differs from its neighbours
				val(tag+"s:"+hex.EncodeToString(rng.Bytes(blen)), a, btsFor(tag)[rng.Intn(len(btsFor(tag)))])
				count("array-order-sensitive")
			}
		}
	}
	// bool arrays with every byte value
	for x := 0; x < 256; x++ {
		val(fmt.Sprintf("bools:%02x", x), x&1, 0x00)
		val(fmt.Sprintf("bools:ff%02xff", x), x&1, 0x00)
	}
	// --- strings
	for _, s := range stringCorpus {
		for _, a := range archs {
			val("str:"+hex.EncodeToString([]byte(s)), a, 0x07)
			val("strs:"+strsPayload([]string{s}), a, 0x07)
			val("strs:"+strsPayload([]string{s, "x", s}), a, 0x07)
			count("string-corpus")
		}
	}
	val("strs:", 0, 0x07)
	val("strs:", 1, 0x02)
	val("strs:,", 0, 0x07)
	val("strs:,,", 0, 0x07)
	val("strs:00,", 0, 0x07)
	val("strs:00,00,", 0, 0x07)
	val("strs:,61,,62,", 0, 0x07)
	ns := 6000
	if thorough {
		ns = 150000
	}
	for i := 0; i < ns; i++ {
		if rng.Intn(3) == 0 {
			val("str:"+hex.EncodeToString([]byte(randString(rng))), rng.Intn(2), pickBT("str", rng))
			count("string")
		} else {
			n := rng.Intn(5)
			ss := make([]string, n)
			for j := range ss {
				ss[j] = randString(rng)
				if rng.Intn(4) == 0 {
					ss[j] = ""
				}
			}
			val("strs:"+strsPayload(ss), rng.Intn(2), pickBT("str", rng))
			count("strings")
		}
	}
	// strings of every length around the 255-byte limit
	for n := 250; n <= 260; n++ {
		s := strings.Repeat("a", n)
		val("str:"+hex.EncodeToString([]byte(s)), 0, 0x07)
		val("str:"+hex.EncodeToString([]byte(s[:n-1]+"\x00")), 0, 0x07)
		val("strs:"+strsPayload([]string{s[:n/2], s[n/2:]}), 0, 0x07)
	}

	// --- UnmarshalValue on arbitrary bytes
	unm := func(b []byte, arch int, bt byte, pb, arr int) {
		emit(fmt.Sprintf("unm b:%s a:%x bt:%02x pb:%d arr:%d", hex.EncodeToString(b), arch, bt, pb, arr))
	}
	// every base-type byte 0..255 × lengths 0..9 × array flag × bool flag × byte order
	for bt := 0; bt < 256; bt++ {
		for n := 0; n <= 9; n++ {
			for arr := 0; arr < 2; arr++ {
				for pb := 0; pb < 2; pb++ {
					if pb == 1 && bt > 0x0d {
						continue
					}
					b := rng.Bytes(n)
					unm(b, (bt+n+arr)&1, byte(bt), pb, arr)
					count("unm-grid")
				}
			}
		}
	}
	// every valid base type × every array byte length 0..255
	for _, bt := range allBaseTypes {
		for n := 0; n < 256; n++ {
			b := rng.Bytes(n)
			if bt == 0x07 {
				for i := range b {
					switch rng.Intn(6) {
					case 0:
						b[i] = 0
					case 1, 2, 3:
						b[i] = byte(0x20 + rng.Intn(0x5f))
					}
				}
			}
			unm(b, n&1, bt, b2i(bt == 0 && n%3 == 0), 1)
			if n%16 == 0 || n < 10 {
				unm(b, n&1, bt, 0, 0)
			}
			count("unm-array")
		}
	}
	// bool special case: every byte
	for x := 0; x < 256; x++ {
		for _, bt := range []byte{0x00, 0x02, 0x0a, 0x0d} {
			unm([]byte{byte(x)}, 0, bt, 1, 0)
			unm([]byte{byte(x), byte(x) ^ 0xff}, 1, bt, 1, 1)
		}
	}
	// re-marshal what UnmarshalValue returned and read it again (C06_unmarshal_reencode_*): every valid base type ×
	// lengths 0..9 (and some long ones) × array × bool flags × both byte orders on either side
	unmre := func(b []byte, arch, arch2 int, bt byte, pb, arr int) {
		emit(fmt.Sprintf("unmre b:%s a:%x a2:%x bt:%02x pb:%d arr:%d", hex.EncodeToString(b), arch, arch2, bt, pb, arr))
		count("unm-reencode")
	}
	for _, bt := range allBaseTypes {
		for _, n := range []int{0, 1, 2, 3, 4, 5, 6, 7, 8, 9, 15, 16, 17, 31, 64, 255} {
			for arr := 0; arr < 2; arr++ {
				for pb := 0; pb < 2; pb++ {
					if pb == 1 && bt > 0x0d {
						continue
					}
					b := rng.Bytes(n)
					if bt == 0x07 {
						for i := range b {
							switch rng.Intn(6) {
							case 0:
								b[i] = 0
							case 1, 2, 3:
								b[i] = byte(0x20 + rng.Intn(0x5f))
							}
						}
					}
					a1 := rng.Intn(2)
					unmre(b, a1, a1, bt, pb, arr)
					unmre(b, a1, 1-a1, bt, pb, arr)
				}
			}
		}
	}
	// typedef.Bool: every byte as a scalar and as an array element (KF-C01-boolarr: 0x1C used to come back as it was)
	for x := 0; x < 256; x++ {
		for _, bt := range []byte{0x00, 0x02, 0x0a, 0x0d} {
			unmre([]byte{byte(x)}, 0, x&1, bt, 1, 0)
			unmre([]byte{byte(x)}, 0, x&1, bt, 1, 1)
			unmre([]byte{1, byte(x), 0, byte(x) ^ 0xff}, 1, x&1, bt, 1, 1)
		}
	}
	for _, s := range stringCorpus {
		for _, suffix := range []string{"", "\x00", "\x00tail", "\x00\x00"} {
			unmre([]byte(s+suffix), 0, 1, 0x07, 0, 0)
			unmre([]byte(s+suffix+s), 1, 0, 0x07, 0, 1)
		}
	}
	// strings as wire bytes
	for _, s := range stringCorpus {
		for _, suffix := range []string{"", "\x00", "\x00tail", "\x00\x00"} {
			unm([]byte(s+suffix), 0, 0x07, 0, 0)
			unm([]byte(s+suffix), 0, 0x07, 0, 1)
			unm([]byte(s+suffix+s), 1, 0x07, 0, 1)
		}
	}
	nu := 5000
	if thorough {
		nu = 100000
	}
	for i := 0; i < nu; i++ {
		var parts []string
		for k := rng.Intn(5); k >= 0; k-- {
			parts = append(parts, randString(rng))
		}
		unm([]byte(strings.Join(parts, "\x00")), rng.Intn(2), 0x07, 0, rng.Intn(2))
		count("unm-string")
	}

	// --- proto.Any: fast path, reflection path (named types, pointers), unsupported values
	vany := func(s string) { emit("vany " + s) }
	for _, s := range []string{"nil:", "nil*:", "int:0100000000000000", "uint:0100000000000000", "ints:0100000000000000", "uints:0100000000000000",
		"anys:", "struct:", "struct@0:", "map:", "int@0:0100000000000000", "struct*:", "int*:0100000000000000", "ints*:0100000000000000",
		"val(u16):0100", "val(strs):61,62,", "val(inv):", "val(u16)*:0100", "val(f32s):0000c07f"} {
		vany(s)
	}
	for _, tag := range append([]string{"gobool", "tbool"}, scalarTags[1:]...) {
		w := scalarWidth[tag]
		if w == 0 {
			w = 1
		}
		nNamed := len(namedTypes[tag])
		for i := 0; i < 60; i++ {
			x := interestingU64(rng, w)
			if tag == "gobool" {
				x &= 1
			}
			if tag == "tbool" && i < 256 {
				x = uint64(i * 5 % 256)
			}
			if tag == "f32" && i < len(float32Specials) {
				x = uint64(float32Specials[i])
			}
			if tag == "f64" && i < len(float64Specials) {
				x = float64Specials[i]
			}
			p := leHex(x, w)
			n := rng.Intn(6)
			ps := randElems(rng, w, n)
			if tag == "gobool" {
				ps = strings.Repeat("01", n/2) + strings.Repeat("00", n-n/2)
			}
			vany(tag + ":" + p)
			vany(tag + "s:" + ps)
			vany(tag + "*:" + p)
			vany(tag + "s*:" + ps)
			vany(tag + "**:" + p)
			for k := 0; k < nNamed; k++ {
				if k >= 6 && i >= 3 { // the ~160 further types of profile/typedef: three values each
					break
				}
				if k >= 6 {
					count("any-typedef-named")
				}
				vany(fmt.Sprintf("%s@%d:%s", tag, k, p))
				vany(fmt.Sprintf("%ss@%d:%s", tag, k, ps))
				vany(fmt.Sprintf("%s@%d*:%s", tag, k, p))
				vany(fmt.Sprintf("%ss@%d*:%s", tag, k, ps))
			}
			count("any")
		}
	}
	for i := 0; i < 300; i++ {
		s := randString(rng)
		ss := []string{randString(rng), s}
		vany("str:" + hex.EncodeToString([]byte(s)))
		vany("str@0:" + hex.EncodeToString([]byte(s)))
		vany("str*:" + hex.EncodeToString([]byte(s)))
		vany("strs:" + strsPayload(ss))
		vany("strs@0:" + strsPayload(ss))
		vany("strs@0*:" + strsPayload(ss))
		count("any-string")
	}
}

func genUtf8(emit func(string), tier string, rng *Rng) {
	// exhaustive: every 1- and 2-byte string; every 3-byte string with a lead byte ≥ 0xC0 in the thorough tier
	emit("utf8 b:")
	for a := 0; a < 256; a++ {
		emit(fmt.Sprintf("utf8 b:%02x", a))
		for b := 0; b < 256; b++ {
			emit(fmt.Sprintf("utf8 b:%02x%02x", a, b))
		}
	}
	count("exhaustive-2")
	// all (lead ≥ 0xE0, second byte) pairs × boundary third/fourth bytes
	bnd := []int{0x00, 0x7f, 0x80, 0x8f, 0x90, 0x9f, 0xa0, 0xbf, 0xc0, 0xff}
	for a := 0xe0; a < 256; a++ {
		for b := 0; b < 256; b++ {
			for _, c := range bnd {
				emit(fmt.Sprintf("utf8 b:%02x%02x%02x", a, b, c))
				if a >= 0xf0 {
					for _, d := range bnd {
						emit(fmt.Sprintf("utf8 b:%02x%02x%02x%02x", a, b, c, d))
					}
				}
			}
		}
	}
	count("lead-grid")
	// every Unicode scalar value boundary, encoded, alone and followed by a byte
	for _, r := range []rune{0, 1, 0x7f, 0x80, 0x7ff, 0x800, 0xfff, 0x1000, 0xcfff, 0xd000, 0xd7ff, 0xe000, 0xfffc, 0xfffd, 0xfffe, 0xffff,
		0x10000, 0x3ffff, 0x40000, 0xfffff, 0x100000, 0x10ffff} {
		e := utf8.AppendRune(nil, r)
		emit("utf8 b:" + hex.EncodeToString(e))
		emit("utf8 b:" + hex.EncodeToString(append(e, 0x41)))
		emit("utf8 b:" + hex.EncodeToString(append(e, 0x80)))
		emit("utf8 b:" + hex.EncodeToString(e[:len(e)-1]))
	}
	n := 20000
	if tier == "thorough" {
		n = 400000
	}
	for i := 0; i < n; i++ {
		emit("utf8 b:" + hex.EncodeToString([]byte(randString(rng))))
	}
	// every scalar value in the thorough tier (sampled stride otherwise)
	stride := 97
	if tier == "thorough" {
		stride = 1
	}
	for r := 0; r <= 0x10ffff; r += stride {
		if r >= 0xd800 && r <= 0xdfff {
			continue
		}
		emit("utf8 b:" + hex.EncodeToString(utf8.AppendRune(nil, rune(r))))
	}
	count("scalar-values")
}
