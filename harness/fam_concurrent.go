package main

// C15: independent SDK objects used concurrently.
//
//	concurrent [fresh] k<goroutines> g<GOMAXPROCS> s<seed> <op>...
//	   op = dec:<fixture>            decode a fixture of <repo>/testdata with its own decoder
//	      | decl:<fixture>:<N>       decode it through its own filedef.Listener (buffer N) and convert the file back
//	      | enc:<seed>               encode a generated file with its own encoder into its own buffer
//	      | encd:<seed>              encode a generated file WITH developer data (developer_data_id, field_description,
//	                                 records carrying a developer field) with its own encoder and the DEFAULT message
//	                                 validator (which collects the sequence's descriptions: seeded changes C15-1/C15-4 share it)
//	      | senc:<seed>:<n>          its own StreamEncoder: n sequences written message by message, SequenceCompleted after each
//	      | sencd:<seed>:<n>         as senc, every sequence with developer data; yields the processor between messages
//	      | file:<ft>:<seed>:<mode>  build a file of type <ft> from generated messages, ToFIT(options)
//	      | lis:<ft>:<seed>:<N>      feed generated messages to its own listener, File(), ToFIT(nil)
//	      | lisc:<ft>:<seed>:<N>:<c>  as lis, with its own copy of PredefinedFileSet() in which file type <c> is a user-defined wrapper
//	      | fac:<num>                factory.CreateMesg(num) and CreateField for a few numbers
//	      | open:<a>.<b>...          opener.Open over fixtures (its own pool of decoders, own workers)
//	   mode = n (nil options) | o (its own &Options{}) | s (ONE options object with Factory set, shared by all ops of
//	          the line) | z (ONE options object with nil Factory shared by all ops of the line; until /repo's repair of
//	          KF-C15-1 every ToMesg wrote it)
//	→ same=<one 0/1 per op: result of the concurrent run equals the result of the solo run> opts=<ro|w>
//	   opts: the two options objects shared by the ops of the line are, after the concurrent phase, exactly what they
//	   were before it (ro) or not (w): shared option values are only read.
//
// Op i runs on goroutine i mod k; all goroutines start together. The solo runs are done afterwards, one by one, on fresh
// objects. `fresh` re-executes the line in a child process, so that the concurrent phase races the very first use of the
// lazily initialised package state (factory's sync.Once).

import (
	"bytes"
	"context"
	"fmt"
	"os"
	"os/exec"
	"path/filepath"
	"runtime"
	"sort"
	"strconv"
	"strings"
	"sync"

	"github.com/muktihari/fit/cmd/fitactivity/opener"
	"github.com/muktihari/fit/decoder"
	"github.com/muktihari/fit/encoder"
	"github.com/muktihari/fit/profile/factory"
	"github.com/muktihari/fit/profile/filedef"
	"github.com/muktihari/fit/profile/mesgdef"
	"github.com/muktihari/fit/profile/typedef"
	"github.com/muktihari/fit/profile/untyped/mesgnum"
	"github.com/muktihari/fit/proto"
)

func init() {
	families["concurrent"] = genConcurrent
	executors["concurrent"] = execConcurrent
}

func repoDir() string {
	if d := os.Getenv("VERIF_REPO"); d != "" {
		return d
	}
	return "/repo"
}

var (
	fixturesOnce sync.Once
	fixtureNames []string
	fixtureData  [][]byte
)

func fixtures() ([]string, [][]byte) {
	fixturesOnce.Do(func() {
		var paths []string
		for _, pat := range []string{"testdata/*.fit", "testdata/from_official_sdk/*.fit", "testdata/from_garmin_forums/*.fit"} {
			m, _ := filepath.Glob(filepath.Join(repoDir(), pat))
			paths = append(paths, m...)
		}
		sort.Strings(paths)
		for _, p := range paths {
			b, err := os.ReadFile(p)
			if err != nil || len(b) > 400<<10 { // big_activity.fit (2.3 MB) is left out to keep the runs short
				continue
			}
			fixtureNames = append(fixtureNames, p)
			fixtureData = append(fixtureData, b)
		}
	})
	return fixtureNames, fixtureData
}

func digestMesgs(h *fnv64, msgs []proto.Message) {
	h.u64(uint64(len(msgs)))
	for i := range msgs {
		h.u64(mesgDigest(&msgs[i]))
	}
}

// genValidMesgs: messages an encoder accepts (values of the fields' own base types), file_id first.
func genValidMesgs(ft byte, seed uint64, n int) []proto.Message {
	rng := NewRng(seed)
	msgs := make([]proto.Message, 0, n+1)
	fid := proto.Message{Num: mesgnum.FileId}
	f := factory.CreateField(mesgnum.FileId, 0)
	f.Value = proto.Uint8(ft)
	fid.Fields = append(fid.Fields, f)
	msgs = append(msgs, fid)
	nums := []typedef.MesgNum{mesgnum.Record, mesgnum.Event, mesgnum.Lap, mesgnum.Session, mesgnum.DeviceInfo, mesgnum.UserProfile, mesgnum.Hrv, mesgnum.Activity, mesgnum.WorkoutStep, mesgnum.Software}
	for i := 0; i < n; i++ {
		num := nums[rng.Intn(len(nums))]
		base := factory.CreateMesg(num)
		m := proto.Message{Num: num}
		for j := range base.Fields {
			fb := base.Fields[j]
			if rng.Intn(4) != 0 || len(m.Fields) >= 10 {
				continue
			}
			if fb.Num == proto.FieldNumTimestamp {
				fb.Value = proto.Uint32(uint32(1000000000 + rng.Intn(100000)))
			} else {
				fb.Value = randValue(rng, fb.BaseType, fb.Array)
			}
			m.Fields = append(m.Fields, fb)
		}
		if len(m.Fields) == 0 {
			fb := base.Fields[0]
			fb.Value = randValue(rng, fb.BaseType, fb.Array)
			m.Fields = append(m.Fields, fb)
		}
		msgs = append(msgs, m)
	}
	return msgs
}

// concDevMesgs: a sequence with developer data: file_id, developer_data_id (index 0), field_description (field 0 of
// developer 0, uint8), then records each carrying that developer field
func concDevMesgs(seed uint64, n int) []proto.Message {
	rng := NewRng(seed ^ 0xD5)
	msgs := genValidMesgs(4, seed, 2)[:1] // file_id
	ddi := proto.Message{Num: mesgnum.DeveloperDataId}
	f := factory.CreateField(mesgnum.DeveloperDataId, 3)
	f.Value = proto.Uint8(0)
	ddi.Fields = append(ddi.Fields, f)
	fd := proto.Message{Num: mesgnum.FieldDescription}
	for _, kv := range []struct {
		num byte
		v   proto.Value
	}{{0, proto.Uint8(0)}, {1, proto.Uint8(0)}, {2, proto.Uint8(2)}, {3, proto.SliceString([]string{"dev"})}} {
		ff := factory.CreateField(mesgnum.FieldDescription, kv.num)
		ff.Value = kv.v
		fd.Fields = append(fd.Fields, ff)
	}
	msgs = append(msgs, ddi, fd)
	for i := 0; i < n; i++ {
		rec := proto.Message{Num: mesgnum.Record}
		ts := factory.CreateField(mesgnum.Record, proto.FieldNumTimestamp)
		ts.Value = proto.Uint32(uint32(1000000000 + i))
		hr := factory.CreateField(mesgnum.Record, 3)
		hr.Value = proto.Uint8(uint8(60 + rng.Intn(120)))
		rec.Fields = append(rec.Fields, ts, hr)
		rec.DeveloperFields = append(rec.DeveloperFields, proto.DeveloperField{Num: 0, DeveloperDataIndex: 0, Value: proto.Uint8(uint8(rng.Intn(250)))})
		msgs = append(msgs, rec)
	}
	return msgs
}

type concShared struct {
	optSet *mesgdef.Options // Factory set: only read by ToMesg
	optNil *mesgdef.Options // Factory nil: ToMesg takes the standard factory, in a local (it assigned it here: KF-C15-1, repaired)
}

// runConcOp executes one operation on objects of its own and returns a digest of its result.
func runConcOp(op string, sh *concShared, solo bool) (res uint64) {
	note := func(k string) {
		if solo { // the solo runs are sequential: counting is safe there
			count(k)
		}
	}
	defer func() {
		if r := recover(); r != nil {
			res = 0xDEAD
		}
	}()
	h := newFnv()
	p := strings.Split(op, ":")
	_, data := fixtures()
	switch p[0] {
	case "dec":
		i, _ := strconv.Atoi(p[1])
		dec := decoder.New(bytes.NewReader(data[i%len(data)]))
		for dec.Next() {
			fit, err := dec.Decode()
			if err != nil {
				h.str("err")
				note("dec:err")
				break
			}
			note("dec:seq-ok")
			digestMesgs(&h, fit.Messages)
		}
	case "decl":
		i, _ := strconv.Atoi(p[1])
		n, _ := strconv.Atoi(p[2])
		l := filedef.NewListener(filedef.WithChannelBuffer(uint(n)))
		dec := decoder.New(bytes.NewReader(data[i%len(data)]), decoder.WithMesgListener(l), decoder.WithBroadcastOnly())
		for dec.Next() {
			_, err := dec.Decode()
			if err != nil {
				h.str("err")
				break
			}
			f := l.File()
			if f == nil {
				h.str("nil")
				note("decl:nil-file")
				continue
			}
			note("decl:file")
			digestMesgs(&h, f.ToFIT(nil).Messages)
		}
		l.Close()
	case "enc":
		seed, _ := strconv.ParseUint(p[1], 10, 64)
		msgs := genValidMesgs(4, seed, 5+int(seed%40))
		var buf bytes.Buffer
		enc := encoder.New(&buf)
		fit := proto.FIT{Messages: msgs}
		if err := enc.Encode(&fit); err != nil {
			h.str("err")
			note("enc:err")
		} else {
			note("enc:ok")
		}
		h.str(buf.String())
	case "encd":
		seed, _ := strconv.ParseUint(p[1], 10, 64)
		var buf bytes.Buffer
		enc := encoder.New(&buf, encoder.WithProtocolVersion(proto.V2))
		fit := proto.FIT{Messages: concDevMesgs(seed, 3+int(seed%25))}
		if err := enc.Encode(&fit); err != nil {
			h.str("err")
			note("encd:err")
		} else {
			note("encd:ok")
		}
		h.str(buf.String())
	case "senc", "sencd":
		seed, _ := strconv.ParseUint(p[1], 10, 64)
		nseq, _ := strconv.Atoi(p[2])
		buf := &csvMemWS{} // an in-memory io.WriteSeeker (the stream encoder goes back to patch the header)
		enc, err := encoder.NewStream(buf, encoder.WithProtocolVersion(proto.V2))
		if err != nil {
			h.str("newstream-err")
			note(p[0] + ":newstream-err")
			break
		}
		for q := 0; q < nseq && q < 8; q++ {
			var msgs []proto.Message
			if p[0] == "sencd" {
				msgs = concDevMesgs(seed+uint64(q), 3+int((seed+uint64(q))%20))
			} else {
				msgs = genValidMesgs(4, seed+uint64(q), 5+int((seed+uint64(q))%30))
			}
			for i := range msgs {
				if err := enc.WriteMessage(&msgs[i]); err != nil {
					h.str("werr")
					note(p[0] + ":write-err")
				}
				if p[0] == "sencd" {
					runtime.Gosched() // other encoders get to run between this encoder's description and its records
				}
			}
			if err := enc.SequenceCompleted(); err != nil {
				h.str("serr")
				note(p[0] + ":seq-err")
			} else {
				note(p[0] + ":seq-ok")
			}
		}
		h.str(string(buf.b))
	case "file":
		ftb, _ := strconv.Atoi(p[1])
		seed, _ := strconv.ParseUint(p[2], 10, 64)
		ft := fileTypeByByte(ftb)
		if ft == nil {
			return 0xBAD
		}
		f := ft.fn()
		for _, m := range genValidMesgs(byte(ftb), seed, 5+int(seed%60)) {
			f.Add(m)
		}
		var opt *mesgdef.Options
		switch p[3] {
		case "o":
			opt = &mesgdef.Options{}
		case "s":
			opt = sh.optSet
		case "z":
			opt = sh.optNil
		}
		digestMesgs(&h, f.ToFIT(opt).Messages)
	case "lis":
		ftb, _ := strconv.Atoi(p[1])
		seed, _ := strconv.ParseUint(p[2], 10, 64)
		n, _ := strconv.Atoi(p[3])
		l := filedef.NewListener(filedef.WithChannelBuffer(uint(n)))
		for _, m := range genValidMesgs(byte(ftb), seed, 5+int(seed%80)) {
			l.OnMesg(m)
		}
		f := l.File()
		if f == nil {
			h.str("nil")
		} else {
			digestMesgs(&h, f.ToFIT(nil).Messages)
		}
	case "lisc":
		// a listener whose user customised ITS OWN copy of the predefined file sets, as the doc of PredefinedFileSet
		// invites: file type c gets a wrapper type. Other users' sets must not see it (seeded change C15-3: the
		// map returned by PredefinedFileSet cached at package level). The digest says whether the wrapper came back;
		// execConcurrent demands that it does exactly when the file fed has type c.
		ftb, _ := strconv.Atoi(p[1])
		seed, _ := strconv.ParseUint(p[2], 10, 64)
		n, _ := strconv.Atoi(p[3])
		c, _ := strconv.Atoi(p[4])
		fs := filedef.PredefinedFileSet()
		fs[typedef.File(c)] = func() filedef.File { return &concCustomFile{inner: filedef.NewActivity()} }
		l := filedef.NewListener(filedef.WithChannelBuffer(uint(n)), filedef.WithFileSets(fs))
		for _, m := range genValidMesgs(byte(ftb), seed, 5+int(seed%40)) {
			l.OnMesg(m)
		}
		f := l.File()
		l.Close()
		custom := false
		if cf, ok := f.(*concCustomFile); ok {
			custom, f = true, cf.inner
		}
		if f == nil {
			h.str("nil")
		} else {
			digestMesgs(&h, f.ToFIT(nil).Messages)
		}
		if custom != (c == ftb) {
			return 0xBADC // never equal to a solo digest of a healthy run: reported as interference
		}
		if solo {
			note(fmt.Sprintf("lisc:custom=%v", custom))
		}
	case "fac":
		num, _ := strconv.Atoi(p[1])
		m := factory.CreateMesg(typedef.MesgNum(num))
		h.u64(uint64(m.Num))
		for i := range m.Fields {
			h.b(m.Fields[i].Num)
			h.str(m.Fields[i].Name)
		}
		for _, fn := range []byte{0, 1, 253, 254} {
			f := factory.CreateField(typedef.MesgNum(num), fn)
			h.str(f.Name)
			h.b(byte(f.BaseType))
		}
	case "open":
		names, _ := fixtures()
		var paths []string
		for _, s := range strings.Split(p[1], ".") {
			i, _ := strconv.Atoi(s)
			paths = append(paths, names[i%len(names)])
		}
		fits, err := opener.Open(context.Background(), paths)
		if err != nil {
			h.str("err")
			note("open:err")
		} else {
			note(fmt.Sprintf("open:fits=%d", len(fits)))
		}
		// Open appends in completion order: canonicalise by sorting the per-file digests
		var ds []uint64
		for _, fit := range fits {
			hh := newFnv()
			digestMesgs(&hh, fit.Messages)
			ds = append(ds, uint64(hh))
		}
		sort.Slice(ds, func(i, j int) bool { return ds[i] < ds[j] })
		for _, d := range ds {
			h.u64(d)
		}
	default:
		return 0xBAD
	}
	return uint64(h)
}

// concCustomFile is the user-defined file type of the lisc operation
type concCustomFile struct{ inner filedef.File }

func (c *concCustomFile) Add(m proto.Message)                     { c.inner.Add(m) }
func (c *concCustomFile) ToFIT(o *mesgdef.Options) proto.FIT { return c.inner.ToFIT(o) }

func execConcurrent(args []string) string {
	if len(args) > 0 && args[0] == "fresh" {
		if os.Getenv("VERIF_CONC_CHILD") != "" {
			args = args[1:]
		} else {
			exe, err := os.Executable()
			if err != nil {
				return "bad-op"
			}
			cmd := exec.Command(exe, "exec")
			cmd.Env = append(os.Environ(), "VERIF_CONC_CHILD=1")
			cmd.Stdin = strings.NewReader("concurrent " + strings.Join(args, " ") + "\n")
			cmd.Stderr = os.Stderr // race reports of the child belong to this run
			out, err := cmd.Output()
			if err != nil && len(out) == 0 {
				return "child-crash"
			}
			return strings.TrimSpace(string(out))
		}
	}
	if len(args) < 3 || !strings.HasPrefix(args[0], "k") || !strings.HasPrefix(args[1], "g") || !strings.HasPrefix(args[2], "s") {
		return "bad-op"
	}
	k, err1 := strconv.Atoi(args[0][1:])
	procs, err2 := strconv.Atoi(args[1][1:])
	if err1 != nil || err2 != nil || k < 1 || k > 64 || procs < 1 || procs > 64 {
		return "bad-op"
	}
	ops := args[3:]
	for _, o := range ops {
		switch strings.Split(o, ":")[0] {
		case "dec", "decl", "enc", "encd", "senc", "sencd", "file", "lis", "lisc", "fac", "open":
		default:
			return "bad-op"
		}
	}
	prev := runtime.GOMAXPROCS(procs)
	defer runtime.GOMAXPROCS(prev)
	sh := &concShared{optSet: mesgdef.DefaultOptions(), optNil: &mesgdef.Options{}}
	optSetBefore, optNilBefore := *sh.optSet, *sh.optNil
	res := make([]uint64, len(ops))
	var wg sync.WaitGroup
	start := make(chan struct{})
	for g := 0; g < k; g++ {
		wg.Add(1)
		go func(g int) {
			defer wg.Done()
			<-start
			for i := g; i < len(ops); i += k {
				res[i] = runConcOp(ops[i], sh, false)
			}
		}(g)
	}
	close(start)
	wg.Wait()
	optsRO := *sh.optSet == optSetBefore && *sh.optNil == optNilBefore && optNilBefore.Factory == nil && optSetBefore.Factory != nil
	// solo runs, one by one, on fresh shared option objects
	var sb strings.Builder
	sb.WriteString("same=")
	for i, o := range ops {
		solo := runConcOp(o, &concShared{optSet: mesgdef.DefaultOptions(), optNil: &mesgdef.Options{}}, true)
		if solo == res[i] && res[i] != 0xBADC {
			sb.WriteByte('1')
		} else {
			sb.WriteByte('0')
		}
	}
	if optsRO {
		sb.WriteString(" opts=ro")
	} else {
		sb.WriteString(" opts=w")
	}
	return sb.String()
}

func genConcurrent(emit func(string), tier string, rng *Rng) {
	names, _ := fixtures()
	nf := len(names)
	if nf == 0 {
		fmt.Fprintln(os.Stderr, "no fixtures under", repoDir())
		os.Exit(3)
	}
	fts := fileTypes()
	n := 120
	if tier == "thorough" {
		n = 1500
	}
	if v := os.Getenv("VERIF_CONC_N"); v != "" {
		n, _ = strconv.Atoi(v)
	}
	// the very first operation of the run races the first use of the lazily built package state, in a fresh process
	emit("concurrent fresh k4 g4 s1 fac:20 fac:18 fac:0 fac:21 fac:19 fac:34 fac:23 fac:49")
	// conversions sharing one options object with nil Factory, started together (dense: nothing else runs; the race
	// detector's best chance at an unsynchronised write of the shared object)
	emit("concurrent k4 g4 s1 file:4:11:z file:4:22:z file:6:33:z file:9:44:z")
	emit("concurrent k2 g2 s2 file:4:55:z file:20:66:z")
	// encoders with the default validator, started together, all writing developer data (a validator shared between
	// encoders shows here: seeded changes C15-1 / C15-4); stream encoders interleaved message by message
	emit("concurrent k4 g4 s3 sencd:11:2 encd:22 sencd:33:3 encd:44 senc:55:2 enc:66 sencd:77:1 encd:88")
	emit("concurrent k2 g1 s4 sencd:5:3 encd:6 sencd:7:3 encd:8")
	for i := 0; i < n; i++ {
		k := []int{2, 4, 16}[rng.Intn(3)]
		toks := []string{"concurrent"}
		if rng.Intn(25) == 0 {
			toks = append(toks, "fresh")
		}
		toks = append(toks, fmt.Sprintf("k%d", k), fmt.Sprintf("g%d", []int{1, 2, 4, 16}[rng.Intn(4)]), fmt.Sprintf("s%d", rng.Intn(1<<30)))
		nops := k + rng.Intn(2*k+1)
		if nops > 24 {
			nops = 24
		}
		zMix := rng.Intn(4) == 0 // a quarter of the mixes share a nil-factory options object
		for j := 0; j < nops; j++ {
			var op string
			switch x := rng.Intn(20); {
			case x < 3:
				op = fmt.Sprintf("dec:%d", rng.Intn(nf))
			case x < 5:
				op = fmt.Sprintf("decl:%d:%d", rng.Intn(nf), []int{1, 2, 8, 128}[rng.Intn(4)])
			case x < 6:
				op = fmt.Sprintf("enc:%d", 1+rng.Intn(1<<30))
			case x < 7:
				op = fmt.Sprintf("encd:%d", 1+rng.Intn(1<<30))
			case x < 8:
				if rng.Bool() {
					op = fmt.Sprintf("senc:%d:%d", 1+rng.Intn(1<<30), 1+rng.Intn(3))
				} else {
					op = fmt.Sprintf("sencd:%d:%d", 1+rng.Intn(1<<30), 1+rng.Intn(3))
				}
			case x < 14:
				mode := []string{"n", "o", "s", "s"}[rng.Intn(4)]
				if zMix && rng.Intn(2) == 0 {
					mode = "z"
				}
				op = fmt.Sprintf("file:%d:%d:%s", fts[rng.Intn(len(fts))].b, 1+rng.Intn(1<<30), mode)
				count("optmode:" + mode)
			case x < 15:
				op = fmt.Sprintf("lis:%d:%d:%d", fts[rng.Intn(len(fts))].b, 1+rng.Intn(1<<30), []int{1, 2, 3, 8, 128}[rng.Intn(5)])
			case x < 16:
				ft := fts[rng.Intn(len(fts))].b
				c := []int{int(ft), 4, 4, 0xF7, int(fts[rng.Intn(len(fts))].b)}[rng.Intn(5)]
				op = fmt.Sprintf("lisc:%d:%d:%d:%d", ft, 1+rng.Intn(1<<30), []int{1, 8, 128}[rng.Intn(3)], c)
			case x < 19:
				op = fmt.Sprintf("fac:%d", []int{0, 18, 19, 20, 21, 23, 34, 49, 101, 206, 207, 65280}[rng.Intn(12)])
			default:
				a, b := rng.Intn(nf), rng.Intn(nf)
				op = fmt.Sprintf("open:%d.%d", a, b)
			}
			count("op:" + strings.Split(op, ":")[0])
			toks = append(toks, op)
		}
		count(fmt.Sprintf("k:%d", k))
		emit(strings.Join(toks, " "))
	}
}
