package main

// Reflection + probing over the generated typed messages (package mesgdef), shared by the translator
// `regen mesgdef` (→ lean/FitModel/Generated/Mesgdef.lean) and the family `typed` (property C13).
//
// Nothing here reads the generated *source*: a table is what the compiled NewXxx / Reset / ToMesg /
// MarkAsExpandedField / IsExpandedField of one message type DO:
//
//	slot kinds            reflection over the struct fields (time.Time, string, []T, [n]T, numeric kinds)
//	readNum               which field number feeds the struct field (Reset of a single field, all numbers tried)
//	ptype                 which of the 24 proto value types the slot's accessor accepts
//	dflt                  content of the slot after Reset(nil)
//	num, order            which field number ToMesg emits for the struct field, and in which order
//	sentinel / validity   which slot contents make ToMesg omit the field (candidates per kind)
//	canExpand, markBound  MarkAsExpandedField / IsExpandedField
//	guard, panics         Reset of one name-known field per number 0..255: lands in UnknownFields from `guard` on
//
// A behaviour the table cannot express is an error of the translator (reported with message and field).

import (
	"encoding/hex"
	"fmt"
	"math"
	"reflect"
	"sort"
	"strconv"
	"strings"
	"sync"
	"time"
	"unsafe"

	"github.com/muktihari/fit/kit/datetime"
	"github.com/muktihari/fit/profile/basetype"
	"github.com/muktihari/fit/profile/factory"
	"github.com/muktihari/fit/profile/mesgdef"
	"github.com/muktihari/fit/profile/typedef"
	"github.com/muktihari/fit/proto"
)

type mdSlot struct {
	goName    string
	fieldIdx  int // index of the struct field
	kind      string // scalar | bool | str | time | slice | fixed | fixedstr
	n         int    // fixed length
	ptype     proto.Type
	readNum   int
	num       int
	dflt      proto.Value // time: unused
	sentinel  proto.Value // scalar, fixed, fixedstr
	canExpand bool
	baseType  byte
	width     int // bytes of one element (numeric kinds)
}

type mdTable struct {
	name      string
	ctor      reflect.Value
	styp      reflect.Type // the struct type
	num       typedef.MesgNum
	guard     int
	panics    []int
	markBound int
	hasDev    bool
	hasState  bool
	slots     []mdSlot // in the order ToMesg emits them
	// behaviours the table cannot express; the table is then the closest description and `C13_tables_expressible` fails
	anoms []string
}

var (
	timeType   = reflect.TypeOf(time.Time{})
	fitEpochU  = datetime.Epoch().Unix()
	mdOnce     sync.Once
	mdTables   []*mdTable
	mdByName   map[string]*mdTable
	mdBuildErr error
)

func (t *mdTable) newStruct(m *proto.Message) reflect.Value {
	return t.ctor.Call([]reflect.Value{reflect.ValueOf(m)})[0]
}

func (t *mdTable) toMesg(s reflect.Value, o *mesgdef.Options) proto.Message {
	return s.MethodByName("ToMesg").Call([]reflect.Value{reflect.ValueOf(o)})[0].Interface().(proto.Message)
}

func (t *mdTable) isExpandedField(s reflect.Value, k int) bool {
	if !t.hasState {
		return false
	}
	return s.MethodByName("IsExpandedField").Call([]reflect.Value{reflect.ValueOf(byte(k))})[0].Bool()
}

func (t *mdTable) markAsExpanded(s reflect.Value, k int, flag bool) bool {
	if !t.hasState {
		return false
	}
	return s.MethodByName("MarkAsExpandedField").Call([]reflect.Value{reflect.ValueOf(byte(k)), reflect.ValueOf(flag)})[0].Bool()
}

// recovered runs f and reports whether it panicked.
func recovered(f func()) (panicked bool) {
	defer func() {
		if r := recover(); r != nil {
			panicked = true
		}
	}()
	f()
	return false
}

func knownBase(k int) *proto.FieldBase {
	return &proto.FieldBase{Name: "probe", Num: byte(k), Scale: 1}
}

// 24 probe values, one per proto type, with payloads that differ from every default (1 / "a").
func probeValues() []proto.Value {
	return []proto.Value{
		proto.Bool(1), proto.Int8(1), proto.Uint8(1), proto.Int16(1), proto.Uint16(1), proto.Int32(1), proto.Uint32(1),
		proto.Int64(1), proto.Uint64(1), proto.Float32(1), proto.Float64(1), proto.String("a"),
		proto.SliceBool([]typedef.Bool{1}), proto.SliceInt8([]int8{1}), proto.SliceUint8([]uint8{1}), proto.SliceInt16([]int16{1}),
		proto.SliceUint16([]uint16{1}), proto.SliceInt32([]int32{1}), proto.SliceUint32([]uint32{1}), proto.SliceInt64([]int64{1}),
		proto.SliceUint64([]uint64{1}), proto.SliceFloat32([]float32{1}), proto.SliceFloat64([]float64{1}), proto.SliceString([]string{"a"}),
	}
}

func numKindInfo(k reflect.Kind) (width int, signed, float, ok bool) {
	switch k {
	case reflect.Uint8:
		return 1, false, false, true
	case reflect.Int8:
		return 1, true, false, true
	case reflect.Uint16:
		return 2, false, false, true
	case reflect.Int16:
		return 2, true, false, true
	case reflect.Uint32:
		return 4, false, false, true
	case reflect.Int32:
		return 4, true, false, true
	case reflect.Uint64:
		return 8, false, false, true
	case reflect.Int64:
		return 8, true, false, true
	case reflect.Float32:
		return 4, false, true, true
	case reflect.Float64:
		return 8, false, true, true
	}
	return 0, false, false, false
}

// bitsOf: the bit pattern of a numeric reflect value
func bitsOf(v reflect.Value) uint64 {
	switch v.Kind() {
	case reflect.Float32:
		if v.CanAddr() { // v.Float() widens to float64, which quiets a signalling NaN
			return uint64(*(*uint32)(unsafe.Pointer(v.UnsafeAddr())))
		}
		return uint64(math.Float32bits(float32(v.Float())))
	case reflect.Float64:
		return math.Float64bits(v.Float())
	case reflect.Int8, reflect.Int16, reflect.Int32, reflect.Int64:
		return uint64(v.Int()) & (^uint64(0) >> (64 - 8*uint(v.Type().Size())))
	default:
		return v.Uint()
	}
}

// setBits stores a bit pattern into a numeric reflect value
func setBits(v reflect.Value, x uint64) {
	switch v.Kind() {
	case reflect.Float32:
		if v.CanAddr() {
			*(*uint32)(unsafe.Pointer(v.UnsafeAddr())) = uint32(x)
			return
		}
		v.SetFloat(float64(math.Float32frombits(uint32(x))))
	case reflect.Float64:
		v.SetFloat(math.Float64frombits(x))
	case reflect.Int8:
		v.SetInt(int64(int8(x)))
	case reflect.Int16:
		v.SetInt(int64(int16(x)))
	case reflect.Int32:
		v.SetInt(int64(int32(x)))
	case reflect.Int64:
		v.SetInt(int64(x))
	default:
		v.SetUint(x)
	}
}

// scalarValue / sliceValue: the proto value of type pt holding the given patterns
func scalarValue(pt proto.Type, x uint64) proto.Value {
	switch pt {
	case proto.TypeBool:
		return proto.Bool(typedef.Bool(x))
	case proto.TypeInt8:
		return proto.Int8(int8(x))
	case proto.TypeUint8:
		return proto.Uint8(uint8(x))
	case proto.TypeInt16:
		return proto.Int16(int16(x))
	case proto.TypeUint16:
		return proto.Uint16(uint16(x))
	case proto.TypeInt32:
		return proto.Int32(int32(x))
	case proto.TypeUint32:
		return proto.Uint32(uint32(x))
	case proto.TypeInt64:
		return proto.Int64(int64(x))
	case proto.TypeUint64:
		return proto.Uint64(x)
	case proto.TypeFloat32:
		return proto.Float32(math.Float32frombits(uint32(x)))
	case proto.TypeFloat64:
		return proto.Float64(math.Float64frombits(x))
	}
	return proto.Value{}
}

func sliceValue(pt proto.Type, xs []uint64) proto.Value {
	switch pt {
	case proto.TypeSliceBool:
		o := make([]typedef.Bool, len(xs))
		for i, x := range xs {
			o[i] = typedef.Bool(x)
		}
		return proto.SliceBool(o)
	case proto.TypeSliceInt8:
		o := make([]int8, len(xs))
		for i, x := range xs {
			o[i] = int8(x)
		}
		return proto.SliceInt8(o)
	case proto.TypeSliceUint8:
		o := make([]uint8, len(xs))
		for i, x := range xs {
			o[i] = uint8(x)
		}
		return proto.SliceUint8(o)
	case proto.TypeSliceInt16:
		o := make([]int16, len(xs))
		for i, x := range xs {
			o[i] = int16(x)
		}
		return proto.SliceInt16(o)
	case proto.TypeSliceUint16:
		o := make([]uint16, len(xs))
		for i, x := range xs {
			o[i] = uint16(x)
		}
		return proto.SliceUint16(o)
	case proto.TypeSliceInt32:
		o := make([]int32, len(xs))
		for i, x := range xs {
			o[i] = int32(x)
		}
		return proto.SliceInt32(o)
	case proto.TypeSliceUint32:
		o := make([]uint32, len(xs))
		for i, x := range xs {
			o[i] = uint32(x)
		}
		return proto.SliceUint32(o)
	case proto.TypeSliceInt64:
		o := make([]int64, len(xs))
		for i, x := range xs {
			o[i] = int64(x)
		}
		return proto.SliceInt64(o)
	case proto.TypeSliceUint64:
		o := make([]uint64, len(xs))
		copy(o, xs)
		return proto.SliceUint64(o)
	case proto.TypeSliceFloat32:
		o := make([]float32, len(xs))
		for i, x := range xs {
			o[i] = math.Float32frombits(uint32(x))
		}
		return proto.SliceFloat32(o)
	case proto.TypeSliceFloat64:
		o := make([]float64, len(xs))
		for i, x := range xs {
			o[i] = math.Float64frombits(x)
		}
		return proto.SliceFloat64(o)
	}
	return proto.Value{}
}

// slotContent: the content of a struct slot as the proto value ToMesg would build from it
// (nil slice → invalid value; time → ok=false, use slotTime)
func slotContent(sl *mdSlot, f reflect.Value) proto.Value {
	switch sl.kind {
	case "scalar", "bool":
		return scalarValue(sl.ptype, bitsOf(f))
	case "str":
		return proto.String(f.String())
	case "slice":
		if f.IsNil() {
			return proto.Value{}
		}
		if sl.ptype == proto.TypeSliceString {
			o := make([]string, f.Len())
			for i := range o {
				o[i] = f.Index(i).String()
			}
			return proto.SliceString(o)
		}
		xs := make([]uint64, f.Len())
		for i := range xs {
			xs[i] = bitsOf(f.Index(i))
		}
		return sliceValue(sl.ptype, xs)
	case "fixed":
		xs := make([]uint64, f.Len())
		for i := range xs {
			xs[i] = bitsOf(f.Index(i))
		}
		return sliceValue(sl.ptype, xs)
	case "fixedstr":
		o := make([]string, f.Len())
		for i := range o {
			o[i] = f.Index(i).String()
		}
		return proto.SliceString(o)
	}
	return proto.Value{}
}

// setSlotContent stores v (of the slot's own shape) into the struct field; false if v does not fit
func setSlotContent(sl *mdSlot, f reflect.Value, v proto.Value) bool {
	switch sl.kind {
	case "scalar", "bool":
		if v.Type() != sl.ptype {
			return false
		}
		setBits(f, valueBits(v))
		return true
	case "str":
		if v.Type() != proto.TypeString {
			return false
		}
		f.SetString(v.String())
		return true
	case "slice":
		if v.Type() == proto.TypeInvalid {
			f.Set(reflect.Zero(f.Type()))
			return true
		}
		if v.Type() != sl.ptype {
			return false
		}
		if sl.ptype == proto.TypeSliceString {
			ss := v.SliceString()
			o := reflect.MakeSlice(f.Type(), len(ss), len(ss))
			for i, s := range ss {
				o.Index(i).SetString(s)
			}
			f.Set(o)
			return true
		}
		xs := valueElems(v)
		o := reflect.MakeSlice(f.Type(), len(xs), len(xs))
		for i, x := range xs {
			setBits(o.Index(i), x)
		}
		f.Set(o)
		return true
	case "fixed":
		xs := valueElems(v)
		if v.Type() != sl.ptype || len(xs) != f.Len() {
			return false
		}
		for i, x := range xs {
			setBits(f.Index(i), x)
		}
		return true
	case "fixedstr":
		if v.Type() != proto.TypeSliceString || len(v.SliceString()) != f.Len() {
			return false
		}
		for i, s := range v.SliceString() {
			f.Index(i).SetString(s)
		}
		return true
	}
	return false
}

func valueBits(v proto.Value) uint64 {
	switch v.Type() {
	case proto.TypeBool:
		return uint64(v.Bool())
	case proto.TypeInt8:
		return uint64(uint8(v.Int8()))
	case proto.TypeUint8:
		return uint64(v.Uint8())
	case proto.TypeInt16:
		return uint64(uint16(v.Int16()))
	case proto.TypeUint16:
		return uint64(v.Uint16())
	case proto.TypeInt32:
		return uint64(uint32(v.Int32()))
	case proto.TypeUint32:
		return uint64(v.Uint32())
	case proto.TypeInt64:
		return uint64(v.Int64())
	case proto.TypeUint64:
		return v.Uint64()
	case proto.TypeFloat32:
		return uint64(math.Float32bits(v.Float32()))
	case proto.TypeFloat64:
		return math.Float64bits(v.Float64())
	}
	return 0
}

func valueElems(v proto.Value) []uint64 {
	var xs []uint64
	switch v.Type() {
	case proto.TypeSliceBool:
		for _, x := range v.SliceBool() {
			xs = append(xs, uint64(x))
		}
	case proto.TypeSliceInt8:
		for _, x := range v.SliceInt8() {
			xs = append(xs, uint64(uint8(x)))
		}
	case proto.TypeSliceUint8:
		for _, x := range v.SliceUint8() {
			xs = append(xs, uint64(x))
		}
	case proto.TypeSliceInt16:
		for _, x := range v.SliceInt16() {
			xs = append(xs, uint64(uint16(x)))
		}
	case proto.TypeSliceUint16:
		for _, x := range v.SliceUint16() {
			xs = append(xs, uint64(x))
		}
	case proto.TypeSliceInt32:
		for _, x := range v.SliceInt32() {
			xs = append(xs, uint64(uint32(x)))
		}
	case proto.TypeSliceUint32:
		for _, x := range v.SliceUint32() {
			xs = append(xs, uint64(x))
		}
	case proto.TypeSliceInt64:
		for _, x := range v.SliceInt64() {
			xs = append(xs, uint64(x))
		}
	case proto.TypeSliceUint64:
		xs = append(xs, v.SliceUint64()...)
	case proto.TypeSliceFloat32:
		for _, x := range v.SliceFloat32() {
			xs = append(xs, uint64(math.Float32bits(x)))
		}
	case proto.TypeSliceFloat64:
		for _, x := range v.SliceFloat64() {
			xs = append(xs, math.Float64bits(x))
		}
	}
	return xs
}

// rawRepr: a struct field as text, numbers by bit pattern (NaN-safe), nil and empty slices apart
func rawRepr(v reflect.Value) string {
	switch {
	case v.Type() == timeType:
		sec, ns := slotTime(v)
		return fmt.Sprintf("t%d.%d", sec, ns)
	case v.Kind() == reflect.String:
		return "s" + hex.EncodeToString([]byte(v.String()))
	case v.Kind() == reflect.Slice && v.IsNil():
		return "nil"
	case v.Kind() == reflect.Slice || v.Kind() == reflect.Array:
		o := make([]string, v.Len())
		for i := range o {
			o[i] = rawRepr(v.Index(i))
		}
		return "[" + strings.Join(o, ",") + "]"
	}
	return strconv.FormatUint(bitsOf(v), 16)
}

// slotTime: seconds since the FIT epoch and the nanosecond part of a time slot
func slotTime(f reflect.Value) (sec int64, nsec int) {
	t := f.Interface().(time.Time)
	return t.Unix() - fitEpochU, t.Nanosecond()
}

func sameContent(sl *mdSlot, a, b reflect.Value) bool {
	if sl.kind == "time" {
		s1, n1 := slotTime(a)
		s2, n2 := slotTime(b)
		return s1 == s2 && n1 == n2
	}
	if sl.kind == "slice" && a.IsNil() != b.IsNil() {
		return false
	}
	return printValue(slotContent(sl, a)) == printValue(slotContent(sl, b))
}

func mesgHasNum(m *proto.Message, k int) (proto.Field, bool) {
	for i := range m.Fields {
		if m.Fields[i].FieldBase != nil && int(m.Fields[i].Num) == k {
			return m.Fields[i], true
		}
	}
	return proto.Field{}, false
}

var inclExpanded = &mesgdef.Options{Factory: factory.StandardFactory(), IncludeExpandedFields: true}

// a content of the slot that must count as valid (for order / emitted-number probing)
func validContent(sl *mdSlot) proto.Value {
	switch sl.kind {
	case "scalar":
		return scalarValue(sl.ptype, 1)
	case "bool":
		return proto.Bool(1)
	case "str":
		return proto.String("a")
	case "slice":
		if sl.ptype == proto.TypeSliceString {
			return proto.SliceString([]string{"a"})
		}
		return sliceValue(sl.ptype, []uint64{1})
	case "fixed":
		xs := make([]uint64, sl.n)
		for i := range xs {
			xs[i] = 1
		}
		return sliceValue(sl.ptype, xs)
	case "fixedstr":
		o := make([]string, sl.n)
		for i := range o {
			o[i] = "a"
		}
		return proto.SliceString(o)
	}
	return proto.Value{}
}

func buildTable(rc regCtor) (*mdTable, error) {
	t := &mdTable{name: rc.name, ctor: reflect.ValueOf(rc.ctor)}
	fail := func(f string, a ...any) (*mdTable, error) {
		return nil, fmt.Errorf("mesgdef.%s: %s", rc.name, fmt.Sprintf(f, a...))
	}
	anom := func(f string, a ...any) { t.anoms = append(t.anoms, fmt.Sprintf(f, a...)) }
	ct := t.ctor.Type()
	if ct.Kind() != reflect.Func || ct.NumIn() != 1 || ct.NumOut() != 1 || ct.Out(0).Kind() != reflect.Ptr {
		return fail("constructor has an unexpected signature")
	}
	t.styp = ct.Out(0).Elem()
	s0 := t.newStruct(nil)
	_, t.hasState = s0.Type().MethodByName("IsExpandedField")
	t.num = t.toMesg(s0, nil).Num

	// ---- slots by reflection
	var slots []mdSlot
	for i := 0; i < t.styp.NumField(); i++ {
		sf := t.styp.Field(i)
		if !sf.IsExported() {
			continue
		}
		switch sf.Name {
		case "UnknownFields":
			continue
		case "DeveloperFields":
			t.hasDev = true
			continue
		}
		sl := mdSlot{goName: sf.Name, fieldIdx: i, readNum: -1, num: -1, baseType: 255}
		ft := sf.Type
		switch {
		case ft == timeType:
			sl.kind, sl.ptype = "time", proto.TypeUint32
		case ft.Kind() == reflect.String:
			sl.kind, sl.ptype = "str", proto.TypeString
		case ft.Kind() == reflect.Slice && ft.Elem().Kind() == reflect.String:
			sl.kind, sl.ptype = "slice", proto.TypeSliceString
		case ft.Kind() == reflect.Array && ft.Elem().Kind() == reflect.String:
			sl.kind, sl.ptype, sl.n = "fixedstr", proto.TypeSliceString, ft.Len()
		case ft.Kind() == reflect.Slice:
			w, _, _, ok := numKindInfo(ft.Elem().Kind())
			if !ok {
				return fail("field %s: unsupported element kind %s", sf.Name, ft.Elem().Kind())
			}
			sl.kind, sl.width = "slice", w
		case ft.Kind() == reflect.Array:
			w, _, _, ok := numKindInfo(ft.Elem().Kind())
			if !ok {
				return fail("field %s: unsupported element kind %s", sf.Name, ft.Elem().Kind())
			}
			sl.kind, sl.width, sl.n = "fixed", w, ft.Len()
		default:
			w, _, _, ok := numKindInfo(ft.Kind())
			if !ok {
				return fail("field %s: unsupported kind %s", sf.Name, ft.Kind())
			}
			sl.kind, sl.width = "scalar", w
		}
		slots = append(slots, sl)
	}
	byIdx := map[int]*mdSlot{}
	for i := range slots {
		byIdx[slots[i].fieldIdx] = &slots[i]
	}

	// ---- guard / panics: one name-known field per number
	t.guard = 256
	unknownFrom := -1
	for k := 0; k < 256; k++ {
		var s reflect.Value
		m := proto.Message{Fields: []proto.Field{{FieldBase: knownBase(k), Value: proto.Uint8(1)}}}
		if recovered(func() { s = t.newStruct(&m) }) {
			t.panics = append(t.panics, k)
			continue
		}
		isUnknown := s.Elem().FieldByName("UnknownFields").Len() == 1
		if isUnknown && unknownFrom < 0 {
			unknownFrom = k
		}
		if !isUnknown && unknownFrom >= 0 {
			anom("field number %d is stored although %d goes to UnknownFields (no single guard)", k, unknownFrom)
		}
	}
	if unknownFrom >= 0 {
		t.guard = unknownFrom
	}
	for _, k := range t.panics {
		if k >= t.guard {
			anom("Reset panics on field number %d at or above the guard %d", k, t.guard)
		}
	}
	isPanic := map[int]bool{}
	for _, k := range t.panics {
		isPanic[k] = true
	}

	// ---- which number feeds which struct field, and with which value type (every number below the guard, all 24 types)
	pv := probeValues()
	base := s0.Elem()
	for k := 0; k < t.guard; k++ {
		if isPanic[k] {
			continue
		}
		for _, v := range pv {
			m := proto.Message{Fields: []proto.Field{{FieldBase: knownBase(k), Value: v}}}
			s := t.newStruct(&m).Elem()
			for i := range slots {
				sl := &slots[i]
				a, b := s.Field(sl.fieldIdx), base.Field(sl.fieldIdx)
				changed := rawRepr(a) != rawRepr(b)
				if !changed {
					continue
				}
				if sl.readNum >= 0 && (sl.readNum != k || (sl.kind != "time" && sl.ptype != v.Type())) {
					return fail("field %s is fed by field number %d/%s and by %d/%s", sl.goName, sl.readNum, sl.ptype, k, v.Type())
				}
				sl.readNum = k
				if sl.kind != "time" {
					sl.ptype = v.Type()
				} else if v.Type() != proto.TypeUint32 {
					return fail("time field %s accepts a %s", sl.goName, v.Type())
				}
			}
		}
	}
	for i := range slots {
		sl := &slots[i]
		if sl.readNum < 0 {
			return fail("field %s is not fed by any field number below the guard", sl.goName)
		}
		if sl.kind == "scalar" && sl.ptype == proto.TypeBool {
			sl.kind = "bool"
		}
		switch sl.kind {
		case "scalar", "bool":
			if sl.ptype < proto.TypeBool || sl.ptype > proto.TypeFloat64 {
				return fail("scalar field %s accepts a %s", sl.goName, sl.ptype)
			}
		case "slice", "fixed":
			if sl.ptype < proto.TypeSliceBool || sl.ptype > proto.TypeSliceString {
				return fail("array field %s accepts a %s", sl.goName, sl.ptype)
			}
		}
		if sl.kind != "time" {
			sl.dflt = slotContent(sl, base.Field(sl.fieldIdx))
		} else if sec, ns := slotTime(base.Field(sl.fieldIdx)); sec != (time.Time{}).Unix()-fitEpochU || ns != 0 {
			return fail("time field %s is not time.Time{} after Reset(nil)", sl.goName)
		}
	}

	// ---- which number ToMesg emits for each struct field, with which value type; emission order
	baseline := t.toMesg(t.newStruct(nil), inclExpanded)
	if len(baseline.Fields) != 0 {
		anom("the struct after Reset(nil) converts to %d fields (first: number %d)", len(baseline.Fields), baseline.Fields[0].Num)
	}
	inBaseline := func(f *proto.Field) bool {
		for i := range baseline.Fields {
			b := &baseline.Fields[i]
			if b.FieldBase != nil && f.FieldBase != nil && b.Num == f.Num && printValue(b.Value) == printValue(f.Value) {
				return true
			}
		}
		return false
	}
	full := t.newStruct(nil)
	for i := range slots {
		sl := &slots[i]
		s := t.newStruct(nil)
		f := s.Elem().Field(sl.fieldIdx)
		if sl.kind == "time" {
			f.Set(reflect.ValueOf(datetime.Epoch().Add(time.Second)))
			full.Elem().Field(sl.fieldIdx).Set(reflect.ValueOf(datetime.Epoch().Add(time.Second)))
		} else {
			if !setSlotContent(sl, f, validContent(sl)) || !setSlotContent(sl, full.Elem().Field(sl.fieldIdx), validContent(sl)) {
				return fail("cannot populate field %s", sl.goName)
			}
		}
		m := t.toMesg(s, inclExpanded)
		var fresh []proto.Field
		for j := range m.Fields {
			if m.Fields[j].FieldBase != nil && !inBaseline(&m.Fields[j]) {
				fresh = append(fresh, m.Fields[j])
			}
		}
		if len(fresh) != 1 {
			return fail("a struct with only %s set converts to %d new fields", sl.goName, len(fresh))
		}
		sl.num = int(fresh[0].Num)
		if got := fresh[0].Value.Type(); got != sl.ptype {
			anom("field %s accepts %s but emits %s", sl.goName, sl.ptype, got)
		}
		if fb := factory.StandardFactory().CreateField(t.num, byte(sl.num)); fb.Name != factory.NameUnknown {
			sl.baseType = byte(fb.BaseType)
		}
	}
	fm := t.toMesg(full, inclExpanded)
	if len(fm.Fields) != len(slots) {
		return fail("fully populated struct converts to %d fields, %d slots", len(fm.Fields), len(slots))
	}
	used := make([]bool, len(slots))
	for _, f := range fm.Fields {
		found := -1
		for i := range slots {
			if !used[i] && f.FieldBase != nil && slots[i].num == int(f.Num) {
				found = i
				break
			}
		}
		if found < 0 {
			return fail("emission order: unexpected field number %v", f.FieldBase)
		}
		used[found] = true
		t.slots = append(t.slots, slots[found])
	}

	// ---- validity rule per slot
	for i := range t.slots {
		sl := &t.slots[i]
		omitted := func(set func(f reflect.Value)) bool {
			s := t.newStruct(nil)
			set(s.Elem().Field(sl.fieldIdx))
			_, present := mesgHasNum(ptrMesg(t.toMesg(s, inclExpanded)), sl.num)
			return !present
		}
		switch sl.kind {
		case "scalar":
			all := ^uint64(0) >> (64 - 8*uint(sl.width))
			cands := []uint64{valueBits(sl.dflt), 0, 1, 2, all, all >> 1, all>>1 + 1, all - 1}
			seen := map[uint64]bool{}
			var om []uint64
			for _, c := range cands {
				if seen[c] {
					continue
				}
				seen[c] = true
				c := c
				if omitted(func(f reflect.Value) { setBits(f, c) }) {
					om = append(om, c)
				}
			}
			if len(om) != 1 {
				anom("field %s: ToMesg omits %d of the candidate contents %v (expected exactly one sentinel)", sl.goName, len(om), om)
			}
			if len(om) >= 1 {
				sl.sentinel = scalarValue(sl.ptype, om[0])
			} else {
				sl.sentinel = sl.dflt
			}
		case "bool":
			for c := uint64(0); c < 256; c++ {
				c := c
				if omitted(func(f reflect.Value) { setBits(f, c) }) != (c >= 2) {
					anom("bool field %s: content %d is not treated as `< 2`", sl.goName, c)
					break
				}
			}
		case "str":
			for _, c := range []string{"", "a", "\x00", " "} {
				c := c
				if omitted(func(f reflect.Value) { f.SetString(c) }) != (c == "") {
					anom("string field %s: content %q is not treated as `!= \"\"`", sl.goName, c)
				}
			}
		case "time":
			for _, d := range []int64{-1 << 30, -1, 0, 1, 1 << 31} {
				d := d
				if omitted(func(f reflect.Value) { f.Set(reflect.ValueOf(datetime.Epoch().Add(time.Duration(d) * time.Second))) }) != (d < 0) {
					anom("time field %s: epoch%+ds is not treated as `!Before(epoch)`", sl.goName, d)
				}
			}
			if !omitted(func(f reflect.Value) { f.Set(reflect.ValueOf(time.Time{})) }) {
				anom("time field %s: time.Time{} is emitted", sl.goName)
			}
		case "slice":
			if !omitted(func(f reflect.Value) { f.Set(reflect.Zero(f.Type())) }) ||
				omitted(func(f reflect.Value) { f.Set(reflect.MakeSlice(f.Type(), 0, 0)) }) ||
				omitted(func(f reflect.Value) { f.Set(reflect.MakeSlice(f.Type(), 1, 1)) }) {
				anom("slice field %s is not treated as `!= nil`", sl.goName)
			}
		case "fixed":
			all := ^uint64(0) >> (64 - 8*uint(sl.width))
			dflt := valueElems(sl.dflt)
			if len(dflt) != sl.n {
				return fail("array field %s: default has %d elements", sl.goName, len(dflt))
			}
			sl.sentinel = sl.dflt
			if !omitted(func(f reflect.Value) { setSlotContent(sl, f, sl.dflt) }) {
				// the content after Reset(nil) is emitted: look for the array ToMesg compares with among the uniform ones
				found := false
				for _, c := range []uint64{all, 0, all >> 1} {
					xs := make([]uint64, sl.n)
					for i := range xs {
						xs[i] = c
					}
					if omitted(func(f reflect.Value) { setSlotContent(sl, f, sliceValue(sl.ptype, xs)) }) {
						sl.sentinel, found = sliceValue(sl.ptype, xs), true
						break
					}
				}
				if !found {
					anom("array field %s: the content after Reset(nil) is emitted and no uniform array is omitted", sl.goName)
				}
			}
			sent := valueElems(sl.sentinel)
			for pos := 0; pos < sl.n; pos++ {
				for _, c := range []uint64{0, 1, all, all >> 1, all - 1} {
					if c == sent[pos] {
						continue
					}
					xs := append([]uint64(nil), sent...)
					xs[pos] = c
					if omitted(func(f reflect.Value) { setSlotContent(sl, f, sliceValue(sl.ptype, xs)) }) {
						anom("array field %s: a content differing from the sentinel at [%d] is omitted", sl.goName, pos)
					}
				}
			}
		case "fixedstr":
			if !omitted(func(f reflect.Value) { setSlotContent(sl, f, sl.dflt) }) {
				anom("array field %s: the content after Reset(nil) is emitted", sl.goName)
			}
			for pos := 0; pos < sl.n; pos++ {
				ss := append([]string(nil), sl.dflt.SliceString()...)
				ss[pos] = "a"
				if omitted(func(f reflect.Value) { setSlotContent(sl, f, proto.SliceString(ss)) }) {
					anom("array field %s: a content differing from the default at [%d] is omitted", sl.goName, pos)
				}
			}
			sl.sentinel = sl.dflt
		}
	}

	// ---- expanded marks: eligible numbers, bitmap bound
	if t.hasState {
		for k := 0; k < 256; k++ {
			s := t.newStruct(nil)
			ok := t.markAsExpanded(s, k, true)
			if sl := slotByNum(t, k); sl != nil {
				sl.canExpand = ok
			} else if ok {
				anom("MarkAsExpandedField accepts %d, which is not a slot", k)
			}
			if ok != t.isExpandedField(s, k) {
				anom("IsExpandedField(%d) does not return the mark just set", k)
			}
		}
		boundFrom := -1
		for k := 0; k < t.guard; k++ {
			if isPanic[k] {
				continue
			}
			m := proto.Message{Fields: []proto.Field{{FieldBase: knownBase(k), Value: proto.Uint8(1), IsExpandedField: true}}}
			s := t.newStruct(&m)
			marked := t.isExpandedField(s, k)
			if !marked && boundFrom < 0 {
				boundFrom = k
			}
			if marked && boundFrom >= 0 {
				anom("Reset marks %d as expanded but not %d (no single bound)", k, boundFrom)
			}
		}
		if boundFrom < 0 {
			boundFrom = t.guard
		}
		t.markBound = boundFrom
		for k := t.guard; k < 256; k++ {
			if t.isExpandedField(t.newStruct(nil), k) {
				anom("IsExpandedField(%d) is true on a fresh struct", k)
			}
		}
	}
	// the bitmap is consulted exactly for the eligible slots: a marked eligible slot disappears without IncludeExpandedFields
	for i := range t.slots {
		sl := &t.slots[i]
		s := t.newStruct(nil)
		f := s.Elem().Field(sl.fieldIdx)
		if sl.kind == "time" {
			f.Set(reflect.ValueOf(datetime.Epoch().Add(time.Second)))
		} else {
			setSlotContent(sl, f, validContent(sl))
		}
		marked := t.markAsExpanded(s, sl.num, true)
		m1 := t.toMesg(s, &mesgdef.Options{Factory: factory.StandardFactory()})
		m2 := t.toMesg(s, inclExpanded)
		if (len(m1.Fields) == 0) != marked || len(m2.Fields) != 1 || m2.Fields[0].IsExpandedField != marked {
			anom("field %s: expanded mark %v, but ToMesg emits %d / %d fields (flag %v)", sl.goName, marked, len(m1.Fields), len(m2.Fields), len(m2.Fields) == 1 && m2.Fields[0].IsExpandedField)
		}
	}
	return t, nil
}

func ptrMesg(m proto.Message) *proto.Message { return &m }

func slotByNum(t *mdTable, k int) *mdSlot {
	for i := range t.slots {
		if t.slots[i].num == k {
			return &t.slots[i]
		}
	}
	return nil
}

// allTables builds (once per process) the table of every registered message type, sorted by message number.
func allTables() ([]*mdTable, error) {
	mdOnce.Do(func() {
		mdByName = map[string]*mdTable{}
		for _, rc := range mesgdefCtors {
			t, err := buildTable(rc)
			if err != nil {
				mdBuildErr = err
				return
			}
			mdTables = append(mdTables, t)
			mdByName[t.name] = t
		}
		sort.SliceStable(mdTables, func(i, j int) bool { return mdTables[i].num < mdTables[j].num })
	})
	return mdTables, mdBuildErr
}

// ---------------------------------------------------------------- Lean syntax of a proto.Value

func mdLeanNats(xs []uint64) string {
	o := make([]string, len(xs))
	for i, x := range xs {
		o[i] = strconv.FormatUint(x, 10)
	}
	return "[" + strings.Join(o, ", ") + "]"
}

func mdLeanBytes(s string) string {
	o := make([]string, len(s))
	for i := 0; i < len(s); i++ {
		o[i] = strconv.Itoa(int(s[i]))
	}
	return "[" + strings.Join(o, ", ") + "]"
}

var mdLeanCtor = map[proto.Type]string{
	proto.TypeBool: "bool", proto.TypeInt8: "int8", proto.TypeUint8: "uint8", proto.TypeInt16: "int16", proto.TypeUint16: "uint16",
	proto.TypeInt32: "int32", proto.TypeUint32: "uint32", proto.TypeInt64: "int64", proto.TypeUint64: "uint64",
	proto.TypeFloat32: "float32", proto.TypeFloat64: "float64", proto.TypeString: "string",
	proto.TypeSliceBool: "sliceBool", proto.TypeSliceInt8: "sliceInt8", proto.TypeSliceUint8: "sliceUint8", proto.TypeSliceInt16: "sliceInt16",
	proto.TypeSliceUint16: "sliceUint16", proto.TypeSliceInt32: "sliceInt32", proto.TypeSliceUint32: "sliceUint32",
	proto.TypeSliceInt64: "sliceInt64", proto.TypeSliceUint64: "sliceUint64", proto.TypeSliceFloat32: "sliceFloat32",
	proto.TypeSliceFloat64: "sliceFloat64", proto.TypeSliceString: "sliceString",
}

func mdLeanValue(v proto.Value) string {
	t := v.Type()
	switch {
	case t == proto.TypeInvalid:
		return ".invalid"
	case t == proto.TypeString:
		return "(.string " + mdLeanBytes(v.String()) + ")"
	case t == proto.TypeSliceString:
		ss := v.SliceString()
		o := make([]string, len(ss))
		for i, s := range ss {
			o[i] = mdLeanBytes(s)
		}
		return "(.sliceString [" + strings.Join(o, ", ") + "])"
	case t >= proto.TypeBool && t <= proto.TypeFloat64:
		return fmt.Sprintf("(.%s %d)", mdLeanCtor[t], valueBits(v))
	default:
		return fmt.Sprintf("(.%s %s)", mdLeanCtor[t], mdLeanNats(valueElems(v)))
	}
}

var _ = hex.EncodeToString
var _ = basetype.Enum
