package main

import (
	"bytes"
	"encoding/binary"
	"encoding/hex"
	"errors"
	"fmt"
	"io"
	"io/fs"
	"os"
	"path/filepath"
	"runtime"
	"sort"
	"strconv"
	"strings"
	"sync"

	"github.com/muktihari/fit/decoder"
	"github.com/muktihari/fit/encoder"
	"github.com/muktihari/fit/kit/hash/crc16"
	"github.com/muktihari/fit/profile/basetype"
	"github.com/muktihari/fit/profile/factory"
	"github.com/muktihari/fit/profile/typedef"
	"github.com/muktihari/fit/profile/untyped/fieldnum"
	"github.com/muktihari/fit/profile/untyped/mesgnum"
	"github.com/muktihari/fit/proto"
)

// Family `integrity` (property C04): CheckIntegrity and the decode loop on byte strings.
//
//	integ   [chk=0|1] [rb=<n>] [rd=<reader>] [eo=<n> el=<len>] b:<hex>   (eo: the bytes ARE real encoder output, n sequences, 14-byte headers)
//	                                                         → ci=ok:<seq>|err:<class>:<seq> dec=ok:<seq>:<msgs>|err:<class>:<seq>
//	integcx <flip|burst|trunc> [lo=<byte>] [hi=<byte>] [end=<byte>] [len=<k> pat=<w>] [chk=..] [eo=<n> el=<len>] b:<hex>
//	                                                         → n=<corruptions> ci_ok=<accepted> dec_ok=<accepted> h=<digest of outcome classes>
//	integv  b:<hex>                                          → ok:<seq> | bad:<seq>   (CheckIntegrity only; spec mode = the reference)
//	fitformat b:<hex>                                        → segments of the raw decoder: H<off>+<len> D.. M.. C..
func init() {
	families["integrity"] = genIntegrity
	executors["integ"] = execInteg
	executors["integcx"] = execIntegCx
	executors["integv"] = execIntegV
	executors["fitformat"] = execFitFormat
}

// error class by errors.Is against the exported sentinel errors; never by string.
func integErrClass(err error) string {
	switch {
	case err == nil:
		return "nil"
	case errors.Is(err, decoder.ErrCRCChecksumMismatch):
		return "crc"
	case errors.Is(err, decoder.ErrNotFITFile):
		return "not-fit"
	case errors.Is(err, decoder.ErrMesgDefMissing):
		return "def-missing"
	case errors.Is(err, io.EOF), errors.Is(err, io.ErrUnexpectedEOF):
		return "eof"
	case errors.Is(err, proto.ErrTypeNotSupported):
		return "type-not-supported"
	default:
		// errInvalidBaseType is unexported: recognised as "none of the exported sentinels"
		return "invalid-basetype"
	}
}

type integOpts struct {
	chk bool
	rb  int
	rd  int // how the reader delivers the bytes (integReader)
	kv  map[string]string
	b   []byte
}

func parseIntegArgs(args []string) (o integOpts, ok bool) {
	o.chk, o.kv = true, map[string]string{}
	seen := false
	for _, a := range args {
		if strings.HasPrefix(a, "b:") {
			b, err := hex.DecodeString(a[2:])
			if err != nil {
				return o, false
			}
			o.b, seen = b, true
			continue
		}
		kv := strings.Split(a, "=")
		if len(kv) != 2 {
			return o, false
		}
		o.kv[kv[0]] = kv[1]
		switch kv[0] {
		case "chk":
			o.chk = kv[1] != "0"
		case "rb":
			o.rb, _ = strconv.Atoi(kv[1])
		case "rd":
			o.rd, _ = strconv.Atoi(kv[1])
		}
	}
	return o, seen
}

func (o integOpts) decOptions() []decoder.Option {
	var opts []decoder.Option
	if !o.chk {
		opts = append(opts, decoder.WithIgnoreChecksum())
	}
	if o.rb > 0 {
		opts = append(opts, decoder.WithReadBufferSize(o.rb))
	}
	return opts
}

// integChunkReader hands out the chunks one per Read (a chunk larger than p in several reads); with eofWithLast the
// LAST data comes together with io.EOF, as the io.Reader contract allows (iotest.DataErrReader, network bodies, …).
type integChunkReader struct {
	chunks      [][]byte
	eofWithLast bool
}

func (r *integChunkReader) Read(p []byte) (int, error) {
	for len(r.chunks) > 0 && len(r.chunks[0]) == 0 {
		r.chunks = r.chunks[1:]
	}
	if len(r.chunks) == 0 {
		return 0, io.EOF
	}
	n := copy(p, r.chunks[0])
	r.chunks[0] = r.chunks[0][n:]
	for len(r.chunks) > 0 && len(r.chunks[0]) == 0 {
		r.chunks = r.chunks[1:]
	}
	if r.eofWithLast && len(r.chunks) == 0 {
		return n, io.EOF
	}
	return n, nil
}

// integSeqChunks cuts b where the file headers say the sequences end (what is left over is the last chunk)
func integSeqChunks(b []byte) [][]byte {
	var chunks [][]byte
	for len(b) >= 12 && (b[0] == 12 || b[0] == 14) {
		n := int(b[0]) + int(binary.LittleEndian.Uint32(b[4:8])) + 2
		if n <= 0 || n >= len(b) {
			break
		}
		chunks = append(chunks, b[:n])
		b = b[n:]
	}
	return append(chunks, b)
}

// integReader: rd=0 bytes.Reader (EOF on a call of its own); rd=1 everything in one Read TOGETHER with io.EOF;
// rd=2 one sequence per Read, the last data together with io.EOF; rd=3 one sequence per Read, EOF on a call of its own;
// rd=4 iotest.DataErrReader semantics over 7-byte reads; rd=5 one byte per Read.
// The verdict must not depend on it (the model reads the byte string): "however the reader delivers it" is C08's
// sentence, but a reader that reports io.EOF with its last data must not make CheckIntegrity accept trailing garbage
// or reject an intact file (seeded changes C04-6, C04-9).
func integReader(rd int, b []byte) io.Reader {
	c := append([]byte(nil), b...)
	switch rd {
	case 1:
		return &integChunkReader{chunks: [][]byte{c}, eofWithLast: true}
	case 2:
		return &integChunkReader{chunks: integSeqChunks(c), eofWithLast: true}
	case 3:
		return &integChunkReader{chunks: integSeqChunks(c)}
	case 4:
		var chunks [][]byte
		for len(c) > 7 {
			chunks = append(chunks, c[:7])
			c = c[7:]
		}
		return &integChunkReader{chunks: append(chunks, c), eofWithLast: true}
	case 5:
		chunks := make([][]byte, len(c))
		for i := range c {
			chunks[i] = c[i : i+1]
		}
		return &integChunkReader{chunks: chunks}
	}
	return bytes.NewReader(b)
}

// integRun: outcome codes and printable outcomes of CheckIntegrity and of the decode loop.
func integRun(o integOpts, b []byte) (ci string, dec string) {
	d := decoder.New(integReader(o.rd, b), o.decOptions()...)
	n, err := d.CheckIntegrity()
	if err == nil {
		ci = fmt.Sprintf("ok:%d", n)
	} else {
		ci = fmt.Sprintf("err:%s:%d", integErrClass(err), n)
	}
	d = decoder.New(integReader(o.rd, b), o.decOptions()...)
	seq, msgs := 0, 0
	for d.Next() {
		fit, err := d.Decode()
		if err != nil {
			return ci, fmt.Sprintf("err:%s:%d", integErrClass(err), seq)
		}
		seq++
		msgs += len(fit.Messages)
	}
	return ci, fmt.Sprintf("ok:%d:%d", seq, msgs)
}

func execInteg(args []string) string {
	o, ok := parseIntegArgs(args)
	if !ok {
		return "bad-op"
	}
	ci, dec := integRun(o, o.b)
	return "ci=" + ci + " dec=" + dec
}

// integv b:<hex> → ok:<seq> | bad:<seq>: verdict and count of valid leading sequences of CheckIntegrity
func execIntegV(args []string) string {
	o, ok := parseIntegArgs(args)
	if !ok {
		return "bad-op"
	}
	n, err := decoder.New(integReader(o.rd, o.b), o.decOptions()...).CheckIntegrity()
	if err == nil {
		return fmt.Sprintf("ok:%d", n)
	}
	return fmt.Sprintf("bad:%d", n)
}

func integCode(s string) byte {
	if strings.HasPrefix(s, "ok:") {
		return 0
	}
	switch strings.Split(s, ":")[1] {
	case "eof":
		return 1
	case "not-fit":
		return 2
	case "crc":
		return 3
	case "def-missing":
		return 4
	case "invalid-basetype":
		return 5
	}
	return 99
}

// xorAt xors the bits of w into a copy of b starting at bit position p (bit i of byte j is bit 8j+i).
func integXorAt(b []byte, p int, w uint32) []byte {
	c := append([]byte(nil), b...)
	v := w << (p % 8)
	for j := p / 8; j < len(c) && v != 0; j++ {
		c[j] ^= byte(v)
		v >>= 8
	}
	return c
}

func execIntegCx(args []string) string {
	if len(args) < 1 {
		return "bad-op"
	}
	kind := args[0]
	o, ok := parseIntegArgs(args[1:])
	if !ok {
		return "bad-op"
	}
	geti := func(k string, def int) int {
		if v, ok := o.kv[k]; ok {
			n, err := strconv.Atoi(v)
			if err == nil {
				return n
			}
		}
		return def
	}
	ln := len(o.b)
	lo, hi := geti("lo", 0), geti("hi", ln)
	if hi > ln {
		hi = ln
	}
	lim := geti("end", ln) // a burst must end before this byte offset
	if lim > ln {
		lim = ln
	}
	var inputs [][]byte
	switch kind {
	case "flip":
		for p := 8 * lo; p < 8*hi; p++ {
			inputs = append(inputs, integXorAt(o.b, p, 1))
		}
	case "burst":
		k, w := geti("len", -1), geti("pat", -1)
		if k < 1 || k > 16 || w < 0 || w >= 1<<k || w%2 == 0 || w < 1<<(k-1) {
			return "bad-op"
		}
		for p := 8 * lo; p < 8*hi; p++ {
			if p+k <= 8*lim {
				inputs = append(inputs, integXorAt(o.b, p, uint32(w)))
			}
		}
	case "trunc":
		for k := lo; k < hi; k++ {
			inputs = append(inputs, o.b[:k])
		}
	default:
		return "bad-op"
	}
	codes := make([][2]byte, len(inputs))
	var wg sync.WaitGroup
	nw := runtime.GOMAXPROCS(0)
	panicked := false
	for w := 0; w < nw; w++ {
		wg.Add(1)
		go func(w int) {
			defer wg.Done()
			defer func() {
				if r := recover(); r != nil {
					panicked = true
				}
			}()
			for i := w; i < len(inputs); i += nw {
				ci, dec := integRun(o, inputs[i])
				codes[i] = [2]byte{integCode(ci), integCode(dec)}
			}
		}(w)
	}
	wg.Wait()
	if panicked {
		return "panic"
	}
	d := uint64(0xcbf29ce484222325)
	ciOk, decOk := 0, 0
	for _, c := range codes {
		if c[0] == 0 {
			ciOk++
		}
		if c[1] == 0 {
			decOk++
		}
		d ^= uint64(c[0])
		d *= 0x100000001b3
		d ^= uint64(c[1])
		d *= 0x100000001b3
	}
	return fmt.Sprintf("n=%d ci_ok=%d dec_ok=%d h=%016x", len(inputs), ciOk, decOk, d)
}

func execFitFormat(args []string) string {
	o, ok := parseIntegArgs(args)
	if !ok {
		return "bad-op"
	}
	var segs []string
	off := 0
	_, err := decoder.NewRaw().Decode(bytes.NewReader(o.b), func(flag decoder.RawFlag, b []byte) error {
		k := "?"
		switch flag {
		case decoder.RawFlagFileHeader:
			k = "H"
		case decoder.RawFlagMesgDef:
			k = "D"
		case decoder.RawFlagMesgData:
			k = "M"
		case decoder.RawFlagCRC:
			k = "C"
		}
		segs = append(segs, fmt.Sprintf("%s%d+%d", k, off, len(b)))
		off += len(b)
		return nil
	})
	if err != nil {
		return "malformed"
	}
	return strings.Join(segs, " ")
}

// ---------------------------------------------------------------- generators

type integWriterAt struct{ buf []byte }

func (w *integWriterAt) Write(p []byte) (int, error) { w.buf = append(w.buf, p...); return len(p), nil }
func (w *integWriterAt) WriteAt(p []byte, off int64) (int, error) {
	copy(w.buf[off:], p)
	return len(p), nil
}

// integGenMessages builds a valid message list with the repository's own factory.
func integGenMessages(rng *Rng) []proto.Message {
	var ms []proto.Message
	ts := uint32(1000000000 + rng.Intn(1000000))
	fileId := proto.Message{Num: mesgnum.FileId, Fields: []proto.Field{
		factory.CreateField(mesgnum.FileId, fieldnum.FileIdType).WithValue(typedef.File(rng.Range(1, 40))),
		factory.CreateField(mesgnum.FileId, fieldnum.FileIdManufacturer).WithValue(typedef.Manufacturer(rng.Intn(300))),
		factory.CreateField(mesgnum.FileId, fieldnum.FileIdTimeCreated).WithValue(ts),
	}}
	if rng.Intn(3) == 0 {
		fileId.Fields = append(fileId.Fields, factory.CreateField(mesgnum.FileId, fieldnum.FileIdProductName).WithValue(integRandString(rng)))
	}
	ms = append(ms, fileId)
	withDev := rng.Intn(3) == 0
	var devTypes []basetype.BaseType
	if withDev {
		ms = append(ms, proto.Message{Num: mesgnum.DeveloperDataId, Fields: []proto.Field{
			factory.CreateField(mesgnum.DeveloperDataId, fieldnum.DeveloperDataIdDeveloperDataIndex).WithValue(uint8(0)),
			factory.CreateField(mesgnum.DeveloperDataId, fieldnum.DeveloperDataIdApplicationId).WithValue(rng.Bytes(16)),
		}})
		nd := rng.Range(1, 3)
		for i := 0; i < nd; i++ {
			bt := []basetype.BaseType{basetype.Uint8, basetype.Uint16, basetype.Sint32, basetype.String, basetype.Float32, basetype.Byte}[rng.Intn(6)]
			devTypes = append(devTypes, bt)
			ms = append(ms, proto.Message{Num: mesgnum.FieldDescription, Fields: []proto.Field{
				factory.CreateField(mesgnum.FieldDescription, fieldnum.FieldDescriptionDeveloperDataIndex).WithValue(uint8(0)),
				factory.CreateField(mesgnum.FieldDescription, fieldnum.FieldDescriptionFieldDefinitionNumber).WithValue(uint8(i)),
				factory.CreateField(mesgnum.FieldDescription, fieldnum.FieldDescriptionFitBaseTypeId).WithValue(uint8(bt)),
				factory.CreateField(mesgnum.FieldDescription, fieldnum.FieldDescriptionFieldName).WithValue([]string{integRandString(rng)}),
			}})
		}
	}
	n := 0
	switch rng.Intn(4) {
	case 0:
		n = rng.Intn(3)
	case 1:
		n = rng.Intn(8)
	default:
		n = rng.Intn(24)
	}
	for i := 0; i < n; i++ {
		switch rng.Intn(7) {
		case 0, 1, 2: // record, several shapes (different shapes force redefinitions)
			m := proto.Message{Num: mesgnum.Record}
			if rng.Intn(8) != 0 {
				ts += uint32(rng.Intn(40))
				m.Fields = append(m.Fields, factory.CreateField(mesgnum.Record, fieldnum.RecordTimestamp).WithValue(ts))
			}
			if rng.Bool() {
				m.Fields = append(m.Fields, factory.CreateField(mesgnum.Record, fieldnum.RecordHeartRate).WithValue(uint8(rng.Intn(255))))
			}
			if rng.Bool() {
				m.Fields = append(m.Fields, factory.CreateField(mesgnum.Record, fieldnum.RecordDistance).WithValue(uint32(rng.Intn(1<<30))))
			}
			if rng.Intn(3) == 0 {
				m.Fields = append(m.Fields, factory.CreateField(mesgnum.Record, fieldnum.RecordPositionLat).WithValue(int32(rng.Intn(1<<30))-1<<29))
			}
			if rng.Intn(4) == 0 {
				m.Fields = append(m.Fields, factory.CreateField(mesgnum.Record, fieldnum.RecordSpeed).WithValue(uint16(rng.Intn(65535))))
			}
			if len(m.Fields) == 0 {
				m.Fields = append(m.Fields, factory.CreateField(mesgnum.Record, fieldnum.RecordCadence).WithValue(uint8(rng.Intn(255))))
			}
			if withDev && rng.Bool() {
				i := rng.Intn(len(devTypes))
				m.DeveloperFields = append(m.DeveloperFields, proto.DeveloperField{Num: byte(i), DeveloperDataIndex: 0, Value: integDevValue(rng, devTypes[i])})
			}
			ms = append(ms, m)
		case 3: // event
			ts += uint32(rng.Intn(5))
			ms = append(ms, proto.Message{Num: mesgnum.Event, Fields: []proto.Field{
				factory.CreateField(mesgnum.Event, fieldnum.EventTimestamp).WithValue(ts),
				factory.CreateField(mesgnum.Event, fieldnum.EventEvent).WithValue(typedef.Event(rng.Intn(40))),
				factory.CreateField(mesgnum.Event, fieldnum.EventEventType).WithValue(typedef.EventType(rng.Intn(9))),
			}})
		case 4: // a string / array carrying message
			ms = append(ms, proto.Message{Num: mesgnum.Sport, Fields: []proto.Field{
				factory.CreateField(mesgnum.Sport, fieldnum.SportSport).WithValue(typedef.Sport(rng.Intn(60))),
				factory.CreateField(mesgnum.Sport, fieldnum.SportName).WithValue(integRandString(rng)),
			}})
		case 5: // unknown message number, unknown fields of assorted base types
			m := proto.Message{Num: typedef.MesgNum(0xFF00 + rng.Intn(200))}
			nf := rng.Range(1, 4)
			for j := 0; j < nf; j++ {
				bt := []basetype.BaseType{basetype.Uint8, basetype.Uint16, basetype.Uint32, basetype.Byte, basetype.Sint8, basetype.Uint64}[rng.Intn(6)]
				f := proto.Field{FieldBase: &proto.FieldBase{Name: factory.NameUnknown, Num: byte(rng.Intn(250)), BaseType: bt}}
				switch bt {
				case basetype.Uint8:
					f.Value = proto.Uint8(uint8(rng.Intn(255)))
				case basetype.Sint8:
					f.Value = proto.Int8(int8(rng.Intn(100)))
				case basetype.Uint16:
					f.Value = proto.Uint16(uint16(rng.Intn(65535)))
				case basetype.Uint32:
					f.Value = proto.Uint32(uint32(rng.U64()) >> 1)
				case basetype.Uint64:
					f.Value = proto.Uint64(rng.U64() >> 1)
				case basetype.Byte:
					f.FieldBase.Array = true
					f.Value = proto.SliceUint8(rng.Bytes(rng.Range(1, 20)))
				}
				m.Fields = append(m.Fields, f)
			}
			ms = append(ms, m)
		case 6: // hrv: array of uint16
			k := rng.Range(1, 5)
			v := make([]uint16, k)
			for j := range v {
				v[j] = uint16(rng.Intn(65000))
			}
			ms = append(ms, proto.Message{Num: mesgnum.Hrv, Fields: []proto.Field{
				factory.CreateField(mesgnum.Hrv, fieldnum.HrvTime).WithValue(v),
			}})
		}
	}
	return ms
}

func integRandString(rng *Rng) string {
	n := rng.Range(1, 12)
	b := make([]byte, n)
	for i := range b {
		b[i] = byte('a' + rng.Intn(26))
	}
	return string(b)
}

func integDevValue(rng *Rng, bt basetype.BaseType) proto.Value {
	switch bt {
	case basetype.Uint8:
		return proto.Uint8(uint8(rng.Intn(255)))
	case basetype.Uint16:
		return proto.Uint16(uint16(rng.Intn(65535)))
	case basetype.Sint32:
		return proto.Int32(int32(rng.Intn(1 << 30)))
	case basetype.String:
		return proto.String(integRandString(rng))
	case basetype.Float32:
		return proto.Float32(float32(rng.Intn(1000)) / 8)
	case basetype.Byte:
		return proto.SliceUint8(rng.Bytes(rng.Range(1, 9)))
	}
	return proto.Uint8(1)
}

type integEncCfg struct {
	hdr12, bigEndian, compressed, v2, writerAt bool
	lmt                                        byte
	chain                                      int
}

func (c integEncCfg) String() string {
	return fmt.Sprintf("hdr12=%v,be=%v,cts=%v,v2=%v,wa=%v,chain=%d", c.hdr12, c.bigEndian, c.compressed, c.v2, c.writerAt, c.chain)
}

// integEncode produces an encoder output with the real encoder; nil if the encoder refuses the input.
func integEncode(rng *Rng, cfg integEncCfg) []byte {
	var opts []encoder.Option
	if cfg.bigEndian {
		opts = append(opts, encoder.WithBigEndian())
	}
	if cfg.compressed {
		opts = append(opts, encoder.WithHeaderOption(encoder.HeaderOptionCompressedTimestamp, cfg.lmt%4))
	} else {
		opts = append(opts, encoder.WithHeaderOption(encoder.HeaderOptionNormal, cfg.lmt%16))
	}
	if cfg.v2 {
		opts = append(opts, encoder.WithProtocolVersion(proto.V2))
	}
	var plain bytes.Buffer
	wa := &integWriterAt{}
	var w io.Writer = &plain
	if cfg.writerAt {
		w = wa
	}
	enc := encoder.New(w, opts...)
	for i := 0; i < cfg.chain; i++ {
		fit := &proto.FIT{Messages: integGenMessages(rng)}
		if cfg.hdr12 {
			fit.FileHeader.Size = 12
		}
		if !cfg.v2 { // developer data and 64-bit types need protocol 2.0
			for j := range fit.Messages {
				m := &fit.Messages[j]
				m.DeveloperFields = nil
				kept := m.Fields[:0]
				for _, f := range m.Fields {
					if f.BaseType != basetype.Uint64 || len(kept) == 0 && len(m.Fields) == 1 {
						if f.BaseType == basetype.Uint64 {
							f = proto.Field{FieldBase: &proto.FieldBase{Name: factory.NameUnknown, Num: f.Num, BaseType: basetype.Uint8}, Value: proto.Uint8(7)}
						}
						kept = append(kept, f)
					}
				}
				if len(kept) == 0 {
					kept = append(kept, proto.Field{FieldBase: &proto.FieldBase{Name: factory.NameUnknown, Num: 1, BaseType: basetype.Uint8}, Value: proto.Uint8(7)})
				}
				m.Fields = kept
			}
		}
		if err := enc.Encode(fit); err != nil {
			count("encode-refused")
			if os.Getenv("VERIF_DEBUG") != "" {
				fmt.Fprintln(os.Stderr, "encode refused:", cfg, err)
			}
			return nil
		}
	}
	if cfg.writerAt {
		return wa.buf
	}
	return plain.Bytes()
}

func integRandCfg(rng *Rng) integEncCfg {
	return integEncCfg{
		hdr12:      rng.Intn(6) == 0,
		bigEndian:  rng.Intn(4) == 0,
		compressed: rng.Intn(3) == 0,
		v2:         rng.Intn(2) == 0,
		writerAt:   rng.Intn(3) == 0,
		lmt:        byte(rng.Intn(16)),
		chain:      []int{1, 1, 1, 1, 2, 3}[rng.Intn(6)],
	}
}

func integOp(chk bool, rb int, b []byte) string { return integOpX(chk, rb, "", b) }

// integOpX: extra = further k=v tokens (" eo=2", " rd=1", …)
func integOpX(chk bool, rb int, extra string, b []byte) string {
	s := "integ"
	if !chk {
		s += " chk=0"
	}
	if rb > 0 {
		s += fmt.Sprintf(" rb=%d", rb)
	}
	return s + extra + " b:" + hex.EncodeToString(b)
}

// integRd: now and then the bytes reach the decoder through a reader that fragments them / reports io.EOF with its last data
func integRd(rng *Rng, one int) string {
	if rng.Intn(one) != 0 {
		return ""
	}
	rd := 1 + rng.Intn(5)
	count(fmt.Sprintf("reader=%d", rd))
	return fmt.Sprintf(" rd=%d", rd)
}

// integSpans: (start, end) of the sequences of an encoder output (header size + data size + 2 each)
func integSpans(b []byte) (spans [][2]int) {
	off := 0
	for off+12 <= len(b) {
		n := int(b[off]) + int(binary.LittleEndian.Uint32(b[off+4:off+8])) + 2
		if n <= 0 || off+n > len(b) {
			break
		}
		spans = append(spans, [2]int{off, off + n})
		off += n
	}
	return
}

func integFixtures() (paths []string) {
	root := os.Getenv("VERIF_REPO")
	if root == "" {
		root = "/repo"
	}
	filepath.WalkDir(filepath.Join(root, "testdata"), func(p string, d fs.DirEntry, err error) error {
		if err == nil && !d.IsDir() && strings.HasSuffix(p, ".fit") {
			paths = append(paths, p)
		}
		return nil
	})
	sort.Strings(paths)
	return
}

// integCrc is the CRC of the real package (used to build 12-byte-header files whose CRC covers the header too, and
// to re-seal mutated files so that the checks after the header are reached).
func integCrc(b []byte) uint16 {
	h := crc16.New()
	h.Write(b)
	return h.Sum16()
}

// integMutate: structure-aware mutations of a (usually valid) stream for the differential check against the reference.
func integMutate(rng *Rng, f []byte) []byte {
	b := append([]byte(nil), f...)
	if len(b) < 16 {
		return append(b, rng.Bytes(rng.Intn(4))...)
	}
	hs := int(b[0])
	if hs != 12 && hs != 14 || hs+2 > len(b) {
		hs = 14
	}
	reseal := func() { // recompute the trailing CRC over the records only (what the decoder checks)
		if len(b) >= hs+2 {
			binary.LittleEndian.PutUint16(b[len(b)-2:], integCrc(b[hs:len(b)-2]))
		}
	}
	resealWhole := func() { // … over the whole sequence (what the protocol wants)
		if len(b) >= hs+2 {
			binary.LittleEndian.PutUint16(b[len(b)-2:], integCrc(b[:len(b)-2]))
		}
	}
	switch rng.Intn(14) {
	case 0: // header CRC field := 0
		if hs == 14 {
			b[12], b[13] = 0, 0
			count("mut:hdrcrc0")
		}
	case 1: // header CRC field := 0, file CRC over the whole sequence
		if hs == 14 {
			b[12], b[13] = 0, 0
			resealWhole()
			count("mut:hdrcrc0-whole")
		}
	case 2: // 14 → 12 byte header, CRC over records only (what this SDK writes)
		if hs == 14 {
			b = append([]byte{12}, append(append([]byte(nil), b[1:12]...), b[14:]...)...)
			hs = 12
			reseal()
			count("mut:to12-records")
		}
	case 3: // 14 → 12 byte header, CRC over the whole sequence (protocol)
		if hs == 14 {
			b = append([]byte{12}, append(append([]byte(nil), b[1:12]...), b[14:]...)...)
			hs = 12
			resealWhole()
			count("mut:to12-whole")
		}
	case 4: // data size 0
		b[4], b[5], b[6], b[7] = 0, 0, 0, 0
		count("mut:datasize0")
	case 5: // data size off by a little, resealed or not
		ds := binary.LittleEndian.Uint32(b[4:8])
		ds += uint32(rng.Intn(5)) - 2
		binary.LittleEndian.PutUint32(b[4:8], ds)
		if hs == 14 && rng.Bool() {
			binary.LittleEndian.PutUint16(b[12:14], integCrc(b[:12]))
		}
		count("mut:datasize±")
	case 6: // tag
		b[8+rng.Intn(4)] ^= byte(1 << rng.Intn(8))
		count("mut:tag")
	case 7: // size byte
		b[0] = []byte{0, 11, 12, 13, 14, 15, 255}[rng.Intn(7)]
		count("mut:sizebyte")
	case 8: // random byte in the records, resealed (CRC valid, framing possibly broken)
		if len(b) > hs+2 {
			b[hs+rng.Intn(len(b)-hs-2)] ^= byte(1 + rng.Intn(255))
			reseal()
			count("mut:records-resealed")
		}
	case 9: // random byte anywhere
		b[rng.Intn(len(b))] ^= byte(1 + rng.Intn(255))
		count("mut:byte")
	case 10: // truncate
		b = b[:rng.Intn(len(b))]
		count("mut:trunc")
	case 11: // append garbage
		b = append(b, rng.Bytes(rng.Range(1, 40))...)
		count("mut:append-garbage")
	case 12: // append another (mutated or not) stream
		g := f
		if rng.Bool() {
			g = integMutate(rng, f)
		}
		b = append(b, g...)
		count("mut:append-stream")
	case 13: // header CRC wrong
		if hs == 14 {
			b[12+rng.Intn(2)] ^= byte(1 + rng.Intn(255))
			count("mut:hdrcrc-bad")
		}
	}
	return b
}

// integSeal wraps record bytes into a single sequence with a 14-byte header and valid CRCs.
func integSeal(recs []byte) []byte {
	hdr := []byte{14, 0x20, 0x5c, 0x08, 0, 0, 0, 0, '.', 'F', 'I', 'T'}
	binary.LittleEndian.PutUint32(hdr[4:8], uint32(len(recs)))
	hdr = binary.LittleEndian.AppendUint16(hdr, integCrc(hdr))
	f := append(hdr, recs...)
	return binary.LittleEndian.AppendUint16(f, integCrc(f))
}

// integDevCase: hand-made record streams around developer fields: a field_description message (206) of random
// shape (duplicate / missing / oversized / zero-size fields, both architectures, compressed header), then a
// definition with developer fields and its data. Exercises the part of Decode's framing that depends on decoded values.
func integDevCase(rng *Rng) []byte {
	var recs []byte
	pick := func(xs ...byte) byte { return xs[rng.Intn(len(xs))] }
	nDesc := rng.Range(1, 3)
	for d := 0; d < nDesc; d++ {
		arch := pick(0, 0, 0, 1, 2)
		mesg := []byte{206, 0}
		if arch != 0 && rng.Intn(4) != 0 {
			mesg = []byte{0, 206}
		}
		if rng.Intn(10) == 0 {
			mesg = []byte{207, 0}
		}
		nf := rng.Range(0, 5)
		def := []byte{0x40 | byte(d), 0, arch, mesg[0], mesg[1], byte(nf)}
		var data []byte
		for i := 0; i < nf; i++ {
			num := pick(0, 1, 2, 2, 3, 253)
			size := pick(0, 1, 1, 1, 2, 3)
			bt := pick(0x02, 0x02, 0x00, 0x84, 0x07)
			def = append(def, num, size, bt)
			for k := byte(0); k < size; k++ {
				data = append(data, pick(0, 0, 1, 2, 0x02, 0x84, 0x07, 0x99, 0xff, byte(rng.Intn(256))))
			}
		}
		hdr := byte(d)
		if rng.Intn(6) == 0 {
			hdr = 0x80 | byte(d)<<5 | byte(rng.Intn(32))
		}
		recs = append(recs, def...)
		recs = append(recs, hdr)
		recs = append(recs, data...)
	}
	nDev := rng.Range(1, 3)
	def := []byte{0x60 | 5, 0, 0, 20, 0, 1, 3, 1, 2, byte(nDev)}
	data := []byte{5, 70}
	for i := 0; i < nDev; i++ {
		size := pick(0, 1, 1, 2, 4)
		def = append(def, pick(0, 1, 2, 0xff), size, pick(0, 0, 1, 0xff))
		data = append(data, rng.Bytes(int(size))...)
	}
	recs = append(recs, def...)
	recs = append(recs, data...)
	if rng.Bool() {
		recs = append(recs, data...)
	}
	return integSeal(recs)
}

func genIntegrity(emit func(string), tier string, rng *Rng) {
	thorough := tier == "thorough"
	// ---- (a) fixtures
	var small [][]byte
	for _, p := range integFixtures() {
		b, err := os.ReadFile(p)
		if err != nil {
			continue
		}
		count("fixture")
		limit := 100 << 10
		if thorough {
			limit = 4 << 20
		}
		if len(b) <= limit {
			emit(integOp(true, 0, b))
			emit("fitformat b:" + hex.EncodeToString(b))
			if len(b) <= 4096 || thorough {
				emit(integOp(false, 0, b))
			}
			if rd := integRd(rng, 2); rd != "" {
				emit(integOpX(true, 0, rd, b))
			}
		}
		if len(b) <= 4096 {
			small = append(small, b)
		} else { // big ones: truncated variants (a prefix cut at assorted lengths, one of them inside the first read buffer)
			for _, k := range []int{rng.Intn(4096), 4096 + rng.Intn(4096), 4861, 4862, rng.Intn(len(b))} {
				if k > len(b) || (k > 20000 && !thorough) {
					k = rng.Intn(20000)
				}
				emit(integOp(true, 0, b[:k]))
				count("fixture-prefix")
			}
		}
	}
	// ---- (b) encoder outputs under assorted options, with exhaustive corruption sweeps
	nfiles, sweepMax := 150, 200
	if thorough {
		nfiles, sweepMax = 1500, 2048
	}
	var outputs [][]byte
	// tag of an operation whose bytes ARE the output of the real encoder for a chain of n sequences with 14-byte headers:
	// the driver's property predicate must then find them to be "encoder output" (fail:not-encoder-output, never n/a)
	tags := map[string]string{}
	addOutput := func(cfg integEncCfg, b []byte) {
		count("enc:" + fmt.Sprintf("hdr12=%v,chain=%d", cfg.hdr12, cfg.chain))
		outputs = append(outputs, b)
		tag := ""
		if !cfg.hdr12 {
			tag = fmt.Sprintf(" eo=%d el=%d", cfg.chain, len(b))
			tags[string(b)] = tag
			count("tagged-encoder-output")
		}
		emit(integOpX(true, []int{0, 0, 765, 1000, 100000}[rng.Intn(5)], tag, b))
		emit(integOp(false, 0, b))
		if rd := integRd(rng, 2); rd != "" {
			emit(integOpX(true, 0, tag+rd, b))
		}
		emit("fitformat b:" + hex.EncodeToString(b))
	}
	for i := 0; i < nfiles; i++ {
		cfg := integRandCfg(rng)
		b := integEncode(rng, cfg)
		if b == nil {
			continue
		}
		addOutput(cfg, b)
	}
	// small chains (two or three short sequences, 14-byte headers), so that chains are swept in the quick tier too
	nsmallChains := 4
	if thorough {
		nsmallChains = 60
	}
	var smallChains [][]byte
	for tries := 0; len(smallChains) < nsmallChains && tries < 40*nsmallChains; tries++ {
		cfg := integRandCfg(rng)
		cfg.hdr12, cfg.chain = false, 2+rng.Intn(2)
		b := integEncode(rng, cfg)
		if b == nil || len(b) > 330 {
			continue
		}
		addOutput(cfg, b)
		smallChains = append(smallChains, b)
		count("small-chain")
	}
	sweep := func(b []byte) {
		h := hex.EncodeToString(b)
		tag := tags[string(b)]
		hs := 14
		if len(b) > 0 && b[0] == 12 {
			hs = 12
		}
		if hs > len(b) {
			hs = len(b)
		}
		emit(fmt.Sprintf("integcx trunc%s b:%s", tag, h))
		if spans := integSpans(b); tag != "" && len(spans) > 1 {
			// a chain: the records and trailing CRC of each sequence separately (bursts end inside the sequence), its header separately
			for _, sp := range spans {
				emit(fmt.Sprintf("integcx flip lo=%d hi=%d b:%s", sp[0], sp[0]+14, h))
				emit(fmt.Sprintf("integcx flip lo=%d hi=%d%s b:%s", sp[0]+14, sp[1], tag, h))
				for _, k := range []int{2, 9, 16} {
					w := 1<<(k-1) | 1 | (rng.Intn(1<<(k-2)) << 1)
					emit(fmt.Sprintf("integcx burst len=%d pat=%d lo=%d hi=%d end=%d%s b:%s", k, w, sp[0]+14, sp[1], sp[1], tag, h))
				}
				emit(fmt.Sprintf("integcx burst len=16 pat=%d lo=%d hi=%d b:%s", 1<<15|1|(rng.Intn(1<<14)<<1), sp[0], sp[0]+14, h))
			}
			count("sweep-chain")
			return
		}
		emit(fmt.Sprintf("integcx flip lo=0 hi=%d b:%s", hs, h))
		emit(fmt.Sprintf("integcx flip lo=%d%s b:%s", hs, tag, h))
		for k := 2; k <= 16; k++ {
			pats := []int{1<<k - 1, 1<<(k-1) | 1}
			if k > 2 {
				pats = append(pats, 1<<(k-1)|1|(rng.Intn(1<<(k-2))<<1))
			}
			if len(b) > 200 { // long files: every bit position still, but three burst lengths with one random pattern each
				if k != 2 && k != 9 && k != 16 {
					continue
				}
				pats = pats[len(pats)-1:]
			}
			for _, w := range pats {
				emit(fmt.Sprintf("integcx burst len=%d pat=%d lo=%d%s b:%s", k, w, hs, tag, h))
			}
		}
		emit(fmt.Sprintf("integcx burst len=16 pat=%d lo=0 hi=%d b:%s", 1<<15|1|(rng.Intn(1<<14)<<1), hs, h))
		count("sweep-file")
		count(fmt.Sprintf("sweep-len<%d", bucket(len(b))))
	}
	nsweep := 0
	maxSweeps := 50
	if thorough {
		maxSweeps = 700
	}
	nlong := 0
	for _, b := range smallChains {
		sweep(b)
	}
	swept := map[string]bool{}
	for _, b := range smallChains {
		swept[string(b)] = true
	}
	for _, b := range append(append([][]byte(nil), small...), outputs...) {
		if swept[string(b)] {
			continue
		}
		if len(b) <= sweepMax && nsweep < maxSweeps {
			if len(b) > 200 {
				if nlong >= 60 {
					continue
				}
				nlong++
			}
			sweep(b)
			nsweep++
		}
	}
	// ---- (c) individual corruptions (small replays) and appended data
	nind := 12000
	if thorough {
		nind = 150000
	}
	pool := append(append([][]byte(nil), small...), outputs...)
	for i := 0; i < nind && len(pool) > 0; i++ {
		f := pool[rng.Intn(len(pool))]
		if len(f) == 0 {
			continue
		}
		var b []byte
		switch rng.Intn(5) {
		case 0:
			b = integXorAt(f, rng.Intn(8*len(f)), 1)
			count("ind:flip")
		case 1:
			k := rng.Range(2, 16)
			w := uint32(1<<(k-1) | 1 | (rng.Intn(1<<(k-1)) &^ 1))
			p := rng.Intn(8 * len(f))
			b = integXorAt(f, p, w)
			count("ind:burst")
		case 2:
			b = f[:rng.Intn(len(f))]
			count("ind:trunc")
		case 3: // appended: garbage of assorted sizes, or a complete sequence, or a complete sequence then garbage
			switch rng.Intn(4) {
			case 0:
				b = append(append([]byte(nil), f...), rng.Bytes([]int{1, 2, 11, 12, 13, 14, 15, 16, 100, 1000}[rng.Intn(10)])...)
			case 1:
				b = append(append([]byte(nil), f...), pool[rng.Intn(len(pool))]...)
			case 2:
				g := pool[rng.Intn(len(pool))]
				b = append(append([]byte(nil), f...), g[:rng.Intn(len(g)+1)]...)
			default:
				b = append(append(append([]byte(nil), f...), pool[rng.Intn(len(pool))]...), rng.Bytes(rng.Range(1, 20))...)
			}
			count("ind:append")
		case 4:
			b = integMutate(rng, f)
		}
		emit(integOpX(rng.Intn(4) != 0, []int{0, 0, 0, 765, 5000}[rng.Intn(5)], integRd(rng, 4), b))
	}
	// ---- (c'') encoder output followed by bytes that are no sequence, and intact chains, through readers that report
	// io.EOF together with their last data / hand over one sequence per Read ("never silently accepted", whatever the reader)
	nrd := 600
	if thorough {
		nrd = 8000
	}
	for i := 0; i < nrd && len(outputs) > 0; i++ {
		f := outputs[rng.Intn(len(outputs))]
		if len(f) > 6000 {
			continue
		}
		b := append([]byte(nil), f...)
		switch rng.Intn(4) {
		case 0: // garbage of assorted sizes: a lone header-size byte, partial headers, a full bogus header
			g := rng.Bytes([]int{1, 1, 2, 11, 12, 13, 14, 15, 40}[rng.Intn(9)])
			if rng.Intn(2) == 0 {
				g[0] = []byte{12, 14}[rng.Intn(2)]
			}
			b = append(b, g...)
			count("rd:garbage")
		case 1: // a truncated second sequence
			g := outputs[rng.Intn(len(outputs))]
			b = append(b, g[:rng.Intn(len(g))]...)
			count("rd:truncated-next")
		case 2: // a corrupted second sequence
			g := outputs[rng.Intn(len(outputs))]
			b = append(b, integXorAt(g, rng.Intn(8*len(g)), 1)...)
			count("rd:corrupted-next")
		default: // intact
			count("rd:intact")
		}
		emit(integOpX(true, []int{0, 0, len(f), len(f) + 1}[rng.Intn(4)], fmt.Sprintf(" rd=%d", 1+rng.Intn(5)), b))
	}
	// ---- (c') developer-field surgery
	ndev := 3000
	if thorough {
		ndev = 60000
	}
	for i := 0; i < ndev; i++ {
		b := integDevCase(rng)
		if rng.Intn(5) == 0 {
			b = integMutate(rng, b)
		}
		emit(integOp(rng.Intn(5) != 0, 0, b))
		count("devcase")
	}
	// ---- (d) arbitrary byte strings and multi-step mutations: differential against the reference
	narb := 16000
	if thorough {
		narb = 400000
	}
	for i := 0; i < narb; i++ {
		var b []byte
		switch rng.Intn(4) {
		case 0:
			b = rng.Bytes(rng.Intn(40))
			count("arb:random")
		case 1: // a plausible header followed by random bytes
			n := rng.Intn(60)
			hs := []byte{12, 14}[rng.Intn(2)]
			b = append([]byte{hs, 0x20, 0x5c, 0x08, byte(n), 0, 0, 0, '.', 'F', 'I', 'T'}, rng.Bytes(int(hs)-12)...)
			if hs == 14 && rng.Bool() {
				binary.LittleEndian.PutUint16(b[12:14], integCrc(b[:12]))
			}
			body := rng.Bytes(n)
			b = append(b, body...)
			switch rng.Intn(4) {
			case 0:
				b = binary.LittleEndian.AppendUint16(b, integCrc(body))
			case 1:
				b = binary.LittleEndian.AppendUint16(b, integCrc(b))
			default:
				b = append(b, rng.Bytes(rng.Intn(4))...)
			}
			count("arb:header+random")
		default:
			if len(pool) == 0 {
				continue
			}
			b = pool[rng.Intn(len(pool))]
			for k := rng.Range(1, 3); k > 0; k-- {
				b = integMutate(rng, b)
			}
			count("arb:mutated")
		}
		if len(b) > 20000 {
			b = b[:20000]
		}
		if i%2 == 0 {
			emit("integv b:" + hex.EncodeToString(b))
		} else {
			emit(integOp(true, 0, b))
		}
	}
}
