package main

// Families bits and accum (C05): decoder/bits.go through the VerifBits hook, decoder.Accumulator (exported).
//
//	bits mk:<value> <tok>...      makeBits(value), then the tokens   → ok=0 | ok=1 <out>... st=<store>
//	bits st:<words> <tok>...      a store set word by word           → <out>... st=<store>
//	   tok:  p:<n>   Pull(byte n) → v:<8 hex digits>
//	   <words>: up to 32 comma-separated hex words (least significant first; missing words are 0)
//	   <store>: the 32 words, 16 hex digits each, joined by ',' with trailing zero words dropped ("-" if all zero)
//	accum <tok>...                → <out>... tab=<mesg.field.last.value,...>  (table entries in insertion order, hex)
//	   tok:  c:<mesg>.<field>.<val>   Collect            a:<mesg>.<field>.<val>.<bits>  Accumulate → v:<8 hex digits>
//	         r                        Reset
//	   numbers decimal; val is a uint32

import (
	"fmt"
	"strconv"
	"strings"

	"github.com/muktihari/fit/decoder"
	"github.com/muktihari/fit/profile/typedef"
)

func init() {
	families["bits"] = genBits
	families["accum"] = genAccum
	executors["bits"] = execBits
	executors["accum"] = execAccum
}

func bitsStoreString(s [32]uint64) string {
	last := -1
	for i := range s {
		if s[i] != 0 {
			last = i
		}
	}
	if last < 0 {
		return "-"
	}
	parts := make([]string, last+1)
	for i := 0; i <= last; i++ {
		parts[i] = fmt.Sprintf("%016x", s[i])
	}
	return strings.Join(parts, ",")
}

func execBits(args []string) string {
	if len(args) < 1 {
		return "bad-op"
	}
	var vb decoder.VerifBits
	var out []string
	switch {
	case strings.HasPrefix(args[0], "mk:"):
		v, ok := parseValue(args[0][3:])
		if !ok {
			return "bad-op"
		}
		b, ok := decoder.VerifMakeBits(v)
		if !ok {
			return "ok=0"
		}
		vb = b
		out = append(out, "ok=1")
	case strings.HasPrefix(args[0], "st:"):
		var s [32]uint64
		if args[0] != "st:" {
			ws := strings.Split(args[0][3:], ",")
			if len(ws) > 32 {
				return "bad-op"
			}
			for i, w := range ws {
				u, err := strconv.ParseUint(w, 16, 64)
				if err != nil {
					return "bad-op"
				}
				s[i] = u
			}
		}
		vb.SetStore(s)
	default:
		return "bad-op"
	}
	for _, a := range args[1:] {
		if !strings.HasPrefix(a, "p:") {
			return "bad-op"
		}
		n, err := strconv.ParseUint(a[2:], 10, 8)
		if err != nil {
			return "bad-op"
		}
		out = append(out, fmt.Sprintf("v:%08x", vb.Pull(byte(n))))
	}
	out = append(out, "st="+bitsStoreString(vb.Store()))
	return strings.Join(out, " ")
}

func execAccum(args []string) string {
	type ent struct {
		m, f int
	}
	nums := func(s string, k int) ([]uint64, bool) {
		ps := strings.Split(s, ".")
		if len(ps) != k {
			return nil, false
		}
		r := make([]uint64, k)
		for i, p := range ps {
			u, err := strconv.ParseUint(p, 10, 32)
			if err != nil {
				return nil, false
			}
			r[i] = u
		}
		return r, true
	}
	// the table is unexported; it is observed at the end by probing every key in insertion order on two
	// replays of the same history: Accumulate(key, 0, 0) returns `value`, Accumulate(key, 0, 32) returns
	// `value - last` (uint32).
	run := func() (acc *decoder.Accumulator, out []string, order []ent, ok bool) {
		acc = decoder.NewAccumulator()
		seen := map[ent]bool{}
		for _, a := range args {
			switch {
			case strings.HasPrefix(a, "c:"):
				x, ok := nums(a[2:], 3)
				if !ok || x[0] > 65535 || x[1] > 255 {
					return nil, nil, nil, false
				}
				acc.Collect(typedef.MesgNum(x[0]), byte(x[1]), uint32(x[2]))
				if e := (ent{int(x[0]), int(x[1])}); !seen[e] {
					seen[e] = true
					order = append(order, e)
				}
			case strings.HasPrefix(a, "a:"):
				x, ok := nums(a[2:], 4)
				if !ok || x[0] > 65535 || x[1] > 255 || x[3] > 255 {
					return nil, nil, nil, false
				}
				out = append(out, fmt.Sprintf("v:%08x", acc.Accumulate(typedef.MesgNum(x[0]), byte(x[1]), uint32(x[2]), byte(x[3]))))
				if e := (ent{int(x[0]), int(x[1])}); !seen[e] {
					seen[e] = true
					order = append(order, e)
				}
			case a == "r":
				acc.Reset()
				seen = map[ent]bool{}
				order = nil
			default:
				return nil, nil, nil, false
			}
		}
		return acc, out, order, true
	}
	acc1, out, order, ok := run()
	if !ok {
		return "bad-op"
	}
	acc2, _, _, _ := run()
	var tab []string
	for _, e := range order {
		v := acc1.Accumulate(typedef.MesgNum(e.m), byte(e.f), 0, 0)
		d := acc2.Accumulate(typedef.MesgNum(e.m), byte(e.f), 0, 32)
		tab = append(tab, fmt.Sprintf("%d.%d.%08x.%08x", e.m, e.f, v-d, v))
	}
	out = append(out, "tab="+strings.Join(tab, ","))
	return strings.Join(out, " ")
}

func genBits(emit func(string), tier string, rng *Rng) {
	// every bit size 0..255 on a few fixed stores (mask, byte-wide 64-bitsize, shifts ≥ 64)
	for n := 0; n < 256; n++ {
		emit(fmt.Sprintf("bits st:ffffffffffffffff,0123456789abcdef,0,8000000000000001 p:%d p:%d", n, n))
		emit(fmt.Sprintf("bits mk:u8s:0102030405060708090a0b0c0d0e0f1011 p:%d p:3 p:%d", n, n))
		count("every-bitsize")
	}
	n := 6000
	if tier == "thorough" {
		n = 150000
	}
	tags := []string{"i8", "u8", "i16", "u16", "i32", "u32", "i64", "u64", "f32", "f64"}
	width := map[string]int{"i8": 1, "u8": 1, "i16": 2, "u16": 2, "i32": 4, "u32": 4, "i64": 8, "u64": 8, "f32": 4, "f64": 8}
	for i := 0; i < n; i++ {
		var head string
		switch rng.Intn(8) {
		case 0: // scalar of any type
			t := tags[rng.Intn(len(tags))]
			b := rng.Bytes(width[t])
			if (t == "f32" || t == "f64") && rng.Intn(2) == 0 { // plausible float
				b = rng.Bytes(width[t])
				b[width[t]-1] = []byte{0x40, 0x41, 0x42, 0xc0, 0x3f, 0x43}[rng.Intn(6)]
			}
			head = fmt.Sprintf("mk:%s:%x", t, b)
			count("scalar")
		case 1, 2, 3: // arrays of any element type and any length up to beyond the capacity
			t := tags[rng.Intn(len(tags))]
			ln := rng.Intn(40)
			if rng.Intn(6) == 0 {
				ln = 250/width[t] + rng.Intn(12) // around 256 bytes
			}
			b := rng.Bytes(ln * width[t])
			if rng.Intn(4) == 0 {
				for j := range b {
					b[j] = []byte{0, 0xff, 0x80, 0x7f}[rng.Intn(4)]
				}
			}
			if len(b) == 0 {
				head = "mk:" + t + "s:"
			} else {
				head = fmt.Sprintf("mk:%ss:%x", t, b)
			}
			count("array")
		case 4: // not supported types
			head = []string{"mk:str:6162", "mk:bool:01", "mk:inv:", "mk:bools:0100", "mk:strs:61,"}[rng.Intn(5)]
		default: // raw store incl. zero words in the middle (the `continue`)
			k := 1 + rng.Intn(32)
			ws := make([]string, k)
			for j := range ws {
				w := rng.U64()
				switch rng.Intn(5) {
				case 0:
					w = 0
				case 1:
					w >>= uint(rng.Intn(64))
				case 2:
					w <<= uint(rng.Intn(64))
				}
				ws[j] = fmt.Sprintf("%x", w)
			}
			head = "st:" + strings.Join(ws, ",")
			count("store")
		}
		toks := []string{"bits", head}
		for j := rng.Intn(20); j >= 0; j-- {
			var b int
			switch rng.Intn(8) {
			case 0:
				b = rng.Intn(256)
			case 1:
				b = []int{0, 31, 32, 33, 63, 64, 65}[rng.Intn(7)]
			default:
				b = 1 + rng.Intn(32) // what the profile uses
			}
			toks = append(toks, fmt.Sprintf("p:%d", b))
		}
		emit(strings.Join(toks, " "))
	}
}

func genAccum(emit func(string), tier string, rng *Rng) {
	n := 4000
	if tier == "thorough" {
		n = 100000
	}
	emit("accum a:20.5.10.8 a:20.5.250.8 a:20.5.4.8 a:20.5.4.8 c:20.5.1000 a:20.5.7.8 r a:20.5.7.8")
	for bits := 0; bits < 256; bits++ {
		emit(fmt.Sprintf("accum a:1.1.5.%d a:1.1.3.%d a:1.1.4294967295.%d a:1.1.0.%d", bits, bits, bits, bits))
		count("every-bits")
	}
	for i := 0; i < n; i++ {
		toks := []string{"accum"}
		keys := 1 + rng.Intn(4)
		type key struct{ m, f, bits int }
		ks := make([]key, keys)
		for j := range ks {
			ks[j] = key{[]int{20, 18, 19, 65280}[rng.Intn(4)], rng.Intn(4), []int{8, 12, 16, 32, 1, 24, 5}[rng.Intn(7)]}
		}
		// true counters advancing by less than 2^bits, observed modulo 2^bits (wrapping histories)
		truth := make([]uint64, keys)
		for j := range truth {
			truth[j] = rng.U64() >> uint(32+rng.Intn(32))
		}
		for j := rng.Intn(50); j >= 0; j-- {
			k := rng.Intn(keys)
			switch r := rng.Intn(20); {
			case r == 0:
				toks = append(toks, "r")
			case r < 3:
				v := uint32(rng.U64())
				toks = append(toks, fmt.Sprintf("c:%d.%d.%d", ks[k].m, ks[k].f, v))
				truth[k] = uint64(v)
			case r < 5: // arbitrary value and width
				toks = append(toks, fmt.Sprintf("a:%d.%d.%d.%d", ks[k].m, ks[k].f, uint32(rng.U64()), rng.Intn(256)))
			default:
				step := rng.U64() & (1<<uint(ks[k].bits) - 1)
				if rng.Intn(4) == 0 {
					step = 0
				}
				truth[k] += step
				toks = append(toks, fmt.Sprintf("a:%d.%d.%d.%d", ks[k].m, ks[k].f, truth[k]&(1<<uint(ks[k].bits)-1), ks[k].bits))
				count("wrapping-step")
			}
		}
		emit(strings.Join(toks, " "))
	}
}
