package main

// Text syntax of a protocol message (shared by every family that carries messages; the Lean side is
// lean/Driver/MsgCodec.lean — keep the two in step). Values use the syntax of valcodec.go.
//
//	<message>   ::= "M" <mesgnum> "{" <fieldlist> "|" <devlist> "}"
//	<fieldlist> ::= ε | <field> { ";" <field> }
//	<field>     ::= "F" <num> ":" <bt> ":" <flags> ":" <scale> ":" <offset> ":" <value>    a field with a FieldBase
//	              | "N" ":" <flags> ":" <value>                                            a field whose FieldBase is nil (only flag x)
//	<devlist>   ::= ε | <dev> { ";" <dev> }
//	<dev>       ::= "D" <devidx> "." <num> ":" <value>                                     a developer field
//	<mesgnum>   decimal 0..65535; <num>, <devidx> decimal 0..255; <bt> two lower-case hex digits (any byte)
//	<flags>     ::= "-" | a non-empty subsequence of "acxnb":
//	                a FieldBase.Array, c FieldBase.Accumulate, x Field.IsExpandedField,
//	                n the field's name is known (FieldBase.Name != "unknown"), b FieldBase.Type == profile.Bool
//	<scale>     ::= "1" (the float64 1.0) | 16 hex digits (float64 bit pattern, big-endian digits)
//	<offset>    ::= "0" (the float64 +0.0) | 16 hex digits
//	<value>     ::= <tag> ":" <payload>      (valcodec.go; contains exactly one ':' and none of ; | { } blank)
//
// The per-field attributes are exactly what the encoder-side code reads from *proto.FieldBase, so that the
// Lean model does not depend on the profile. The syntax is total (every proto.Message prints) and
// unambiguous (a field is split at ':' into 7 or 4 parts; lists at ';'; the two lists at the only '|').
// The message header byte is not carried (the encoder sets it); unknown letters are rejected.

import (
	"fmt"
	"math"
	"strconv"
	"strings"

	"github.com/muktihari/fit/profile"
	"github.com/muktihari/fit/profile/basetype"
	"github.com/muktihari/fit/profile/factory"
	"github.com/muktihari/fit/profile/typedef"
	"github.com/muktihari/fit/proto"
)

const flagLetters = "acxnb"

func parseFlags(s string) (map[byte]bool, bool) {
	fl := map[byte]bool{}
	if s == "-" {
		return fl, true
	}
	if s == "" {
		return nil, false
	}
	last := -1
	for i := 0; i < len(s); i++ {
		k := strings.IndexByte(flagLetters, s[i])
		if k <= last {
			return nil, false
		}
		last = k
		fl[s[i]] = true
	}
	return fl, true
}

func parseF64(s, short string, shortBits uint64) (float64, bool) {
	if s == short {
		return math.Float64frombits(shortBits), true
	}
	if len(s) != 16 || strings.ToLower(s) != s {
		return 0, false
	}
	x, err := strconv.ParseUint(s, 16, 64)
	return math.Float64frombits(x), err == nil
}

func parseField(s string) (proto.Field, bool) {
	parts := strings.Split(s, ":")
	switch {
	case len(parts) == 7 && strings.HasPrefix(parts[0], "F"):
		num, err := strconv.ParseUint(parts[0][1:], 10, 8)
		bt, err2 := strconv.ParseUint(parts[1], 16, 8)
		fl, ok := parseFlags(parts[2])
		scale, ok2 := parseF64(parts[3], "1", math.Float64bits(1))
		offset, ok3 := parseF64(parts[4], "0", 0)
		v, ok4 := parseValue(parts[5] + ":" + parts[6])
		if err != nil || err2 != nil || len(parts[1]) != 2 || !ok || !ok2 || !ok3 || !ok4 {
			return proto.Field{}, false
		}
		fb := &proto.FieldBase{Name: factory.NameUnknown, Num: byte(num), BaseType: basetype.BaseType(bt), Array: fl['a'],
			Accumulate: fl['c'], Scale: scale, Offset: offset, Type: profile.ProfileTypeFromString(basetype.BaseType(bt).String())}
		if fl['n'] {
			fb.Name = "known"
		}
		if fl['b'] {
			fb.Type = profile.Bool
		}
		return proto.Field{FieldBase: fb, Value: v, IsExpandedField: fl['x']}, true
	case len(parts) == 4 && parts[0] == "N":
		fl, ok := parseFlags(parts[1])
		v, ok2 := parseValue(parts[2] + ":" + parts[3])
		if !ok || !ok2 || len(fl) > 1 || (len(fl) == 1 && !fl['x']) {
			return proto.Field{}, false
		}
		return proto.Field{Value: v, IsExpandedField: fl['x']}, true
	}
	return proto.Field{}, false
}

func parseDevField(s string) (proto.DeveloperField, bool) {
	parts := strings.Split(s, ":")
	if len(parts) != 3 || !strings.HasPrefix(parts[0], "D") {
		return proto.DeveloperField{}, false
	}
	ids := strings.Split(parts[0][1:], ".")
	if len(ids) != 2 {
		return proto.DeveloperField{}, false
	}
	idx, err := strconv.ParseUint(ids[0], 10, 8)
	num, err2 := strconv.ParseUint(ids[1], 10, 8)
	v, ok := parseValue(parts[1] + ":" + parts[2])
	if err != nil || err2 != nil || !ok {
		return proto.DeveloperField{}, false
	}
	return proto.DeveloperField{Num: byte(num), DeveloperDataIndex: byte(idx), Value: v}, true
}

func parseMessage(s string) (proto.Message, bool) {
	var m proto.Message
	if !strings.HasPrefix(s, "M") || !strings.HasSuffix(s, "}") {
		return m, false
	}
	i := strings.IndexByte(s, '{')
	if i < 0 {
		return m, false
	}
	num, err := strconv.ParseUint(s[1:i], 10, 16)
	body := s[i+1 : len(s)-1]
	lists := strings.Split(body, "|")
	if err != nil || len(lists) != 2 {
		return m, false
	}
	m.Num = typedef.MesgNum(num)
	if lists[0] != "" {
		for _, fs := range strings.Split(lists[0], ";") {
			f, ok := parseField(fs)
			if !ok {
				return m, false
			}
			m.Fields = append(m.Fields, f)
		}
	}
	if lists[1] != "" {
		for _, ds := range strings.Split(lists[1], ";") {
			d, ok := parseDevField(ds)
			if !ok {
				return m, false
			}
			m.DeveloperFields = append(m.DeveloperFields, d)
		}
	}
	return m, true
}

func printF64(x float64, short string, shortBits uint64) string {
	if b := math.Float64bits(x); b != shortBits {
		return fmt.Sprintf("%016x", b)
	}
	return short
}

func printField(f *proto.Field) string {
	fl := ""
	if f.FieldBase == nil {
		if f.IsExpandedField {
			fl = "x"
		} else {
			fl = "-"
		}
		return "N:" + fl + ":" + printValue(f.Value)
	}
	if f.Array {
		fl += "a"
	}
	if f.Accumulate {
		fl += "c"
	}
	if f.IsExpandedField {
		fl += "x"
	}
	if f.Name != factory.NameUnknown {
		fl += "n"
	}
	if f.Type == profile.Bool {
		fl += "b"
	}
	if fl == "" {
		fl = "-"
	}
	return fmt.Sprintf("F%d:%02x:%s:%s:%s:%s", f.Num, byte(f.BaseType), fl, printF64(f.Scale, "1", math.Float64bits(1)),
		printF64(f.Offset, "0", 0), printValue(f.Value))
}

func printMessage(m *proto.Message) string {
	var sb strings.Builder
	fmt.Fprintf(&sb, "M%d{", m.Num)
	for i := range m.Fields {
		if i > 0 {
			sb.WriteByte(';')
		}
		sb.WriteString(printField(&m.Fields[i]))
	}
	sb.WriteByte('|')
	for i := range m.DeveloperFields {
		if i > 0 {
			sb.WriteByte(';')
		}
		d := &m.DeveloperFields[i]
		fmt.Fprintf(&sb, "D%d.%d:%s", d.DeveloperDataIndex, d.Num, printValue(d.Value))
	}
	sb.WriteByte('}')
	return sb.String()
}
