package main

// Family scaleoffset (C12): raw integer → scaled float64 → raw through every conversion route of the SDK.
//
//	so apply <ty> <raw> <scale> <offset>            Apply[T](raw, scale, offset)                      → float64 bits
//	so discard <x> <scale> <offset>                 Discard(x, scale, offset)                         → float64 bits
//	so rt <route> <bt> <raws> <scale> <offset>      round trip of the raw value(s) through <route>    → printed value | err:<kind>
//	so dv <bt> <value> <scale> <offset>             DiscardValue(value, bt, scale, offset)            → printed value
//	so typed <Mesg> <Field> <raw>                   mesgdef getter then setter                        → g=<float64 bits> s=<raw>
//	so tset <Mesg> <Field> <x>                      mesgdef SetXxxScaled(x)                           → <raw>
//	sox <route> <bt> <scale> <offset> <lo> <n>      the round trip for every raw pattern in [lo, lo+n) → n= fails= first= digest=
//	sotx <Mesg> <Field> <lo> <n> <stride>           typed getter/setter round trip for lo, lo+stride, … (n values)
//	sots / sov / socd                               see fam_scaleoffset_more.go
//
// <ty> ∈ i8 u8 i16 u16 i32 u32 i64 u64 f32 f64; <bt> base type byte, 2 hex digits; <raw>: the value's bit
// pattern in hex, exactly the type's width; <raws>: comma-separated list (routes vals, gens, anys) or one value;
// <scale>, <offset>, <x>: float64 bit patterns, 16 hex digits.
// routes: val  = ApplyValue → DiscardValue            vals = the same on a slice value
//         any  = ApplyAny(T) → DiscardAny(float64)     anys = ApplyAny([]T) → DiscardAny([]float64)
//         anyv = ApplyAny(proto.Value) → DiscardAny(proto.Value)
//         gens = ApplySlice → DiscardSlice[T]
//         validator = ApplyValue → encoder message validator (preserving invalid values) on a one-field message
//         csv  = ApplyValue → fitcsv format → fitcsv parseValue
//
// sox digest: FNV-1a-64 over the little-endian bytes of the results; `fails` counts results that differ from
// the raw value (or have an unexpected type), `first` is the first such raw value.

import (
	"fmt"
	"math"
	"reflect"
	"sort"
	"strconv"
	"strings"

	"github.com/muktihari/fit/cmd/fitconv/fitcsv"
	"github.com/muktihari/fit/encoder"
	"github.com/muktihari/fit/kit/scaleoffset"
	"github.com/muktihari/fit/profile"
	"github.com/muktihari/fit/profile/basetype"
	"github.com/muktihari/fit/profile/factory"
	"github.com/muktihari/fit/profile/typedef"
	"github.com/muktihari/fit/proto"
)

func init() {
	families["scaleoffset"] = genScaleOffset
	executors["so"] = execSo
	executors["sox"] = execSox
	executors["sotx"] = execSotx
	executors["sodev"] = execSoDev
}

var soTyBits = map[string]int{"i8": 8, "u8": 8, "i16": 16, "u16": 16, "i32": 32, "u32": 32, "i64": 64, "u64": 64, "f32": 32, "f64": 64}

// soTyOfBT: the Go type DiscardValue produces for a base type (its `switch baseType`); enum reads as u8 on the
// way in (proto.Uint8) but is not restored by DiscardValue.
func soTyOfBT(bt basetype.BaseType) (string, bool) {
	switch bt {
	case basetype.Sint8:
		return "i8", true
	case basetype.Enum, basetype.Byte, basetype.Uint8, basetype.Uint8z:
		return "u8", true
	case basetype.Sint16:
		return "i16", true
	case basetype.Uint16, basetype.Uint16z:
		return "u16", true
	case basetype.Sint32:
		return "i32", true
	case basetype.Uint32, basetype.Uint32z:
		return "u32", true
	case basetype.Sint64:
		return "i64", true
	case basetype.Uint64, basetype.Uint64z:
		return "u64", true
	case basetype.Float32:
		return "f32", true
	case basetype.Float64:
		return "f64", true
	}
	return "", false
}

func soHexW(s string, bits int) (uint64, bool) {
	if len(s) != bits/4 {
		return 0, false
	}
	u, err := strconv.ParseUint(s, 16, 64)
	return u, err == nil
}

func soParseRaws(s string, bits int) ([]uint64, bool) {
	if s == "-" {
		return []uint64{}, true
	}
	var res []uint64
	for _, p := range strings.Split(s, ",") {
		u, ok := soHexW(p, bits)
		if !ok {
			return nil, false
		}
		res = append(res, u)
	}
	return res, true
}

func soMkValue(ty string, p uint64) proto.Value {
	switch ty {
	case "i8":
		return proto.Int8(int8(p))
	case "u8":
		return proto.Uint8(uint8(p))
	case "i16":
		return proto.Int16(int16(p))
	case "u16":
		return proto.Uint16(uint16(p))
	case "i32":
		return proto.Int32(int32(p))
	case "u32":
		return proto.Uint32(uint32(p))
	case "i64":
		return proto.Int64(int64(p))
	case "u64":
		return proto.Uint64(p)
	case "f32":
		return proto.Float32(math.Float32frombits(uint32(p)))
	default:
		return proto.Float64(math.Float64frombits(p))
	}
}

func soSlice[T any](ps []uint64, f func(uint64) T) []T {
	out := make([]T, len(ps))
	for i := range ps {
		out[i] = f(ps[i])
	}
	return out
}

func soBack[T any](xs []T, f func(T) uint64) []uint64 {
	out := make([]uint64, len(xs))
	for i := range xs {
		out[i] = f(xs[i])
	}
	return out
}

func soMkAnySlice(ty string, ps []uint64) any {
	switch ty {
	case "i8":
		return soSlice(ps, func(p uint64) int8 { return int8(p) })
	case "u8":
		return soSlice(ps, func(p uint64) uint8 { return uint8(p) })
	case "i16":
		return soSlice(ps, func(p uint64) int16 { return int16(p) })
	case "u16":
		return soSlice(ps, func(p uint64) uint16 { return uint16(p) })
	case "i32":
		return soSlice(ps, func(p uint64) int32 { return int32(p) })
	case "u32":
		return soSlice(ps, func(p uint64) uint32 { return uint32(p) })
	case "i64":
		return soSlice(ps, func(p uint64) int64 { return int64(p) })
	case "u64":
		return soSlice(ps, func(p uint64) uint64 { return p })
	case "f32":
		return soSlice(ps, func(p uint64) float32 { return math.Float32frombits(uint32(p)) })
	default:
		return soSlice(ps, func(p uint64) float64 { return math.Float64frombits(p) })
	}
}

func soMkAny(ty string, p uint64) any {
	return reflect.ValueOf(soMkAnySlice(ty, []uint64{p})).Index(0).Interface()
}

func soMkSliceValue(ty string, ps []uint64) proto.Value { return proto.Any(soMkAnySlice(ty, ps)) }

// soPatterns: the bit patterns held by a Go value (scalar or slice of a numeric type) and its type name.
func soPatterns(a any) (ty string, ps []uint64, scalar bool) {
	switch x := a.(type) {
	case int8:
		return "i8", []uint64{uint64(uint8(x))}, true
	case uint8:
		return "u8", []uint64{uint64(x)}, true
	case int16:
		return "i16", []uint64{uint64(uint16(x))}, true
	case uint16:
		return "u16", []uint64{uint64(x)}, true
	case int32:
		return "i32", []uint64{uint64(uint32(x))}, true
	case uint32:
		return "u32", []uint64{uint64(x)}, true
	case int64:
		return "i64", []uint64{uint64(x)}, true
	case uint64:
		return "u64", []uint64{x}, true
	case float32:
		return "f32", []uint64{uint64(soF32bits(x))}, true
	case float64:
		return "f64", []uint64{soF64bits(x)}, true
	case []int8:
		return "i8", soBack(x, func(v int8) uint64 { return uint64(uint8(v)) }), false
	case []uint8:
		return "u8", soBack(x, func(v uint8) uint64 { return uint64(v) }), false
	case []int16:
		return "i16", soBack(x, func(v int16) uint64 { return uint64(uint16(v)) }), false
	case []uint16:
		return "u16", soBack(x, func(v uint16) uint64 { return uint64(v) }), false
	case []int32:
		return "i32", soBack(x, func(v int32) uint64 { return uint64(uint32(v)) }), false
	case []uint32:
		return "u32", soBack(x, func(v uint32) uint64 { return uint64(v) }), false
	case []int64:
		return "i64", soBack(x, func(v int64) uint64 { return uint64(v) }), false
	case []uint64:
		return "u64", x, false
	case []float32:
		return "f32", soBack(x, func(v float32) uint64 { return uint64(soF32bits(v)) }), false
	case []float64:
		return "f64", soBack(x, soF64bits), false
	}
	return "", nil, false
}

func soF64bits(x float64) uint64 {
	if x != x {
		return 0x7ff8000000000000
	}
	return math.Float64bits(x)
}

func soF32bits(x float32) uint32 {
	if x != x {
		return 0x7fc00000
	}
	return math.Float32bits(x)
}

// soPrint prints a Go value in the syntax of printGo with every NaN canonical.
func soPrint(a any) string {
	if v, ok := a.(proto.Value); ok {
		a = v.Any()
	}
	ty, ps, scalar := soPatterns(a)
	if ty == "" {
		return printGo(a)
	}
	var sb strings.Builder
	sb.WriteString(ty)
	if !scalar {
		sb.WriteString("s")
	}
	sb.WriteString(":")
	for _, p := range ps {
		sb.WriteString(leHex(p, soTyBits[ty]/8))
	}
	return sb.String()
}

var soValidator = encoder.NewMessageValidator(encoder.ValidatorWithPreserveInvalidValues())

// soRoundTrip runs the raw values through a route; the result is the Go value that came back.
func soRoundTrip(route string, bt basetype.BaseType, ty string, raws []uint64, scale, offset float64) (any, string) {
	switch route {
	case "val":
		if len(raws) != 1 {
			return nil, "bad-op"
		}
		a := scaleoffset.ApplyValue(soMkValue(ty, raws[0]), scale, offset)
		return scaleoffset.DiscardValue(a, bt, scale, offset).Any(), ""
	case "vals":
		a := scaleoffset.ApplyValue(soMkSliceValue(ty, raws), scale, offset)
		return scaleoffset.DiscardValue(a, bt, scale, offset).Any(), ""
	case "any":
		if len(raws) != 1 {
			return nil, "bad-op"
		}
		a := scaleoffset.ApplyAny(soMkAny(ty, raws[0]), scale, offset)
		return scaleoffset.DiscardAny(a, bt, scale, offset), ""
	case "anys":
		a := scaleoffset.ApplyAny(soMkAnySlice(ty, raws), scale, offset)
		return scaleoffset.DiscardAny(a, bt, scale, offset), ""
	case "anyv":
		if len(raws) != 1 {
			return nil, "bad-op"
		}
		a := scaleoffset.ApplyAny(soMkValue(ty, raws[0]), scale, offset)
		return scaleoffset.DiscardAny(proto.Any(a), bt, scale, offset), ""
	case "gens":
		switch ty {
		case "i8":
			return scaleoffset.DiscardSlice[int8](scaleoffset.ApplySlice(soMkAnySlice(ty, raws).([]int8), scale, offset), scale, offset), ""
		case "u8":
			return scaleoffset.DiscardSlice[uint8](scaleoffset.ApplySlice(soMkAnySlice(ty, raws).([]uint8), scale, offset), scale, offset), ""
		case "i16":
			return scaleoffset.DiscardSlice[int16](scaleoffset.ApplySlice(soMkAnySlice(ty, raws).([]int16), scale, offset), scale, offset), ""
		case "u16":
			return scaleoffset.DiscardSlice[uint16](scaleoffset.ApplySlice(soMkAnySlice(ty, raws).([]uint16), scale, offset), scale, offset), ""
		case "i32":
			return scaleoffset.DiscardSlice[int32](scaleoffset.ApplySlice(soMkAnySlice(ty, raws).([]int32), scale, offset), scale, offset), ""
		case "u32":
			return scaleoffset.DiscardSlice[uint32](scaleoffset.ApplySlice(soMkAnySlice(ty, raws).([]uint32), scale, offset), scale, offset), ""
		case "i64":
			return scaleoffset.DiscardSlice[int64](scaleoffset.ApplySlice(soMkAnySlice(ty, raws).([]int64), scale, offset), scale, offset), ""
		case "u64":
			return scaleoffset.DiscardSlice[uint64](scaleoffset.ApplySlice(soMkAnySlice(ty, raws).([]uint64), scale, offset), scale, offset), ""
		case "f32":
			return scaleoffset.DiscardSlice[float32](scaleoffset.ApplySlice(soMkAnySlice(ty, raws).([]float32), scale, offset), scale, offset), ""
		default:
			return scaleoffset.DiscardSlice[float64](scaleoffset.ApplySlice(soMkAnySlice(ty, raws).([]float64), scale, offset), scale, offset), ""
		}
	case "validator":
		if len(raws) != 1 {
			return nil, "bad-op"
		}
		a := scaleoffset.ApplyValue(soMkValue(ty, raws[0]), scale, offset)
		fb := &proto.FieldBase{Name: "f", Num: 1, BaseType: bt, Type: profile.ProfileTypeFromString(bt.String()), Scale: scale, Offset: offset}
		mesg := proto.Message{Num: 65280, Fields: []proto.Field{{FieldBase: fb, Value: a}}}
		if err := soValidator.Validate(&mesg); err != nil {
			return nil, errKind(err)
		}
		if len(mesg.Fields) != 1 {
			return nil, "err:dropped"
		}
		return mesg.Fields[0].Value.Any(), ""
	case "csv":
		if len(raws) != 1 {
			return nil, "bad-op"
		}
		a := scaleoffset.ApplyValue(soMkValue(ty, raws[0]), scale, offset)
		text := fitcsv.VerifFormat(a)
		v, err := fitcsv.VerifParseValue(text, bt, profile.ProfileTypeFromString(bt.String()), scale, offset, "")
		if err != nil {
			return nil, "err:parse"
		}
		return v.Any(), ""
	}
	return nil, "bad-op"
}

func soArgs(args []string) (bt basetype.BaseType, ty string, scale, offset float64, ok bool) {
	b, ok1 := soHexW(args[0], 8)
	scale, ok2 := f64parse(args[1])
	offset, ok3 := f64parse(args[2])
	ty, ok4 := soTyOfBT(basetype.BaseType(b))
	return basetype.BaseType(b), ty, scale, offset, ok1 && ok2 && ok3 && ok4
}

func execSo(args []string) string {
	if len(args) < 1 {
		return "bad-op"
	}
	switch args[0] {
	case "apply":
		if len(args) != 5 {
			return "bad-op"
		}
		ty := args[1]
		bits, ok := soTyBits[ty]
		raw, ok2 := soHexW(args[2], bits)
		scale, ok3 := f64parse(args[3])
		offset, ok4 := f64parse(args[4])
		if !ok || !ok2 || !ok3 || !ok4 {
			return "bad-op"
		}
		var x float64
		switch ty {
		case "i8":
			x = scaleoffset.Apply(int8(raw), scale, offset)
		case "u8":
			x = scaleoffset.Apply(uint8(raw), scale, offset)
		case "i16":
			x = scaleoffset.Apply(int16(raw), scale, offset)
		case "u16":
			x = scaleoffset.Apply(uint16(raw), scale, offset)
		case "i32":
			x = scaleoffset.Apply(int32(raw), scale, offset)
		case "u32":
			x = scaleoffset.Apply(uint32(raw), scale, offset)
		case "i64":
			x = scaleoffset.Apply(int64(raw), scale, offset)
		case "u64":
			x = scaleoffset.Apply(raw, scale, offset)
		case "f32":
			x = scaleoffset.Apply(math.Float32frombits(uint32(raw)), scale, offset)
		default:
			x = scaleoffset.Apply(math.Float64frombits(raw), scale, offset)
		}
		return f64hex(x)
	case "discard":
		if len(args) != 4 {
			return "bad-op"
		}
		x, ok := f64parse(args[1])
		scale, ok2 := f64parse(args[2])
		offset, ok3 := f64parse(args[3])
		if !ok || !ok2 || !ok3 {
			return "bad-op"
		}
		return f64hex(scaleoffset.Discard(x, scale, offset))
	case "rt":
		if len(args) != 6 {
			return "bad-op"
		}
		bt, ty, scale, offset, ok := soArgs([]string{args[2], args[4], args[5]})
		if !ok {
			return "bad-op"
		}
		raws, ok := soParseRaws(args[3], soTyBits[ty])
		if !ok {
			return "bad-op"
		}
		res, e := soRoundTrip(args[1], bt, ty, raws, scale, offset)
		if e != "" {
			return e
		}
		return soPrint(res)
	case "dv":
		if len(args) != 5 {
			return "bad-op"
		}
		b, ok1 := soHexW(args[1], 8)
		v, ok2 := parseValue(args[2])
		scale, ok3 := f64parse(args[3])
		offset, ok4 := f64parse(args[4])
		if !ok1 || !ok2 || !ok3 || !ok4 {
			return "bad-op"
		}
		return soPrint(scaleoffset.DiscardValue(v, basetype.BaseType(b), scale, offset))
	case "typed":
		if len(args) != 4 {
			return "bad-op"
		}
		acc, ok := soTypedLookup(args[1], args[2])
		if !ok {
			return "bad-op"
		}
		raw, ok := soHexW(args[3], acc.bits)
		if !ok {
			return "bad-op"
		}
		g, s := acc.roundTrip(raw)
		return fmt.Sprintf("g=%016x s=%s", g, fmt.Sprintf("%0*x", acc.bits/4, s))
	case "tset":
		if len(args) != 4 {
			return "bad-op"
		}
		acc, ok := soTypedLookup(args[1], args[2])
		x, ok2 := f64parse(args[3])
		if !ok || !ok2 {
			return "bad-op"
		}
		return fmt.Sprintf("%0*x", acc.bits/4, acc.set(x))
	}
	return "bad-op"
}

// ---- typed accessors by reflection

type soTypedAcc struct {
	info arithTypedInfo
	bits int
	mk   func() any
}

var soTypedIndex map[string]*soTypedAcc

func soTypedAll() []*soTypedAcc {
	if soTypedIndex == nil {
		soTypedIndex = map[string]*soTypedAcc{}
		infos, err := arithTypedList()
		if err != nil {
			panic(err)
		}
		mks := map[string]func() any{}
		for _, r := range arithTypedRegistry {
			mks[r.name] = r.mk
		}
		for _, in := range infos {
			soTypedIndex[in.mesg+"."+in.field] = &soTypedAcc{info: in, bits: []int{8, 8, 16, 16, 32, 32, 64, 64}[in.ty], mk: mks[in.mesg]}
		}
	}
	keys := make([]string, 0, len(soTypedIndex))
	for k := range soTypedIndex {
		keys = append(keys, k)
	}
	sort.Strings(keys)
	res := make([]*soTypedAcc, len(keys))
	for i, k := range keys {
		res[i] = soTypedIndex[k]
	}
	return res
}

func soTypedLookup(mesg, field string) (*soTypedAcc, bool) {
	soTypedAll()
	a, ok := soTypedIndex[mesg+"."+field]
	return a, ok
}

// roundTrip stores raw in the struct field (every element for arrays), calls XxxScaled, feeds the result to
// SetXxxScaled on a fresh struct and reads the field back. Returns the getter's float64 bits (element 0) and
// the raw pattern that came back (element 0; all elements must agree).
func (a *soTypedAcc) roundTrip(raw uint64) (g uint64, s uint64) {
	p := reflect.ValueOf(a.mk())
	fv := p.Elem().FieldByName(a.info.field)
	switch a.info.arr {
	case 0:
		arithSetRaw(fv, raw)
	case 1:
		fv.Set(reflect.MakeSlice(fv.Type(), 2, 2))
		arithSetRaw(fv.Index(0), raw)
		arithSetRaw(fv.Index(1), raw)
	default:
		for i := 0; i < fv.Len(); i++ {
			arithSetRaw(fv.Index(i), raw)
		}
	}
	out := p.MethodByName(a.info.field + "Scaled").Call(nil)[0]
	q := reflect.ValueOf(a.mk())
	q.MethodByName("Set" + a.info.field + "Scaled").Call([]reflect.Value{out})
	back := q.Elem().FieldByName(a.info.field)
	if a.info.arr == 0 {
		return math.Float64bits(out.Float()), arithGetRaw(back)
	}
	if out.Len() == 0 || back.Len() != out.Len() {
		return 0xdead, 0xdead
	}
	g, s = math.Float64bits(out.Index(0).Float()), arithGetRaw(back.Index(0))
	for i := 1; i < out.Len(); i++ {
		if math.Float64bits(out.Index(i).Float()) != g || arithGetRaw(back.Index(i)) != s {
			return 0xdead, 0xdead
		}
	}
	return g, s
}

func (a *soTypedAcc) set(x float64) uint64 {
	q := reflect.ValueOf(a.mk())
	m := q.MethodByName("Set" + a.info.field + "Scaled")
	at := m.Type().In(0)
	var arg reflect.Value
	switch a.info.arr {
	case 0:
		arg = reflect.ValueOf(x)
	case 1:
		arg = reflect.ValueOf([]float64{x})
	default:
		arg = reflect.New(at).Elem()
		for i := 0; i < arg.Len(); i++ {
			arg.Index(i).SetFloat(x)
		}
	}
	m.Call([]reflect.Value{arg})
	back := q.Elem().FieldByName(a.info.field)
	if a.info.arr == 0 {
		return arithGetRaw(back)
	}
	return arithGetRaw(back.Index(0))
}

// ---- sweeps

type soDigest struct {
	d     uint64
	n     int
	fails int
	first string
}

func newSoDigest() *soDigest { return &soDigest{d: 0xcbf29ce484222325, first: "-"} }

func (g *soDigest) add(raw, res uint64, bits int, typeOK bool) {
	for i := 0; i < bits/8; i++ {
		g.d ^= (res >> (8 * uint(i))) & 0xff
		g.d *= 0x100000001b3
	}
	g.n++
	if !typeOK || raw != res {
		if g.fails == 0 {
			g.first = fmt.Sprintf("%0*x", bits/4, raw)
		}
		g.fails++
	}
}

func (g *soDigest) String() string {
	return fmt.Sprintf("n=%d fails=%d first=%s digest=%016x", g.n, g.fails, g.first, g.d)
}

func execSox(args []string) string {
	if len(args) != 6 {
		return "bad-op"
	}
	route := args[0]
	bt, ty, scale, offset, ok := soArgs(args[1:4])
	lo, err := strconv.ParseUint(args[4], 10, 64)
	n, err2 := strconv.ParseUint(args[5], 10, 32)
	if !ok || err != nil || err2 != nil || n > 1<<24 {
		return "bad-op"
	}
	bits := soTyBits[ty]
	mask := ^uint64(0)
	if bits < 64 {
		mask = 1<<uint(bits) - 1
	}
	g := newSoDigest()
	if route == "vals" || route == "gens" || route == "anys" {
		raws := make([]uint64, n)
		for i := range raws {
			raws[i] = (lo + uint64(i)) & mask
		}
		res, e := soRoundTrip(route, bt, ty, raws, scale, offset)
		if e != "" {
			return e
		}
		rty, ps, scalar := soPatterns(res)
		if scalar || len(ps) != len(raws) {
			return "err:shape"
		}
		for i := range raws {
			g.add(raws[i], ps[i], bits, rty == ty)
		}
		return g.String()
	}
	for i := uint64(0); i < n; i++ {
		raw := (lo + i) & mask
		res, e := soRoundTrip(route, bt, ty, []uint64{raw}, scale, offset)
		if e == "bad-op" {
			return e
		}
		if e != "" {
			g.add(raw, 0xeeeeeeeeeeeeeeee&mask, bits, false)
			continue
		}
		rty, ps, scalar := soPatterns(res)
		if !scalar || len(ps) != 1 {
			g.add(raw, 0xeeeeeeeeeeeeeeee&mask, bits, false)
			continue
		}
		g.add(raw, ps[0]&mask, bits, rty == ty)
	}
	return g.String()
}

func execSotx(args []string) string {
	if len(args) != 5 {
		return "bad-op"
	}
	acc, ok := soTypedLookup(args[0], args[1])
	lo, err := strconv.ParseUint(args[2], 10, 64)
	n, err2 := strconv.ParseUint(args[3], 10, 32)
	stride, err3 := strconv.ParseUint(args[4], 10, 64)
	if !ok || err != nil || err2 != nil || err3 != nil || n > 1<<24 {
		return "bad-op"
	}
	mask := ^uint64(0)
	if acc.bits < 64 {
		mask = 1<<uint(acc.bits) - 1
	}
	g := newSoDigest()
	for i := uint64(0); i < n; i++ {
		raw := (lo + i*stride) & mask
		_, s := acc.roundTrip(raw)
		g.add(raw, s&mask, acc.bits, true)
	}
	return g.String()
}

// ---- generator

type soTriple struct {
	bt            basetype.BaseType
	scale, offset float64
}

// soProfileTriples: every (base type, scale, offset) of a profile field or sub-field other than (·,1,0) — the
// same enumeration as the translator (Generated/ProfileArith.lean `triples`).
func soProfileTriples() []soTriple {
	seen := map[soTriple]bool{}
	var res []soTriple
	mesgs := arithProfileMesgs()
	var nums []int
	for n := range mesgs {
		nums = append(nums, int(n))
	}
	sort.Ints(nums)
	for _, n := range nums {
		for _, fl := range mesgs[typedef.MesgNum(n)] {
			add := func(s, o float64) {
				t := soTriple{fl.BaseType, s, o}
				if (s != 1 || o != 0) && !seen[t] {
					seen[t] = true
					res = append(res, t)
				}
			}
			add(fl.Scale, fl.Offset)
			for _, sf := range fl.SubFields {
				add(sf.Scale, sf.Offset)
			}
		}
	}
	sort.Slice(res, func(i, j int) bool {
		a, b := res[i], res[j]
		if a.bt != b.bt {
			return a.bt < b.bt
		}
		if a.scale != b.scale {
			return a.scale < b.scale
		}
		return a.offset < b.offset
	})
	return res
}

var soScalarRoutes = []string{"val", "any", "anyv", "validator", "csv"}
var soSliceRoutes = []string{"vals", "gens", "anys"}

func soSweepLine(route string, bt basetype.BaseType, scale, offset float64, lo, n uint64) string {
	return fmt.Sprintf("sox %s %02x %016x %016x %d %d", route, byte(bt), math.Float64bits(scale), math.Float64bits(offset), lo, n)
}

const soChunk = 8192

func genScaleOffset(emit func(string), tier string, rng *Rng) {
	_ = factory.NameUnknown
	defer genSoDev(emit, tier == "thorough", rng) // last: the random stream of the sections above stays what it was
	triples := soProfileTriples()
	thorough := tier == "thorough"
	// distinct (scale, offset) pairs
	type pair struct{ s, o float64 }
	seenP := map[pair]bool{}
	var pairs []pair
	for _, t := range triples {
		p := pair{t.scale, t.offset}
		if !seenP[p] {
			seenP[p] = true
			pairs = append(pairs, p)
		}
	}
	pairs = append(pairs, pair{1, 0})
	count(fmt.Sprintf("profile-triples=%d", len(triples)))
	count(fmt.Sprintf("profile-pairs=%d", len(pairs)))

	// a failing raw value found while sweeping is also emitted as a single operation (the better replay)
	emitSweep := func(route string, bt basetype.BaseType, s, o float64, lo, n uint64) {
		line := soSweepLine(route, bt, s, o, lo, n)
		emit(line)
		count("sweep-" + route)
		ans := execLine(line)
		if i := strings.Index(ans, "first="); i >= 0 && !strings.Contains(ans, "first=-") {
			first := strings.Fields(ans[i+6:])[0]
			emit(fmt.Sprintf("so rt %s %02x %s %016x %016x", route, byte(bt), first, math.Float64bits(s), math.Float64bits(o)))
			count("directed-single")
		}
	}

	// 1. every raw value of every 8/16-bit profile triple × every route
	for _, t := range triples {
		ty, _ := soTyOfBT(t.bt)
		bits := soTyBits[ty]
		if bits > 16 {
			continue
		}
		total := uint64(1) << uint(bits)
		for _, route := range append(append([]string{}, soScalarRoutes...), soSliceRoutes...) {
			for lo := uint64(0); lo < total; lo += soChunk {
				n := uint64(soChunk)
				if lo+n > total {
					n = total - lo
				}
				emitSweep(route, t.bt, t.scale, t.offset, lo, n)
			}
		}
		count("exhaustive-triple-8/16")
	}
	// 2. every (scale, offset) pair of the profile × every 8/16-bit base type (incl. the z types and byte), route val
	//    (thorough: every route)
	for _, bt := range []basetype.BaseType{basetype.Sint8, basetype.Uint8, basetype.Uint8z, basetype.Byte, basetype.Sint16, basetype.Uint16, basetype.Uint16z} {
		ty, _ := soTyOfBT(bt)
		total := uint64(1) << uint(soTyBits[ty])
		for _, p := range pairs {
			routes := []string{"val"}
			if thorough {
				routes = append(append([]string{}, soScalarRoutes...), soSliceRoutes...)
			}
			for _, route := range routes {
				for lo := uint64(0); lo < total; lo += soChunk {
					n := uint64(soChunk)
					if lo+n > total {
						n = total - lo
					}
					emitSweep(route, bt, p.s, p.o, lo, n)
				}
			}
			count("exhaustive-pair-x-type-8/16")
		}
	}
	// 3. 32-bit types: boundary windows and random windows for every pair; 64-bit: windows below 2^53 and at the edges
	win := uint64(512)
	nrand := 6
	if thorough {
		win, nrand = 4096, 60
	}
	for _, bt := range []basetype.BaseType{basetype.Sint32, basetype.Uint32, basetype.Uint32z, basetype.Sint64, basetype.Uint64, basetype.Uint64z} {
		ty, _ := soTyOfBT(bt)
		bits := soTyBits[ty]
		for _, p := range pairs {
			var los []uint64
			if bits == 32 {
				los = []uint64{0, 1<<31 - win/2, 1<<32 - win, 1<<16 - win/2, 1<<24 - win/2}
				for i := 0; i < nrand; i++ {
					los = append(los, rng.U64()&(1<<32-1))
				}
			} else {
				los = []uint64{0, 1<<32 - win/2, 1<<52 - win/2, -win}
				for i := 0; i < nrand; i++ {
					los = append(los, rng.U64()>>uint(12+rng.Intn(40)))
				}
			}
			for i, lo := range los {
				route := append(append([]string{}, soScalarRoutes...), soSliceRoutes...)[(i+int(bt))%8]
				emitSweep(route, bt, p.s, p.o, lo, win)
				if thorough {
					emitSweep("val", bt, p.s, p.o, lo, win)
				}
			}
			count("windows-32/64")
		}
	}
	// 4. single operations: Apply / Discard / DiscardValue on arbitrary operands, float base types, odd scales
	n := 4000
	if thorough {
		n = 60000
	}
	tys := []string{"i8", "u8", "i16", "u16", "i32", "u32", "i64", "u64", "f32", "f64"}
	bts := []basetype.BaseType{basetype.Enum, basetype.Sint8, basetype.Uint8, basetype.Sint16, basetype.Uint16, basetype.Sint32, basetype.Uint32,
		basetype.String, basetype.Float32, basetype.Float64, basetype.Uint8z, basetype.Uint16z, basetype.Uint32z, basetype.Byte, basetype.Sint64, basetype.Uint64, basetype.Uint64z}
	anyScale := func() (float64, float64) {
		if rng.Intn(4) != 0 {
			p := pairs[rng.Intn(len(pairs))]
			return p.s, p.o
		}
		return math.Float64frombits(f64Operand(rng)), math.Float64frombits(f64Operand(rng))
	}
	for i := 0; i < n; i++ {
		s, o := anyScale()
		switch rng.Intn(6) {
		case 0:
			ty := tys[rng.Intn(len(tys))]
			raw := rng.U64() >> uint(64-soTyBits[ty]) >> uint(rng.Intn(soTyBits[ty]))
			emit(fmt.Sprintf("so apply %s %0*x %016x %016x", ty, soTyBits[ty]/4, raw, math.Float64bits(s), math.Float64bits(o)))
			count("apply")
		case 1:
			emit(fmt.Sprintf("so discard %016x %016x %016x", f64Operand(rng), math.Float64bits(s), math.Float64bits(o)))
			count("discard")
		case 2, 3: // DiscardValue on any value type × any base type
			bt := bts[rng.Intn(len(bts))]
			var v proto.Value
			switch rng.Intn(4) {
			case 0:
				v = proto.Float64(math.Float64frombits(f64Operand(rng)))
			case 1:
				xs := make([]float64, rng.Intn(4))
				for j := range xs {
					xs[j] = math.Float64frombits(f64Operand(rng))
				}
				v = proto.SliceFloat64(xs)
			case 2:
				v = proto.Float64(float64(int64(rng.U64()>>uint(rng.Intn(64)))) / s)
			default:
				v = randValueFor(rng, byte(bt))
			}
			emit(fmt.Sprintf("so dv %02x %s %016x %016x", byte(bt), printValue(v), math.Float64bits(s), math.Float64bits(o)))
			count("dv")
		default: // round trips of single values / short slices incl. float types
			bt := bts[rng.Intn(len(bts))]
			ty, ok := soTyOfBT(bt)
			if !ok {
				continue
			}
			bits := soTyBits[ty]
			route := append(append([]string{}, soScalarRoutes...), soSliceRoutes...)[rng.Intn(8)]
			if route == "csv" { // the text layer is outside this family: integer types and profile pairs only
				if bits := soTyBits[ty]; ty == "f32" || ty == "f64" || bits == 0 {
					continue
				}
				p := pairs[rng.Intn(len(pairs))]
				s, o = p.s, p.o
			}
			k := 1
			if route == "vals" || route == "gens" || route == "anys" {
				k = rng.Intn(4)
			}
			var rs []string
			for j := 0; j < k; j++ {
				raw := rng.U64() >> uint(64-bits) >> uint(rng.Intn(bits))
				if rng.Intn(8) == 0 {
					raw = (uint64(1)<<uint(bits) - 1) >> uint(rng.Intn(2)) // invalid sentinels
				}
				rs = append(rs, fmt.Sprintf("%0*x", bits/4, raw))
			}
			rl := strings.Join(rs, ",")
			if k == 0 {
				rl = "-"
			}
			emit(fmt.Sprintf("so rt %s %02x %s %016x %016x", route, byte(bt), rl, math.Float64bits(s), math.Float64bits(o)))
			count("rt-single")
		}
	}
	// 5. typed accessors: every generated XxxScaled/SetXxxScaled pair
	seenKind := map[string]bool{}
	for _, acc := range soTypedAll() {
		total := uint64(1) << uint(acc.bits)
		kind := fmt.Sprintf("%d/%x/%x/%d", acc.info.ty, math.Float64bits(acc.info.scale), math.Float64bits(acc.info.offset), acc.info.arr)
		full := thorough || !seenKind[kind] || acc.bits == 8
		seenKind[kind] = true
		emitT := func(lo, n, stride uint64) {
			line := fmt.Sprintf("sotx %s %s %d %d %d", acc.info.mesg, acc.info.field, lo, n, stride)
			emit(line)
			ans := execLine(line)
			if i := strings.Index(ans, "first="); i >= 0 && !strings.Contains(ans, "first=-") {
				emit(fmt.Sprintf("so typed %s %s %s", acc.info.mesg, acc.info.field, strings.Fields(ans[i+6:])[0]))
				count("directed-single")
			}
		}
		switch {
		case acc.bits <= 16 && full:
			for lo := uint64(0); lo < total; lo += soChunk {
				n := uint64(soChunk)
				if lo+n > total {
					n = total - lo
				}
				emitT(lo, n, 1)
			}
			count("typed-exhaustive")
		case acc.bits <= 16:
			emitT(uint64(rng.Intn(97)), total/97, 97)
			emitT(total-256, 256, 1)
			emitT(0, 256, 1)
			count("typed-strided")
		default:
			emitT(0, win, 1)
			emitT(total-win, win, 1)
			emitT(total/2-win/2, win, 1)
			emitT(uint64(rng.Intn(65521)), win*2, 65521)
			count("typed-windows-32")
		}
		for j := 0; j < 3; j++ {
			emit(fmt.Sprintf("so tset %s %s %016x", acc.info.mesg, acc.info.field, f64Operand(rng)))
		}
		emit(fmt.Sprintf("so typed %s %s %0*x", acc.info.mesg, acc.info.field, acc.bits/4, acc.info.invalid))
	}
	// 6. slice / fixed-array accessors element by element; 7. one validator over a sequence of messages with natively-mapped
	// developer fields; 8. the '.' of the CSV writer's float64 text (fam_scaleoffset_more.go)
	genSoSlices(emit, tier, rng)
	genSoValidatorSeq(emit, tier, rng)
	var pl [][2]float64
	for _, p := range pairs {
		pl = append(pl, [2]float64{p.s, p.o})
	}
	genSoCsvDot(emit, tier, rng, pl)
}

// ---------------------------------------------------------------- developer fields with a native-field override

// execSoDev: `sodev <mnA>.<fnA> <mnB>.<fnB> <raw,raw,…>` — ONE message validator (as one encoder has) sees a developer data id,
// two field descriptions (developer field 0 -> native field A, developer field 1 -> native field B) and then, per raw value,
// a message of A carrying developer field 0 = ApplyValue(raw, A's scale/offset) followed by a message of B carrying
// developer field 1 = ApplyValue(raw, B's scale/offset): the raw -> scaled -> validator route of a developer field that
// is mapped to a native field. Answer: per raw `<value restored under A>,<value restored under B>` (or the error kind).
func execSoDev(args []string) string {
	if len(args) != 3 {
		return "bad-op"
	}
	var nat [2]proto.Field
	var mn [2]typedef.MesgNum
	for i := 0; i < 2; i++ {
		var m, f uint
		if n, err := fmt.Sscanf(args[i], "%d.%d", &m, &f); n != 2 || err != nil || m > 0xffff || f > 0xff || args[i] != fmt.Sprintf("%d.%d", m, f) {
			return "bad-op"
		}
		mn[i] = typedef.MesgNum(m)
		nat[i] = factory.StandardFactory().CreateField(mn[i], byte(f))
	}
	mv := encoder.NewMessageValidator(encoder.ValidatorWithPreserveInvalidValues())
	ddi := devDataIdMesg(0)
	if err := mv.Validate(&ddi); err != nil {
		return "err:setup"
	}
	for i := 0; i < 2; i++ {
		fdm := fieldDescMesg(fdSpec{ddi: 0, fdn: uint8(i), bt: uint8(nat[i].BaseType), scale: -1, offset: 1000, nmn: int(mn[i]), nfn: int(nat[i].Num)})
		if err := mv.Validate(&fdm); err != nil {
			return "err:setup"
		}
	}
	var out []string
	for _, rs := range strings.Split(args[2], ",") {
		raw, err := strconv.ParseUint(rs, 16, 64)
		if err != nil || len(rs) != 16 {
			return "bad-op"
		}
		var parts []string
		for i := 0; i < 2; i++ {
			rv, ok := vaRawValue(nat[i].BaseType, raw)
			if !ok {
				return "bad-op"
			}
			m := proto.Message{Num: mn[i], DeveloperFields: []proto.DeveloperField{{DeveloperDataIndex: 0, Num: uint8(i),
				Value: scaleoffset.ApplyValue(rv, nat[i].Scale, nat[i].Offset)}}}
			if err := mv.Validate(&m); err != nil {
				parts = append(parts, errKind(err))
			} else if len(m.DeveloperFields) != 1 {
				parts = append(parts, "err:dropped")
			} else {
				parts = append(parts, printValue(m.DeveloperFields[0].Value))
			}
		}
		out = append(out, strings.Join(parts, ","))
	}
	return strings.Join(out, ";")
}

// genSoDev: every group of scaled fields of the standard factory that share a field number across messages (and a sample
// that share a message), both orders, boundary and random raw values; also against an unscaled field of the same number
func genSoDev(emit func(string), thorough bool, rng *Rng) {
	scaled := vaScaledFields()
	sort.Slice(scaled, func(i, j int) bool {
		if scaled[i].fn != scaled[j].fn {
			return scaled[i].fn < scaled[j].fn
		}
		return scaled[i].mn < scaled[j].mn
	})
	line := func(a, b vaScaledField) {
		if _, ok := vaRawValue(a.f.BaseType, 0); !ok {
			return
		}
		if _, ok := vaRawValue(b.f.BaseType, 0); !ok {
			return
		}
		raws := []uint64{0, 1, 29, 250, 2500, 0xfffe, 0x7fff, 0xfffffffe, rng.U64(), rng.U64()}
		var rs []string
		for _, r := range raws {
			rs = append(rs, fmt.Sprintf("%016x", r))
		}
		emit(fmt.Sprintf("sodev %d.%d %d.%d %s", a.mn, a.fn, b.mn, b.fn, strings.Join(rs, ",")))
		count("dev-native")
	}
	for i := 0; i < len(scaled); i++ {
		for j := i + 1; j < len(scaled) && scaled[j].fn == scaled[i].fn; j++ {
			line(scaled[i], scaled[j])
			line(scaled[j], scaled[i])
			if !thorough {
				break
			}
		}
		// same message, another number; and an unscaled / unknown native of the same number
		k := (i*7 + 3) % len(scaled)
		if thorough || i%4 == 0 {
			line(scaled[i], scaled[k])
			for _, m := range []typedef.MesgNum{20, 18, 0} {
				f := factory.StandardFactory().CreateField(m, scaled[i].fn)
				if f.Name != factory.NameUnknown && m != scaled[i].mn {
					line(scaled[i], vaScaledField{m, scaled[i].fn, f})
					line(vaScaledField{m, scaled[i].fn, f}, scaled[i])
					break
				}
			}
		}
	}
}
