package main

import (
	"encoding/hex"
	"strings"
)

func init() {
	families["rtw"] = genRtW
	executors["rtw"] = execRtW
}

// rtw <encw options and files>: real encoder (pass-through validator) → bytes → real decoder (checksum on,
// expansion off) → the decw event string. The Lean side checks the round-trip property on it (--prop).
func execRtW(args []string) string {
	enc := execEncW(args)
	p := strings.Fields(enc)
	if len(p) < 2 || p[0] != "ok" {
		return "enc-" + p[0]
	}
	if _, err := hex.DecodeString(p[1]); err != nil {
		return "enc-bad"
	}
	return execDecW([]string{"chk=1", p[1]})
}

func genRtW(emit func(string), tier string, rng *Rng) {
	genEncW(func(l string) { emit("rtw" + strings.TrimPrefix(l, "encw")) }, tier, rng)
}
