package main

// Family `agg` (property C20, the aggregator used by the combiner): aggregator.Aggregate on a probe struct whose field
// names exercise every prefix rule and whose field types exercise every kind the generated mesgdef structs use.
//
//	agg <dst> / <src>      <dst>, <src> ::= 18 tokens, one per field of aggProbe in order (see aggFields)
//	                       integers: decimal value of the Go field (signed ones as int); slices: comma separated, "-" = nil
//	                       string: hex bytes ("-" = empty); bool: 0/1; time: seconds since FIT epoch or "z" for the zero time
//
// Answer: the 18 tokens of dst after Aggregate(dst, src).
import (
	"encoding/hex"
	"fmt"
	"strconv"
	"strings"
	"time"

	"github.com/muktihari/fit/cmd/fitactivity/aggregator"
	"github.com/muktihari/fit/kit/datetime"
)

type aggProbe struct {
	TotalDistance   uint32    // Total → sum
	TotalCycles     uint8     // sum, wraps
	TotalAscent     int16     // signed sum
	NumLaps         uint16    // Num…s → sum
	NumActiveLength uint16    // Num without trailing s → fill
	MaxHeartRate    uint8     // max
	EnhancedMaxAlt  uint32    // max
	MaxNegGrade     int16     // signed max
	MinHeartRate    uint8     // min
	EnhancedMinAlt  uint32    // min
	MinTemperature  int8      // signed min
	AvgSpeed        uint16    // avg
	EnhancedAvgResp int32     // signed avg
	Sport           uint8     // fill
	Name            string    // fill
	Flag            bool      // fill
	StartTime       time.Time // fill (zero time)
	TotalZones      []uint16  // slice sum (element-wise, longer tail kept)
}

func init() {
	families["agg"] = genAgg
	executors["agg"] = aggExec
}

func aggParse(toks []string) (*aggProbe, bool) {
	if len(toks) != 18 {
		return nil, false
	}
	p := &aggProbe{}
	var ok = true
	u := func(s string, bits int) uint64 {
		v, err := strconv.ParseUint(s, 10, bits)
		if err != nil {
			ok = false
		}
		return v
	}
	i := func(s string, bits int) int64 {
		v, err := strconv.ParseInt(s, 10, bits)
		if err != nil {
			ok = false
		}
		return v
	}
	p.TotalDistance = uint32(u(toks[0], 32))
	p.TotalCycles = uint8(u(toks[1], 8))
	p.TotalAscent = int16(i(toks[2], 16))
	p.NumLaps = uint16(u(toks[3], 16))
	p.NumActiveLength = uint16(u(toks[4], 16))
	p.MaxHeartRate = uint8(u(toks[5], 8))
	p.EnhancedMaxAlt = uint32(u(toks[6], 32))
	p.MaxNegGrade = int16(i(toks[7], 16))
	p.MinHeartRate = uint8(u(toks[8], 8))
	p.EnhancedMinAlt = uint32(u(toks[9], 32))
	p.MinTemperature = int8(i(toks[10], 8))
	p.AvgSpeed = uint16(u(toks[11], 16))
	p.EnhancedAvgResp = int32(i(toks[12], 32))
	p.Sport = uint8(u(toks[13], 8))
	if toks[14] != "-" {
		b, err := hex.DecodeString(toks[14])
		if err != nil {
			ok = false
		}
		p.Name = string(b)
	}
	p.Flag = toks[15] == "1"
	if toks[16] != "z" {
		p.StartTime = datetime.ToTime(uint32(u(toks[16], 32)))
	}
	if toks[17] != "-" {
		for _, s := range strings.Split(toks[17], ",") {
			p.TotalZones = append(p.TotalZones, uint16(u(s, 16)))
		}
	}
	return p, ok
}

func aggPrint(p *aggProbe) string {
	st := "z"
	if !p.StartTime.IsZero() {
		st = strconv.FormatUint(uint64(datetime.ToUint32(p.StartTime)), 10)
	}
	z := "-"
	if len(p.TotalZones) > 0 {
		parts := make([]string, len(p.TotalZones))
		for i, v := range p.TotalZones {
			parts[i] = strconv.Itoa(int(v))
		}
		z = strings.Join(parts, ",")
	}
	name := "-"
	if p.Name != "" {
		name = hex.EncodeToString([]byte(p.Name))
	}
	return fmt.Sprintf("%d %d %d %d %d %d %d %d %d %d %d %d %d %d %s %d %s %s", p.TotalDistance, p.TotalCycles, p.TotalAscent, p.NumLaps,
		p.NumActiveLength, p.MaxHeartRate, p.EnhancedMaxAlt, p.MaxNegGrade, p.MinHeartRate, p.EnhancedMinAlt, p.MinTemperature,
		p.AvgSpeed, p.EnhancedAvgResp, p.Sport, name, b2i(p.Flag), st, z)
}

func aggExec(args []string) string {
	k := -1
	for i, a := range args {
		if a == "/" {
			k = i
		}
	}
	if k < 0 {
		return "bad-op"
	}
	dst, ok1 := aggParse(args[:k])
	src, ok2 := aggParse(args[k+1:])
	if !ok1 || !ok2 {
		return "bad-op"
	}
	aggregator.Aggregate(dst, src)
	return aggPrint(dst)
}

func genAgg(emit func(string), tier string, rng *Rng) {
	n := 4000
	if tier == "thorough" {
		n = 100000
	}
	pickU := func(bits int) uint64 {
		max := uint64(1)<<uint(bits) - 1
		switch rng.Intn(6) {
		case 0:
			return max // the invalid sentinel
		case 1:
			return 0
		case 2:
			return max - 1
		case 3:
			return uint64(rng.Intn(300)) & max
		default:
			return rng.U64() & max
		}
	}
	pickI := func(bits int) int64 {
		max := int64(1)<<uint(bits-1) - 1
		switch rng.Intn(6) {
		case 0:
			return max // the invalid sentinel
		case 1:
			return -max - 1
		case 2:
			return 0
		case 3:
			return int64(rng.Intn(300)) - 150
		default:
			return int64(rng.U64()&uint64(2*max+1)) - max - 1
		}
	}
	one := func() string {
		p := &aggProbe{TotalDistance: uint32(pickU(32)), TotalCycles: uint8(pickU(8)), TotalAscent: int16(pickI(16)), NumLaps: uint16(pickU(16)),
			NumActiveLength: uint16(pickU(16)), MaxHeartRate: uint8(pickU(8)), EnhancedMaxAlt: uint32(pickU(32)), MaxNegGrade: int16(pickI(16)),
			MinHeartRate: uint8(pickU(8)), EnhancedMinAlt: uint32(pickU(32)), MinTemperature: int8(pickI(8)), AvgSpeed: uint16(pickU(16)),
			EnhancedAvgResp: int32(pickI(32)), Sport: uint8(pickU(8)), Flag: rng.Bool()}
		switch rng.Intn(4) {
		case 0:
		case 1:
			p.Name = "\x00"
		default:
			p.Name = csvRandString(rng)
		}
		if rng.Intn(3) != 0 {
			p.StartTime = datetime.ToTime(uint32(1000000000 + rng.Intn(1000000)))
		}
		for k := rng.Intn(4); k > 0; k-- {
			p.TotalZones = append(p.TotalZones, uint16(pickU(16)))
		}
		return aggPrint(p)
	}
	for i := 0; i < n; i++ {
		emit("agg " + one() + " / " + one())
	}
}
