package main

// Families `enc-writers` (property C09) and `enc-faults` (property C11): the real Encoder / StreamEncoder writing
// to destinations of the four kinds the encoder distinguishes, through every write-buffer size, batch and stream,
// chained, on empty and pre-filled destinations, with faults injected into the destination.
// Model: lean/FitModel/Writer.lean; driver: lean/Driver/Writer.lean.
//
//	wr  k=<plain|at|seek|both> bs=<n> m=<b|s> a=<arch> h=<hdropt> l=<lmt> pv=<n> v=<0|1> pre=<hex|-> [pos=<n>] f=<k.j,k.j…|-> c=<0|1> <files…>
//	    one run. m: b = Encoder.Encode per file; c = Encoder.EncodeWithContext (background context) per file;
//	    s = StreamEncoder.WriteMessage per message + SequenceCompleted per file.
//	    cx=<i>.<k> (m=c only): the context handed to the call for file i is CANCELLED after k polls of ctx.Done() (the encoder
//	    polls once per message, in the dry run and in the real pass); every other call gets context.Background(). Result class ec.
//	    k=nil: the encoder is made with a NIL writer (encoder.New(nil, …)): result class en ("writer is nil"), NewStream refuses.
//	    v=1: a stateful, transforming message validator (wrValidator below) instead of the pass-through one.
//	    rs=1|2: the encoder is NOT new: it was first used on another (write-at) destination — 1: a complete sequence,
//	    2: an interrupted one (stream: a message without SequenceCompleted; batch: an Encode that failed half-way) — and then
//	    handed the destination with Reset(w, opts…). The model's answer is that of a new encoder: Reset = New.
//	    ro=<pv>.<arch>.<hopt>.<lmt>.<v>.<bs>.<kind>: the options and the destination kind of that FIRST use (default: the
//	    options of the run itself, an unbuffered write-at destination) — every option the encoder keeps in a field differs
//	    from the run being compared; the model ignores it: bytes depend on the messages and on the options of THIS use only.
//	    ap=1: the destination behaves like an *os.File opened with O_APPEND: every Write lands at the END whatever the
//	    position is (third caveat of encoder.New: "behavior not specified"; kinds plain/seek/both; properties n/a). The model's
//	    answer: the same operations, replayed with Dest.runAppend.
//	    pos: where the pre-filled destination is positioned (default: at its end, the documented use; anything else is the
//	    caveat "seek to the end first" — model and code must still agree on what gets written, the properties are n/a).
//	    f: the k-th operation on the destination fails after taking at most j bytes (entry k.j) or — breaking io.Writer's
//	    contract — takes at most j bytes and returns NO error (entry k<s>j, e.g. 3s5; model: FitModel/WriterShort.lean; the
//	    property predicates do not count it as a fault). c=1: keep calling after an error.
//	    → r=<result per API call> hit=<index of the call in which each fault fired> log=<destination operations> out=<hex> ci=<CheckIntegrity of out>
//	wrx …same, no f=…   sweep: the run is repeated with one fault at every operation k of the fault-free run and
//	    j ∈ {0, 1, len-1, len} (a seek: j = 0); each entry is the crash state "operations before k took effect, j bytes of operation k"
//	    → n=<fault points> then per point k.j=<r>/<hit>/<fnv64 of out>/<ci>[/<out hex when ci is ok>][/not-a-crash-prefix]
//	    (the last mark: the faulted run did NOT leave the healthy run's first k operations + j bytes of the next, or went on
//	    issuing operations after the failure — never printed by the model)
//	wrc a= h= l= pv= v= pre= <files…>   cross-configuration: all kinds × buffer sizes × batch/stream on the same input
//	    → same <configs> <status> <out hex> | differ <cfgA> <cfgB> | rejected
//
// results: ok | err (destination/writer error) | ep (protocol validation) | ee (empty messages) | ev (message validator) | ec (ctx.Err() of a
// cancelled context) | en (nil writer) | eo (other)
// log entries: w<len>#<digest>:<taken>[!]  a<len>#<digest>@<off>:<taken>[!]  s<delta>[!]      (! = the operation failed;
// digest = low 32 bits of the FNV-1a 64 of the bytes handed to the operation, all of them, whatever was taken)

import (
	"bytes"
	"context"
	"encoding/hex"
	"errors"
	"fmt"
	"io"
	"strconv"
	"strings"

	"github.com/muktihari/fit/decoder"
	"github.com/muktihari/fit/encoder"
	"github.com/muktihari/fit/profile/basetype"
	"github.com/muktihari/fit/proto"
)

func init() {
	families["enc-writers"] = genEncWriters
	families["enc-faults"] = genEncFaults
	executors["wr"] = execWr
	executors["wrx"] = execWrX
	executors["wrc"] = execWrC
}

// ---- a context that is cancelled after a given number of polls of Done()

type wrCtx struct {
	context.Context
	polls, limit int
}

var wrClosed = func() chan struct{} { c := make(chan struct{}); close(c); return c }()

func (c *wrCtx) Done() <-chan struct{} {
	if c.polls >= c.limit {
		return wrClosed
	}
	c.polls++
	return nil // a nil channel is never ready: the select takes its default branch
}

func (c *wrCtx) Err() error {
	if c.polls >= c.limit {
		return context.Canceled
	}
	return nil
}

// ---- destination with an operation log and injected faults

var errWrInjected = errors.New("injected destination fault")

type wrRawOp struct {
	kind byte // w, a, s
	p    []byte
	off  int64
}

type wrDest struct {
	buf    []byte
	pos    int64
	nops   int
	faults map[int]int
	shorts map[int]int // operation number → bytes taken WITHOUT an error being returned
	app    bool        // O_APPEND: writes land at the end
	log    []string
	fired  []int // operation numbers at which a fault fired
	raw    []wrRawOp
}

// wrReplay: the content after the first k operations of ops took effect in full and j bytes of operation k
// (a crash of the destination at that point), starting from pre
func wrReplay(pre []byte, pos int, ops []wrRawOp, k, j int) []byte {
	d := &wrDest{buf: append([]byte(nil), pre...), pos: int64(pos)}
	for i := 0; i <= k && i < len(ops); i++ {
		op := ops[i]
		p := op.p
		if i == k {
			p = p[:min(j, len(p))]
		}
		switch op.kind {
		case 'w':
			d.store(d.pos, p)
			d.pos += int64(len(p))
		case 'a':
			d.store(op.off, p)
		case 's':
			if i < k {
				d.pos += op.off
			}
		}
	}
	return d.buf
}

func (d *wrDest) store(off int64, p []byte) {
	end := off + int64(len(p))
	if off > int64(len(d.buf)) || end > int64(len(d.buf)) {
		need := end
		if off > need {
			need = off
		}
		d.buf = append(d.buf, make([]byte, need-int64(len(d.buf)))...)
	}
	copy(d.buf[off:], p)
}

func (d *wrDest) fault() (int, bool) {
	j, ok := d.faults[d.nops]
	if ok {
		d.fired = append(d.fired, d.nops)
	}
	d.nops++
	return j, ok
}

// short: is the operation about to be issued one that takes only j bytes and returns nil?
func (d *wrDest) short() (int, bool) {
	j, ok := d.shorts[d.nops]
	if ok {
		d.nops++
	}
	return j, ok
}

func (d *wrDest) write(p []byte) (int, error) {
	d.raw = append(d.raw, wrRawOp{'w', append([]byte(nil), p...), 0})
	if d.app {
		d.pos = int64(len(d.buf))
	}
	if j, sh := d.short(); sh {
		t := min(j, len(p))
		d.store(d.pos, p[:t])
		d.pos += int64(t)
		d.log = append(d.log, fmt.Sprintf("w%d#%s:%d", len(p), wrDig(p), t))
		return t, nil
	}
	if j, bad := d.fault(); bad {
		t := min(j, len(p))
		d.store(d.pos, p[:t])
		d.pos += int64(t)
		d.log = append(d.log, fmt.Sprintf("w%d#%s:%d!", len(p), wrDig(p), t))
		return t, errWrInjected
	}
	d.store(d.pos, p)
	d.pos += int64(len(p))
	d.log = append(d.log, fmt.Sprintf("w%d#%s:%d", len(p), wrDig(p), len(p)))
	return len(p), nil
}

func (d *wrDest) writeAt(p []byte, off int64) (int, error) {
	d.raw = append(d.raw, wrRawOp{'a', append([]byte(nil), p...), off})
	if j, sh := d.short(); sh {
		t := min(j, len(p))
		d.store(off, p[:t])
		d.log = append(d.log, fmt.Sprintf("a%d#%s@%d:%d", len(p), wrDig(p), off, t))
		return t, nil
	}
	if j, bad := d.fault(); bad {
		t := min(j, len(p))
		d.store(off, p[:t])
		d.log = append(d.log, fmt.Sprintf("a%d#%s@%d:%d!", len(p), wrDig(p), off, t))
		return t, errWrInjected
	}
	d.store(off, p)
	d.log = append(d.log, fmt.Sprintf("a%d#%s@%d:%d", len(p), wrDig(p), off, len(p)))
	return len(p), nil
}

func (d *wrDest) seek(off int64, whence int) (int64, error) {
	if whence != io.SeekCurrent { // the encoder only seeks relative to the current position
		d.nops++
		d.log = append(d.log, fmt.Sprintf("S%d/%d", off, whence))
		return 0, errors.New("unexpected whence")
	}
	d.raw = append(d.raw, wrRawOp{'s', nil, off})
	if _, bad := d.fault(); bad {
		d.log = append(d.log, fmt.Sprintf("s%d!", off))
		return 0, errWrInjected
	}
	if d.pos+off < 0 { // a genuine refusal of the destination: counted like an injected one
		d.fired = append(d.fired, d.nops-1)
		d.log = append(d.log, fmt.Sprintf("s%d!", off))
		return 0, errWrInjected
	}
	d.pos += off
	d.log = append(d.log, fmt.Sprintf("s%d", off))
	return d.pos, nil
}

type wrPlain struct{ d *wrDest }

func (w wrPlain) Write(p []byte) (int, error) { return w.d.write(p) }

type wrAt struct{ d *wrDest }

func (w wrAt) Write(p []byte) (int, error)            { return w.d.write(p) }
func (w wrAt) WriteAt(p []byte, o int64) (int, error) { return w.d.writeAt(p, o) }

type wrSeek struct{ d *wrDest }

func (w wrSeek) Write(p []byte) (int, error)         { return w.d.write(p) }
func (w wrSeek) Seek(o int64, wh int) (int64, error) { return w.d.seek(o, wh) }

type wrBoth struct{ d *wrDest }

func (w wrBoth) Write(p []byte) (int, error)            { return w.d.write(p) }
func (w wrBoth) WriteAt(p []byte, o int64) (int, error) { return w.d.writeAt(p, o) }
func (w wrBoth) Seek(o int64, wh int) (int64, error)    { return w.d.seek(o, wh) }

func wrNewDest(kind string, pre []byte, pos int, faults map[int]int) (io.Writer, *wrDest) {
	d := &wrDest{buf: append([]byte(nil), pre...), pos: int64(pos), faults: faults}
	switch kind {
	case "nil":
		return nil, d
	case "at":
		return wrAt{d}, d
	case "seek":
		return wrSeek{d}, d
	case "both":
		return wrBoth{d}, d
	default:
		return wrPlain{d}, d
	}
}

// ---- a message validator whose effect the model can state exactly: stateful (a counter since Reset) and transforming
// (drops fields in place, like the real one). Field 250 is always dropped; field 251 is dropped from every third
// message since the last Reset; message number 65001 is rejected.

var errWrRejected = errors.New("rejected by wrValidator")

type wrValidator struct{ count int }

func (v *wrValidator) Reset() { v.count = 0 }
func (v *wrValidator) Validate(m *proto.Message) error {
	v.count++
	if m.Num == 65001 {
		return errWrRejected
	}
	kept := m.Fields[:0]
	for _, f := range m.Fields {
		if f.Num == 250 || (f.Num == 251 && v.count%3 == 0) {
			continue
		}
		kept = append(kept, f)
	}
	m.Fields = kept
	return nil
}

// ---- one run

type wrCfg struct {
	kind, mode       string
	bs               int
	arch, hopt, lmt  int
	pv               int
	v                int
	pre              []byte
	pos              int // position of the destination when the encoder gets it
	reuse            int // rs=
	first            *wrCfg // ro=: options and destination kind of the first use of a reused encoder
	app              bool // ap=1
	faults           map[int]int
	shorts           map[int]int
	cont             bool
	cxFile, cxPolls  int // cx=i.k (cxFile = -1: none)
	files            []wFile
	faultTokens      string
	raw              map[string]string
	fileToks         []string
	hasFaultArgument bool
}

func wrParse(args []string) (*wrCfg, bool) {
	kv, rest := parseKV(args)
	files, ok := parseWFiles(rest)
	if !ok {
		return nil, false
	}
	c := &wrCfg{kind: kv["k"], mode: kv["m"], bs: atoi(kv["bs"]), arch: atoi(kv["a"]), hopt: atoi(kv["h"]), lmt: atoi(kv["l"]),
		pv: atoi(kv["pv"]), v: atoi(kv["v"]), reuse: atoi(kv["rs"]), app: kv["ap"] == "1", cont: kv["c"] == "1", files: files, raw: kv, fileToks: rest, faults: map[int]int{}, shorts: map[int]int{}}
	if p := kv["pre"]; p != "" && p != "-" {
		b, err := hex.DecodeString(p)
		if err != nil {
			return nil, false
		}
		c.pre = b
	}
	if c.app && c.kind == "at" {
		return nil, false
	}
	if ro, ok := kv["ro"]; ok {
		t := strings.Split(ro, ".")
		if len(t) != 7 {
			return nil, false
		}
		c.first = &wrCfg{pv: atoi(t[0]), arch: atoi(t[1]), hopt: atoi(t[2]), lmt: atoi(t[3]), v: atoi(t[4]), bs: atoi(t[5]), kind: t[6]}
	}
	c.cxFile = -1
	if cx, ok := kv["cx"]; ok {
		a, b, ok2 := strings.Cut(cx, ".")
		i, err1 := strconv.Atoi(a)
		k, err2 := strconv.Atoi(b)
		if !ok2 || err1 != nil || err2 != nil || i < 0 || k < 0 || c.mode != "c" {
			return nil, false
		}
		c.cxFile, c.cxPolls = i, k
	}
	if c.kind == "nil" && (c.app || len(c.pre) > 0) {
		return nil, false
	}
	c.pos = len(c.pre)
	if p, ok := kv["pos"]; ok {
		c.pos = atoi(p)
		if c.pos < 0 || c.pos > len(c.pre) {
			return nil, false
		}
	}
	if f := kv["f"]; f != "" && f != "-" {
		c.hasFaultArgument = true
		for _, e := range strings.Split(f, ",") {
			a, b, ok := strings.Cut(e, ".")
			short := false
			if !ok {
				a, b, ok = strings.Cut(e, "s")
				short = true
			}
			k, err1 := strconv.Atoi(a)
			j, err2 := strconv.Atoi(b)
			if !ok || err1 != nil || err2 != nil || k < 0 || j < 0 {
				return nil, false
			}
			_, dup1 := c.faults[k]
			_, dup2 := c.shorts[k]
			if dup1 || dup2 || (short && c.cxFile >= 0) {
				return nil, false
			}
			if short {
				c.shorts[k] = j
			} else {
				c.faults[k] = j
			}
		}
	}
	return c, true
}

func (c *wrCfg) options() []encoder.Option {
	opts := []encoder.Option{encoder.WithWriteBufferSize(c.bs)}
	if c.v == 1 {
		opts = append(opts, encoder.WithMessageValidator(&wrValidator{}))
	} else {
		opts = append(opts, encoder.WithMessageValidator(noValidator{}))
	}
	if c.arch == 1 {
		opts = append(opts, encoder.WithBigEndian())
	}
	opts = append(opts, encoder.WithHeaderOption(encoder.HeaderOption(c.hopt), byte(c.lmt)))
	if c.pv != 0 {
		opts = append(opts, encoder.WithProtocolVersion(proto.Version(c.pv)))
	}
	return opts
}

func wrErrClass(err error) string {
	switch {
	case err == nil:
		return "ok"
	case errors.Is(err, errWrInjected), errors.Is(err, io.ErrShortWrite): // the latter: bufio's verdict on a short count without error
		return "err"
	case errors.Is(err, context.Canceled):
		return "ec"
	case strings.Contains(err.Error(), "writer is nil"):
		return "en"
	case errors.Is(err, errWrRejected):
		return "ev"
	case errors.Is(err, proto.ErrProtocolViolation):
		return "ep"
	case strings.Contains(err.Error(), "empty messages"):
		return "ee"
	default:
		return "eo"
	}
}

type wrOut struct {
	results []string
	hits    []int
	log     []string
	out     []byte
	raw     []wrRawOp
	refused bool // NewStream refused the writer
}

// wrRun runs one configuration with the given faults. bad = the operation cannot be built (bad-op).
func wrRun(c *wrCfg, faults map[int]int) (o wrOut, bad bool) { return wrRunS(c, faults, nil) }

// wrRunS: as wrRun, with the operations of `shorts` answered (n < len, nil)
func wrRunS(c *wrCfg, faults, shorts map[int]int) (o wrOut, bad bool) {
	w, d := wrNewDest(c.kind, c.pre, c.pos, faults)
	d.shorts = shorts
	d.app = c.app
	call := func(f func() error) bool {
		before := len(d.fired)
		err := f()
		o.results = append(o.results, wrErrClass(err))
		for range d.fired[before:] {
			o.hits = append(o.hits, len(o.results)-1)
		}
		return err == nil
	}
	if c.mode == "s" {
		var se *encoder.StreamEncoder
		var err error
		if c.reuse > 0 {
			// a used stream encoder: another destination first, then Reset to this one
			fc := c.firstUse()
			warmFit, _ := wrWarmFile.toProto(byte(fc.arch))
			ww, _ := wrNewDest(fc.kind, nil, 0, nil)
			se, err = encoder.NewStream(ww, fc.options()...)
			if err == nil {
				_ = se.WriteMessage(&warmFit.Messages[0])
				if c.reuse == 1 {
					_ = se.SequenceCompleted()
				}
				err = se.Reset(w, c.options()...)
			}
		} else {
			se, err = encoder.NewStream(w, c.options()...)
		}
		if err != nil {
			o.refused = true
			return o, false
		}
	files:
		for _, f := range c.files {
			fit, ok := f.toProto(byte(c.arch))
			if !ok {
				return o, true
			}
			for i := range fit.Messages {
				if !call(func() error { return se.WriteMessage(&fit.Messages[i]) }) && !c.cont {
					break files
				}
			}
			if !call(se.SequenceCompleted) && !c.cont {
				break
			}
		}
	} else {
		var enc *encoder.Encoder
		if c.reuse > 0 {
			// a used encoder: another destination first (rs=2: one that fails during the records), then Reset to this one
			fc := c.firstUse()
			warmFit, _ := wrWarmFile.toProto(byte(fc.arch))
			ww, wd := wrNewDest(fc.kind, nil, 0, nil)
			if c.reuse == 2 {
				// the first operation that carries record bytes fails: 1 when unbuffered, the flush (0) behind a large buffer
				wd.faults = map[int]int{0: 17, 1: 3}
				if fc.bs <= 0 || fc.bs < 14 {
					wd.faults = map[int]int{1: 3}
				}
			}
			enc = encoder.New(ww, fc.options()...)
			_ = enc.Encode(warmFit)
			enc.Reset(w, c.options()...)
		} else {
			enc = encoder.New(w, c.options()...)
		}
		for fi, f := range c.files {
			fit, ok := f.toProto(byte(c.arch))
			if !ok {
				return o, true
			}
			encode := func() error { return enc.Encode(fit) }
			if c.mode == "c" {
				var ctx context.Context = context.Background()
				if fi == c.cxFile {
					ctx = &wrCtx{Context: context.Background(), limit: c.cxPolls}
				}
				encode = func() error { return enc.EncodeWithContext(ctx, fit) }
			}
			if !call(encode) && !c.cont {
				break
			}
		}
	}
	o.log, o.out, o.raw = d.log, d.buf, d.raw
	return o, false
}

// firstUse: the configuration of the first use of a reused encoder (ro=; default: this run's options, unbuffered write-at)
func (c *wrCfg) firstUse() *wrCfg {
	if c.first != nil {
		return c.first
	}
	fc := *c
	fc.kind, fc.bs = "at", 0
	return &fc
}

// wrWarmFile: what a reused encoder wrote to its first destination (rs=)
var wrWarmFile = wFile{msgs: []wMsg{{num: 18, fields: []wField{
	{num: 253, bt: int(basetype.Uint32), tag: int(proto.TypeUint32), data: []byte{0x40, 0x41, 0x42, 0x43}},
	{num: 1, bt: int(basetype.Uint8), tag: int(proto.TypeUint8), data: []byte{7}}}}}}

func wrCheck(b []byte) string {
	n, err := decoder.New(bytes.NewReader(b)).CheckIntegrity()
	if err == nil {
		return fmt.Sprintf("ok:%d", n)
	}
	return fmt.Sprintf("bad:%d", n)
}

func wrJoinInts(xs []int) string {
	if len(xs) == 0 {
		return "-"
	}
	s := make([]string, len(xs))
	for i, x := range xs {
		s[i] = strconv.Itoa(x)
	}
	return strings.Join(s, ",")
}

func wrJoin(xs []string) string {
	if len(xs) == 0 {
		return "-"
	}
	return strings.Join(xs, ",")
}

func execWr(args []string) string {
	c, ok := wrParse(args)
	if !ok {
		return "bad-op"
	}
	o, bad := wrRunS(c, c.faults, c.shorts)
	if bad {
		return "bad-op"
	}
	if o.refused {
		return "refused"
	}
	return fmt.Sprintf("r=%s hit=%s log=%s out=%s ci=%s", wrJoin(o.results), wrJoinInts(o.hits), wrJoin(o.log), hex.EncodeToString(o.out), wrCheck(o.out))
}

func wrFnv(b []byte) uint64 {
	h := uint64(0xcbf29ce484222325)
	for _, x := range b {
		h = (h ^ uint64(x)) * 0x100000001b3
	}
	return h
}

// wrDig: digest of the bytes handed to one destination operation (low 32 bits of FNV-1a 64), part of its log entry: the
// operation logs of model and implementation agree on WHAT each operation carried, not only on how much
func wrDig(p []byte) string { return fmt.Sprintf("%08x", uint32(wrFnv(p))) }

// wrLogLen: payload length of a log entry (0 for a seek)
func wrLogLen(e string) int {
	if len(e) == 0 || (e[0] != 'w' && e[0] != 'a') {
		return 0
	}
	i := 1
	for i < len(e) && e[i] >= '0' && e[i] <= '9' {
		i++
	}
	return atoi(e[1:i])
}

func execWrX(args []string) string {
	c, ok := wrParse(args)
	if !ok || c.hasFaultArgument || c.app {
		return "bad-op"
	}
	base, bad := wrRun(c, nil)
	if bad {
		return "bad-op"
	}
	if base.refused {
		return "refused"
	}
	var sb strings.Builder
	n := 0
	for k, e := range base.log {
		ln := wrLogLen(e)
		js := []int{0}
		if e[0] != 's' {
			for _, j := range []int{1, ln - 1, ln} {
				if j > 0 && j <= ln && j != js[len(js)-1] {
					js = append(js, j)
				}
			}
		}
		for _, j := range js {
			o, _ := wrRun(c, map[int]int{k: j})
			ci := wrCheck(o.out)
			fmt.Fprintf(&sb, " %d.%d=%s/%s/%016x/%s", k, j, wrJoin(o.results), wrJoinInts(o.hits), wrFnv(o.out), ci)
			if strings.HasPrefix(ci, "ok") {
				sb.WriteString("/" + hex.EncodeToString(o.out))
			}
			// the faulted run must have left exactly the crash state "first k operations of the healthy run, j bytes of the next"
			if !bytes.Equal(o.out, wrReplay(c.pre, c.pos, base.raw, k, j)) || len(o.log) != k+1 {
				sb.WriteString("/not-a-crash-prefix")
			}
			n++
		}
	}
	return fmt.Sprintf("n=%d%s", n, sb.String())
}

var wrKinds = []string{"plain", "at", "seek", "both"}
var wrSizes = []int{-1, 0, 1, 2, 3, 7, 13, 14, 15, 16, 64, 4096, 65536}

// wrStreamComparable: the stream encoder writes its own (default) header; its output can equal the batch output only
// when every FIT value's header normalises to that header
func (c *wrCfg) wrStreamComparable() bool {
	for _, f := range c.files {
		if f.size == 12 || (f.profileVer != 0 && f.profileVer != 21158) || (c.pv == 0 && f.protoVer != 0 && f.protoVer != 16) {
			return false
		}
	}
	return true
}

func execWrC(args []string) string {
	c, ok := wrParse(args)
	if !ok || c.hasFaultArgument {
		return "bad-op"
	}
	var ref []byte
	refName, n := "", 0
	for _, mode := range []string{"b", "c", "s"} {
		if mode == "s" && !c.wrStreamComparable() {
			continue
		}
		for _, kind := range wrKinds {
			if mode == "s" && kind == "plain" {
				continue
			}
			if kind == "at" && len(c.pre) != 0 { // documented: a write-at destination must be the encoder's own
				continue
			}
			for _, bs := range wrSizes {
				cc := *c
				cc.kind, cc.mode, cc.bs, cc.pos, cc.reuse, cc.app = kind, mode, bs, len(c.pre), 0, false
				o, bad := wrRun(&cc, nil)
				if bad {
					return "bad-op"
				}
				name := fmt.Sprintf("%s/%s/%d", mode, kind, bs)
				for _, r := range o.results {
					if r != "ok" {
						if n == 0 {
							return "rejected"
						}
						return fmt.Sprintf("differ %s %s(%s)", refName, name, r)
					}
				}
				if n == 0 {
					ref, refName = o.out, name
				} else if !bytes.Equal(ref, o.out) {
					return fmt.Sprintf("differ %s %s", refName, name)
				}
				n++
			}
		}
	}
	return fmt.Sprintf("same %d %s", n, hex.EncodeToString(ref))
}

// ---- generators

// wrGenFiles: files with wire-level messages. Timestamps are non-decreasing within a file (the compressed-timestamp
// treatment of other orders is C01's subject and irrelevant to where the bytes go).
func wrGenFiles(rng *Rng, arch byte, nfiles int, defaultHdr bool, small bool, v1safe bool) []wFile {
	nshapes := 1 + rng.Intn(5)
	shapes := make([]shape, nshapes)
	for i := range shapes {
		s := &shapes[i]
		s.num = []int{0, 18, 19, 20, 21, 49, 206, 65280, 300}[rng.Intn(9)]
		nf := rng.Intn(4)
		if !small && rng.Intn(30) == 0 {
			nf = 100 + rng.Intn(155)
		}
		s.hasTs = rng.Intn(2) == 0
		for j := 0; j < nf; j++ {
			maxElems := 6
			if small {
				maxElems = 2
			}
			tag, data := randWireValue(rng, arch, maxElems)
			if small && len(data) > 24 { // randWireValue sometimes fills 255 bytes
				tag, data = proto.TypeUint8, []byte{byte(rng.Intn(255))}
			}
			bts := tagBaseTypes[scalarOf(proto.Type(tag))]
			bt := bts[rng.Intn(len(bts))]
			if v1safe && bt&basetype.BaseTypeNumMask > basetype.Byte&basetype.BaseTypeNumMask { // protocol 1.0 has no 64-bit types
				tag, data, bt = proto.TypeUint8, []byte{byte(rng.Intn(255))}, basetype.Uint8
			}
			s.fields = append(s.fields, wField{num: rng.Intn(250), bt: int(bt), tag: int(tag), data: data})
		}
		if !v1safe && rng.Intn(5) == 0 {
			for j := 0; j < 1+rng.Intn(2); j++ {
				tag, data := randWireValue(rng, arch, 3)
				s.devs = append(s.devs, wField{num: rng.Intn(256), bt: rng.Intn(3), tag: int(tag), data: data})
			}
		}
		if len(s.fields) == 0 && len(s.devs) == 0 && !s.hasTs {
			s.fields = append(s.fields, wField{num: 1, bt: int(basetype.Uint8), tag: int(proto.TypeUint8), data: []byte{byte(rng.Intn(255))}})
		}
	}
	var files []wFile
	for f := 0; f < nfiles; f++ {
		file := wFile{}
		if !defaultHdr {
			file = wFile{size: []int{14, 14, 12, 0, 13}[rng.Intn(5)], protoVer: []int{0x20, 0x20, 0x23, 0, 0x10}[rng.Intn(5)],
				profileVer: []int{0, 0, 2158, 65535}[rng.Intn(4)]}
			if rng.Intn(3) == 0 {
				file.dataSize = uint32(rng.Intn(120))
			}
		}
		nm := 1 + rng.Intn(6)
		if !small && rng.Intn(6) == 0 {
			nm = 1 + rng.Intn(40)
		}
		if rng.Intn(25) == 0 { // no message at all: Encode refuses; SequenceCompleted alone writes a bare CRC
			nm = 0
		}
		ts := uint32(0x10000000 + rng.Intn(1<<28))
		for k := 0; k < nm; k++ {
			s := shapes[rng.Intn(len(shapes))]
			m := wMsg{num: s.num}
			for _, fl := range s.fields {
				nf := fl
				if rng.Intn(2) == 0 && proto.Type(fl.tag) < proto.TypeString {
					nf.data = canonBool(proto.Type(fl.tag), rng.Bytes(len(fl.data)))
				}
				m.fields = append(m.fields, nf)
			}
			m.devs = append(m.devs, s.devs...)
			if s.hasTs {
				switch rng.Intn(8) {
				case 0, 1, 2, 3:
					ts += uint32(rng.Intn(4))
				case 4:
					ts += uint32(rng.Intn(40))
				case 5:
					ts += 32
				}
				tf := wField{num: 253, bt: int(basetype.Uint32), tag: int(proto.TypeUint32), data: putU32(arch, ts)}
				pos := 0
				if rng.Intn(3) == 0 && len(m.fields) > 0 {
					pos = rng.Intn(len(m.fields) + 1)
				}
				m.fields = append(m.fields[:pos:pos], append([]wField{tf}, m.fields[pos:]...)...)
			}
			file.msgs = append(file.msgs, m)
		}
		files = append(files, file)
	}
	return files
}

// wrMark sprinkles the fields/messages the wrValidator reacts to
func wrMark(rng *Rng, files []wFile, reject bool) {
	for fi := range files {
		for mi := range files[fi].msgs {
			m := &files[fi].msgs[mi]
			if rng.Intn(2) == 0 {
				m.fields = append(m.fields, wField{num: 250, bt: int(basetype.Uint8), tag: int(proto.TypeUint8), data: []byte{byte(rng.Intn(255))}})
			}
			if rng.Intn(2) == 0 {
				m.fields = append([]wField{{num: 251, bt: int(basetype.Uint16), tag: int(proto.TypeUint16), data: rng.Bytes(2)}}, m.fields...)
			}
			if reject && rng.Intn(12) == 0 {
				m.num = 65001
			}
		}
	}
}

func wrFileTokens(files []wFile) []string {
	var t []string
	for _, f := range files {
		t = append(t, f.tokens()...)
	}
	return t
}

type wrGenCfg struct {
	arch, hopt, lmt, pv, v int
}

func wrGenOpts(rng *Rng) wrGenCfg {
	g := wrGenCfg{arch: rng.Intn(2), hopt: rng.Intn(2), lmt: rng.Intn(4)}
	switch rng.Intn(5) {
	case 0:
		g.lmt = rng.Intn(16)
	case 1:
		g.lmt = 0
	}
	g.pv = []int{0, 0, 0x20, 0x20, 0x21, 0x10}[rng.Intn(6)]
	return g
}

// v1safe: the run is (or may be) under protocol 1.0 — keep to what it allows, most of the time
func (g wrGenCfg) v1safe(rng *Rng) bool { return (g.pv == 0 || g.pv == 0x10) && rng.Intn(10) != 0 }

func (g wrGenCfg) toks() string {
	return fmt.Sprintf("a=%d h=%d l=%d pv=%d v=%d", g.arch, g.hopt, g.lmt, g.pv, g.v)
}

func wrRandSize(rng *Rng) int {
	if rng.Intn(3) == 0 {
		return rng.Intn(40) - 2
	}
	return wrSizes[rng.Intn(len(wrSizes))]
}

// wrPre: a pre-filled destination: arbitrary bytes, or a sequence a real encoder wrote earlier
func wrPre(rng *Rng, arch byte) string {
	switch rng.Intn(4) {
	case 0:
		return hex.EncodeToString(rng.Bytes(1 + rng.Intn(20)))
	case 1:
		files := wrGenFiles(rng, arch, 1, true, true, true)
		c := &wrCfg{kind: "plain", mode: "b", bs: 0, arch: int(arch), files: files}
		o, bad := wrRun(c, nil)
		if bad || len(o.out) == 0 {
			return "-"
		}
		return hex.EncodeToString(o.out)
	}
	return "-"
}

// wrReuse: now and then the encoder is a used one (token " rs=<1|2>", else "")
func wrReuse(rng *Rng) string {
	if rng.Intn(5) != 0 {
		return ""
	}
	count("reused-encoder")
	rs := 1 + rng.Intn(2)
	if rng.Intn(4) == 0 { // same options as the run, unbuffered write-at destination
		return fmt.Sprintf(" rs=%d", rs)
	}
	// the first use under its own options: every option the encoder keeps, and another destination kind / buffer size
	count("reused-encoder-other-options")
	return fmt.Sprintf(" rs=%d ro=%d.%d.%d.%d.%d.%d.%s", rs, []int{0x20, 0x20, 0x10, 0, 0x21}[rng.Intn(5)], rng.Intn(2), rng.Intn(2), rng.Intn(16),
		rng.Intn(2), wrRandSize(rng), wrKinds[1+rng.Intn(3)])
}

// wrPos: now and then a pre-filled destination is NOT positioned at its end (token " pos=<n>", else "")
// wrCx: cancel the context of one call after k polls (k up to a little beyond the 2·len polls of the early-check strategy)
func wrCx(rng *Rng, files []wFile) string {
	i := rng.Intn(len(files))
	return fmt.Sprintf(" cx=%d.%d", i, rng.Intn(2*len(files[i].msgs)+2))
}

func wrPos(rng *Rng, pre string) string {
	if pre == "-" || rng.Intn(6) != 0 {
		return ""
	}
	count("not-at-end")
	return fmt.Sprintf(" pos=%d", rng.Intn(len(pre)/2+1))
}

func genEncWriters(emit func(string), tier string, rng *Rng) {
	n := 8000
	if tier == "thorough" {
		n = 250000
	}
	for it := 0; it < n; it++ {
		g := wrGenOpts(rng)
		nfiles := 1
		if rng.Intn(3) == 0 {
			nfiles = 1 + rng.Intn(4)
		}
		mode := []string{"b", "c", "s"}[rng.Intn(3)]
		kind := wrKinds[rng.Intn(4)]
		if mode == "s" && kind == "plain" && rng.Intn(10) != 0 {
			kind = wrKinds[1+rng.Intn(3)]
		}
		files := wrGenFiles(rng, byte(g.arch), nfiles, mode == "s" || rng.Intn(2) == 0, rng.Intn(3) != 0, g.v1safe(rng))
		if rng.Intn(3) == 0 {
			g.v = 1
			wrMark(rng, files, rng.Intn(4) == 0)
		}
		pre := "-"
		if rng.Intn(4) == 0 {
			pre = wrPre(rng, byte(g.arch))
		}
		cont := 0
		if rng.Intn(8) == 0 {
			cont = 1
		}
		ap := ""
		if kind != "at" && rng.Intn(25) == 0 {
			ap = " ap=1"
			count("append-mode")
		}
		cx := ""
		if mode == "c" && rng.Intn(2) == 0 {
			cx = wrCx(rng, files)
			if rng.Intn(2) == 0 {
				cont = 1 // go on after the cancelled call
			}
			count("ctx-cancel")
		}
		if mode != "s" && pre == "-" && ap == "" && rng.Intn(40) == 0 {
			kind = "nil"
		}
		emit(fmt.Sprintf("wr k=%s bs=%d m=%s%s %s pre=%s%s%s%s f=- c=%d %s", kind, wrRandSize(rng), mode, cx, g.toks(), pre, wrPos(rng, pre), wrReuse(rng), ap, cont, strings.Join(wrFileTokens(files), " ")))
		count("wr/" + mode + "/" + kind)
		if it%40 == 0 {
			// directed: the context cancelled at EVERY poll k of one call (0 … 2·len+1: dry run, real pass, never), plain and direct kinds
			gc := wrGenOpts(rng)
			fc := wrGenFiles(rng, byte(gc.arch), 1+rng.Intn(2), rng.Intn(2) == 0, true, gc.v1safe(rng))
			fi := rng.Intn(len(fc))
			for _, kc := range []string{"plain", wrKinds[1+rng.Intn(3)]} {
				bsc := wrRandSize(rng)
				for k := 0; k <= 2*len(fc[fi].msgs)+1; k++ {
					emit(fmt.Sprintf("wr k=%s bs=%d m=c cx=%d.%d %s pre=- f=- c=%d %s", kc, bsc, fi, k, gc.toks(), rng.Intn(2), strings.Join(wrFileTokens(fc), " ")))
					count("ctx-cancel-every-k")
				}
			}
		}
		count(fmt.Sprintf("files=%d", nfiles))
		if pre != "-" {
			count("prefilled")
		}
		if it%25 == 0 {
			// directed: the caller's header carries a data size that differs from the real one only ABOVE the low byte
			// (a header update keyed on a truncated comparison would be skipped) — random-access kinds, batch
			g3 := wrGenOpts(rng)
			f3 := wrGenFiles(rng, byte(g3.arch), 1, true, rng.Intn(2) == 0, g3.v1safe(rng))
			probe := &wrCfg{kind: "plain", mode: "b", bs: 0, arch: g3.arch, hopt: g3.hopt, lmt: g3.lmt, pv: g3.pv, files: f3}
			if o, bad := wrRun(probe, nil); !bad && len(o.results) == 1 && o.results[0] == "ok" && len(o.out) > 16 {
				d := uint32(len(o.out) - 16)
				f3[0].dataSize = d + 256*uint32(1+rng.Intn(3))
				if d >= 256 && rng.Intn(2) == 0 {
					f3[0].dataSize = d - 256
				}
				emit(fmt.Sprintf("wr k=%s bs=%d m=%s %s pre=- f=- c=0 %s", wrKinds[1+rng.Intn(3)], wrRandSize(rng), []string{"b", "c"}[rng.Intn(2)], g3.toks(), strings.Join(wrFileTokens(f3), " ")))
				count("datasize-low-byte-equal")
			}
		}
		if it%4 == 0 {
			// cross-configuration comparison on the implementation itself
			g2 := wrGenOpts(rng)
			files2 := wrGenFiles(rng, byte(g2.arch), 1+rng.Intn(3), rng.Intn(4) != 0, true, g2.v1safe(rng))
			if rng.Intn(3) == 0 {
				g2.v = 1
				wrMark(rng, files2, false)
			}
			pre2 := "-"
			if rng.Intn(4) == 0 {
				pre2 = wrPre(rng, byte(g2.arch))
			}
			emit(fmt.Sprintf("wrc %s pre=%s %s", g2.toks(), pre2, strings.Join(wrFileTokens(files2), " ")))
			count("wrc")
		}
	}
}

// wrCraftStale searches for a two-sequence stream input whose second sequence, cut before its completion, is a
// byte-for-byte repetition of the first one PROVIDED the second header is written with the first sequence's data
// size: sequence 1 = [M(v)], sequence 2 = [M(v), M(x)] where the record of M(x) equals the two CRC bytes of sequence 1.
// (A header that carries a zero data size until completion makes every such prefix a non-FIT stream.)
func wrCraftStale(rng *Rng) []wFile {
	for tries := 0; tries < 20000; tries++ {
		num := []int{0, 18, 20, 49, 300}[rng.Intn(5)]
		fnum := rng.Intn(250)
		v := byte(rng.Intn(255))
		m := wMsg{num: num, fields: []wField{{num: fnum, bt: int(basetype.Uint8), tag: int(proto.TypeUint8), data: []byte{v}}}}
		c := &wrCfg{kind: "plain", mode: "b", bs: 0, files: []wFile{{msgs: []wMsg{m}}}}
		o, bad := wrRun(c, nil)
		if bad || len(o.out) < 16 {
			continue
		}
		lo, hi := o.out[len(o.out)-2], o.out[len(o.out)-1]
		if lo != 0 { // the data record starts with its header byte: local message type 0
			continue
		}
		m2 := wMsg{num: num, fields: []wField{{num: fnum, bt: int(basetype.Uint8), tag: int(proto.TypeUint8), data: []byte{hi}}}}
		return []wFile{{msgs: []wMsg{m}}, {msgs: []wMsg{m, m2}}}
	}
	return nil
}

func genEncFaults(emit func(string), tier string, rng *Rng) {
	n := 1200
	if tier == "thorough" {
		n = 30000
	}
	// directed: repetition of a completed sequence inside an uncompleted one (stream and batch, every kind)
	if files := wrCraftStale(rng); files != nil {
		for _, mode := range []string{"s", "b"} {
			for _, kind := range []string{"seek", "at", "both", "plain"} {
				if mode == "s" && kind == "plain" {
					continue
				}
				for _, bs := range []int{0, 4096} {
					emit(fmt.Sprintf("wrx k=%s bs=%d m=%s a=0 h=0 l=0 pv=0 v=0 pre=- c=0 %s", kind, bs, mode, strings.Join(wrFileTokens(files), " ")))
					count("crafted-repetition")
				}
			}
		}
	}
	for it := 0; it < n; it++ {
		g := wrGenOpts(rng)
		nfiles := 1
		if rng.Intn(3) == 0 {
			nfiles = 2 + rng.Intn(2)
		}
		files := wrGenFiles(rng, byte(g.arch), nfiles, rng.Intn(5) != 0, true, g.v1safe(rng))
		if rng.Intn(5) == 0 {
			g.v = 1
			wrMark(rng, files, false)
		}
		ft := strings.Join(wrFileTokens(files), " ")
		pre := "-"
		if rng.Intn(6) == 0 {
			pre = wrPre(rng, byte(g.arch))
		}
		// sweep: every fault point of this input, for a few configurations
		for _, mode := range []string{[]string{"b", "c"}[rng.Intn(2)], "s"} {
			kinds := []string{wrKinds[rng.Intn(4)], wrKinds[rng.Intn(4)]}
			for _, kind := range kinds {
				if mode == "s" && kind == "plain" {
					kind = "seek"
				}
				bs := []int{0, 0, 1, 14, 4096, wrRandSize(rng)}[rng.Intn(6)]
				cx := ""
				if mode == "c" && rng.Intn(2) == 0 {
					cx = wrCx(rng, files) // every fault point of a run whose context gets cancelled
					count("wrx-ctx-cancel")
				}
				emit(fmt.Sprintf("wrx k=%s bs=%d m=%s%s %s pre=%s%s%s c=0 %s", kind, bs, mode, cx, g.toks(), pre, wrPos(rng, pre), wrReuse(rng), ft))
				count("wrx/" + mode + "/" + kind)
			}
		}
		// single runs with one or several faults, some continuing after the error
		for r := 0; r < 6; r++ {
			mode := []string{"b", "c", "s", "s"}[rng.Intn(4)]
			kind := wrKinds[rng.Intn(4)]
			if mode == "s" && kind == "plain" && rng.Intn(8) != 0 {
				kind = "both"
			}
			nf := 1
			if rng.Intn(3) == 0 {
				nf = 2 + rng.Intn(3)
			}
			seen := map[int]bool{}
			var fs []string
			for i := 0; i < nf; i++ {
				k := rng.Intn(30)
				if rng.Intn(3) == 0 {
					k = rng.Intn(6)
				}
				if seen[k] {
					continue
				}
				seen[k] = true
				sep := "."
				if rng.Intn(6) == 0 { // a destination that breaks the contract: short count, nil error
					sep = "s"
					count("short-write-entry")
				}
				fs = append(fs, fmt.Sprintf("%d%s%d", k, sep, []int{0, 0, 1, 2, 5, 13, 14, 1000}[rng.Intn(8)]))
			}
			cont := rng.Intn(2)
			cx := ""
			if mode == "c" && rng.Intn(2) == 0 && !strings.Contains(strings.Join(fs, ","), "s") {
				cx = wrCx(rng, files)
				count("wr-faults-ctx-cancel")
			}
			emit(fmt.Sprintf("wr k=%s bs=%d m=%s%s %s pre=%s%s%s f=%s c=%d %s", kind, wrRandSize(rng), mode, cx, g.toks(), pre, wrPos(rng, pre), wrReuse(rng), strings.Join(fs, ","), cont, ft))
			count(fmt.Sprintf("wr-faults/%s/c=%d", mode, cont))
		}
	}
}
