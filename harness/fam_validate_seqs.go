package main

// Family `validate`, section k: SEVERAL sequences through ONE real Encoder (one Encode per sequence: a chain of FIT files)
// and ONE real StreamEncoder (SequenceCompleted between them), and Encoder.Reset / StreamEncoder.Reset with the same options —
// the same validator object included — between uses. A later sequence depends on validator state of an earlier one: it
// uses a developer field whose developer data id / field description only the earlier sequence declared (must be rejected:
// every FIT file of a chain stands on its own, a decoder starts each with an empty developer-data table), re-declares the
// same key with ANOTHER base type or native field (the new description must apply), follows a sequence that failed half
// way. The model answers every sequence from a fresh validator state (`gateBatch` from `{}`, `gateStream` from `{}` after
// `seq` / `reset`): what `Encoder.reset()` must guarantee (seeded change C10-4: reset() no longer resets the validator).
// Both modes (results carried / arithmetic inside the model).

import (
	"github.com/muktihari/fit/kit/scaleoffset"
	"github.com/muktihari/fit/profile/basetype"
	"github.com/muktihari/fit/profile/factory"
	"github.com/muktihari/fit/profile/typedef"
	"github.com/muktihari/fit/proto"
)

func genValidateSeqs(emitSeq vaEmit, thorough bool, rng *Rng) {
	seq := proto.Message{Num: 0xfffe}
	rst := proto.Message{Num: 0xffff}
	dv := func(idx, num uint8, v proto.Value) proto.DeveloperField {
		return proto.DeveloperField{DeveloperDataIndex: idx, Num: num, Value: v}
	}
	rec := func(devs ...proto.DeveloperField) proto.Message {
		return proto.Message{Num: mnRecord, Fields: []proto.Field{realField(mnRecord, 3, proto.Uint8(70))}, DeveloperFields: devs}
	}
	fileID := proto.Message{Num: mnFileId, Fields: []proto.Field{realField(mnFileId, 0, proto.Uint8(4))}}
	fdPlain := func(idx, num, bt uint8) proto.Message {
		return fieldDescMesg(fdSpec{ddi: idx, fdn: num, bt: bt, scale: -1, offset: 1000, nmn: -1, nfn: -1})
	}
	fdNat := func(idx, num uint8, mn typedef.MesgNum, fn byte) proto.Message {
		f := factory.StandardFactory().CreateField(mn, fn)
		return fieldDescMesg(fdSpec{ddi: idx, fdn: num, bt: uint8(f.BaseType), scale: -1, offset: 1000, nmn: int(mn), nfn: int(fn)})
	}
	physOf := func(mn typedef.MesgNum, fn byte, raw uint16) proto.Value {
		f := factory.StandardFactory().CreateField(mn, fn)
		return scaleoffset.ApplyValue(proto.Uint16(raw), f.Scale, f.Offset)
	}
	tooLong := mkField(1, basetype.String, proto.String(string(make([]byte, 300)))) // makes a sequence fail half way
	k := 0
	emitBoth := func(msgs []proto.Message, tag string) {
		// the same sequences through the batch gate (one Encode each), the stream gate, and — separators read as Reset() of
		// the validator — through the bare validator
		for _, sepTok := range []proto.Message{seq, rst} {
			line := make([]proto.Message, len(msgs))
			for i := range msgs {
				line[i] = msgs[i]
				if isSeqTok(&msgs[i]) {
					line[i] = sepTok
				}
			}
			for _, op := range []string{"encgate", "streamgate"} {
				for _, v := range []string{"v:20 h:00 ", "v:00 h:00 "} {
					if v != "v:20 h:00 " && k%4 != 0 { // under protocol 1.0 every developer field is refused: a quarter of the lines
						continue
					}
					emitSeq(op, k%2 == 0, true, nil, line, v)
					count(tag)
				}
			}
			k++
		}
		var bare []proto.Message
		for i := range msgs {
			if isSeqTok(&msgs[i]) {
				bare = append(bare, rst)
			} else {
				bare = append(bare, msgs[i])
			}
		}
		emitSeq("validate", k%2 == 0, true, nil, bare, "")
		count(tag + "-validator")
	}
	cat := func(parts ...[]proto.Message) []proto.Message {
		var out []proto.Message
		for _, p := range parts {
			out = append(out, p...)
		}
		return out
	}
	one := func(ms ...proto.Message) []proto.Message { return ms }

	for _, idx := range []uint8{0, 1, 255} {
		for _, num := range []uint8{0, 1, 7} {
			if !thorough && idx != 0 && num != 0 && !(idx == 1 && num == 1) {
				continue
			}
			decl := one(fileID, devDataIdMesg(idx), fdPlain(idx, num, 0x02))
			use := rec(dv(idx, num, proto.Uint8(5)))
			// (1) the second sequence uses what only the first declared
			emitBoth(cat(decl, one(use, seq, fileID, use)), "seqs-undeclared")
			emitBoth(cat(decl, one(use, seq, use)), "seqs-undeclared")
			// … only the developer data id re-declared (description missing), only the description (index missing)
			emitBoth(cat(decl, one(use, seq, fileID, devDataIdMesg(idx), use)), "seqs-half-declared")
			emitBoth(cat(decl, one(use, seq, fileID, fdPlain(idx, num, 0x02), use)), "seqs-half-declared")
			// … fully re-declared: accepted again; and a third sequence without declarations
			emitBoth(cat(decl, one(use, seq), decl, one(use, seq, fileID, use)), "seqs-redeclared")
			// (2) the same key re-declared with ANOTHER base type: the new description applies (uint16 now aligns, uint8 no longer)
			emitBoth(cat(decl, one(use, seq, fileID, devDataIdMesg(idx), fdPlain(idx, num, 0x84), rec(dv(idx, num, proto.Uint16(5))), use)), "seqs-other-type")
			// (3) the first sequence fails half way (after its declarations): nothing of it may back the second
			emitBoth(cat(decl, one(proto.Message{Num: mnFileId, Fields: []proto.Field{tooLong}}, use, seq, fileID, use)), "seqs-after-failure")
			emitBoth(cat(one(fileID, devDataIdMesg(idx), use, seq), decl, one(use, seq, use)), "seqs-after-failure")
		}
	}
	// (4) the same key mapped to ANOTHER native field in the next sequence (scaled float64 values): lap.avg_altitude (19/42,
	// scale 5 offset 500) then session.avg_stroke_distance (18/42, scale 100), and the other way round; record.altitude / speed
	nat := [][2]struct {
		mn typedef.MesgNum
		fn byte
	}{{{19, 42}, {18, 42}}, {{18, 42}, {19, 42}}, {{20, 2}, {20, 6}}, {{20, 6}, {20, 2}}}
	for i, pr := range nat {
		a, b := pr[0], pr[1]
		ra, rb := uint16(2600+i), uint16(250+i)
		emitBoth(one(fileID, devDataIdMesg(0), fdNat(0, 0, a.mn, a.fn), rec(dv(0, 0, physOf(a.mn, a.fn, ra))), seq,
			fileID, devDataIdMesg(0), fdNat(0, 0, b.mn, b.fn), rec(dv(0, 0, physOf(b.mn, b.fn, rb))), seq,
			fileID, rec(dv(0, 0, physOf(b.mn, b.fn, rb)))), "seqs-other-native")
	}
	// (5) random chains: 2..4 sequences, each declaring a random subset of (index 0..2, number 0..2) and using random keys
	nr := 250
	if thorough {
		nr = 5000
	}
	for it := 0; it < nr; it++ {
		var msgs []proto.Message
		for s, ns := 0, 2+rng.Intn(3); s < ns; s++ {
			if s > 0 {
				msgs = append(msgs, seq)
			}
			msgs = append(msgs, fileID)
			for i := uint8(0); i < 3; i++ {
				if rng.Intn(3) != 0 {
					msgs = append(msgs, devDataIdMesg(i))
				}
				for j := uint8(0); j < 3; j++ {
					if rng.Intn(3) == 0 {
						msgs = append(msgs, fdPlain(i, j, []uint8{0x02, 0x84, 0x02}[rng.Intn(3)]))
					}
				}
			}
			for n := 1 + rng.Intn(3); n > 0; n-- {
				var devs []proto.DeveloperField
				for c := 1 + rng.Intn(2); c > 0; c-- {
					v := proto.Uint8(byte(rng.Intn(200)))
					if rng.Intn(4) == 0 {
						v = proto.Uint16(9)
					}
					devs = append(devs, dv(uint8(rng.Intn(3)), uint8(rng.Intn(3)), v))
				}
				msgs = append(msgs, rec(devs...))
			}
		}
		emitBoth(msgs, "seqs-random")
	}
}
