package main

import (
	"fmt"
	"strings"

	"github.com/muktihari/fit/decoder"
	"github.com/muktihari/fit/profile"
	"github.com/muktihari/fit/profile/basetype"
	"github.com/muktihari/fit/profile/factory"
	"github.com/muktihari/fit/profile/untyped/fieldnum"
	"github.com/muktihari/fit/profile/untyped/mesgnum"
	"github.com/muktihari/fit/proto"
)

func init() { executors["integconsts"] = execIntegConsts }

// integconsts: the constants and profile facts the integrity/framing model depends on, printed as the
// body of lean/FitModel/Generated/IntegrityConsts.lean (" ; " separates lines). Regenerated on every run
// (checklib/props/C04.py), so the model follows the constants of the working tree.
func execIntegConsts(args []string) string {
	var valid []string
	for i := 0; i < 256; i++ {
		if basetype.BaseType(i).Valid() {
			valid = append(valid, fmt.Sprintf("0x%02X", i))
		}
	}
	var tag []string
	for _, c := range []byte(proto.DataTypeFIT) {
		tag = append(tag, fmt.Sprintf("0x%02X", c))
	}
	// facts about the field_description message (206) as the standard factory defines it: the three fields
	// the decoder reads back (developer_data_index, field_definition_number, fit_base_type_id) are scalar
	// one-byte non-bool fields, and no field of the message expands into components (so the message's field
	// list is exactly what the definition says).
	plain := true
	fac := factory.StandardFactory()
	for _, num := range []byte{fieldnum.FieldDescriptionDeveloperDataIndex, fieldnum.FieldDescriptionFieldDefinitionNumber, fieldnum.FieldDescriptionFitBaseTypeId} {
		f := fac.CreateField(mesgnum.FieldDescription, num)
		if f.Name == factory.NameUnknown || f.BaseType.Size() != 1 || f.Array || f.Type == profile.Bool || f.BaseType == basetype.String || f.BaseType == basetype.Sint8 {
			plain = false
		}
	}
	known := 0 // bit set of the field numbers 0..15 of message 206 the factory knows
	for num := 0; num < 256; num++ {
		f := fac.CreateField(mesgnum.FieldDescription, byte(num))
		if f.Name == factory.NameUnknown {
			continue
		}
		if num < 16 {
			known |= 1 << num
		}
		if len(f.Components) != 0 {
			plain = false
		}
		for _, sf := range f.SubFields {
			if len(sf.Components) != 0 {
				plain = false
			}
		}
	}
	lines := []string{
		fmt.Sprintf("def reservedbuf : Nat := %d", decoder.VerifReservedBuf),
		fmt.Sprintf("def validBaseTypes : List Nat := [%s]", strings.Join(valid, ", ")),
		fmt.Sprintf("def dataTypeFIT : List Nat := [%s]", strings.Join(tag, ", ")),
		fmt.Sprintf("def mesgDefinitionMask : Nat := 0x%02X", proto.MesgDefinitionMask),
		fmt.Sprintf("def mesgCompressedHeaderMask : Nat := 0x%02X", proto.MesgCompressedHeaderMask),
		fmt.Sprintf("def localMesgNumMask : Nat := 0x%02X", proto.LocalMesgNumMask),
		fmt.Sprintf("def compressedLocalMesgNumMask : Nat := 0x%02X", proto.CompressedLocalMesgNumMask),
		fmt.Sprintf("def compressedBitShift : Nat := %d", proto.CompressedBitShift),
		fmt.Sprintf("def devDataMask : Nat := 0x%02X", proto.DevDataMask),
		fmt.Sprintf("def littleEndian : Nat := %d", proto.LittleEndian),
		fmt.Sprintf("def mesgNumFieldDescription : Nat := %d", mesgnum.FieldDescription),
		fmt.Sprintf("def fdDeveloperDataIndex : Nat := %d", fieldnum.FieldDescriptionDeveloperDataIndex),
		fmt.Sprintf("def fdFieldDefinitionNumber : Nat := %d", fieldnum.FieldDescriptionFieldDefinitionNumber),
		fmt.Sprintf("def fdFitBaseTypeId : Nat := %d", fieldnum.FieldDescriptionFitBaseTypeId),
		fmt.Sprintf("def uint8Invalid : Nat := %d", basetype.Uint8Invalid),
		fmt.Sprintf("def fdFieldsPlain : Bool := %v", plain),
		fmt.Sprintf("def fdKnownMask : Nat := 0x%04X", known),
	}
	return strings.Join(lines, " ; ")
}
