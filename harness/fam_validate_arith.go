package main

// Family `validate`, section i: operation lines whose restoration arithmetic (scaleoffset.DiscardValue on float64-typed
// values) and native-field look-ups are computed INSIDE the Lean model (`dv:=`, `fac:s/=`): the line carries the messages and
// the options only. Physical values that are exact images of raw values (ApplyValue), values next to a rounding boundary
// (k + 1/2 in raw units, one and two ulps either side), values outside the range of the base type, ±0, ±Inf, NaN (integer
// targets), subnormals, huge values; scalar and slice values; fields of the real profile, developer fields with native
// overrides (every scaled field of the standard factory at least once) and with the description's own scale / offset;
// custom factories with unusual pairs.

import (
	"math"

	"github.com/muktihari/fit/kit/scaleoffset"
	"github.com/muktihari/fit/profile/basetype"
	"github.com/muktihari/fit/profile/factory"
	"github.com/muktihari/fit/profile/typedef"
	"github.com/muktihari/fit/proto"
)

type vaEmit func(op string, preserve, std bool, custom tableFactory, msgs []proto.Message, extra string)

// vaScaledField: a field of the standard factory with a scale / offset other than (1, 0)
type vaScaledField struct {
	mn typedef.MesgNum
	fn byte
	f  proto.Field
}

func vaScaledFields() []vaScaledField {
	var out []vaScaledField
	fac := factory.StandardFactory()
	for _, mn := range typedef.ListMesgNum() {
		for i := 0; i < 256; i++ {
			f := fac.CreateField(mn, byte(i))
			if f.FieldBase == nil || f.Name == factory.NameUnknown || (f.Scale == 1 && f.Offset == 0) {
				continue
			}
			out = append(out, vaScaledField{mn, byte(i), f})
		}
	}
	return out
}

// vaRawValue: the raw value `raw` (two's complement pattern) as a proto.Value of the Go type the base type restores to
func vaRawValue(bt basetype.BaseType, raw uint64) (proto.Value, bool) {
	switch bt {
	case basetype.Sint8:
		return proto.Int8(int8(raw)), true
	case basetype.Uint8, basetype.Uint8z, basetype.Byte:
		return proto.Uint8(uint8(raw)), true
	case basetype.Sint16:
		return proto.Int16(int16(raw)), true
	case basetype.Uint16, basetype.Uint16z:
		return proto.Uint16(uint16(raw)), true
	case basetype.Sint32:
		return proto.Int32(int32(raw)), true
	case basetype.Uint32, basetype.Uint32z:
		return proto.Uint32(uint32(raw)), true
	case basetype.Sint64:
		return proto.Int64(int64(raw)), true
	case basetype.Uint64, basetype.Uint64z:
		return proto.Uint64(raw), true
	}
	return proto.Value{}, false
}

func vaBits(bt basetype.BaseType) uint {
	return uint(bt.Size()) * 8
}

// vaRaws: boundary and random raw patterns of the base type's width
func vaRaws(rng *Rng, bt basetype.BaseType, n int) []uint64 {
	w := vaBits(bt)
	mask := uint64(math.MaxUint64)
	if w < 64 {
		mask = (uint64(1) << w) - 1
	}
	rs := []uint64{0, 1, 2, 29, mask, mask - 1, mask >> 1, (mask >> 1) + 1, (mask >> 1) - 1, 1000 & mask, 12345 & mask}
	for i := 0; i < n; i++ {
		rs = append(rs, rng.U64()&mask)
	}
	return rs
}

// vaNear: physical values whose product (x + offset) * scale lies next to the rounding boundary k + 1/2
func vaNear(k, scale, offset float64) []float64 {
	x := (k+0.5)/scale - offset
	d1, u1 := math.Nextafter(x, math.Inf(-1)), math.Nextafter(x, math.Inf(1))
	return []float64{x, d1, u1, math.Nextafter(d1, math.Inf(-1)), math.Nextafter(u1, math.Inf(1)), (k+0.49999)/scale - offset, (k+0.50001)/scale - offset}
}

var vaWild = []float64{0, math.Copysign(0, -1), 1e-320, 5e-324, -5e-324, 1e300, -1e300, math.MaxFloat64, math.Inf(1), math.Inf(-1), math.NaN(),
	4294967295, 4294967296, 4294967295.5, -0.4, -0.5, -0.6, -1, 65535.4, 65535.5, 255.5, 127.5, -128.5, 2147483647.5, -2147483648.5,
	0.49999999999999994, -0.49999999999999994, 1.5, 2.5, -1.5, -2.5, 9007199254740992, 9007199254740993, 9223372036854775807, 18446744073709551615, 1.8446744073709552e19, 0.1, 0.29, 1.0 / 3}

func genValidateArith(emitSeq vaEmit, thorough bool, rng *Rng) {
	scaled := vaScaledFields()
	nRaw := 3
	if thorough {
		nRaw = 40
	}
	mesg := func(mn typedef.MesgNum, fs ...proto.Field) []proto.Message { return []proto.Message{{Num: mn, Fields: fs}} }
	withValue := func(f proto.Field, v proto.Value) proto.Field { f.Value = v; return f }

	// (1) every scaled field of the standard factory: physical values that are exact images of raw values (scalar, and a
	// slice of them), values next to a rounding boundary, values outside the range; both options; validated twice
	for i, sf := range scaled {
		bt := sf.f.BaseType
		raws := vaRaws(rng, bt, nRaw)
		var phys []float64
		for j, raw := range raws {
			rv, ok := vaRawValue(bt, raw)
			if !ok {
				continue
			}
			pv := scaleoffset.ApplyValue(rv, sf.f.Scale, sf.f.Offset)
			if pv.Type() == proto.TypeFloat64 {
				phys = append(phys, pv.Float64())
			}
			emitSeq("validate2", (i+j)%2 == 0, true, nil, mesg(sf.mn, withValue(sf.f, pv)), "")
			count("arith-exact-image")
		}
		emitSeq("validate2", i%2 == 0, true, nil, mesg(sf.mn, withValue(sf.f, proto.SliceFloat64(phys))), "")
		if !thorough && i%4 != 0 {
			continue
		}
		ks := []float64{0, 28, float64(raws[len(raws)-1] % 60000)}
		if _, signed := map[basetype.BaseType]bool{basetype.Sint8: true, basetype.Sint16: true, basetype.Sint32: true, basetype.Sint64: true}[bt]; signed {
			ks = append(ks, -1, -29, -float64(raws[len(raws)-1]%100)-2) // halves on the negative side: math.Round goes away from zero
		}
		for _, k := range ks {
			for _, x := range vaNear(k, sf.f.Scale, sf.f.Offset) {
				emitSeq("validate", false, true, nil, mesg(sf.mn, withValue(sf.f, proto.Float64(x))), "")
				count("arith-near-half")
			}
		}
		for j, x := range vaWild {
			if !thorough && (i/4+j)%3 != 0 {
				continue
			}
			emitSeq("validate2", j%2 == 0, true, nil, mesg(sf.mn, withValue(sf.f, proto.Float64(x))), "")
			count("arith-out-of-range")
		}
		emitSeq("validate", true, true, nil, mesg(sf.mn, withValue(sf.f, proto.SliceFloat64(vaWild))), "")
	}

	// (2) hand-made fields: every integer / float base type × pairs inside and outside C12's range
	pairs := [][2]float64{{100, 0}, {5, 500}, {2, -110}, {0.7111111, 0}, {1000, 0}, {1.0 / 3, 0.25}, {65536, 0}, {1e-3, 0}, {-2, 0}, {0, 0}, {1e300, 0},
		{1, 0.5}, {1, math.Copysign(0, -1)}, {math.Inf(1), 0}, {math.NaN(), 0}, {2, math.NaN()}, {1e-310, 0}, {4, 1e12}}
	for _, btb := range allBaseTypes {
		bt := basetype.BaseType(btb)
		for pi, pr := range pairs {
			f := mkField(7, bt, proto.Float64(0))
			f.Scale, f.Offset = pr[0], pr[1]
			for j, raw := range vaRaws(rng, bt, 1) {
				rv, ok := vaRawValue(bt, raw)
				var pv proto.Value
				if ok {
					pv = scaleoffset.ApplyValue(rv, pr[0], pr[1])
				} else {
					pv = proto.Float64(float64(raw%1000) / 7)
				}
				emitSeq("validate2", (pi+j)%2 == 0, true, nil, mesg(mnRecord, withValue(f, pv)), "")
				count("arith-handmade")
			}
			for j, x := range vaWild {
				if (pi+j)%4 != 0 && !thorough {
					continue
				}
				emitSeq("validate", j%2 == 0, true, nil, mesg(mnRecord, withValue(f, proto.Float64(x)), withValue(f, proto.SliceFloat64([]float64{x, 1.5, -x}))), "")
				count("arith-handmade")
			}
		}
	}

	// (3) developer fields: native override resolved through the standard factory (every scaled field once, plus unscaled,
	// unknown and half-specified natives), and the description's own scale / offset
	ddi0 := devDataIdMesg(0)
	dval := func(v proto.Value) proto.DeveloperField { return proto.DeveloperField{DeveloperDataIndex: 0, Num: 1, Value: v} }
	rec := func(devs ...proto.DeveloperField) proto.Message {
		return proto.Message{Num: mnRecord, Fields: []proto.Field{realField(mnRecord, 3, proto.Uint8(70))}, DeveloperFields: devs}
	}
	for i, sf := range scaled {
		bt := sf.f.BaseType
		spec := fdSpec{ddi: 0, fdn: 1, bt: uint8(bt), scale: []int{-1, 10, 255}[i%3], offset: []int{1000, 3, 127}[i%3], nmn: int(sf.mn), nfn: int(sf.fn)}
		var devs []proto.DeveloperField
		for _, raw := range vaRaws(rng, bt, 1) {
			if rv, ok := vaRawValue(bt, raw); ok {
				devs = append(devs, dval(scaleoffset.ApplyValue(rv, sf.f.Scale, sf.f.Offset)))
			}
		}
		devs = append(devs, dval(proto.Float64(vaWild[i%len(vaWild)])), dval(proto.SliceFloat64([]float64{1.5, 300})))
		emitSeq("validate2", i%2 == 0, true, nil, []proto.Message{ddi0, fieldDescMesg(spec), rec(devs...)}, "")
		count("arith-native")
	}
	for _, nat := range [][2]int{{20, 3}, {20, 200}, {9999, 1}, {0xffff, 2}, {20, 0xff}, {0, 0}, {65280, 1}} {
		spec := fdSpec{ddi: 0, fdn: 1, bt: 0x84, scale: 10, offset: 3, nmn: nat[0], nfn: nat[1]}
		emitSeq("validate2", false, true, nil, []proto.Message{ddi0, fieldDescMesg(spec), rec(dval(proto.Float64(12.5)), dval(proto.Uint16(7)))}, "")
		count("arith-native")
	}
	for _, sc := range []int{0, 1, 2, 3, 7, 10, 100, 128, 254, 255} {
		for _, off := range []int{-128, -1, 0, 1, 100, 126, 127} {
			for _, btb := range []byte{0x01, 0x02, 0x83, 0x84, 0x85, 0x86, 0x88, 0x89, 0x8e, 0x8f, 0x00, 0x07} {
				bt := basetype.BaseType(btb)
				spec := fdSpec{ddi: 0, fdn: 1, bt: btb, scale: sc, offset: off, nmn: -1, nfn: -1}
				var devs []proto.DeveloperField
				for _, raw := range vaRaws(rng, bt, 0)[:6] {
					if rv, ok := vaRawValue(bt, raw); ok && sc != 0 {
						devs = append(devs, dval(scaleoffset.ApplyValue(rv, float64(sc), float64(int8(off)))))
					}
				}
				x := vaWild[(sc+off+128+int(btb))%len(vaWild)]
				devs = append(devs, dval(proto.Float64(x)), dval(proto.Float64(vaNear(28, float64(sc)+1e-9, float64(int8(off)))[0])))
				emitSeq("validate2", (sc+off+128)%2 == 0, true, nil, []proto.Message{ddi0, fieldDescMesg(spec), rec(devs...)}, "")
				count("arith-description")
			}
		}
	}

	// (4) a custom factory (an option of the validator: its table is an input) with unusual pairs
	custom := tableFactory{{20, 2}: {true, 0x84, 7, 2}, {20, 3}: {false, 0x84, 9, 9}, {20, 6}: {true, 0x86, 0.7111111, 0}, {20, 7}: {true, 0x83, -3, 0.5},
		{18, 9}: {true, 0x89, 2, 0}, {18, 10}: {true, 0x88, 1.0 / 3, 1}, {18, 11}: {true, 0x01, 1e-3, 0}, {9999, 1}: {true, 0x86, 1, math.Copysign(0, -1)}}
	for k := range custom {
		spec := fdSpec{ddi: 0, fdn: 1, bt: custom[k].bt, scale: 10, offset: 3, nmn: k[0], nfn: k[1]}
		for j, x := range []float64{12.5, 0.29, -3, 1e9, 70000.5, math.Inf(-1)} {
			emitSeq("validate2", j%2 == 0, false, custom, []proto.Message{ddi0, fieldDescMesg(spec), rec(dval(proto.Float64(x)), dval(proto.SliceFloat64([]float64{x, 2.5})))}, "")
			count("arith-custom-factory")
		}
	}

	// (5) the gates with the arithmetic inside (real Encoder / StreamEncoder in front of the validator)
	for i, sf := range scaled {
		if i%7 != 0 && !thorough {
			continue
		}
		rv, ok := vaRawValue(sf.f.BaseType, 29)
		if !ok {
			continue
		}
		pv := scaleoffset.ApplyValue(rv, sf.f.Scale, sf.f.Offset)
		msgs := []proto.Message{{Num: sf.mn, Fields: []proto.Field{withValue(sf.f, pv)}}, {Num: sf.mn, Fields: []proto.Field{withValue(sf.f, proto.Float64(vaWild[i%len(vaWild)]))}}}
		emitSeq([]string{"encgate", "streamgate"}[i%2], i%3 == 0, true, nil, msgs, "v:20 h:00 ")
		count("arith-gate")
	}
}
