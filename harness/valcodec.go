package main

// Text syntax of a protocol value (shared by every family that carries values; the Lean side is
// lean/Driver/ValCodec.lean — keep the two in step).
//
//	<value>   ::= <tag> ":" <payload>
//	<tag>     ::= inv | bool | i8 | u8 | i16 | u16 | i32 | u32 | i64 | u64 | f32 | f64 | str
//	            | bools | i8s | u8s | i16s | u16s | i32s | u32s | i64s | u64s | f32s | f64s | strs
//	payload of inv            : empty
//	payload of a numeric type : the bit pattern, little-endian, exactly <width> bytes in lower-case hex
//	                            (bool: the typedef.Bool byte; i*: two's complement; f*: IEEE-754 bits)
//	payload of str            : the bytes of the Go string (NOT marshalled: no terminator is added)
//	payload of a numeric slice: the little-endian patterns of the elements, concatenated
//	payload of strs           : each string's bytes in hex followed by "," ("strs:" = [], "strs:," = [""])
//
// The syntax is total on the 25 types and lossless; it never contains blanks, ";", "|", "{" or "}".
//
// Go values handed to proto.Any use the same payloads with a <gotag>:
//
//	<gotag> ::= nil | gobool | tbool | i8 … f64 | str | gobools | tbools | i8s … strs   (typedef.Bool = tbool)
//	          | int | uint | ints | uints | anys | struct | val(<value>)
//	gobool/gobools payload: one byte 00/01 per element.

import (
	"encoding/binary"
	"encoding/hex"
	"fmt"
	"math"
	"strings"

	"github.com/muktihari/fit/profile/typedef"
	"github.com/muktihari/fit/proto"
)

var scalarWidth = map[string]int{"bool": 1, "i8": 1, "u8": 1, "i16": 2, "u16": 2, "i32": 4, "u32": 4, "i64": 8, "u64": 8, "f32": 4, "f64": 8}

func splitTag(s string) (tag, payload string, ok bool) {
	i := strings.IndexByte(s, ':')
	if i < 0 {
		return "", "", false
	}
	return s[:i], s[i+1:], true
}

func leUint(b []byte) uint64 {
	var x uint64
	for i := len(b) - 1; i >= 0; i-- {
		x = x<<8 | uint64(b[i])
	}
	return x
}

func parseStrs(payload string) ([]string, bool) {
	if payload == "" {
		return []string{}, true
	}
	if !strings.HasSuffix(payload, ",") {
		return nil, false
	}
	parts := strings.Split(payload[:len(payload)-1], ",")
	out := make([]string, 0, len(parts))
	for _, p := range parts {
		b, err := hex.DecodeString(p)
		if err != nil {
			return nil, false
		}
		out = append(out, string(b))
	}
	return out, true
}

// parseValue builds the value with the TYPED constructors of package proto.
func parseValue(s string) (proto.Value, bool) {
	tag, payload, ok := splitTag(s)
	if !ok {
		return proto.Value{}, false
	}
	if tag == "strs" {
		ss, ok := parseStrs(payload)
		if !ok {
			return proto.Value{}, false
		}
		return proto.SliceString(ss), true
	}
	b, err := hex.DecodeString(payload)
	if err != nil || strings.ToLower(payload) != payload {
		return proto.Value{}, false
	}
	if w, isScalar := scalarWidth[tag]; isScalar {
		if len(b) != w {
			return proto.Value{}, false
		}
		x := leUint(b)
		switch tag {
		case "bool":
			return proto.Bool(typedef.Bool(x)), true
		case "i8":
			return proto.Int8(int8(x)), true
		case "u8":
			return proto.Uint8(uint8(x)), true
		case "i16":
			return proto.Int16(int16(x)), true
		case "u16":
			return proto.Uint16(uint16(x)), true
		case "i32":
			return proto.Int32(int32(x)), true
		case "u32":
			return proto.Uint32(uint32(x)), true
		case "i64":
			return proto.Int64(int64(x)), true
		case "u64":
			return proto.Uint64(x), true
		case "f32":
			return proto.Float32(math.Float32frombits(uint32(x))), true
		case "f64":
			return proto.Float64(math.Float64frombits(x)), true
		}
	}
	switch tag {
	case "inv":
		return proto.Value{}, len(b) == 0
	case "str":
		return proto.String(string(b)), true
	}
	if !strings.HasSuffix(tag, "s") {
		return proto.Value{}, false
	}
	w, isSlice := scalarWidth[tag[:len(tag)-1]]
	if !isSlice || len(b)%w != 0 {
		return proto.Value{}, false
	}
	n := len(b) / w
	el := func(i int) uint64 { return leUint(b[i*w : (i+1)*w]) }
	switch tag {
	case "bools":
		vs := make([]typedef.Bool, n)
		for i := range vs {
			vs[i] = typedef.Bool(el(i))
		}
		return proto.SliceBool(vs), true
	case "i8s":
		vs := make([]int8, n)
		for i := range vs {
			vs[i] = int8(el(i))
		}
		return proto.SliceInt8(vs), true
	case "u8s":
		vs := make([]uint8, n)
		for i := range vs {
			vs[i] = uint8(el(i))
		}
		return proto.SliceUint8(vs), true
	case "i16s":
		vs := make([]int16, n)
		for i := range vs {
			vs[i] = int16(el(i))
		}
		return proto.SliceInt16(vs), true
	case "u16s":
		vs := make([]uint16, n)
		for i := range vs {
			vs[i] = uint16(el(i))
		}
		return proto.SliceUint16(vs), true
	case "i32s":
		vs := make([]int32, n)
		for i := range vs {
			vs[i] = int32(el(i))
		}
		return proto.SliceInt32(vs), true
	case "u32s":
		vs := make([]uint32, n)
		for i := range vs {
			vs[i] = uint32(el(i))
		}
		return proto.SliceUint32(vs), true
	case "i64s":
		vs := make([]int64, n)
		for i := range vs {
			vs[i] = int64(el(i))
		}
		return proto.SliceInt64(vs), true
	case "u64s":
		vs := make([]uint64, n)
		for i := range vs {
			vs[i] = el(i)
		}
		return proto.SliceUint64(vs), true
	case "f32s":
		vs := make([]float32, n)
		for i := range vs {
			vs[i] = math.Float32frombits(uint32(el(i)))
		}
		return proto.SliceFloat32(vs), true
	case "f64s":
		vs := make([]float64, n)
		for i := range vs {
			vs[i] = math.Float64frombits(el(i))
		}
		return proto.SliceFloat64(vs), true
	}
	return proto.Value{}, false
}

func leHex(x uint64, w int) string {
	var b [8]byte
	binary.LittleEndian.PutUint64(b[:], x)
	return hex.EncodeToString(b[:w])
}

// printValue prints what the ACCESSORS of the value return for its reported Type().
func printValue(v proto.Value) string {
	var sb strings.Builder
	switch v.Type() {
	case proto.TypeInvalid:
		return "inv:"
	case proto.TypeBool:
		return "bool:" + leHex(uint64(v.Bool()), 1)
	case proto.TypeInt8:
		return "i8:" + leHex(uint64(v.Int8()), 1)
	case proto.TypeUint8:
		return "u8:" + leHex(uint64(v.Uint8()), 1)
	case proto.TypeInt16:
		return "i16:" + leHex(uint64(v.Int16()), 2)
	case proto.TypeUint16:
		return "u16:" + leHex(uint64(v.Uint16()), 2)
	case proto.TypeInt32:
		return "i32:" + leHex(uint64(v.Int32()), 4)
	case proto.TypeUint32:
		return "u32:" + leHex(uint64(v.Uint32()), 4)
	case proto.TypeInt64:
		return "i64:" + leHex(uint64(v.Int64()), 8)
	case proto.TypeUint64:
		return "u64:" + leHex(v.Uint64(), 8)
	case proto.TypeFloat32:
		return "f32:" + leHex(uint64(math.Float32bits(v.Float32())), 4)
	case proto.TypeFloat64:
		return "f64:" + leHex(math.Float64bits(v.Float64()), 8)
	case proto.TypeString:
		return "str:" + hex.EncodeToString([]byte(v.String()))
	case proto.TypeSliceBool:
		sb.WriteString("bools:")
		for _, x := range v.SliceBool() {
			sb.WriteString(leHex(uint64(x), 1))
		}
	case proto.TypeSliceInt8:
		sb.WriteString("i8s:")
		for _, x := range v.SliceInt8() {
			sb.WriteString(leHex(uint64(x), 1))
		}
	case proto.TypeSliceUint8:
		sb.WriteString("u8s:")
		sb.WriteString(hex.EncodeToString(v.SliceUint8()))
	case proto.TypeSliceInt16:
		sb.WriteString("i16s:")
		for _, x := range v.SliceInt16() {
			sb.WriteString(leHex(uint64(x), 2))
		}
	case proto.TypeSliceUint16:
		sb.WriteString("u16s:")
		for _, x := range v.SliceUint16() {
			sb.WriteString(leHex(uint64(x), 2))
		}
	case proto.TypeSliceInt32:
		sb.WriteString("i32s:")
		for _, x := range v.SliceInt32() {
			sb.WriteString(leHex(uint64(x), 4))
		}
	case proto.TypeSliceUint32:
		sb.WriteString("u32s:")
		for _, x := range v.SliceUint32() {
			sb.WriteString(leHex(uint64(x), 4))
		}
	case proto.TypeSliceInt64:
		sb.WriteString("i64s:")
		for _, x := range v.SliceInt64() {
			sb.WriteString(leHex(uint64(x), 8))
		}
	case proto.TypeSliceUint64:
		sb.WriteString("u64s:")
		for _, x := range v.SliceUint64() {
			sb.WriteString(leHex(x, 8))
		}
	case proto.TypeSliceFloat32:
		sb.WriteString("f32s:")
		for _, x := range v.SliceFloat32() {
			sb.WriteString(leHex(uint64(math.Float32bits(x)), 4))
		}
	case proto.TypeSliceFloat64:
		sb.WriteString("f64s:")
		for _, x := range v.SliceFloat64() {
			sb.WriteString(leHex(math.Float64bits(x), 8))
		}
	case proto.TypeSliceString:
		sb.WriteString("strs:")
		for _, x := range v.SliceString() {
			sb.WriteString(hex.EncodeToString([]byte(x)))
			sb.WriteByte(',')
		}
	default:
		return fmt.Sprintf("type%d:", v.Type())
	}
	return sb.String()
}

// printGo prints a Go value as returned by Value.Any() (by its dynamic Go type).
func printGo(a any) string {
	var sb strings.Builder
	switch x := a.(type) {
	case nil:
		return "nil:"
	case typedef.Bool:
		return "tbool:" + leHex(uint64(x), 1)
	case bool:
		if x {
			return "gobool:01"
		}
		return "gobool:00"
	case int8:
		return "i8:" + leHex(uint64(x), 1)
	case uint8:
		return "u8:" + leHex(uint64(x), 1)
	case int16:
		return "i16:" + leHex(uint64(x), 2)
	case uint16:
		return "u16:" + leHex(uint64(x), 2)
	case int32:
		return "i32:" + leHex(uint64(x), 4)
	case uint32:
		return "u32:" + leHex(uint64(x), 4)
	case int64:
		return "i64:" + leHex(uint64(x), 8)
	case uint64:
		return "u64:" + leHex(x, 8)
	case float32:
		return "f32:" + leHex(uint64(math.Float32bits(x)), 4)
	case float64:
		return "f64:" + leHex(math.Float64bits(x), 8)
	case string:
		return "str:" + hex.EncodeToString([]byte(x))
	case []typedef.Bool:
		sb.WriteString("tbools:")
		for _, e := range x {
			sb.WriteString(leHex(uint64(e), 1))
		}
	case []int8:
		sb.WriteString("i8s:")
		for _, e := range x {
			sb.WriteString(leHex(uint64(e), 1))
		}
	case []uint8:
		sb.WriteString("u8s:" + hex.EncodeToString(x))
	case []int16:
		sb.WriteString("i16s:")
		for _, e := range x {
			sb.WriteString(leHex(uint64(e), 2))
		}
	case []uint16:
		sb.WriteString("u16s:")
		for _, e := range x {
			sb.WriteString(leHex(uint64(e), 2))
		}
	case []int32:
		sb.WriteString("i32s:")
		for _, e := range x {
			sb.WriteString(leHex(uint64(e), 4))
		}
	case []uint32:
		sb.WriteString("u32s:")
		for _, e := range x {
			sb.WriteString(leHex(uint64(e), 4))
		}
	case []int64:
		sb.WriteString("i64s:")
		for _, e := range x {
			sb.WriteString(leHex(uint64(e), 8))
		}
	case []uint64:
		sb.WriteString("u64s:")
		for _, e := range x {
			sb.WriteString(leHex(e, 8))
		}
	case []float32:
		sb.WriteString("f32s:")
		for _, e := range x {
			sb.WriteString(leHex(uint64(math.Float32bits(e)), 4))
		}
	case []float64:
		sb.WriteString("f64s:")
		for _, e := range x {
			sb.WriteString(leHex(math.Float64bits(e), 8))
		}
	case []string:
		sb.WriteString("strs:")
		for _, e := range x {
			sb.WriteString(hex.EncodeToString([]byte(e)))
			sb.WriteByte(',')
		}
	default:
		return fmt.Sprintf("other(%T):", a)
	}
	return sb.String()
}
