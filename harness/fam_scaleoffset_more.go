package main

// Family scaleoffset (C12), further operations:
//
//	sots rt <Mesg> <Field> <raws>       slice / fixed-array accessor: XxxScaled() then SetXxxScaled() on a fresh struct
//	                                    → g=<float64 bits list> s=<raw list>
//	sots set <Mesg> <Field> <xs>        SetXxxScaled(xs) on arbitrary float64                 → <raw list>
//	sov <item> …                        ONE encoder.NewMessageValidator (preserving invalid values) over a sequence of messages
//	                                    → one answer per item: ok | ok:<value>,… | err:<kind>
//	socd <x>                            does the text fitcsv writes for the float64 x contain a '.'   → 0 | 1
//
// lists: `nil` (Go nil slice), `-` (empty, non-nil), or comma-separated hex patterns of the element width (float64: 16 digits);
// a fixed array takes exactly N elements.
//
// sov items (the line is self-contained: everything the validator sees is on it):
//
//	i<idx>                                          a developer_data_id message with developer_data_index idx (< 255)
//	d<idx>.<num>.<bt>.<scale>.<offset>.<nmesg>.<nfield>
//	                                                a field_description message: developer_data_index, field_definition_number,
//	                                                fit_base_type_id (2 hex digits), scale (uint8; 255 = absent), offset (int8 bit
//	                                                pattern in decimal; 127 = absent), native_mesg_num (65535 = absent),
//	                                                native_field_num (255 = absent)
//	m<mesgnum>:<idx>.<num>=<ty>:<raw>@<scale>/<offset>[,…]
//	                                                a message (number ≠ 206, 207) with developer fields only; each value is the raw
//	                                                integer <raw> of Go type <ty> brought to its scaled float64 form by
//	                                                scaleoffset.ApplyValue(raw, scale, offset) (float64 bit patterns; with the
//	                                                unit pair the raw value itself)
//
// The specification (C12) demands that a developer field whose description designates a native field of the profile, given
// as that native field's scaled value, comes back as the raw integer — whatever the validator has validated before.

import (
	"fmt"
	"math"
	"reflect"
	"sort"
	"strconv"
	"strings"

	"github.com/muktihari/fit/cmd/fitconv/fitcsv"
	"github.com/muktihari/fit/encoder"
	"github.com/muktihari/fit/kit/scaleoffset"
	"github.com/muktihari/fit/profile/basetype"
	"github.com/muktihari/fit/profile/mesgdef"
	"github.com/muktihari/fit/profile/typedef"
	"github.com/muktihari/fit/proto"
)

func init() {
	executors["sots"] = execSots
	executors["sov"] = execSov
	executors["socd"] = execSocd
}

// ---- slice / fixed-array accessors

func soParseList(s string, bits int) (vals []uint64, isNil bool, ok bool) {
	if s == "nil" {
		return nil, true, true
	}
	vals, ok = soParseRaws(s, bits)
	return vals, false, ok
}

func soPrintList(v reflect.Value, bits int, get func(reflect.Value) uint64) string {
	if v.Kind() == reflect.Slice && v.IsNil() {
		return "nil"
	}
	if v.Len() == 0 {
		return "-"
	}
	parts := make([]string, v.Len())
	for i := range parts {
		parts[i] = fmt.Sprintf("%0*x", bits/4, get(v.Index(i)))
	}
	return strings.Join(parts, ",")
}

func soF64Raw(v reflect.Value) uint64 { return math.Float64bits(v.Float()) }

// fill stores the list into a slice / array reflect.Value (settable); false = the shape does not fit.
func soFill(dst reflect.Value, vals []uint64, isNil bool, set func(reflect.Value, uint64)) bool {
	switch dst.Kind() {
	case reflect.Slice:
		if isNil {
			dst.Set(reflect.Zero(dst.Type()))
			return true
		}
		dst.Set(reflect.MakeSlice(dst.Type(), len(vals), len(vals)))
	case reflect.Array:
		if isNil || len(vals) != dst.Len() {
			return false
		}
	default:
		return false
	}
	for i, p := range vals {
		set(dst.Index(i), p)
	}
	return true
}

func execSots(args []string) string {
	if len(args) != 4 {
		return "bad-op"
	}
	acc, ok := soTypedLookup(args[1], args[2])
	if !ok || acc.info.arr == 0 {
		return "bad-op"
	}
	setF := func(v reflect.Value, p uint64) { v.SetFloat(math.Float64frombits(p)) }
	switch args[0] {
	case "rt":
		raws, isNil, ok := soParseList(args[3], acc.bits)
		if !ok {
			return "bad-op"
		}
		p := reflect.ValueOf(acc.mk())
		if !soFill(p.Elem().FieldByName(acc.info.field), raws, isNil, arithSetRaw) {
			return "bad-op"
		}
		out := p.MethodByName(acc.info.field + "Scaled").Call(nil)[0]
		q := reflect.ValueOf(acc.mk())
		q.MethodByName("Set" + acc.info.field + "Scaled").Call([]reflect.Value{out})
		back := q.Elem().FieldByName(acc.info.field)
		return "g=" + soPrintList(out, 64, soF64Raw) + " s=" + soPrintList(back, acc.bits, arithGetRaw)
	case "set":
		xs, isNil, ok := soParseList(args[3], 64)
		if !ok {
			return "bad-op"
		}
		q := reflect.ValueOf(acc.mk())
		m := q.MethodByName("Set" + acc.info.field + "Scaled")
		arg := reflect.New(m.Type().In(0)).Elem()
		if !soFill(arg, xs, isNil, setF) {
			return "bad-op"
		}
		m.Call([]reflect.Value{arg})
		return soPrintList(q.Elem().FieldByName(acc.info.field), acc.bits, arithGetRaw)
	}
	return "bad-op"
}

// ---- one validator, a sequence of messages with developer fields

func soDec(s string, max uint64) (uint64, bool) {
	if s == "" || (len(s) > 1 && s[0] == '0') {
		return 0, false
	}
	u, err := strconv.ParseUint(s, 10, 64)
	return u, err == nil && u <= max
}

func execSov(args []string) string {
	if len(args) == 0 {
		return "bad-op"
	}
	v := encoder.NewMessageValidator(encoder.ValidatorWithPreserveInvalidValues())
	out := make([]string, 0, len(args))
	for _, it := range args {
		if len(it) < 2 {
			return "bad-op"
		}
		switch it[0] {
		case 'i':
			idx, ok := soDec(it[1:], 254)
			if !ok {
				return "bad-op"
			}
			mesg := mesgdef.NewDeveloperDataId(nil).SetDeveloperDataIndex(uint8(idx)).SetApplicationVersion(1).ToMesg(nil)
			out = append(out, errKind(v.Validate(&mesg)))
		case 'd':
			ps := strings.Split(it[1:], ".")
			if len(ps) != 7 {
				return "bad-op"
			}
			idx, ok1 := soDec(ps[0], 255)
			num, ok2 := soDec(ps[1], 255)
			bt, ok3 := soHexW(ps[2], 8)
			sc, ok4 := soDec(ps[3], 255)
			off, ok5 := soDec(ps[4], 255)
			nm, ok6 := soDec(ps[5], 65535)
			nf, ok7 := soDec(ps[6], 255)
			if !(ok1 && ok2 && ok3 && ok4 && ok5 && ok6 && ok7) || !basetype.BaseType(bt).Valid() {
				return "bad-op"
			}
			mesg := mesgdef.NewFieldDescription(nil).
				SetDeveloperDataIndex(uint8(idx)).SetFieldDefinitionNumber(uint8(num)).SetFitBaseTypeId(basetype.BaseType(bt)).
				SetFieldName([]string{"f"}).SetScale(uint8(sc)).SetOffset(int8(uint8(off))).
				SetNativeMesgNum(typedef.MesgNum(nm)).SetNativeFieldNum(uint8(nf)).ToMesg(nil)
			out = append(out, errKind(v.Validate(&mesg)))
		case 'm':
			head := strings.SplitN(it[1:], ":", 2)
			if len(head) != 2 {
				return "bad-op"
			}
			mn, ok := soDec(head[0], 65535)
			if !ok || mn == 206 || mn == 207 {
				return "bad-op"
			}
			mesg := proto.Message{Num: typedef.MesgNum(mn)}
			for _, f := range strings.Split(head[1], ",") {
				kv := strings.SplitN(f, "=", 2)
				if len(kv) != 2 {
					return "bad-op"
				}
				id := strings.Split(kv[0], ".")
				at := strings.SplitN(kv[1], "@", 2)
				if len(id) != 2 || len(at) != 2 {
					return "bad-op"
				}
				tr := strings.SplitN(at[0], ":", 2)
				so := strings.SplitN(at[1], "/", 2)
				if len(tr) != 2 || len(so) != 2 {
					return "bad-op"
				}
				idx, ok1 := soDec(id[0], 255)
				num, ok2 := soDec(id[1], 255)
				bits, ok3 := soTyBits[tr[0]]
				if !(ok1 && ok2 && ok3) || tr[0] == "f32" || tr[0] == "f64" {
					return "bad-op"
				}
				raw, ok4 := soHexW(tr[1], bits)
				scale, ok5 := f64parse(so[0])
				offset, ok6 := f64parse(so[1])
				if !(ok4 && ok5 && ok6) {
					return "bad-op"
				}
				mesg.DeveloperFields = append(mesg.DeveloperFields, proto.DeveloperField{
					Num: byte(num), DeveloperDataIndex: byte(idx),
					Value: scaleoffset.ApplyValue(soMkValue(tr[0], raw), scale, offset),
				})
			}
			if err := v.Validate(&mesg); err != nil {
				out = append(out, errKind(err))
				continue
			}
			vals := make([]string, len(mesg.DeveloperFields))
			for i := range mesg.DeveloperFields {
				vals[i] = soPrint(mesg.DeveloperFields[i].Value)
			}
			out = append(out, "ok:"+strings.Join(vals, ","))
		default:
			return "bad-op"
		}
	}
	return strings.Join(out, " ")
}

// ---- the '.' of a scaled CSV cell

func execSocd(args []string) string {
	if len(args) != 1 {
		return "bad-op"
	}
	x, ok := f64parse(args[0])
	if !ok {
		return "bad-op"
	}
	if strings.Contains(fitcsv.VerifFormat(proto.Float64(x)), ".") {
		return "1"
	}
	return "0"
}

// ---- generators (called by genScaleOffset)

func soSigned(ty int) bool { return ty%2 == 0 }

// genSoSlices: every generated slice / fixed-array accessor: nil, empty, the sentinel alone / among valid elements / in
// every position, boundary and negative elements, random lists; the setter alone on arbitrary float64 lists.
func genSoSlices(emit func(string), tier string, rng *Rng) {
	thorough := tier == "thorough"
	for _, acc := range soTypedAll() {
		if acc.info.arr == 0 {
			continue
		}
		bits := acc.bits
		mask := uint64(1)<<uint(bits) - 1
		inv := acc.info.invalid
		n := acc.info.arr - 1 // fixed length; 0 for slices
		h := func(p uint64) string { return fmt.Sprintf("%0*x", bits/4, p&mask) }
		lineRT := func(list string) { emit(fmt.Sprintf("sots rt %s %s %s", acc.info.mesg, acc.info.field, list)) }
		mk := func(k int, f func(i int) uint64) string {
			if n > 0 {
				k = n
			}
			if k == 0 {
				return "-"
			}
			ps := make([]string, k)
			for i := range ps {
				ps[i] = h(f(i))
			}
			return strings.Join(ps, ",")
		}
		randElem := func() uint64 {
			switch rng.Intn(8) {
			case 0:
				return inv
			case 1:
				return inv - 1
			case 2:
				return (inv + 1) & mask // most negative value of a signed type, 0 of an unsigned one
			case 3:
				return mask - uint64(rng.Intn(200)) // small negative numbers of a signed type
			case 4:
				return uint64(rng.Intn(300))
			}
			return rng.U64() >> uint(64-bits) >> uint(rng.Intn(bits))
		}
		if n == 0 {
			lineRT("nil")
			lineRT("-")
			count("typed-slice-nil/empty")
		}
		lineRT(mk(1, func(int) uint64 { return inv }))                  // all sentinel (the whole-array test of [N]T)
		lineRT(mk(3, func(i int) uint64 { return []uint64{0, 1, inv - 1}[i%3] })) // no sentinel
		k := 4
		if n > 0 {
			k = n
		}
		for pos := 0; pos < k; pos++ { // the sentinel in each position among valid elements
			lineRT(mk(k, func(i int) uint64 {
				if i == pos {
					return inv
				}
				return uint64(100 + i)
			}))
		}
		if soSigned(acc.info.ty) { // negative elements
			lineRT(mk(4, func(i int) uint64 { return []uint64{mask, mask - 149, inv + 1, mask - 28}[i%4] }))
			count("typed-slice-negative")
		}
		reps := 12
		if thorough {
			reps = 120
		}
		for j := 0; j < reps; j++ {
			lineRT(mk(1+rng.Intn(6), func(int) uint64 { return randElem() }))
		}
		count("typed-slice-accessors")
		// setter alone
		for j := 0; j < reps/3; j++ {
			kk := rng.Intn(5)
			if n > 0 {
				kk = n
			}
			list := "-"
			if kk > 0 {
				ps := make([]string, kk)
				for i := range ps {
					var x float64
					switch rng.Intn(4) {
					case 0:
						x = math.Float64frombits(f64Operand(rng))
					case 1:
						x = float64(int64(randElem()))/acc.info.scale - acc.info.offset
					case 2:
						x = (float64(inv) + float64(rng.Intn(5)) - 2 + []float64{0, 0.5, -0.5, 0.49}[rng.Intn(4)]) / acc.info.scale
					default:
						x = math.NaN()
					}
					ps[i] = fmt.Sprintf("%016x", soF64bits(x))
				}
				list = strings.Join(ps, ",")
			} else if n == 0 && rng.Intn(2) == 0 {
				list = "nil"
			}
			emit(fmt.Sprintf("sots set %s %s %s", acc.info.mesg, acc.info.field, list))
		}
	}
}

type soNative struct {
	mesg, num int
	bt        basetype.BaseType
	scale     float64
	offset    float64
}

// soNatives: every field of the standard factory whose Go type is an integer of at most 32 bits, by field number.
func soNatives() (all []soNative, byNum map[int][]soNative) {
	byNum = map[int][]soNative{}
	mesgs := arithProfileMesgs()
	var nums []int
	for n := range mesgs {
		nums = append(nums, int(n))
	}
	sort.Ints(nums)
	for _, n := range nums {
		for _, fl := range mesgs[typedef.MesgNum(n)] {
			ty, ok := soTyOfBT(fl.BaseType)
			if !ok || fl.BaseType == basetype.Enum || soTyBits[ty] > 32 || ty == "f32" || fl.Array {
				continue
			}
			e := soNative{n, int(fl.Num), fl.BaseType, fl.Scale, fl.Offset}
			all = append(all, e)
			byNum[int(fl.Num)] = append(byNum[int(fl.Num)], e)
		}
	}
	return
}

// genSoValidatorSeq: one validator, several natively-mapped developer fields whose native fields have EQUAL field numbers in
// different messages and different scale / offset (every such collision of the profile in the thorough tier), values given
// as scaled float64; plus descriptions with a scale / offset of their own, unknown native fields, missing descriptions.
func genSoValidatorSeq(emit func(string), tier string, rng *Rng) {
	thorough := tier == "thorough"
	all, byNum := soNatives()
	var scaled []soNative
	for _, e := range all {
		if e.scale != 1 || e.offset != 0 {
			scaled = append(scaled, e)
		}
	}
	rawOf := func(e soNative) string {
		ty, _ := soTyOfBT(e.bt)
		bits := soTyBits[ty]
		raw := rng.U64() >> uint(64-bits) >> uint(rng.Intn(bits))
		switch rng.Intn(6) {
		case 0:
			raw = uint64(rng.Intn(3000)) & (uint64(1)<<uint(bits) - 1)
		case 1:
			raw = (uint64(1)<<uint(bits) - 1) >> uint(rng.Intn(2))
		}
		return fmt.Sprintf("%s:%0*x", ty, bits/4, raw)
	}
	desc := func(idx, num int, e soNative) string {
		return fmt.Sprintf("d%d.%d.%02x.255.127.%d.%d", idx, num, byte(e.bt), e.mesg, e.num)
	}
	field := func(idx, num int, e soNative) string {
		return fmt.Sprintf("%d.%d=%s@%016x/%016x", idx, num, rawOf(e), math.Float64bits(e.scale), math.Float64bits(e.offset))
	}
	// collisions: same field number, different message, different (base type, scale, offset), at least one scaled
	var nums []int
	for n := range byNum {
		nums = append(nums, n)
	}
	sort.Ints(nums)
	type pairT struct{ a, b soNative }
	var coll []pairT
	for _, n := range nums {
		es := byNum[n]
		for i := range es {
			for j := range es {
				a, b := es[i], es[j]
				if i != j && a.mesg != b.mesg && (a.scale != b.scale || a.offset != b.offset) && (a.scale != 1 || a.offset != 0) {
					coll = append(coll, pairT{a, b})
				}
			}
		}
	}
	count(fmt.Sprintf("native-collisions=%d", len(coll)))
	// first a fixed example: lap.avg_altitude (19/42, uint16, 5/500) and session.avg_stroke_distance (18/42, uint16, 100), both orders
	sort.SliceStable(coll, func(i, j int) bool {
		w := func(c pairT) bool {
			return c.a.num == 42 && c.b.num == 42 && ((c.a.mesg == 19 && c.b.mesg == 18) || (c.a.mesg == 18 && c.b.mesg == 19))
		}
		return w(coll[i]) && !w(coll[j])
	})
	take := 150
	if thorough || take > len(coll) {
		take = len(coll)
	}
	for k := 0; k < take; k++ {
		c := coll[k]
		if !thorough && k >= 2 {
			c = coll[rng.Intn(len(coll))]
		}
		var items []string
		items = append(items, "i0", desc(0, 0, c.a), desc(0, 1, c.b))
		for r := 0; r < 3; r++ {
			items = append(items, fmt.Sprintf("m%d:%s", c.a.mesg, field(0, 0, c.a)), fmt.Sprintf("m%d:%s", c.b.mesg, field(0, 1, c.b)))
		}
		items = append(items, fmt.Sprintf("m%d:%s,%s", c.a.mesg, field(0, 1, c.b), field(0, 0, c.a)))
		emit("sov " + strings.Join(items, " "))
		count("validator-seq-collision")
	}
	// random sequences: several developer data ids, descriptions of every kind, messages in any order
	n := 150
	if thorough {
		n = 1500
	}
	for k := 0; k < n; k++ {
		var items []string
		type dd struct {
			idx, num int
			e        soNative
		}
		var ds []dd
		nidx := 1 + rng.Intn(2)
		for i := 0; i < nidx; i++ {
			items = append(items, fmt.Sprintf("i%d", i))
		}
		nd := 2 + rng.Intn(4)
		for j := 0; j < nd; j++ {
			idx, num := rng.Intn(nidx+1), rng.Intn(4) // idx may be one that was never announced
			var e soNative
			var item string
			switch rng.Intn(6) {
			case 0: // a scale / offset of its own, no native field
				bt := []basetype.BaseType{basetype.Uint8, basetype.Sint8, basetype.Uint16, basetype.Sint16, basetype.Uint32, basetype.Sint32}[rng.Intn(6)]
				sc, off := 1+rng.Intn(200), rng.Intn(256)
				if off == 127 {
					off = 0
				}
				e = soNative{65535, 255, bt, float64(sc), float64(int8(uint8(off)))}
				item = fmt.Sprintf("d%d.%d.%02x.%d.%d.65535.255", idx, num, byte(bt), sc, off)
			case 1: // a native field the factory does not know: the value is left alone
				e = all[rng.Intn(len(all))]
				e.mesg, e.scale, e.offset = 65000+rng.Intn(100), 1, 0
				item = desc(idx, num, e)
			case 2: // any native field (mostly unit pairs)
				e = all[rng.Intn(len(all))]
				item = desc(idx, num, e)
			default:
				e = scaled[rng.Intn(len(scaled))]
				if rng.Intn(2) == 0 && len(ds) > 0 { // prefer a field number already in use
					p := ds[rng.Intn(len(ds))].e
					if cs := byNum[p.num]; len(cs) > 1 && p.mesg != 65535 {
						e = cs[rng.Intn(len(cs))]
					}
				}
				item = desc(idx, num, e)
			}
			ds = append(ds, dd{idx, num, e})
			items = append(items, item)
		}
		nm := 2 + rng.Intn(5)
		for j := 0; j < nm; j++ {
			nf := 1 + rng.Intn(2)
			var fs []string
			for f := 0; f < nf; f++ {
				d := ds[rng.Intn(len(ds))]
				if rng.Intn(12) == 0 {
					d.num = 9 // no description
				}
				if rng.Intn(10) == 0 { // a value scaled with another field's pair (correspondence only)
					d.e = scaled[rng.Intn(len(scaled))]
				}
				fs = append(fs, field(d.idx, d.num, d.e))
			}
			items = append(items, fmt.Sprintf("m%d:%s", 18+rng.Intn(3), strings.Join(fs, ",")))
		}
		emit("sov " + strings.Join(items, " "))
		count("validator-seq-random")
	}
}

// genSoCsvDot: float64 values around every form the CSV writer has: whole values, one-digit decimals of every exponent
// and their neighbours, the scaled values of small raw numbers at every profile pair, arbitrary operands.
func genSoCsvDot(emit func(string), tier string, rng *Rng, pairs [][2]float64) {
	line := func(x float64) { emit(fmt.Sprintf("socd %016x", soF64bits(x))) }
	step := 7
	if tier == "thorough" {
		step = 1
	}
	for k := -330; k <= 310; k += step {
		kk := k + rng.Intn(step)
		d := 1 + rng.Intn(9)
		x, _ := strconv.ParseFloat(fmt.Sprintf("%de%d", d, kk), 64)
		line(x)
		line(-x)
		line(math.Nextafter(x, 0))
		line(math.Nextafter(x, math.Inf(1)))
	}
	for k := -8; k <= 7; k++ {
		for d := 1; d <= 9; d++ {
			x, _ := strconv.ParseFloat(fmt.Sprintf("%de%d", d, k), 64)
			line(x)
			line(math.Nextafter(x, 0))
		}
	}
	for _, x := range []float64{0, math.Copysign(0, -1), 9223372036854775808, -9223372036854775808, 1e19, 2e19, 1e-4, 1e-5, 0.5, 1e6, 1234567.5,
		1e21, 1e22, 5e-324, math.Inf(1), math.Inf(-1), math.NaN(), 4.4704134e+06, 0.29} {
		line(x)
	}
	for _, p := range pairs {
		for r := -16; r <= 16; r++ {
			line(scaleoffset.Apply(int32(r), p[0], p[1]))
		}
		for j := 0; j < 6; j++ {
			line(scaleoffset.Apply(uint32(rng.U64()>>uint(32+rng.Intn(32))), p[0], p[1]))
		}
	}
	n := 300
	if tier == "thorough" {
		n = 6000
	}
	for i := 0; i < n; i++ {
		line(math.Float64frombits(f64Operand(rng)))
	}
	count("csv-dot")
}
