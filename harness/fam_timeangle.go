package main

// Family timeangle (C12): kit/datetime and kit/semicircles.
//
//	ta u2t <v>              datetime.ToTime(v)               → <seconds since the FIT epoch> <nanoseconds>
//	ta t2u <sec> <nsec>     datetime.ToUint32(epoch+sec+nsec) → 8 hex digits
//	ta rt <v>               ToUint32(ToTime(v))              → 8 hex digits
//	ta s2d <s>              semicircles.ToDegrees(int32 s)   → float64 bits
//	ta d2s <x>              semicircles.ToSemicircles(x)     → 8 hex digits (int32 pattern)
//	ta srt <s>              ToSemicircles(ToDegrees(s))      → 8 hex digits
//	tax dt|sc <lo> <n> <stride>   the round trip for EVERY value in [lo, lo+n) (goroutines over sub-ranges):
//	                        → n= fails= first= sample=<FNV-1a-64 over the forward results at lo, lo+stride, …>
//
// <v>, <s>: 8 hex digits; <x>: float64 bits, 16 hex digits; <sec> signed decimal, <nsec> decimal < 10^9.

import (
	"fmt"
	"math"
	"runtime"
	"strconv"
	"sync"
	"time"

	"github.com/muktihari/fit/kit/datetime"
	"github.com/muktihari/fit/kit/semicircles"
)

func init() {
	families["timeangle"] = genTimeAngle
	executors["ta"] = execTa
	executors["tax"] = execTax
}

var taEpochUnix = datetime.Epoch().Unix()

func execTa(args []string) string {
	if len(args) < 2 {
		return "bad-op"
	}
	switch args[0] {
	case "u2t", "rt", "s2d", "srt":
		v, ok := soHexW(args[1], 32)
		if !ok || len(args) != 2 {
			return "bad-op"
		}
		switch args[0] {
		case "u2t":
			t := datetime.ToTime(uint32(v))
			return fmt.Sprintf("%d %d", t.Unix()-taEpochUnix, t.Nanosecond())
		case "rt":
			return fmt.Sprintf("%08x", datetime.ToUint32(datetime.ToTime(uint32(v))))
		case "s2d":
			return fmt.Sprintf("%016x", math.Float64bits(semicircles.ToDegrees(int32(uint32(v)))))
		default:
			return fmt.Sprintf("%08x", uint32(semicircles.ToSemicircles(semicircles.ToDegrees(int32(uint32(v))))))
		}
	case "t2u":
		if len(args) != 3 {
			return "bad-op"
		}
		sec, err := strconv.ParseInt(args[1], 10, 64)
		nsec, err2 := strconv.ParseInt(args[2], 10, 64)
		if err != nil || err2 != nil || nsec < 0 || nsec >= 1e9 || sec < -1<<40 || sec > 1<<40 {
			return "bad-op"
		}
		return fmt.Sprintf("%08x", datetime.ToUint32(time.Unix(sec+taEpochUnix, nsec).UTC()))
	case "d2s":
		x, ok := f64parse(args[1])
		if !ok || len(args) != 2 {
			return "bad-op"
		}
		return fmt.Sprintf("%08x", uint32(semicircles.ToSemicircles(x)))
	}
	return "bad-op"
}

func taFnv(d uint64, v uint64, bytes int) uint64 {
	for i := 0; i < bytes; i++ {
		d ^= (v >> (8 * uint(i))) & 0xff
		d *= 0x100000001b3
	}
	return d
}

func execTax(args []string) string {
	if len(args) != 4 {
		return "bad-op"
	}
	lo, err := strconv.ParseUint(args[1], 10, 64)
	n, err2 := strconv.ParseUint(args[2], 10, 64)
	stride, err3 := strconv.ParseUint(args[3], 10, 64)
	if err != nil || err2 != nil || err3 != nil || lo+n > 1<<32 || stride == 0 || (args[0] != "dt" && args[0] != "sc") {
		return "bad-op"
	}
	dt := args[0] == "dt"
	workers := uint64(runtime.NumCPU())
	if n < 1<<16 {
		workers = 1
	}
	type part struct {
		fails uint64
		first int64
	}
	parts := make([]part, workers)
	var wg sync.WaitGroup
	for w := uint64(0); w < workers; w++ {
		wg.Add(1)
		go func(w uint64) {
			defer wg.Done()
			a, b := lo+n*w/workers, lo+n*(w+1)/workers
			p := part{first: -1}
			for v := a; v < b; v++ {
				var back uint32
				if dt {
					back = datetime.ToUint32(datetime.ToTime(uint32(v)))
				} else {
					back = uint32(semicircles.ToSemicircles(semicircles.ToDegrees(int32(uint32(v)))))
				}
				if back != uint32(v) {
					if p.fails == 0 {
						p.first = int64(v)
					}
					p.fails++
				}
			}
			parts[w] = p
		}(w)
	}
	wg.Wait()
	var fails uint64
	first := "-"
	for _, p := range parts {
		if p.fails > 0 && first == "-" {
			first = fmt.Sprintf("%08x", p.first)
		}
		fails += p.fails
	}
	d := uint64(0xcbf29ce484222325)
	for v := lo; v < lo+n; v += stride {
		if dt {
			t := datetime.ToTime(uint32(v))
			d = taFnv(d, uint64(t.Unix()-taEpochUnix), 8)
			d = taFnv(d, uint64(t.Nanosecond()), 4)
		} else {
			d = taFnv(d, math.Float64bits(semicircles.ToDegrees(int32(uint32(v)))), 8)
		}
	}
	return fmt.Sprintf("n=%d fails=%d first=%s sample=%016x", n, fails, first, d)
}

func genTimeAngle(emit func(string), tier string, rng *Rng) {
	thorough := tier == "thorough"
	// boundaries
	for _, v := range []uint32{0, 1, 2, 0x0fffffff, 0x10000000, 0x10000001, 0x7ffffffe, 0x7fffffff, 0x80000000, 0x80000001, 0xfffffffe, 0xffffffff,
		1 << 24, 1<<24 + 1, 1 << 26, 1<<26 + 1, 1<<29 - 1, 1 << 30, 1<<30 + 1, 0xc0000000, 0xc0000001, 0x40000001, 0xbfffffff} {
		for _, op := range []string{"u2t", "rt", "s2d", "srt"} {
			emit(fmt.Sprintf("ta %s %08x", op, v))
		}
	}
	n := 6000
	if thorough {
		n = 120000
	}
	for i := 0; i < n; i++ {
		switch rng.Intn(6) {
		case 0:
			emit(fmt.Sprintf("ta u2t %08x", uint32(rng.U64())))
		case 1:
			emit(fmt.Sprintf("ta rt %08x", uint32(rng.U64())))
		case 2: // any instant: before the epoch, the zero time, sub-second parts, beyond 2^32 s, saturating durations
			var sec int64
			switch rng.Intn(6) {
			case 0:
				sec = int64(rng.U64() >> uint(32+rng.Intn(32)))
			case 1:
				sec = -int64(rng.U64() >> uint(24+rng.Intn(40)))
			case 2:
				sec = int64(1)<<32 + int64(rng.Intn(5)) - 2
			case 3:
				sec = int64(rng.U64() >> 24) // up to 2^40
			case 4:
				sec = 9223372036 + int64(rng.Intn(5)) - 2 // around the saturation of time.Duration
			default:
				sec = int64(rng.Intn(3)) - 1
			}
			nsec := int64(rng.Intn(1000000000))
			if rng.Intn(3) == 0 {
				nsec = []int64{0, 1, 999999999, 500000000, 854775807, 854775808}[rng.Intn(6)]
			}
			emit(fmt.Sprintf("ta t2u %d %d", sec, nsec))
			count("t2u")
		case 3:
			emit(fmt.Sprintf("ta s2d %08x", uint32(rng.U64())))
		case 4:
			emit(fmt.Sprintf("ta srt %08x", uint32(rng.U64())>>uint(rng.Intn(32))))
		default: // any float64 into ToSemicircles
			x := f64Operand(rng)
			if rng.Bool() { // plausible degrees
				x = math.Float64bits((float64(int64(rng.U64()>>11)) / (1 << 53) * 400) - 200)
			}
			emit(fmt.Sprintf("ta d2s %016x", x))
			count("d2s")
		}
	}
	// exhaustive round trips on the implementation side
	if thorough {
		emit("tax sc 0 4294967296 65521")
		emit("tax dt 0 4294967296 65521")
		count("exhaustive-2^32")
		count("exhaustive-2^32")
	} else {
		emit("tax sc 0 4294967296 262139")
		// datetime: the two edges and a random 2^27 window (the full sweep runs in the thorough tier)
		emit("tax dt 0 67108864 4093")
		emit("tax dt 4227858432 67108864 4093")
		emit(fmt.Sprintf("tax dt %d 134217728 8191", uint64(rng.Intn(30))<<27))
		count("exhaustive-2^32-sc")
	}
	for i := 0; i < 20; i++ {
		emit(fmt.Sprintf("tax %s %d %d 1", []string{"dt", "sc"}[i%2], uint64(uint32(rng.U64()))&^0xfff, 2048))
	}
}
