package main

// Family `dfrag` (ops `dfrag`, `cifrag`): the real Decoder (Next/Decode loop, CheckIntegrity) over readers that
// fragment the stream (schedules as in fam_readbuffer.go), with every read-buffer size, against the model decoder
// running on the model read buffer over the same schedule; and — inside the harness — against the same decode
// over one contiguous buffer at value level (`v=`). Syntax: lean/Driver/DecFrag.lean.

import (
	"bytes"
	"encoding/binary"
	"encoding/hex"
	"errors"
	"fmt"
	"hash/fnv"
	"io"
	"os"
	"strconv"
	"strings"

	"github.com/muktihari/fit/decoder"
	"github.com/muktihari/fit/proto"
)

func init() {
	families["dfrag"] = genDfrag
	executors["dfrag"] = execDfrag
	executors["cifrag"] = execCifrag
	executors["dfragx"] = execDfragX
}

// dfragx [chk=] [size=] b:<hex>: exhaustive sweep — every split point as a 2-chunk schedule × three ways of reporting the
// end, and a reader failing at every offset; digest of all dfrag answers (see lean/Driver/DecFrag.lean sweepAnswer)
func execDfragX(args []string) string {
	a, ok := fragParse(args)
	if !ok || a.hasLens {
		return "bad-op"
	}
	d := uint64(0xcbf29ce484222325)
	add := func(s string) {
		for i := 0; i < len(s); i++ {
			d = (d ^ uint64(s[i])) * 0x100000001b3
		}
		d = (d ^ 10) * 0x100000001b3
	}
	base := make([]string, 0, len(args))
	for _, t := range args {
		base = append(base, t)
	}
	n, diffs := 0, 0
	L := len(a.b)
	for cut := 0; cut <= L; cut++ {
		for how := 0; how < 3; how++ {
			cs := []rdrChunk{{n: cut}, {n: L - cut}}
			if how == 1 {
				cs[1].err = io.EOF
			} else if how == 2 {
				cs = append(cs, rdrChunk{0, io.EOF})
			}
			ans := dfragAnswer(append(append([]string(nil), base...), "s:"+rbLens(cs)), false)
			add(ans)
			n++
			if strings.HasSuffix(ans, "v=diff") {
				diffs++
			}
		}
	}
	for k := 0; k <= L; k++ {
		ans := dfragAnswer(append(append([]string(nil), base...), "s:"+rbLens([]rdrChunk{{n: k}, {0, rdrErr(7)}})), false)
		add(ans)
		n++
	}
	return fmt.Sprintf("n=%d d=%016x diff=%d", n, d, diffs)
}

type fragArgs struct {
	chk     bool
	hasSize bool
	size    int
	b       []byte
	lens    string
	hasLens bool
	fail    int // raw: callback fails at this call (-1 = never)
}

func fragParse(args []string) (a fragArgs, ok bool) {
	a.chk, a.fail = true, -1
	seen := false
	for _, t := range args {
		switch {
		case strings.HasPrefix(t, "b:"):
			b, err := hex.DecodeString(t[2:])
			if err != nil {
				return a, false
			}
			a.b, seen = b, true
		case strings.HasPrefix(t, "s:"):
			a.lens, a.hasLens = t[2:], true
		case strings.HasPrefix(t, "chk="):
			a.chk = t[4:] != "0"
		case strings.HasPrefix(t, "size="):
			n, err := strconv.Atoi(t[5:])
			if err != nil {
				return a, false
			}
			a.size, a.hasSize = n, true
		case strings.HasPrefix(t, "fail="):
			n, err := strconv.Atoi(t[5:])
			if err != nil {
				return a, false
			}
			a.fail = n
		default:
			return a, false
		}
	}
	return a, seen
}

// reader builds the reader of the op; delivered = the bytes a schedule without failures hands over; clean = no failure
func (a fragArgs) reader() (r io.Reader, delivered []byte, clean bool, ok bool) {
	if !a.hasLens {
		return bytes.NewReader(a.b), a.b, true, true
	}
	cs, ok := rdrParseLens(a.lens)
	if !ok {
		return nil, nil, false, false
	}
	clean = true
	total := 0
	for i, c := range cs {
		if c.err != nil && !(i == len(cs)-1 && c.err == io.EOF) {
			clean = false
		}
		total += c.n
		if total > len(a.b) {
			total = len(a.b)
		}
	}
	return &schedReader{data: append([]byte(nil), a.b...), chunks: cs}, a.b[:total], clean, true
}

func fragErrClass(err error) string {
	switch {
	case err == nil:
		return "ok"
	case errors.Is(err, decoder.ErrNotFITFile):
		return "notfit"
	case errors.Is(err, decoder.ErrCRCChecksumMismatch):
		return "crc"
	case errors.Is(err, decoder.ErrMesgDefMissing):
		return "defmissing"
	case errors.Is(err, decoder.VerifErrInvalidBaseType):
		return "basetype"
	}
	return rdrErrClass(err)
}

// fragRec records the listener events at framing level (answer) and, when full is set, at value level (transcript).
type fragRec struct {
	sb   *strings.Builder
	full bool
	msgs *[]string // value level: every message handed to the listener in the canonical text of family decapi (dapiMesg)
}

func (e fragRec) OnMesgDef(d proto.MessageDefinition) {
	fs := make([]string, len(d.FieldDefinitions))
	for i, f := range d.FieldDefinitions {
		fs[i] = fmt.Sprintf("%d.%d.%d", f.Num, f.Size, byte(f.BaseType))
	}
	ds := make([]string, len(d.DeveloperFieldDefinitions))
	for i, f := range d.DeveloperFieldDefinitions {
		ds[i] = fmt.Sprintf("%d.%d.%d", f.Num, f.Size, f.DeveloperDataIndex)
	}
	fmt.Fprintf(e.sb, " D%d.%d.%d(%s)(%s)", d.Header, d.Architecture, d.MesgNum, strings.Join(fs, ";"), strings.Join(ds, ";"))
	if e.full {
		fmt.Fprintf(e.sb, "[res=%d]", d.Reserved)
	}
}

func fragValue(v proto.Value) string {
	// raw content of the value, whatever its type (floats via their bits inside MarshalAppend)
	b, err := v.MarshalAppend(nil, proto.LittleEndian)
	return fmt.Sprintf("%d:%x:%v", v.Type(), b, err != nil)
}

func (e fragRec) OnMesg(m proto.Message) {
	fmt.Fprintf(e.sb, " R%d.%d.%d.%d", m.Header, m.Num, len(m.Fields), len(m.DeveloperFields))
	if e.msgs != nil {
		*e.msgs = append(*e.msgs, dapiMesg(&m))
	}
	if e.full {
		for _, f := range m.Fields {
			fmt.Fprintf(e.sb, "{%d %s %v}", f.Num, fragValue(f.Value), f.IsExpandedField)
		}
		for _, f := range m.DeveloperFields {
			fmt.Fprintf(e.sb, "<%d %d %s>", f.Num, f.DeveloperDataIndex, fragValue(f.Value))
		}
	}
}

// fragDecode runs the Next/Decode loop; the transcript holds the events, per sequence header/CRC/message count, the status
func fragDecode(r io.Reader, chk bool, hasSize bool, size int, full bool) string {
	s, _ := fragDecodeM(r, chk, hasSize, size, full)
	return s
}

// fragDecodeM also returns the digest of the VALUES of every message the listener got (field numbers, base types, flags,
// values; developer fields) — what the model rebuilds from the bytes of the fields (`apiOf`)
func fragDecodeM(r io.Reader, chk bool, hasSize bool, size int, full bool) (string, string) {
	var sb strings.Builder
	var msgs []string
	rec := fragRec{&sb, full, nil}
	if !full {
		rec.msgs = &msgs
	}
	opts := []decoder.Option{decoder.WithMesgDefListener(rec), decoder.WithMesgListener(rec)}
	if !full {
		opts = append(opts, decoder.WithNoComponentExpansion())
	}
	if !chk {
		opts = append(opts, decoder.WithIgnoreChecksum())
	}
	if hasSize {
		opts = append(opts, decoder.WithReadBufferSize(size))
	}
	dec := decoder.New(r, opts...)
	status := "end"
	for dec.Next() {
		fit, err := dec.Decode()
		if err != nil {
			status = "err:" + fragErrClass(err)
			break
		}
		h := fit.FileHeader
		fmt.Fprintf(&sb, " S%d.%d.%d.%d.%d.%d.%d", h.Size, h.ProtocolVersion, h.ProfileVersion, h.DataSize, h.CRC, fit.CRC, len(fit.Messages))
		if full {
			for _, m := range fit.Messages {
				rec.OnMesg(m)
			}
		}
	}
	if status == "end" {
		// Next() returned false: the decoder keeps the reason as its sticky error; a further Decode() returns it
		if _, err := dec.Decode(); err != nil {
			fmt.Fprintf(&sb, " after=%s", fragErrClass(err))
		}
	}
	return status + sb.String(), dapiDigest(msgs, false)
}

func execDfrag(args []string) string { return dfragAnswer(args, true) }

// dfragAnswer: withM = the answer carries the value digest `m=` (not inside the exhaustive sweeps of dfragx: thousands of
// decodes per operation, whose value level is covered by `v=`)
func dfragAnswer(args []string, withM bool) string {
	a, ok := fragParse(args)
	if !ok {
		return "bad-op"
	}
	r, delivered, clean, ok := a.reader()
	if !ok {
		return "bad-op"
	}
	ans, m := fragDecodeM(r, a.chk, a.hasSize, a.size, false)
	if withM {
		ans += " m=" + m
	}
	v := "na"
	if clean {
		// value level: everything the listeners and Decode hand out, fragmented vs one contiguous buffer (default options)
		r2, _, _, _ := a.reader()
		frag := fragDecode(r2, a.chk, a.hasSize, a.size, true)
		contig := fragDecode(bytes.NewReader(delivered), a.chk, false, 0, true)
		v = "same"
		if frag != contig {
			v = "diff"
		}
	}
	return ans + " v=" + v
}

func execCifrag(args []string) string {
	a, ok := fragParse(args)
	if !ok {
		return "bad-op"
	}
	r, _, _, ok := a.reader()
	if !ok {
		return "bad-op"
	}
	var opts []decoder.Option
	if a.hasSize {
		opts = append(opts, decoder.WithReadBufferSize(a.size))
	}
	n, err := decoder.New(r, opts...).CheckIntegrity()
	if err != nil {
		return fmt.Sprintf("err:%s:%d", fragErrClass(err), n)
	}
	return fmt.Sprintf("ok:%d", n)
}

// ---------------------------------------------------------------- inputs

// fragRecords: a hand-made record stream exercising every definition shape: 0..255 fields, sizes 0..255, developer
// fields, local numbers 0..15, compressed-timestamp headers (whose bit 6 overlaps the definition flag), redefinitions,
// big-endian, reserved byte ≠ 0. valid = every base type valid and every data record defined.
func fragRecords(rng *Rng, maxRecs int) (recs []byte) {
	type def struct {
		size int
	}
	live := map[byte]*def{}
	validBT := []byte{0x00, 0x01, 0x02, 0x83, 0x84, 0x85, 0x86, 0x07, 0x88, 0x89, 0x0A, 0x8B, 0x8C, 0x0D, 0x8E, 0x8F, 0x90}
	n := 1 + rng.Intn(maxRecs)
	for i := 0; i < n; i++ {
		if len(live) == 0 || rng.Intn(3) == 0 {
			local := byte(rng.Intn(16))
			if rng.Intn(2) == 0 {
				local = byte(rng.Intn(4)) // reachable from compressed headers
			}
			var nf int
			switch rng.Intn(8) {
			case 0:
				nf = 0
			case 1:
				nf = 255
			case 2:
				nf = 20 + rng.Intn(200)
			default:
				nf = 1 + rng.Intn(6)
			}
			dev := rng.Intn(3) == 0
			h := byte(0x40) | local
			if dev {
				h |= 0x20
			}
			mesgNum := uint16(rng.Intn(400))
			if rng.Intn(8) == 0 {
				mesgNum = 206 // field_description: steers developer fields
			}
			arch := byte(rng.Intn(2))
			if rng.Intn(20) == 0 {
				arch = byte(2 + rng.Intn(254))
			}
			d := []byte{h, byte(rng.Intn(2) * rng.Intn(256)), arch, 0, 0, byte(nf)}
			if arch == 0 {
				binary.LittleEndian.PutUint16(d[3:5], mesgNum)
			} else {
				binary.BigEndian.PutUint16(d[3:5], mesgNum)
			}
			size := 0
			fsize := func() int {
				switch rng.Intn(10) {
				case 0:
					return 0
				case 1:
					return 255
				case 2:
					return rng.Intn(256)
				default:
					return []int{1, 1, 2, 2, 4, 4, 8, 3, 16}[rng.Intn(9)]
				}
			}
			for k := 0; k < nf; k++ {
				s := fsize()
				if nf > 20 && rng.Intn(4) != 0 {
					s = rng.Intn(3)
				}
				bt := validBT[rng.Intn(len(validBT))]
				if rng.Intn(400) == 0 {
					bt = byte(rng.Intn(256))
				}
				d = append(d, byte(rng.Intn(256)), byte(s), bt)
				size += s
			}
			if dev {
				nd := rng.Intn(4)
				if rng.Intn(10) == 0 {
					nd = 255
				}
				d = append(d, byte(nd))
				for k := 0; k < nd; k++ {
					s := fsize()
					if nd > 20 {
						s = rng.Intn(3)
					}
					d = append(d, byte(rng.Intn(4)), byte(s), byte(rng.Intn(3)))
					size += s
				}
			}
			recs = append(recs, d...)
			live[local] = &def{size}
			continue
		}
		// data record of a live definition (now and then of a missing one)
		var locals []byte
		for l := byte(0); l < 16; l++ {
			if live[l] != nil {
				locals = append(locals, l)
			}
		}
		l := locals[rng.Intn(len(locals))]
		if rng.Intn(60) == 0 {
			l = byte(rng.Intn(16))
		}
		h := l
		if l < 4 && rng.Intn(3) == 0 {
			h = 0x80 | l<<5 | byte(rng.Intn(32)) // compressed timestamp header; bit 6 set for locals 2, 3
		}
		recs = append(recs, h)
		if d := live[l]; d != nil {
			recs = append(recs, rng.Bytes(d.size)...)
		}
	}
	return recs
}

// fragSealOpt: one sequence around recs; 12/14-byte header, header CRC computed / zero, data size possibly lying
func fragSeal(rng *Rng, recs []byte) []byte {
	hdr := []byte{14, 0x20, 0x5c, 0x08, 0, 0, 0, 0, '.', 'F', 'I', 'T'}
	ds := len(recs)
	if rng.Intn(12) == 0 && ds > 2 { // the last record overruns the declared data size
		ds -= 1 + rng.Intn(2)
	}
	binary.LittleEndian.PutUint32(hdr[4:8], uint32(ds))
	switch rng.Intn(5) {
	case 0:
		hdr[0] = 12
	case 1:
		hdr = append(hdr, 0, 0)
	default:
		hdr = binary.LittleEndian.AppendUint16(hdr, integCrc(hdr))
	}
	f := append(hdr, recs...)
	return binary.LittleEndian.AppendUint16(f, integCrc(recs))
}

// fragInputs: the pool of byte streams: fixtures, encoder outputs under assorted options (all header kinds, developer
// fields, compressed timestamps, chained), hand-made record streams, developer-field cases, their mutations, arbitrary bytes
func fragInputs(rng *Rng, n int, maxLen int) (pool [][]byte, kinds []string) {
	add := func(kind string, b []byte) {
		if len(b) <= maxLen {
			pool = append(pool, b)
			kinds = append(kinds, kind)
		}
	}
	for _, p := range integFixtures() {
		if b, err := os.ReadFile(p); err == nil {
			add("fixture", b)
		}
	}
	for i := 0; i < n; i++ {
		switch rng.Intn(10) {
		case 0, 1, 2:
			if b := integEncode(rng, integRandCfg(rng)); b != nil {
				add("encoder", b)
				if rng.Intn(3) == 0 {
					add("encoder-mutated", integMutate(rng, b))
				}
			}
		case 3, 4, 5:
			b := fragSeal(rng, fragRecords(rng, 12))
			add("records", b)
			if rng.Intn(3) == 0 {
				add("records-chained", append(append([]byte(nil), b...), fragSeal(rng, fragRecords(rng, 6))...))
			}
			if rng.Intn(4) == 0 {
				add("records-mutated", integMutate(rng, b))
			}
		case 6:
			if rng.Bool() {
				add("devcase", integDevCase(rng))
			} else {
				// a second sequence that uses a local message type defined only in the first one (definitions do not survive a sequence)
				local := byte(rng.Intn(16))
				h := local
				if local < 4 && rng.Bool() {
					h = 0x80 | local<<5 | byte(rng.Intn(32))
				}
				def := []byte{0x40 | local, 0, 0, byte(rng.Intn(256)), 0, 2, 1, 1, 2, 2, 2, 0x84}
				data := append([]byte{h}, rng.Bytes(3)...)
				seq1 := fragSeal(rng, append(append([]byte(nil), def...), data...))
				recs2 := append(append([]byte(nil), data...), fragRecords(rng, 3)...)
				if rng.Intn(3) == 0 {
					recs2 = append(append([]byte(nil), def...), recs2...)
				}
				add("records-carry", append(seq1, fragSeal(rng, recs2)...))
			}
		case 7:
			if b := integEncode(rng, integRandCfg(rng)); b != nil {
				add("truncated", b[:rng.Intn(len(b)+1)])
			}
		case 8:
			b := fragSeal(rng, fragRecords(rng, 8))
			add("truncated", b[:rng.Intn(len(b)+1)])
		default:
			body := rng.Bytes(rng.Intn(80))
			add("random-body", fragSeal(rng, body))
		}
	}
	// complete sequence(s) followed by the first 1..13 bytes of a further file header (valid so far): the stream ends inside
	// the header read of the next sequence — Next() / CheckIntegrity must not take that for the clean end of the stream,
	// however the reader fragments it
	for i := 0; i < 2+n/40; i++ {
		b := fragSeal(rng, fragRecords(rng, 5))
		if rng.Intn(3) == 0 {
			b = append(b, fragSeal(rng, fragRecords(rng, 3))...)
		}
		next := fragSeal(rng, fragRecords(rng, 2))
		for k := 1; k <= 13 && k < len(next); k += 1 + rng.Intn(3) {
			add("trailing-header-prefix", append(append([]byte(nil), b...), next[:k]...))
		}
	}
	return
}

func fragOp(op string, chk int, size string, b []byte, lens string) string {
	s := op
	if chk == 0 {
		s += " chk=0"
	}
	if size != "" {
		s += " size=" + size
	}
	s += " b:" + hex.EncodeToString(b)
	if lens != "-" {
		s += " s:" + lens
	}
	return s
}

func fragSizes(rng *Rng, L int) string {
	return []string{"", "", "0", "-1", "1", "765", "766", "1000", "1530", "4096", strconv.Itoa(L - 1), strconv.Itoa(L), strconv.Itoa(L + 1)}[rng.Intn(13)]
}

func fragDigest(s string) string {
	h := fnv.New64a()
	h.Write([]byte(s))
	return fmt.Sprintf("%016x", h.Sum64())
}

func genDfrag(emit func(string), tier string, rng *Rng) {
	thorough := tier == "thorough"
	n, maxLen := 400, 6000
	if thorough {
		n, maxLen = 800, 30000
	}
	pool, kinds := fragInputs(rng, n, maxLen)
	for i, b := range pool {
		L := len(b)
		count("in:" + kinds[i])
		chk := 1
		if rng.Intn(4) == 0 {
			chk = 0
		}
		// contiguous, every so often with an odd buffer size
		emit(fragOp("dfrag", chk, fragSizes(rng, L), b, "-"))
		// one byte at a time
		if L <= 3000 || thorough {
			emit(fragOp("dfrag", chk, fragSizes(rng, L), b, rbLens(rdrFinish(rdrRandSchedule(rng, L, 1), rng.Intn(3)))))
			count("sched:1byte")
		}
		// random partitions, EOF with / after the last bytes
		for k := 0; k < 2; k++ {
			cs := rdrFinish(rdrRandSchedule(rng, L, 2+rng.Intn(4)), rng.Intn(3))
			emit(fragOp("dfrag", chk, fragSizes(rng, L), b, rbLens(cs)))
			count("sched:random")
		}
		emit(fragOp("cifrag", 1, fragSizes(rng, L), b, rbLens(rdrFinish(rdrRandSchedule(rng, L, rng.Intn(6)), rng.Intn(3)))))
		// a failing reader: error at an offset (with or without data), then nothing
		if L > 0 {
			k := rng.Intn(L + 1)
			cs := rdrRandSchedule(rng, k, rng.Intn(6))
			if rng.Bool() && len(cs) > 0 {
				cs[len(cs)-1].err = rdrErr(1 + rng.Intn(5))
			} else {
				cs = append(cs, rdrChunk{0, rdrErr(1 + rng.Intn(5))})
			}
			if rng.Bool() { // the reader recovers: the rest follows
				cs = append(cs, rdrChunk{n: L - k})
			}
			emit(fragOp("dfrag", chk, fragSizes(rng, L), b, rbLens(cs)))
			emit(fragOp("cifrag", 1, fragSizes(rng, L), b, rbLens(cs)))
			count("sched:failing")
		}
		// enumeration for small streams: every split point as a 2-chunk schedule, smallest buffer
		if (thorough && L <= 1200 && kinds[i] != "random-body") || (!thorough && L <= 250 && i%3 == 0) {
			// exhaustive: all split points × end-of-stream styles + failure at every offset, as one digest operation
			emit(fragOp("dfragx", chk, []string{"", "765", "0", "1000"}[rng.Intn(4)], b, "-"))
			count("enum:exhaustive-sweep")
			stats.Counts["enum:exhaustive-sweep-schedules"] += 4 * (L + 1)
		}
		if L <= 400 {
			step := 1
			if L > 120 {
				step = 1 + L/60
			}
			for cut := 0; cut <= L; cut += step {
				cs := rdrFinish([]rdrChunk{{n: cut}, {n: L - cut}}, cut%3)
				emit(fragOp("dfrag", chk, []string{"", "765", "0"}[cut%3], b, rbLens(cs)))
				count("enum:2split")
			}
			// failure at every offset
			for k := 0; k <= L; k += step {
				emit(fragOp("dfrag", chk, "", b, rbLens([]rdrChunk{{n: k}, {0, rdrErr(7)}})))
				count("enum:fail-at")
			}
		}
	}
	// streams long enough to straddle the refill boundary of small buffers several times, chunks around it
	nb := 12
	if thorough {
		nb = 150
	}
	for i := 0; i < nb; i++ {
		var b []byte
		for len(b) < 2000+rng.Intn(4000) {
			b = append(b, fragSeal(rng, fragRecords(rng, 30))...)
		}
		if len(b) > 20000 {
			continue
		}
		for k := 0; k < 3; k++ {
			emit(fragOp("dfrag", 1, []string{"765", "766", "0", "1000"}[rng.Intn(4)], b, rbLens(rdrFinish(rdrRandSchedule(rng, len(b), 4+rng.Intn(2)), rng.Intn(3)))))
			count("sched:refill-straddle")
		}
		emit(fragOp("cifrag", 1, "765", b, rbLens(rdrRandSchedule(rng, len(b), 4))))
	}
}
