// fitharness: correspondence harness between the real muktihari/fit code (built from /repo's
// working tree) and the Lean model (driver). One operation per line.
//
//	fitharness gen  <family> [-tier quick|thorough] [-seed N]   → operation lines on stdout
//	fitharness exec                                             → reads operation lines on stdin, prints one answer per line
//	fitharness run  <family> [-tier ..] [-seed N] [-stats f]    → "op \t answer" lines (gen + exec in one process)
package main

import (
	"bufio"
	"encoding/json"
	"flag"
	"fmt"
	"os"
	"sort"
	"strconv"
	"strings"
	"sync"
	"time"
)

type Stats struct {
	Family  string         `json:"family"`
	Ops     int            `json:"ops"`
	Counts  map[string]int `json:"counts"`
	Samples []string       `json:"samples"`
}

var stats = Stats{Counts: map[string]int{}}

func count(key string) { stats.Counts[key]++ }

// A family generates operation lines; exec interprets any line.
type genFunc func(emit func(string), tier string, rng *Rng)

var families = map[string]genFunc{}

// regens: translators that need the compiled repository (fitharness regen <name> <out.lean>)
var regens = map[string]func() (string, error){}

func writeStringIfChanged(path string, content string) error {
	old, err := os.ReadFile(path)
	if err == nil && string(old) == content {
		return nil
	}
	return os.WriteFile(path, []byte(content), 0o644)
}

var executors = map[string]func(args []string) string{}

// sub-commands registered by other files (translators that need the compiled repository):
// fitharness <name> <args...>; a non-nil error exits 1.
var subcommands = map[string]func(args []string) error{}

// the operation the run mode is executing right now (watchdog, see main)
var (
	watchMu    sync.Mutex
	watchOp    string
	watchSince time.Time
)

func execLine(line string) (out string) {
	defer func() {
		if r := recover(); r != nil {
			out = fmt.Sprintf("panic")
			if os.Getenv("VERIF_DEBUG") != "" {
				out = fmt.Sprintf("panic %v", r)
			}
		}
	}()
	toks := strings.Fields(line)
	if len(toks) == 0 {
		return "bad-op"
	}
	ex, ok := executors[toks[0]]
	if !ok {
		return "bad-op"
	}
	return ex(toks[1:])
}

func main() {
	if len(os.Args) < 2 {
		fmt.Fprintln(os.Stderr, "usage: fitharness gen|exec|run|list ...")
		os.Exit(2)
	}
	mode := os.Args[1]
	w := bufio.NewWriterSize(os.Stdout, 1<<20)
	defer w.Flush()
	switch mode {
	case "list":
		names := make([]string, 0, len(families))
		for k := range families {
			names = append(names, k)
		}
		sort.Strings(names)
		fmt.Fprintln(w, strings.Join(names, "\n"))
	case "regen":
		if len(os.Args) != 4 {
			fmt.Fprintln(os.Stderr, "usage: fitharness regen <name> <out.lean>")
			os.Exit(2)
		}
		f, ok := regens[os.Args[2]]
		if sc, isSub := subcommands[os.Args[2]]; !ok && isSub { // translators registered as plain sub-commands
			if err := sc(os.Args[3:]); err != nil {
				fmt.Fprintln(os.Stderr, err)
				os.Exit(1)
			}
			return
		}
		if !ok {
			fmt.Fprintln(os.Stderr, "unknown regen", os.Args[2])
			os.Exit(2)
		}
		content, err := f()
		if err == nil {
			err = writeStringIfChanged(os.Args[3], content)
		}
		if err != nil {
			fmt.Fprintln(os.Stderr, err)
			os.Exit(1)
		}
	case "exec":
		sc := bufio.NewScanner(os.Stdin)
		sc.Buffer(make([]byte, 1<<20), 1<<28)
		for sc.Scan() {
			fmt.Fprintln(w, execLine(sc.Text()))
		}
	case "gen", "run":
		if len(os.Args) < 3 {
			fmt.Fprintln(os.Stderr, "family required")
			os.Exit(2)
		}
		fam := os.Args[2]
		fs := flag.NewFlagSet(mode, flag.ExitOnError)
		tier := fs.String("tier", "quick", "quick|thorough")
		seed := fs.Uint64("seed", 1, "seed")
		statsFile := fs.String("stats", "", "write stats json here")
		fs.Parse(os.Args[3:])
		g, ok := families[fam]
		if !ok {
			fmt.Fprintln(os.Stderr, "unknown family", fam)
			os.Exit(2)
		}
		stats.Family = fam
		emit := func(line string) {
			stats.Ops++
			if len(stats.Samples) < 5 && len(line) < 400 {
				stats.Samples = append(stats.Samples, line)
			}
			if mode == "gen" {
				fmt.Fprintln(w, line)
			} else {
				watchMu.Lock()
				watchOp, watchSince = line, time.Now()
				watchMu.Unlock()
				ans := execLine(line)
				watchMu.Lock()
				watchOp = ""
				watchMu.Unlock()
				fmt.Fprintf(w, "%s\t%s\n", line, ans)
			}
		}
		if mode == "run" {
			// Watchdog: an operation of the real code that does not come back (a seeded change turned a read loop
			// into an endless one) must become an answer, not a check that never ends. The operation goroutine
			// cannot be stopped, so the process reports `<op> TAB hang` and exits with status 4.
			limit := 300 * time.Second
			if *tier == "thorough" {
				limit = 1200 * time.Second
			}
			if v, err := strconv.Atoi(os.Getenv("VERIF_OP_TIMEOUT")); err == nil && v > 0 {
				limit = time.Duration(v) * time.Second
			}
			go func() {
				for {
					time.Sleep(time.Second)
					watchMu.Lock()
					op, since := watchOp, watchSince
					watchMu.Unlock()
					if op != "" && time.Since(since) > limit {
						w.Flush()
						fmt.Fprintf(os.Stdout, "%s\thang\n", op)
						if *statsFile != "" {
							b, _ := json.Marshal(stats)
							os.WriteFile(*statsFile, b, 0o644)
						}
						fmt.Fprintf(os.Stderr, "operation exceeded %v: %.300s\n", limit, op)
						os.Exit(4)
					}
				}
			}()
		}
		g(emit, *tier, NewRng(*seed))
		if *statsFile != "" {
			b, _ := json.Marshal(stats)
			os.WriteFile(*statsFile, b, 0o644)
		}
	default:
		if sc, ok := subcommands[mode]; ok {
			if err := sc(os.Args[2:]); err != nil {
				w.Flush()
				fmt.Fprintln(os.Stderr, mode+":", err)
				os.Exit(1)
			}
			return
		}
		fmt.Fprintln(os.Stderr, "unknown mode", mode)
		os.Exit(2)
	}
}
