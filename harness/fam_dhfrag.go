package main

// Family `dhfrag`: HISTORIES of API calls (Decode, DecodeWithContext, PeekFileHeader, PeekFileId, Discard, Next,
// CheckIntegrity) on one real Decoder over readers that fragment the stream or fail (schedules as in fam_readbuffer.go),
// with every read-buffer size, against the model `Fit.DecHist.history` running on the model read buffer over the same
// schedule; and — inside the harness — against the same history over one contiguous buffer at value level (`v=`).
// Syntax: lean/Driver/DecHist.lean.

import (
	"bytes"
	"context"
	"errors"
	"fmt"
	"io"
	"strconv"
	"strings"

	"github.com/muktihari/fit/decoder"
	"github.com/muktihari/fit/proto"
)

func init() {
	families["dhfrag"] = genDhfrag
	executors["dhfrag"] = execDhfrag
	families["rawfrag"] = genRawFrag
	executors["rawfrag"] = execRaw // the RawDecoder over a schedule reader (fam_raw.go); family of C08: --spec = contiguous
}

// dhRec: the listeners of a dhfrag line: framing-level events (as fragRec), "a file_id message was seen in the current
// sequence", and the cancellation of the context at the k-th record of the current call.
type dhRec struct {
	fragRec
	sawFileId bool
	count     int
	cancelAt  int
	cancel    context.CancelFunc
}

func (e *dhRec) tick() {
	e.count++
	if e.cancel != nil && e.count == e.cancelAt {
		e.cancel()
	}
}

func (e *dhRec) OnMesgDef(d proto.MessageDefinition) {
	e.fragRec.OnMesgDef(d)
	e.tick()
}

func (e *dhRec) OnMesg(m proto.Message) {
	e.fragRec.OnMesg(m)
	if m.Num == 0 {
		e.sawFileId = true
	}
	e.tick()
}

func dhHdr(h *proto.FileHeader) string {
	return fmt.Sprintf("%d.%d.%d.%d.%d", h.Size, byte(h.ProtocolVersion), h.ProfileVersion, h.DataSize, h.CRC)
}

// dhRun runs the calls; full = value-level transcript (default options) for the `v=` comparison
func dhRun(r io.Reader, chk bool, hasSize bool, size int, ops []string, full bool) string {
	var sb strings.Builder
	rec := &dhRec{fragRec: fragRec{&sb, full, nil}}
	opts := []decoder.Option{decoder.WithMesgDefListener(rec), decoder.WithMesgListener(rec)}
	if !full {
		opts = append(opts, decoder.WithNoComponentExpansion())
	}
	if !chk {
		opts = append(opts, decoder.WithIgnoreChecksum())
	}
	if hasSize {
		opts = append(opts, decoder.WithReadBufferSize(size))
	}
	dec := decoder.New(r, opts...)
	var toks []string
	fit := func(f *proto.FIT, err error) string {
		if err != nil {
			return "err:" + dhErrClass(err)
		}
		rec.sawFileId = false
		fmt.Fprintf(&sb, " S%s.%d.%d", dhHdr(&f.FileHeader), f.CRC, len(f.Messages))
		if full {
			for _, m := range f.Messages {
				rec.fragRec.OnMesg(m)
			}
		}
		return fmt.Sprintf("F%s.%d.%d", dhHdr(&f.FileHeader), f.CRC, len(f.Messages))
	}
	for _, op := range ops {
		var tok string
		switch {
		case op == "dec":
			tok = fit(dec.Decode())
		case op == "decx":
			tok = fit(dec.DecodeWithContext(context.Background()))
		case op == "decc":
			ctx, cancel := context.WithCancel(context.Background())
			cancel()
			tok = fit(dec.DecodeWithContext(ctx))
		case strings.HasPrefix(op, "decx:"):
			k, _ := strconv.Atoi(op[5:])
			ctx, cancel := context.WithCancel(context.Background())
			rec.count, rec.cancelAt, rec.cancel = 0, k, cancel
			tok = fit(dec.DecodeWithContext(ctx))
			rec.cancel = nil
			cancel()
		case op == "pkh":
			h, err := dec.PeekFileHeader()
			if err != nil {
				tok = "err:" + dhErrClass(err)
			} else {
				tok = "H" + dhHdr(h)
			}
		case op == "pki":
			_, err := dec.PeekFileId()
			switch {
			case err != nil:
				tok = "err:" + dhErrClass(err)
			case rec.sawFileId:
				tok = "I1"
			default:
				tok = "I0"
			}
		case op == "dis":
			if err := dec.Discard(); err != nil {
				tok = "err:" + dhErrClass(err)
			} else {
				tok = "ok"
				rec.sawFileId = false
			}
		case op == "nxt":
			if dec.Next() {
				tok = "t"
			} else {
				tok = "f"
			}
		case op == "ci":
			n, err := dec.CheckIntegrity()
			if err != nil {
				tok = fmt.Sprintf("ci:%d:%s", n, dhErrClass(err))
			} else {
				tok = fmt.Sprintf("ci:%d:ok", n)
			}
		}
		toks = append(toks, tok)
	}
	return strings.Join(toks, " ") + " |" + sb.String()
}

func dhErrClass(err error) string {
	if errors.Is(err, context.Canceled) {
		return "ctx"
	}
	return fragErrClass(err)
}

func dhParse(args []string) (a fragArgs, ops []string, ok bool) {
	var rest []string
	seen := false
	for _, t := range args {
		if strings.HasPrefix(t, "ops:") {
			ops, seen = strings.Split(t[4:], ","), true
		} else {
			rest = append(rest, t)
		}
	}
	if !seen {
		return a, nil, false
	}
	for i, op := range ops {
		switch op {
		case "dec", "decx", "decc", "pkh", "pki", "dis", "nxt":
		case "ci":
			if i != len(ops)-1 {
				return a, nil, false
			}
		default:
			k, err := strconv.Atoi(strings.TrimPrefix(op, "decx:"))
			if !strings.HasPrefix(op, "decx:") || err != nil || k < 1 || k > 1<<20 {
				return a, nil, false
			}
		}
	}
	a, ok = fragParse(rest)
	return a, ops, ok && a.fail == -1
}

func execDhfrag(args []string) string {
	a, ops, ok := dhParse(args)
	if !ok {
		return "bad-op"
	}
	r, delivered, clean, ok := a.reader()
	if !ok {
		return "bad-op"
	}
	ans := dhRun(r, a.chk, a.hasSize, a.size, ops, false)
	v := "na"
	if clean {
		r2, _, _, _ := a.reader()
		frag := dhRun(r2, a.chk, a.hasSize, a.size, ops, true)
		contig := dhRun(bytes.NewReader(delivered), a.chk, false, 0, ops, true)
		v = "same"
		if frag != contig {
			v = "diff"
		}
	}
	return ans + " v=" + v
}

// ---------------------------------------------------------------- generator

var dhConsume = []string{"dec", "decx", "dis", "pkh,dec", "pki,dec", "pki,dis", "pkh,dis", "nxt,dec", "nxt,pki,dis", "pki,pki,dec",
	"pkh,pki,dis", "pkh,pkh,dec", "nxt,nxt,dec", "decx:99", "pki,decx:99", "nxt,pkh,pki,dec"}

func dhRandOps(rng *Rng, nseq int) string {
	var ops []string
	switch rng.Intn(5) {
	case 0: // arbitrary word
		n := rng.Range(1, 7)
		for i := 0; i < n; i++ {
			r := rng.Intn(20)
			switch {
			case r < 6:
				ops = append(ops, "dec")
			case r < 7:
				ops = append(ops, "decx")
			case r < 8:
				ops = append(ops, fmt.Sprintf("decx:%d", 1+rng.Intn(12)))
			case r < 9 && rng.Intn(3) == 0:
				ops = append(ops, "decc")
			case r < 11:
				ops = append(ops, "pkh")
			case r < 14:
				ops = append(ops, "pki")
			case r < 16:
				ops = append(ops, "dis")
			default:
				ops = append(ops, "nxt")
			}
		}
	default: // one consuming word per sequence of the stream, then possibly more calls than sequences
		n := nseq + rng.Intn(2)
		for i := 0; i < n; i++ {
			ops = append(ops, dhConsume[rng.Intn(len(dhConsume))])
		}
		if rng.Intn(8) == 0 { // a context cancelled at some record of the call
			ops[rng.Intn(len(ops))] = fmt.Sprintf("pki,decx:%d", 1+rng.Intn(8))
		}
	}
	if rng.Intn(6) == 0 {
		ops = append(ops, "ci")
	}
	return strings.Join(ops, ",")
}

func dhOp(chk int, size string, ops string, b []byte, lens string) string {
	s := "dhfrag"
	if chk == 0 {
		s += " chk=0"
	}
	if size != "" {
		s += " size=" + size
	}
	s += " ops:" + ops + " b:" + hexString(b)
	if lens != "-" {
		s += " s:" + lens
	}
	return s
}

func hexString(b []byte) string { return fmt.Sprintf("%x", b) }

func genDhfrag(emit func(string), tier string, rng *Rng) {
	thorough := tier == "thorough"
	n, maxLen := 260, 4000
	if thorough {
		n, maxLen = 450, 12000
	}
	pool, kinds := fragInputs(rng, n, maxLen)
	// chains of several sequences: histories that consume one sequence per call need them
	for i := 0; i < n/2; i++ {
		var b []byte
		k := rng.Range(2, 4)
		for j := 0; j < k; j++ {
			b = append(b, fragSeal(rng, fragRecords(rng, 6))...)
		}
		if rng.Intn(6) == 0 {
			b = b[:rng.Intn(len(b)+1)]
		}
		if len(b) <= maxLen {
			pool, kinds = append(pool, b), append(kinds, "chain")
		}
	}
	for i, b := range pool {
		L := len(b)
		count("in:" + kinds[i])
		nseq := 1
		if kinds[i] == "chain" || kinds[i] == "records-chained" || kinds[i] == "records-carry" {
			nseq = 2 + rng.Intn(2)
		}
		chk := 1
		if rng.Intn(4) == 0 {
			chk = 0
		}
		for k := 0; k < 2; k++ {
			ops := dhRandOps(rng, nseq)
			// contiguous
			emit(dhOp(chk, fragSizes(rng, L), ops, b, "-"))
			// one byte at a time
			if L <= 2500 || thorough {
				emit(dhOp(chk, fragSizes(rng, L), ops, b, rbLens(rdrFinish(rdrRandSchedule(rng, L, 1), rng.Intn(3)))))
				count("sched:1byte")
			}
			// random partitions
			emit(dhOp(chk, fragSizes(rng, L), ops, b, rbLens(rdrFinish(rdrRandSchedule(rng, L, 2+rng.Intn(4)), rng.Intn(3)))))
			count("sched:random")
			// a failing reader: error at an offset, then nothing / the rest
			if L > 0 {
				at := rng.Intn(L + 1)
				cs := rdrRandSchedule(rng, at, rng.Intn(6))
				if rng.Bool() && len(cs) > 0 {
					cs[len(cs)-1].err = rdrErr(1 + rng.Intn(5))
				} else {
					cs = append(cs, rdrChunk{0, rdrErr(1 + rng.Intn(5))})
				}
				if rng.Bool() {
					cs = append(cs, rdrChunk{n: L - at})
				}
				emit(dhOp(chk, fragSizes(rng, L), ops, b, rbLens(cs)))
				count("sched:failing")
			}
		}
		// enumeration for small streams: every split point as a 2-chunk schedule, and a failure at every offset
		if L <= 300 && i%2 == 0 {
			ops := dhRandOps(rng, nseq)
			step := 1
			if L > 100 {
				step = 1 + L/50
			}
			for cut := 0; cut <= L; cut += step {
				emit(dhOp(chk, []string{"", "765", "0"}[cut%3], ops, b, rbLens(rdrFinish([]rdrChunk{{n: cut}, {n: L - cut}}, cut%3))))
				count("enum:2split")
			}
			for at := 0; at <= L; at += step {
				emit(dhOp(chk, "", ops, b, rbLens([]rdrChunk{{n: at}, {0, rdrErr(7)}})))
				count("enum:fail-at")
			}
		}
	}
	// streams that straddle the refill boundary of small buffers several times
	nb := 8
	if thorough {
		nb = 100
	}
	for i := 0; i < nb; i++ {
		var b []byte
		ns := 0
		for len(b) < 1500+rng.Intn(3000) {
			b = append(b, fragSeal(rng, fragRecords(rng, 30))...)
			ns++
		}
		if len(b) > 15000 {
			continue
		}
		for k := 0; k < 3; k++ {
			emit(dhOp(1, []string{"765", "766", "0", "1000"}[rng.Intn(4)], dhRandOps(rng, ns), b,
				rbLens(rdrFinish(rdrRandSchedule(rng, len(b), 4+rng.Intn(2)), rng.Intn(3)))))
			count("sched:refill-straddle")
		}
	}
}

// ---------------------------------------------------------------- family rawfrag (C08_raw_chunk_indep)

// genRawFrag: the RawDecoder reads with io.ReadFull straight from the reader. Streams — complete sequences and chains, with
// 0..3 trailing bytes (a further header's first byte, garbage) — cut at EVERY offset (so that the stream ends right behind
// the first byte of a sequence, a message header byte, a developer-field count byte, inside every multi-byte read), and each
// cut delivered: in one Read together with io.EOF; with its LAST BYTE alone together with io.EOF; one byte per Read with
// io.EOF on the last; with io.EOF afterwards; in random partitions. The reference (--spec) is bytes.NewReader.
func genRawFrag(emit func(string), tier string, rng *Rng) {
	thorough := tier == "thorough"
	ns, maxL := 70, 300
	if thorough {
		ns, maxL = 160, 500
	}
	one := func(b []byte, cs []rdrChunk) { emit(fragOp("rawfrag", 1, "", b, rbLens(cs))) }
	for i := 0; i < ns; i++ {
		b := fragSeal(rng, fragRecords(rng, 1+rng.Intn(5)))
		if rng.Intn(3) == 0 {
			b = append(b, fragSeal(rng, fragRecords(rng, 1+rng.Intn(3)))...)
		}
		switch rng.Intn(4) {
		case 0:
			b = append(b, []byte{12, 14}[rng.Intn(2)])
		case 1:
			b = append(b, byte(rng.Intn(256)))
		case 2:
			b = append(b, rng.Bytes(2+rng.Intn(2))...)
		}
		if len(b) > maxL {
			continue
		}
		count("stream")
		for cut := 0; cut <= len(b); cut++ {
			t := b[:cut]
			one(t, []rdrChunk{{cut, io.EOF}})
			if cut >= 1 {
				one(t, []rdrChunk{{n: cut - 1}, {1, io.EOF}})
			}
			one(t, rdrFinish(rdrRandSchedule(rng, cut, 1), 1))
			one(t, rdrFinish(rdrRandSchedule(rng, cut, 2+rng.Intn(4)), rng.Intn(3)))
			count("cut")
		}
	}
	// larger inputs (fixtures, encoder outputs, record streams, mutated, truncated): a few schedules each
	n := 120
	if thorough {
		n = 500
	}
	pool, kinds := fragInputs(rng, n, 6000)
	for i, b := range pool {
		count("in:" + kinds[i])
		L := len(b)
		one(b, []rdrChunk{{L, io.EOF}})
		if L >= 1 {
			one(b, []rdrChunk{{n: L - 1}, {1, io.EOF}})
		}
		one(b, rdrFinish(rdrRandSchedule(rng, L, 2+rng.Intn(4)), rng.Intn(3)))
		tail := append(append([]byte(nil), b...), []byte{12, 14, byte(rng.Intn(256))}[rng.Intn(3)])
		one(tail, []rdrChunk{{n: L}, {1, io.EOF}})
		one(tail, []rdrChunk{{L + 1, io.EOF}})
	}
}
