package main

// Family `readbuffer` (op `rb`): the unexported readBuffer of package decoder (hook VerifReadBuffer) driven
// with arbitrary Reset / ReadN sequences over readers that fragment the stream according to a schedule.
// Syntax: see lean/Driver/ReadBuffer.lean.

import (
	"encoding/hex"
	"errors"
	"fmt"
	"io"
	"strconv"
	"strings"

	"github.com/muktihari/fit/decoder"
)

func init() {
	families["readbuffer"] = genReadBuffer
	executors["rb"] = execRb
}

// rdrErr is the reader's own error number k.
type rdrErr int

func (e rdrErr) Error() string { return "reader error " + strconv.Itoa(int(e)) }

type rdrChunk struct {
	n   int
	err error
}

// schedReader delivers data in the chunks of a schedule: one chunk per Read call (a chunk that does not fit
// into p is delivered in pieces, the error stays with the last piece); (0, io.EOF) after the schedule.
type schedReader struct {
	data   []byte
	chunks []rdrChunk
	calls  int
}

func (s *schedReader) Read(p []byte) (int, error) {
	s.calls++
	if len(s.chunks) == 0 {
		return 0, io.EOF
	}
	c := &s.chunks[0]
	if c.n > len(s.data) {
		c.n = len(s.data)
	}
	if c.n <= len(p) {
		n := copy(p, s.data[:c.n])
		s.data = s.data[n:]
		err := c.err
		s.chunks = s.chunks[1:]
		return n, err
	}
	n := copy(p, s.data[:len(p)])
	s.data = s.data[n:]
	c.n -= n
	return n, nil
}

func rdrParseLens(lens string) ([]rdrChunk, bool) {
	var res []rdrChunk
	if lens == "" {
		return res, true
	}
	for _, t := range strings.Split(lens, ",") {
		i := 0
		for i < len(t) && t[i] >= '0' && t[i] <= '9' {
			i++
		}
		n, err := strconv.Atoi(t[:i])
		if err != nil {
			return nil, false
		}
		c := rdrChunk{n: n}
		switch rest := t[i:]; {
		case rest == "":
		case rest == "e":
			c.err = io.EOF
		case rest == "u":
			c.err = io.ErrUnexpectedEOF
		case strings.HasPrefix(rest, "x"):
			k, err := strconv.Atoi(rest[1:])
			if err != nil {
				return nil, false
			}
			c.err = rdrErr(k)
		default:
			return nil, false
		}
		res = append(res, c)
	}
	return res, true
}

func rdrNewSched(hx, lens string) (*schedReader, bool) {
	b, err := hex.DecodeString(hx)
	if err != nil {
		return nil, false
	}
	cs, ok := rdrParseLens(lens)
	if !ok {
		return nil, false
	}
	return &schedReader{data: b, chunks: cs}, true
}

// rdrErrClass: class of an error of the reading layer (possibly wrapped by the decoder)
func rdrErrClass(err error) string {
	var re rdrErr
	switch {
	case errors.As(err, &re):
		return fmt.Sprintf("c%d", int(re))
	case errors.Is(err, io.EOF):
		return "eof"
	case errors.Is(err, io.ErrUnexpectedEOF):
		return "ueof"
	case errors.Is(err, io.ErrShortBuffer):
		return "short"
	}
	return "other"
}

func execRb(args []string) string {
	var rb decoder.VerifReadBuffer
	var out []string
	have, stopped := false, false
	for _, a := range args {
		p := strings.Split(a, ":")
		switch {
		case p[0] == "reset" && len(p) == 4:
			size, err := strconv.Atoi(p[1])
			if err != nil {
				return "bad-op"
			}
			r, ok := rdrNewSched(p[2], p[3])
			if !ok {
				return "bad-op"
			}
			rb.Reset(r, size)
			have, stopped = true, false
		case p[0] == "r" && len(p) == 2:
			n, err := strconv.Atoi(p[1])
			if err != nil || n < 0 || !have {
				return "bad-op"
			}
			if stopped {
				continue
			}
			res := func() (s string) {
				defer func() {
					if r := recover(); r != nil {
						s = "panic"
					}
				}()
				b, err := rb.ReadN(n)
				if err != nil {
					return "err:" + rdrErrClass(err)
				}
				if len(b) == 0 {
					return "-"
				}
				return hex.EncodeToString(b)
			}()
			out = append(out, res)
			if res == "panic" || strings.HasPrefix(res, "err:") {
				stopped = true
			}
		default:
			return "bad-op"
		}
	}
	if len(out) == 0 {
		return "none"
	}
	return strings.Join(out, " ")
}

// ---------------------------------------------------------------- generator

func rbLens(cs []rdrChunk) string {
	s := make([]string, len(cs))
	for i, c := range cs {
		s[i] = strconv.Itoa(c.n)
		var re rdrErr
		switch {
		case c.err == nil:
		case c.err == io.EOF:
			s[i] += "e"
		case c.err == io.ErrUnexpectedEOF:
			s[i] += "u"
		case errors.As(c.err, &re):
			s[i] += "x" + strconv.Itoa(int(re))
		}
	}
	return strings.Join(s, ",")
}

// rdrRandSchedule: a schedule over total bytes. kind: 0 contiguous, 1 one byte at a time, 2 random partition,
// 3 small chunks, 4 around a pivot; eofWith: EOF together with the last chunk; zero-length chunks sprinkled in.
func rdrRandSchedule(rng *Rng, total int, kind int) []rdrChunk {
	var cs []rdrChunk
	left := total
	for left > 0 {
		k := left
		switch kind {
		case 1:
			k = 1
		case 2:
			k = 1 + rng.Intn(left)
		case 3:
			k = 1 + rng.Intn(8)
		case 4:
			k = []int{1, 2, 3, 764, 765, 766, 767, 1529, 1530, 1531, 4095, 4096, 4097}[rng.Intn(13)]
		case 5:
			k = 1 + rng.Intn(900)
		}
		if k > left {
			k = left
		}
		if rng.Intn(40) == 0 {
			cs = append(cs, rdrChunk{n: 0})
		}
		cs = append(cs, rdrChunk{n: k})
		left -= k
	}
	return cs
}

// rdrFinish: how the end of the stream is reported: 0 = schedule ends (EOF after the last bytes),
// 1 = EOF together with the last bytes, 2 = an explicit (0, EOF) chunk
func rdrFinish(cs []rdrChunk, how int) []rdrChunk {
	switch how {
	case 1:
		if len(cs) > 0 {
			cs[len(cs)-1].err = io.EOF
		} else {
			cs = append(cs, rdrChunk{0, io.EOF})
		}
	case 2:
		cs = append(cs, rdrChunk{0, io.EOF})
	}
	return cs
}

func rbOp(size int, data []byte, cs []rdrChunk, reads []int) string {
	var sb strings.Builder
	fmt.Fprintf(&sb, "reset:%d:%s:%s", size, hex.EncodeToString(data), rbLens(cs))
	for _, n := range reads {
		fmt.Fprintf(&sb, " r:%d", n)
	}
	return sb.String()
}

// rbDecoderLikeReads: request sizes as decoder.go issues them (1, 11/13, 5, 3k, field sizes, 2), until `total` is passed
func rbDecoderLikeReads(rng *Rng, total int, beyond bool) []int {
	var reads []int
	sum := 0
	for sum < total || (beyond && rng.Intn(2) == 0) {
		var n int
		switch rng.Intn(10) {
		case 0, 1, 2:
			n = 1
		case 3:
			n = 5
		case 4:
			n = 3 * rng.Intn(256)
		case 5:
			n = 2
		case 6:
			n = rng.Intn(256)
		case 7:
			n = []int{0, 11, 13, 255, 764, 765}[rng.Intn(6)]
		default:
			n = 1 + rng.Intn(20)
		}
		reads = append(reads, n)
		sum += n
		if sum > total {
			break
		}
		if len(reads) > 4000 {
			break
		}
	}
	return reads
}

func genReadBuffer(emit func(string), tier string, rng *Rng) {
	thorough := tier == "thorough"
	seq := func(n int) []byte { // recognisable contents: position-dependent bytes
		b := make([]byte, n)
		for i := range b {
			b[i] = byte(i*7 + i/251 + 1)
		}
		return b
	}
	// 1. fixed vectors
	emit("rb reset:0::")
	emit("rb reset:0:: r:0 r:1")
	emit("rb reset:0:0102030405:5 r:2 r:2 r:2")
	emit("rb reset:0:0102030405:1,1,1,1,1 r:2 r:2 r:2")
	emit("rb reset:0:0102030405:5e r:5 r:1")
	emit("rb reset:0:0102030405:2,3x7 r:2 r:3 r:1")
	emit("rb reset:0:0102030405:2,0x7,3 r:2 r:3 r:1")
	count("fixed")

	// 2. enumeration: every 2-chunk split × EOF style, for stream lengths around the structural numbers,
	// a few request patterns (all requests equal to k; decoder-like), buffer sizes around the clamp
	lens := []int{1, 2, 3, 7, 764, 765, 766, 1529, 1530, 1531, 1600}
	if thorough {
		lens = append(lens, 4, 5, 6, 767, 1000, 2295, 2296, 3060)
	}
	for _, L := range lens {
		data := seq(L)
		step := 1
		if L > 64 && !thorough {
			step = L/48 + 1
		} else if L > 64 {
			step = L/400 + 1
		}
		for cut := 0; cut <= L; cut += step {
			for how := 0; how < 3; how++ {
				if how > 0 && cut%3 != 0 && L > 64 {
					continue
				}
				cs := rdrFinish([]rdrChunk{{n: cut}, {n: L - cut}}, how)
				for _, k := range []int{1, 2, 255, 764, 765} {
					if k > L+1 {
						continue
					}
					var reads []int
					for s := 0; s <= L; s += k {
						reads = append(reads, k)
					}
					size := []int{0, 765, 766, 4096}[(cut+k+how)%4]
					emit("rb " + rbOp(size, data, cs, reads))
					count("enum-2split")
				}
			}
		}
		// cut points close to every multiple of the refill boundary, three chunks
		for _, c1 := range []int{0, 1, 764, 765, 766} {
			for _, c2 := range []int{0, 1, 2, 764, 765, 766} {
				if c1+c2 > L {
					continue
				}
				cs := []rdrChunk{{n: c1}, {n: c2}, {n: L - c1 - c2}}
				reads := rbDecoderLikeReads(rng, L, true)
				emit("rb " + rbOp([]int{765, 1000}[(c1+c2)%2], data, cs, reads))
				count("enum-3split")
			}
		}
	}

	// 3. random: sizes × schedules × request sequences
	n := 4000
	if thorough {
		n = 40000
	}
	for i := 0; i < n; i++ {
		var L int
		switch rng.Intn(6) {
		case 0:
			L = rng.Intn(20)
		case 1:
			L = 750 + rng.Intn(40)
		case 2:
			L = 1500 + rng.Intn(80)
		case 3:
			L = rng.Intn(3000)
		case 4:
			L = 4000 + rng.Intn(1000)
		default:
			L = rng.Intn(800)
		}
		if L > 2500 && i%4 != 0 {
			L = rng.Intn(1600)
		}
		data := rng.Bytes(L)
		size := []int{-5, 0, 1, 764, 765, 766, 767, 1000, 1530, 4096, L - 1, L, L + 1}[rng.Intn(13)]
		cs := rdrRandSchedule(rng, L, rng.Intn(6))
		kind := "clean"
		switch rng.Intn(10) {
		case 0: // failing reader: an error at some chunk, with or without data
			if len(cs) > 0 {
				j := rng.Intn(len(cs))
				cs[j].err = rdrErr(1 + rng.Intn(3))
				if rng.Bool() { // error without data, before chunk j
					cs = append(cs[:j], append([]rdrChunk{{0, rdrErr(9)}}, cs[j:]...)...)
					cs[j+1].err = nil
				}
				kind = "failing"
			}
		case 1: // EOF in the middle (a reader that goes on after EOF)
			if len(cs) > 1 {
				cs[rng.Intn(len(cs)-1)].err = io.EOF
				kind = "mid-eof"
			}
		case 2:
			if len(cs) > 0 {
				cs[rng.Intn(len(cs))].err = io.ErrUnexpectedEOF
				kind = "reader-ueof"
			}
		}
		cs = rdrFinish(cs, rng.Intn(3))
		var reads []int
		switch rng.Intn(8) {
		case 0: // arbitrary, also beyond what the decoder asks for
			for k := 0; k < 1+rng.Intn(12); k++ {
				reads = append(reads, []int{0, 1, 765, 766, 767, 1530, 1531, 2000, 4096, 5000, rng.Intn(3000)}[rng.Intn(11)])
			}
			kind += "+wild"
		case 1: // constant
			k := 1 + rng.Intn(765)
			for s := 0; s <= L; s += k {
				reads = append(reads, k)
			}
		default:
			reads = rbDecoderLikeReads(rng, L, true)
		}
		op := rbOp(size, data, cs, reads)
		if rng.Intn(6) == 0 { // re-use of the buffer by a second (third) Reset with other sizes: stale contents, re-slicing
			for k := 0; k < 1+rng.Intn(2); k++ {
				L2 := rng.Intn(1800)
				op += " " + rbOp([]int{0, 765, 800, 2000, 5000}[rng.Intn(5)], rng.Bytes(L2), rdrFinish(rdrRandSchedule(rng, L2, rng.Intn(6)), rng.Intn(3)), rbDecoderLikeReads(rng, L2, true))
			}
			kind += "+reuse"
		}
		count(kind)
		count(fmt.Sprintf("len<%d", bucket(L)))
		emit("rb " + op)
	}
}
