package main

// Family `typed` (property C13): every typed message of package mesgdef (through the regenerated registry),
// the REAL NewXxx(&mesg) / ToMesg(options) against the generic Lean model instantiated with the regenerated tables.
//
//	typedms <Name> <opts> <message>   → "<struct> <message'>"   struct = NewXxx(&message), message' = struct.ToMesg(opts)
//	typedrt <Name> <opts> <message>   → "<message'>"            the same round trip, message only (--spec: typedNormal)
//	typedsm <Name> <opts> <struct>    → "<message> <struct'>"   message = struct.ToMesg(opts), struct' = NewXxx(&message)
//	typedid <Name> <struct>           → "<struct'>"             through ToMesg(IncludeExpandedFields, standard factory) and back
//	                                                            (--spec: the struct itself when it is InRange)
//	typednil <Name>                   → "<struct> <message>"    NewXxx(nil) and its ToMesg(nil)
//	typedmark <Name> <struct> <k> <0|1> → "ok=<0|1> <struct'>"  MarkAsExpandedField(k, flag)
//	typedseq <Name> <message1> <message2> → "<struct>"          s := NewXxx(&message1); s.Reset(&message2): nothing of message1 survives
//	typedmsm <Name> <message>         → "<struct> <struct'>"    struct = NewXxx(&message) — a struct as Reset builds it, marks on
//	                                                            non-eligible numbers included —, struct' = NewXxx(&struct.ToMesg(
//	                                                            IncludeExpandedFields, standard factory)) (--spec: normDoc struct)
//
//	<opts>   ::= "o:nil" | "o:" ("i"|"-") "," ("std"|"zero"|"unk"|"alt"|"nil")
//	             i = IncludeExpandedFields; factory: std = factory.StandardFactory(), zero = Options.Factory left nil,
//	             unk = every field "unknown", alt = the standard field with other attributes and IsExpandedField set,
//	             nil = fields without FieldBase
//	<struct> ::= "S{" <slot> {";" <slot>} "|" <marks> "|" <fieldlist> "|" <devlist> "}"
//	             one <slot> per table slot in emission order: a <value> of valcodec.go (fixed arrays as slices; "inv:" is a
//	             nil slice) or "t:" <seconds since the FIT epoch, signed decimal> for a time.Time (whole seconds, UTC), or
//	             "rb:" <hex byte 02..fe> for a typedef.Bool field holding something else than 0, 1, 255 (a proto.Value cannot)
//	<marks>  ::= "-" | <num> {"," <num>}      the numbers k in 0..255 for which IsExpandedField(k)
//	             <fieldlist>/<devlist>: UnknownFields / DeveloperFields in the syntax of msgcodec.go
//
// Structs are built and read by reflection (typed_reflect.go); marks are set with MarkAsExpandedField (a mark the API
// refuses is a bad-op on both sides).

import (
	"fmt"
	"reflect"
	"strconv"
	"strings"
	"time"

	"github.com/muktihari/fit/profile/factory"
	"github.com/muktihari/fit/profile/mesgdef"
	"github.com/muktihari/fit/profile/typedef"
	"github.com/muktihari/fit/proto"
)

func init() {
	families["typed"] = genTyped
	executors["typedms"] = execTypedMS
	executors["typedrt"] = execTypedRT
	executors["typedsm"] = execTypedSM
	executors["typedid"] = execTypedID
	executors["typednil"] = execTypedNil
	executors["typedseq"] = execTypedSeq
	executors["typedmark"] = execTypedMark
	executors["typednils"] = execTypedNils
	executors["typedmsm"] = execTypedMSM
}

// ---------------------------------------------------------------- custom factories

type facUnk struct{}

func (facUnk) CreateField(_ typedef.MesgNum, num byte) proto.Field {
	return proto.Field{FieldBase: &proto.FieldBase{Name: factory.NameUnknown, Num: num, Scale: 1}}
}

type facAlt struct{}

func (facAlt) CreateField(mn typedef.MesgNum, num byte) proto.Field {
	f := factory.StandardFactory().CreateField(mn, num)
	fb := *f.FieldBase
	fb.Name, fb.Scale, fb.Offset, fb.Accumulate = "alt", 2, -1, !fb.Accumulate
	return proto.Field{FieldBase: &fb, IsExpandedField: true}
}

type facNil struct{}

func (facNil) CreateField(typedef.MesgNum, byte) proto.Field { return proto.Field{} }

func parseTypedOpts(s string) (*mesgdef.Options, bool) {
	if s == "o:nil" {
		return nil, true
	}
	if !strings.HasPrefix(s, "o:") {
		return nil, false
	}
	p := strings.Split(s[2:], ",")
	if len(p) != 2 || (p[0] != "i" && p[0] != "-") {
		return nil, false
	}
	o := &mesgdef.Options{IncludeExpandedFields: p[0] == "i"}
	switch p[1] {
	case "std":
		o.Factory = factory.StandardFactory()
	case "zero":
	case "unk":
		o.Factory = facUnk{}
	case "alt":
		o.Factory = facAlt{}
	case "nil":
		o.Factory = facNil{}
	default:
		return nil, false
	}
	return o, true
}

// ---------------------------------------------------------------- struct text

func printStruct(t *mdTable, s reflect.Value) string {
	var sb strings.Builder
	sb.WriteString("S{")
	e := s.Elem()
	for i := range t.slots {
		if i > 0 {
			sb.WriteByte(';')
		}
		sl := &t.slots[i]
		f := e.Field(sl.fieldIdx)
		if sl.kind == "time" {
			sec, ns := slotTime(f)
			fmt.Fprintf(&sb, "t:%d", sec)
			if ns != 0 {
				fmt.Fprintf(&sb, ".%09d", ns)
			}
		} else if sl.kind == "bool" && bitsOf(f) >= 2 && bitsOf(f) != 255 {
			fmt.Fprintf(&sb, "rb:%02x", bitsOf(f))
		} else {
			sb.WriteString(printValue(slotContent(sl, f)))
		}
	}
	sb.WriteByte('|')
	var marks []string
	for k := 0; k < 256; k++ {
		if t.isExpandedField(s, k) {
			marks = append(marks, strconv.Itoa(k))
		}
	}
	if len(marks) == 0 {
		sb.WriteByte('-')
	} else {
		sb.WriteString(strings.Join(marks, ","))
	}
	sb.WriteByte('|')
	uf := e.FieldByName("UnknownFields").Interface().([]proto.Field)
	for i := range uf {
		if i > 0 {
			sb.WriteByte(';')
		}
		sb.WriteString(printField(&uf[i]))
	}
	sb.WriteByte('|')
	if t.hasDev {
		df := e.FieldByName("DeveloperFields").Interface().([]proto.DeveloperField)
		for i := range df {
			if i > 0 {
				sb.WriteByte(';')
			}
			fmt.Fprintf(&sb, "D%d.%d:%s", df[i].DeveloperDataIndex, df[i].Num, printValue(df[i].Value))
		}
	}
	sb.WriteByte('}')
	return sb.String()
}

func parseStruct(t *mdTable, txt string) (reflect.Value, bool) {
	bad := reflect.Value{}
	if !strings.HasPrefix(txt, "S{") || !strings.HasSuffix(txt, "}") {
		return bad, false
	}
	parts := strings.Split(txt[2:len(txt)-1], "|")
	if len(parts) != 4 {
		return bad, false
	}
	s := t.newStruct(nil)
	e := s.Elem()
	var slots []string
	if parts[0] != "" {
		slots = strings.Split(parts[0], ";")
	}
	if len(slots) != len(t.slots) {
		return bad, false
	}
	for i := range t.slots {
		sl := &t.slots[i]
		f := e.Field(sl.fieldIdx)
		if sl.kind == "time" {
			if !strings.HasPrefix(slots[i], "t:") {
				return bad, false
			}
			sec, err := strconv.ParseInt(slots[i][2:], 10, 64)
			if err != nil || sec > 1<<40 || sec < -(1<<40) || (slots[i][2:] != strconv.FormatInt(sec, 10)) {
				return bad, false
			}
			f.Set(reflect.ValueOf(time.Unix(fitEpochU+sec, 0).UTC()))
			continue
		}
		if sl.kind == "bool" && strings.HasPrefix(slots[i], "rb:") {
			b, err := strconv.ParseUint(slots[i][3:], 16, 8)
			if err != nil || len(slots[i]) != 5 || b < 2 || b == 255 || strings.ToLower(slots[i]) != slots[i] {
				return bad, false
			}
			setBits(f, b)
			continue
		}
		v, ok := parseValue(slots[i])
		if !ok || !setSlotContent(sl, f, v) {
			return bad, false
		}
	}
	if parts[1] != "-" {
		last := -1
		for _, ms := range strings.Split(parts[1], ",") {
			k, err := strconv.Atoi(ms)
			if err != nil || k <= last || k > 255 || strconv.Itoa(k) != ms || !t.markAsExpanded(s, k, true) {
				return bad, false
			}
			last = k
		}
	}
	if parts[2] != "" {
		var uf []proto.Field
		for _, fs := range strings.Split(parts[2], ";") {
			f, ok := parseField(fs)
			if !ok {
				return bad, false
			}
			uf = append(uf, f)
		}
		e.FieldByName("UnknownFields").Set(reflect.ValueOf(uf))
	}
	if parts[3] != "" {
		if !t.hasDev {
			return bad, false
		}
		var df []proto.DeveloperField
		for _, ds := range strings.Split(parts[3], ";") {
			d, ok := parseDevField(ds)
			if !ok {
				return bad, false
			}
			df = append(df, d)
		}
		e.FieldByName("DeveloperFields").Set(reflect.ValueOf(df))
	}
	return s, true
}

// ---------------------------------------------------------------- executors

func typedTable(name string) *mdTable {
	if _, err := allTables(); err != nil {
		return nil
	}
	return mdByName[name]
}

func execTypedMS(args []string) string { return typedFromMesg(args, true) }
func execTypedRT(args []string) string { return typedFromMesg(args, false) }

func typedFromMesg(args []string, withStruct bool) string {
	if len(args) != 3 {
		return "bad-op"
	}
	t := typedTable(args[0])
	o, ok := parseTypedOpts(args[1])
	m, ok2 := parseMessage(args[2])
	if t == nil || !ok || !ok2 {
		return "bad-op"
	}
	s := t.newStruct(&m)
	out := t.toMesg(s, o)
	if withStruct {
		return printStruct(t, s) + " " + printMessage(&out)
	}
	return printMessage(&out)
}

// nilSliceOf: the proto.Value of an array type built from a nil Go slice (len 0, nil data pointer)
func nilSliceOf(t proto.Type) (proto.Value, bool) {
	switch t {
	case proto.TypeSliceBool:
		return proto.SliceBool(nil), true
	case proto.TypeSliceInt8:
		return proto.SliceInt8([]int8(nil)), true
	case proto.TypeSliceUint8:
		return proto.SliceUint8([]uint8(nil)), true
	case proto.TypeSliceInt16:
		return proto.SliceInt16([]int16(nil)), true
	case proto.TypeSliceUint16:
		return proto.SliceUint16([]uint16(nil)), true
	case proto.TypeSliceInt32:
		return proto.SliceInt32([]int32(nil)), true
	case proto.TypeSliceUint32:
		return proto.SliceUint32([]uint32(nil)), true
	case proto.TypeSliceInt64:
		return proto.SliceInt64([]int64(nil)), true
	case proto.TypeSliceUint64:
		return proto.SliceUint64([]uint64(nil)), true
	case proto.TypeSliceFloat32:
		return proto.SliceFloat32([]float32(nil)), true
	case proto.TypeSliceFloat64:
		return proto.SliceFloat64([]float64(nil)), true
	case proto.TypeSliceString:
		return proto.SliceString([]string(nil)), true
	}
	return proto.Value{}, false
}

func typedArrayLen(v proto.Value) int {
	rv := reflect.ValueOf(v.Any())
	if rv.Kind() == reflect.Slice {
		return rv.Len()
	}
	return -1
}

// typednils <Name> <opts> <message>: as typedms, but every EMPTY array value of the message (fields and developer fields) is
// replaced by a proto.Value built from a nil Go slice of the same type before NewXxx sees it (the line protocol has no
// syntax for a nil slice: an empty payload stands for it in this op).
func execTypedNils(args []string) string {
	if len(args) != 3 {
		return "bad-op"
	}
	t := typedTable(args[0])
	o, ok := parseTypedOpts(args[1])
	m, ok2 := parseMessage(args[2])
	if t == nil || !ok || !ok2 {
		return "bad-op"
	}
	for i := range m.Fields {
		if nv, isArr := nilSliceOf(m.Fields[i].Value.Type()); isArr && typedArrayLen(m.Fields[i].Value) == 0 {
			m.Fields[i].Value = nv
		}
	}
	s := t.newStruct(&m)
	out := t.toMesg(s, o)
	return printStruct(t, s) + " " + printMessage(&out)
}

func execTypedSM(args []string) string {
	if len(args) != 3 {
		return "bad-op"
	}
	t := typedTable(args[0])
	if t == nil {
		return "bad-op"
	}
	o, ok := parseTypedOpts(args[1])
	s, ok2 := parseStruct(t, args[2])
	if !ok || !ok2 {
		return "bad-op"
	}
	m := t.toMesg(s, o)
	return printMessage(&m) + " " + printStruct(t, t.newStruct(&m))
}

func execTypedID(args []string) string {
	if len(args) != 2 {
		return "bad-op"
	}
	t := typedTable(args[0])
	if t == nil {
		return "bad-op"
	}
	s, ok := parseStruct(t, args[1])
	if !ok {
		return "bad-op"
	}
	m := t.toMesg(s, &mesgdef.Options{Factory: factory.StandardFactory(), IncludeExpandedFields: true})
	return printStruct(t, t.newStruct(&m))
}

func execTypedMSM(args []string) string {
	if len(args) != 2 {
		return "bad-op"
	}
	t := typedTable(args[0])
	m, ok := parseMessage(args[1])
	if t == nil || !ok {
		return "bad-op"
	}
	s := t.newStruct(&m)
	m2 := t.toMesg(s, &mesgdef.Options{Factory: factory.StandardFactory(), IncludeExpandedFields: true})
	return printStruct(t, s) + " " + printStruct(t, t.newStruct(&m2))
}

func execTypedNil(args []string) string {
	if len(args) != 1 {
		return "bad-op"
	}
	t := typedTable(args[0])
	if t == nil {
		return "bad-op"
	}
	s := t.newStruct(nil)
	m := t.toMesg(s, nil)
	return printStruct(t, s) + " " + printMessage(&m)
}

func execTypedSeq(args []string) string {
	if len(args) != 3 {
		return "bad-op"
	}
	t := typedTable(args[0])
	m1, ok1 := parseMessage(args[1])
	m2, ok2 := parseMessage(args[2])
	if t == nil || !ok1 || !ok2 {
		return "bad-op"
	}
	s := t.newStruct(&m1)
	s.MethodByName("Reset").Call([]reflect.Value{reflect.ValueOf(&m2)})
	return printStruct(t, s)
}

// typedmark <Name> <struct> <k> <0|1> → "ok=<0|1> <struct'>": MarkAsExpandedField(k, flag) on the parsed struct
func execTypedMark(args []string) string {
	if len(args) != 4 || (args[3] != "0" && args[3] != "1") {
		return "bad-op"
	}
	t := typedTable(args[0])
	if t == nil {
		return "bad-op"
	}
	s, ok := parseStruct(t, args[1])
	k, err := strconv.Atoi(args[2])
	if !ok || err != nil || k < 0 || k > 255 || strconv.Itoa(k) != args[2] {
		return "bad-op"
	}
	res := 0
	if t.markAsExpanded(s, k, args[3] == "1") {
		res = 1
	}
	return fmt.Sprintf("ok=%d %s", res, printStruct(t, s))
}

// ---------------------------------------------------------------- generators

var typedOptStrings = []string{"o:nil", "o:-,std", "o:i,std", "o:-,zero", "o:i,zero", "o:i,unk", "o:-,alt", "o:i,alt", "o:i,nil"}

func widthOf(pt proto.Type) int {
	switch pt {
	case proto.TypeBool, proto.TypeInt8, proto.TypeUint8, proto.TypeSliceBool, proto.TypeSliceInt8, proto.TypeSliceUint8:
		return 1
	case proto.TypeInt16, proto.TypeUint16, proto.TypeSliceInt16, proto.TypeSliceUint16:
		return 2
	case proto.TypeInt32, proto.TypeUint32, proto.TypeFloat32, proto.TypeSliceInt32, proto.TypeSliceUint32, proto.TypeSliceFloat32:
		return 4
	}
	return 8
}

func boundaryBits(w int, rng *Rng) []uint64 {
	all := ^uint64(0) >> (64 - 8*uint(w))
	return []uint64{0, 1, 2, all, all - 1, all >> 1, all>>1 + 1, all>>1 - 1, rng.U64() & all}
}

var typedStrings = []string{"", "a", "\x00", "a\x00b", "héllo", "\xff\xfe", "trailing\x00", " "}

// randomOfType: a value of the given proto type (scalar: random or boundary; slice: n elements)
func randomOfType(pt proto.Type, n int, rng *Rng) proto.Value {
	switch {
	case pt == proto.TypeString:
		if rng.Intn(3) == 0 {
			return proto.String(typedStrings[rng.Intn(len(typedStrings))])
		}
		return proto.String(string(rng.Bytes(1 + rng.Intn(6))))
	case pt == proto.TypeSliceString:
		o := make([]string, n)
		for i := range o {
			o[i] = typedStrings[rng.Intn(len(typedStrings))]
		}
		return proto.SliceString(o)
	case pt >= proto.TypeBool && pt <= proto.TypeFloat64:
		b := boundaryBits(widthOf(pt), rng)
		return scalarValue(pt, b[rng.Intn(len(b))])
	case pt >= proto.TypeSliceBool && pt <= proto.TypeSliceFloat64:
		xs := make([]uint64, n)
		b := boundaryBits(widthOf(pt), rng)
		for i := range xs {
			xs[i] = b[rng.Intn(len(b))]
		}
		return sliceValue(pt, xs)
	}
	return proto.Value{}
}

func stdField(t *mdTable, num int, v proto.Value, expanded bool) proto.Field {
	f := factory.StandardFactory().CreateField(t.num, byte(num))
	f.Value, f.IsExpandedField = v, expanded
	return f
}

func namedField(num int, v proto.Value, expanded bool) proto.Field {
	return proto.Field{FieldBase: &proto.FieldBase{Name: "probe", Num: byte(num), Scale: 1}, Value: v, IsExpandedField: expanded}
}

func unknownField(num int, v proto.Value, expanded bool) proto.Field {
	return proto.Field{FieldBase: &proto.FieldBase{Name: factory.NameUnknown, Num: byte(num), Scale: 1}, Value: v, IsExpandedField: expanded}
}

func randomDevFields(rng *Rng) []proto.DeveloperField {
	n := rng.Intn(3)
	var out []proto.DeveloperField
	for i := 0; i < n; i++ {
		out = append(out, proto.DeveloperField{Num: byte(rng.Intn(256)), DeveloperDataIndex: byte(rng.Intn(4)),
			Value: randomOfType(proto.Type(1+rng.Intn(24)), rng.Intn(3), rng)})
	}
	return out
}

// slotValue: a value for the slot's own field: mode 0 valid-ish random, 1 the invalid content, 2 boundary / odd length
func slotValue(sl *mdSlot, mode int, rng *Rng) proto.Value {
	switch sl.kind {
	case "time":
		switch mode {
		case 1:
			return proto.Uint32(0xFFFFFFFF)
		case 2:
			return proto.Uint32([]uint32{0, 1, 0xFFFFFFFE, 0x7FFFFFFF, 0x80000000}[rng.Intn(5)])
		}
		return proto.Uint32(uint32(rng.U64()))
	case "scalar", "bool":
		if mode == 1 {
			if sl.kind == "bool" {
				return proto.Bool(typedef.Bool(2 + rng.Intn(254)))
			}
			return sl.sentinel
		}
		if mode == 2 {
			b := boundaryBits(widthOf(sl.ptype), rng)
			return scalarValue(sl.ptype, b[rng.Intn(len(b))])
		}
		return scalarValue(sl.ptype, rng.U64())
	case "str":
		if mode == 1 {
			return proto.String("")
		}
		return randomOfType(proto.TypeString, 0, rng)
	case "slice":
		n := rng.Intn(5)
		if mode == 2 {
			n = 0
		}
		return randomOfType(sl.ptype, n, rng)
	case "fixed", "fixedstr":
		switch mode {
		case 1:
			return sl.dflt
		case 2:
			return randomOfType(sl.ptype, []int{0, 1, sl.n - 1, sl.n + 1, sl.n + 5}[rng.Intn(5)], rng)
		}
		return randomOfType(sl.ptype, sl.n, rng)
	}
	return proto.Value{}
}

// typedRandomMesg: a random message of table t: a subset of its slots (some twice; valid / invalid / boundary values, now and
// then a value of another type), unknown and named fields of arbitrary numbers in between, developer fields; one time in
// nilEvery (0 = never) a field without FieldBase (NewXxx panics).
func typedRandomMesg(t *mdTable, r *Rng, pv []proto.Value, nilEvery int) proto.Message {
	var m proto.Message
	m.Num = t.num
	p := 1 + r.Intn(4)
	for i := range t.slots {
		if r.Intn(p) != 0 {
			continue
		}
		sl := &t.slots[i]
		reps := 1
		if r.Intn(8) == 0 {
			reps = 2
		}
		for ; reps > 0; reps-- {
			v := slotValue(sl, []int{0, 0, 0, 1, 2}[r.Intn(5)], r)
			if r.Intn(12) == 0 {
				v = pv[r.Intn(len(pv))]
			}
			m.Fields = append(m.Fields, stdField(t, sl.num, v, r.Intn(4) == 0))
		}
		if r.Intn(6) == 0 {
			k := r.Intn(256)
			if r.Bool() {
				m.Fields = append(m.Fields, unknownField(k, pv[r.Intn(len(pv))], r.Intn(4) == 0))
			} else {
				m.Fields = append(m.Fields, namedField(k, pv[r.Intn(len(pv))], r.Intn(4) == 0))
			}
		}
	}
	if r.Intn(3) == 0 {
		r.shuffleFields(m.Fields)
	}
	if nilEvery > 0 && r.Intn(nilEvery) == 0 {
		m.Fields = append(m.Fields, proto.Field{Value: proto.Uint8(1)}) // nil FieldBase: Reset panics
		count("nil-fieldbase")
	}
	m.DeveloperFields = randomDevFields(r)
	return m
}

func genTyped(emit func(string), tier string, rng *Rng) {
	ts, err := allTables()
	if err != nil {
		emit("typednil table-error") // answered bad-op by both sides; the translator reports the error itself
		return
	}
	nRandom, nStruct := 60, 60
	if tier == "thorough" {
		nRandom, nStruct = 600, 600
	}
	pv := probeValues()
	for _, t := range ts {
		r := rng.Fork(uint64(t.num))
		em := func(op string, o string, m *proto.Message) {
			emit(fmt.Sprintf("%s %s %s %s", op, t.name, o, printMessage(m)))
		}
		emit("typednil " + t.name)
		count("nil")
		// every slot alone: valid / invalid / boundary, marked or not; every other value type; arrays of odd length
		for i := range t.slots {
			sl := &t.slots[i]
			for mode := 0; mode < 3; mode++ {
				for _, ex := range []bool{false, true} {
					m := proto.Message{Num: t.num, Fields: []proto.Field{stdField(t, sl.num, slotValue(sl, mode, r), ex)}}
					em("typedms", typedOptStrings[r.Intn(len(typedOptStrings))], &m)
					em("typedrt", "o:i,std", &m)
					if ex && mode != 2 { // the struct Reset builds from a marked field, through ToMesg and back
						emit(fmt.Sprintf("typedmsm %s %s", t.name, printMessage(&m)))
						count("msm-slot")
					}
					count(fmt.Sprintf("slot-%s-mode%d", sl.kind, mode))
				}
			}
			if nv, isArr := nilSliceOf(sl.ptype); isArr {
				m := proto.Message{Num: t.num, Fields: []proto.Field{stdField(t, sl.num, nv, false)}}
				em("typednils", "o:i,std", &m)
				count("nil-slice-slot")
			}
			for _, v := range pv {
				if v.Type() == sl.ptype {
					continue
				}
				m := proto.Message{Num: t.num, Fields: []proto.Field{stdField(t, sl.num, v, r.Bool())}}
				em("typedrt", "o:i,std", &m)
				count("slot-mismatched-type")
			}
		}
		// every field number 0..255, with a name and as "unknown"
		for k := 0; k < 256; k++ {
			v := pv[r.Intn(len(pv))]
			m1 := proto.Message{Num: t.num, Fields: []proto.Field{namedField(k, v, r.Bool())}}
			m2 := proto.Message{Num: t.num, Fields: []proto.Field{unknownField(k, v, r.Bool())}}
			em("typedms", "o:i,std", &m1)
			em("typedrt", "o:-,std", &m2)
			if k%4 == r.Intn(4) || t.num%16 == 0 { // a named field of any number against what the property demands (KF-C13-1 where the message lacks the number)
				em("typedrt", typedOptStrings[r.Intn(2)*2], &m1)
			}
			count("number-sweep")
		}
		// random messages: subsets of the slots (some twice), unknown fields in between, developer fields, all options
		randomMesg := func() proto.Message { return typedRandomMesg(t, r, pv, 40) }
		for j := 0; j < nRandom; j++ {
			m := randomMesg()
			o := typedOptStrings[r.Intn(len(typedOptStrings))]
			em("typedms", o, &m)
			em("typedrt", o, &m)
			count("random-message")
			if j%3 == 0 {
				emit(fmt.Sprintf("typedmsm %s %s", t.name, printMessage(&m)))
				count("msm-random")
			}
			if j%5 == 0 { // array values built from nil Go slices
				m3 := randomMesg()
				nEmpty := 0
				for i := range m3.Fields {
					if _, isArr := nilSliceOf(m3.Fields[i].Value.Type()); isArr && m3.Fields[i].FieldBase != nil && (r.Intn(2) == 0 || typedArrayLen(m3.Fields[i].Value) == 0) {
						m3.Fields[i].Value, _ = nilSliceOf(m3.Fields[i].Value.Type())
						nEmpty++
					}
				}
				if nEmpty > 0 {
					em("typednils", o, &m3)
					count("nil-slices")
				}
			}
			if j%6 == 0 { // a used struct is reset with another message
				m2 := randomMesg()
				emit(fmt.Sprintf("typedseq %s %s %s", t.name, printMessage(&m), printMessage(&m2)))
				count("reset-reuse")
			}
			if j%10 == 0 { // … with a message that has NOTHING of what the struct holds: no fields at all, one known field only,
				// only unknown fields — whatever survives the Reset (marks, unknown / developer fields, a slot) shows
				empty := proto.Message{Num: t.num}
				emit(fmt.Sprintf("typedseq %s %s %s", t.name, printMessage(&m), printMessage(&empty)))
				if len(t.slots) > 0 {
					sl := &t.slots[r.Intn(len(t.slots))]
					one := proto.Message{Num: t.num, Fields: []proto.Field{stdField(t, sl.num, slotValue(sl, 0, r), false)}}
					emit(fmt.Sprintf("typedseq %s %s %s", t.name, printMessage(&m), printMessage(&one)))
				}
				unk := proto.Message{Num: t.num, Fields: []proto.Field{unknownField(r.Intn(256), pv[r.Intn(len(pv))], false)}}
				emit(fmt.Sprintf("typedseq %s %s %s", t.name, printMessage(&m), printMessage(&unk)))
				count("reset-reuse-bare")
			}
		}
		// more fields than the conversion pool holds (poolsize = 156 = the longest message): unknown fields up to and beyond it, known
		// ones after them — for EVERY message type (a guard at the boundary in one generated file is a per-file slip); totals of
		// exactly poolsize-1, poolsize, poolsize+1 fields and far beyond
		{
			sizes := []int{300}
			if t.num%4 == 0 || tier == "thorough" {
				sizes = []int{155, 156, 157, 300}
			}
			for _, total := range sizes {
				var m proto.Message
				m.Num = t.num
				nUnknown := total - len(t.slots)
				if nUnknown < 1 {
					nUnknown = total
				}
				for k := 0; k < nUnknown; k++ {
					m.Fields = append(m.Fields, unknownField(k%256, proto.Uint8(uint8(k)), k%7 == 0))
				}
				for i := range t.slots {
					m.Fields = append(m.Fields, stdField(t, t.slots[i].num, slotValue(&t.slots[i], 0, r), false))
				}
				em("typedms", "o:i,std", &m)
				if total == 300 {
					em("typedrt", "o:-,std", &m)
				}
				count("beyond-poolsize")
			}
		}
		// structs → message → struct
		for j := 0; j < nStruct; j++ {
			s := t.newStruct(nil)
			e := s.Elem()
			wild := r.Intn(4) == 0 // also contents outside InRange
			for i := range t.slots {
				sl := &t.slots[i]
				f := e.Field(sl.fieldIdx)
				if r.Intn(3) == 0 {
					continue // stays invalid
				}
				if sl.kind == "time" {
					sec := int64(uint32(r.U64()))
					if wild {
						sec = []int64{-1, -62766662400, 0, 1 << 32, 1<<32 - 1, 1<<32 - 2, 1<<33 + 5, -1 << 35, 9223372036, 9223372037, 10000000000, 1 << 40}[r.Intn(12)]
					}
					f.Set(reflect.ValueOf(time.Unix(fitEpochU+sec, 0).UTC()))
					continue
				}
				mode := []int{0, 0, 2}[r.Intn(3)]
				v := slotValue(sl, mode, r)
				if sl.kind == "fixed" || sl.kind == "fixedstr" {
					v = randomOfType(sl.ptype, sl.n, r)
				}
				if sl.kind == "bool" && !wild {
					v = proto.Bool(typedef.Bool(r.Intn(2)))
				}
				setSlotContent(sl, f, v)
				if sl.kind == "bool" && wild && r.Intn(2) == 0 {
					setBits(f, uint64(2+r.Intn(253))) // a typedef.Bool that is neither false, true nor invalid
					count("struct-bool-other")
				}
				if sl.canExpand && r.Intn(3) == 0 {
					t.markAsExpanded(s, sl.num, true)
				}
			}
			if wild {
				for i := range t.slots {
					if t.slots[i].canExpand && r.Intn(6) == 0 {
						t.markAsExpanded(s, t.slots[i].num, true) // possibly on an invalid slot
					}
				}
			}
			var uf []proto.Field
			for n := r.Intn(3); n > 0; n-- {
				if wild && r.Intn(3) == 0 {
					uf = append(uf, namedField(r.Intn(256), pv[r.Intn(len(pv))], r.Bool()))
				} else if r.Bool() && t.guard < 256 {
					uf = append(uf, namedField(t.guard+r.Intn(256-t.guard), pv[r.Intn(len(pv))], r.Bool()))
				} else {
					uf = append(uf, unknownField(r.Intn(256), pv[r.Intn(len(pv))], r.Bool()))
				}
			}
			if len(uf) > 0 {
				e.FieldByName("UnknownFields").Set(reflect.ValueOf(uf))
			}
			if t.hasDev {
				if df := randomDevFields(r); len(df) > 0 {
					e.FieldByName("DeveloperFields").Set(reflect.ValueOf(df))
				}
			}
			txt := printStruct(t, s)
			if j%4 == 0 { // the marking API on this struct: an eligible number, any number
				k := r.Intn(256)
				if len(t.slots) > 0 && r.Bool() {
					k = t.slots[r.Intn(len(t.slots))].num
				}
				emit(fmt.Sprintf("typedmark %s %s %d %d", t.name, txt, k, r.Intn(2)))
				count("mark-api")
			}
			emit(fmt.Sprintf("typedid %s %s", t.name, txt))
			emit(fmt.Sprintf("typedsm %s %s %s", t.name, typedOptStrings[r.Intn(len(typedOptStrings))], txt))
			if wild {
				count("struct-wild")
			} else {
				count("struct-in-range")
			}
		}
	}
}

func (r *Rng) shuffleFields(fs []proto.Field) {
	for i := len(fs) - 1; i > 0; i-- {
		j := r.Intn(i + 1)
		fs[i], fs[j] = fs[j], fs[i]
	}
}
