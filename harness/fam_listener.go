package main

// C14, second half: the concurrent filedef.Listener.
//
//	listener g<GOMAXPROCS> s<seed> n<N|d> <tok>...
//	   tok = m<msg descriptor> (OnMesg) | F (File) | C (Close) | R<N> / Rd (Reset with / without WithChannelBuffer)
//	→ one "[<go type> n=<k> <omsg>...]" or "[nil]" per F, then "end"; or, as soon as the calling goroutine and
//	  every listener worker are blocked on channel operations, the results so far followed by "deadlock".
//
// s<seed> only seeds the model's scheduler (the driver runs the transition system under that schedule).
// n<N> = NewListener(WithChannelBuffer(N)), nd = NewListener().

import (
	"fmt"
	"os"
	"regexp"
	"runtime"
	"strconv"
	"strings"
	"sync"
	"sync/atomic"
	"time"

	"github.com/muktihari/fit/profile/filedef"
	"github.com/muktihari/fit/profile/untyped/mesgnum"
)

func init() {
	families["listener"] = genListener
	executors["listener"] = execListener
}

func canonFile(f filedef.File) string {
	if f == nil {
		return "[nil]"
	}
	// a typed nil pointer inside the interface cannot occur: File() returns l.file as stored by fn()
	return fmt.Sprintf("[%s %s]", strings.TrimPrefix(fmt.Sprintf("%T", f), "*"), canonFIT(f.ToFIT(nil).Messages))
}

var goroutineHdr = regexp.MustCompile(`(?m)^goroutine \d+ \[([^\]]*)\]:$`)

// allBlocked: in one stop-the-world snapshot, the script goroutine (marked by the frame listenerScript) and every
// goroutine running (*Listener).loop are blocked in a channel operation. Then nothing can ever wake the script.
func allBlocked(gid int64) bool {
	if gid == 0 {
		return false // the script goroutine has not started yet
	}
	scriptHdr := fmt.Sprintf("goroutine %d [", gid)
	buf := make([]byte, 1<<20)
	for {
		n := runtime.Stack(buf, true)
		if n < len(buf) {
			buf = buf[:n]
			break
		}
		buf = make([]byte, 2*len(buf))
	}
	blocks := strings.Split(string(buf), "\n\n")
	sawScript := false
	for _, b := range blocks {
		isScript := strings.HasPrefix(b, scriptHdr) // goroutines of earlier deadlocked operations stay around: match by id
		// a worker: anything running code of the listener or created by it (a goroutine that has not run yet only
		// shows the wrapper `(*Listener).reset.gowrap1`)
		isLoop := !isScript && (strings.Contains(b, "filedef.(*Listener)") || strings.Contains(b, "created by github.com/muktihari/fit/profile/filedef"))
		if !isScript && !isLoop {
			continue
		}
		m := goroutineHdr.FindStringSubmatch(b)
		if m == nil {
			return false
		}
		st := m[1]
		if !(strings.HasPrefix(st, "chan receive") || strings.HasPrefix(st, "chan send") || strings.HasPrefix(st, "select")) {
			return false
		}
		if isScript {
			sawScript = true
		}
	}
	if sawScript && os.Getenv("VERIF_DEBUG") != "" {
		for _, b := range blocks {
			if strings.HasPrefix(b, scriptHdr) || strings.Contains(b, "filedef.(*Listener)") {
				fmt.Fprintln(os.Stderr, b+"\n")
			}
		}
	}
	return sawScript
}

type lstep struct {
	kind byte // 'm', 'F', 'C', 'R'
	d    mdesc
	n    int // for R: buffer size, -1 = default
}

//go:noinline
func listenerScript(n int, steps []lstep, mu *sync.Mutex, out *[]string, progress *atomic.Int64, gid *atomic.Int64, donec chan struct{}) {
	{
		var b [64]byte
		f := strings.Fields(string(b[:runtime.Stack(b[:], false)]))
		if len(f) >= 2 {
			id, _ := strconv.ParseInt(f[1], 10, 64)
			gid.Store(id)
		}
	}
	var l *filedef.Listener
	if n < 0 {
		l = filedef.NewListener()
	} else {
		l = filedef.NewListener(filedef.WithChannelBuffer(uint(n)))
	}
	for _, s := range steps {
		switch s.kind {
		case 'm':
			l.OnMesg(mkMesg(s.d))
		case 'F':
			r := canonFile(l.File())
			mu.Lock()
			*out = append(*out, r)
			mu.Unlock()
		case 'C':
			l.Close()
		case 'R':
			if s.n < 0 {
				l.Reset()
			} else {
				l.Reset(filedef.WithChannelBuffer(uint(s.n)))
			}
		}
		progress.Add(1)
	}
	l.Close() // let the worker end (not part of the observed script)
	close(donec)
}

func execListener(args []string) string {
	if len(args) < 3 || !strings.HasPrefix(args[0], "g") || !strings.HasPrefix(args[1], "s") || !strings.HasPrefix(args[2], "n") {
		return "bad-op"
	}
	procs, err := strconv.Atoi(args[0][1:])
	if err != nil || procs < 1 || procs > 64 {
		return "bad-op"
	}
	n := -1
	if args[2] != "nd" {
		if n, err = strconv.Atoi(args[2][1:]); err != nil || n < 0 || n > 1<<16 {
			return "bad-op"
		}
	}
	var steps []lstep
	for _, a := range args[3:] {
		switch {
		case a == "F" || a == "C":
			steps = append(steps, lstep{kind: a[0]})
		case a == "Rd":
			steps = append(steps, lstep{kind: 'R', n: -1})
		case strings.HasPrefix(a, "R"):
			k, err := strconv.Atoi(a[1:])
			if err != nil || k < 0 || k > 1<<16 {
				return "bad-op"
			}
			steps = append(steps, lstep{kind: 'R', n: k})
		case strings.HasPrefix(a, "m"):
			d, ok := parseMdesc(a[1:])
			if !ok || d.tag == 0 {
				return "bad-op"
			}
			steps = append(steps, lstep{kind: 'm', d: d})
		default:
			return "bad-op"
		}
	}
	prev := runtime.GOMAXPROCS(procs)
	defer runtime.GOMAXPROCS(prev)
	var out []string
	var mu sync.Mutex
	var progress, gid atomic.Int64
	donec := make(chan struct{})
	go listenerScript(n, steps, &mu, &out, &progress, &gid, donec)
	deadline := time.Now().Add(60 * time.Second)
	wait := 200 * time.Microsecond
	for {
		select {
		case <-donec:
			mu.Lock()
			defer mu.Unlock()
			return strings.Join(append(out, "end"), " ")
		case <-time.After(wait):
		}
		if wait < 20*time.Millisecond {
			wait *= 2
		}
		p0 := progress.Load()
		if allBlocked(gid.Load()) && progress.Load() == p0 {
			mu.Lock()
			defer mu.Unlock()
			k := int(p0)
			res := []string{}
			cnt := 0
			for i := 0; i < k && i < len(steps); i++ {
				if steps[i].kind == 'F' {
					cnt++
				}
			}
			if cnt <= len(out) {
				res = append(res, out[:cnt]...)
			}
			return strings.Join(append(res, "deadlock"), " ")
		}
		if time.Now().After(deadline) {
			return "timeout"
		}
	}
}

func genListener(emit func(string), tier string, rng *Rng) {
	infos, err := probeAll()
	if err != nil {
		panic(err)
	}
	nOps := 1500
	if tier == "thorough" {
		nOps = 20000
	}
	bufs := []int{0, 1, 2, 3, 4, 5, 6, 7, 8, 64, 128, -1}
	pickBuf := func() int {
		if rng.Intn(3) == 0 {
			return []int{1, 1, 2, 3}[rng.Intn(4)]
		}
		return bufs[rng.Intn(len(bufs))]
	}
	bufTok := func(b int, pre string) string {
		if b < 0 {
			return pre + "d"
		}
		return pre + strconv.Itoa(b)
	}
	zeroOps := 0
	for i := 0; i < nOps; i++ {
		n := pickBuf()
		if n == 0 {
			zeroOps++
			if zeroOps > 40 && tier != "thorough" {
				n = 1
			}
		}
		toks := []string{"listener", fmt.Sprintf("g%d", []int{1, 2, 16}[rng.Intn(3)]), fmt.Sprintf("s%d", rng.Intn(1<<30)), bufTok(n, "n")}
		count("buf:" + bufTok(n, ""))
		nseq := 1 + rng.Intn(4)
		tag := uint32(1)
		var cur *ftInfo // file type in effect in the listener (sequentially)
		active := true
		for q := 0; q < nseq; q++ {
			in := &infos[rng.Intn(len(infos))]
			var k int
			switch x := rng.Intn(10); {
			case x < 3:
				k = rng.Intn(4)
			case x < 8:
				k = rng.Intn(30)
			default:
				k = rng.Intn(400)
			}
			var ds []mdesc
			ds = genMesgList(in, rng, k, tag)
			tag += uint32(k) + 1
			// file_id handling: genMesgList starts most lists with a file_id of this type; sometimes an unknown type or none
			for j := range ds {
				d := ds[j]
				if !active { // OnMesg after Close/File: reset() → no file until a file_id arrives
					cur = nil
					active = true
				}
				if d.num == int(mesgnum.FileId) {
					ft := fileTypeByByte(d.ft)
					if ft != nil {
						for x := range infos {
							if infos[x].ft.b == ft.b {
								cur = &infos[x]
							}
						}
					}
				}
				if cur != nil {
					// the candidate key fields must respect the typed slot of the file type IN EFFECT (which is not
					// always the one the list was generated for): an "opaque" field is never populated
					if sl := slotOfInfo(cur, d.num); sl != nil {
						if sl.m1 == "opaque" {
							d.f1 = tsF{kind: '-'}
						}
						if sl.m253 == "opaque" {
							d.f253 = tsF{kind: '-'}
						}
						if sl.m254 == "opaque" {
							d.f4 = tsF{kind: '-'}
						}
					}
					d.dg = soloDigest(&cur.ft, d)
				} else {
					d.dg = 0
				}
				toks = append(toks, "m"+d.String())
			}
			switch x := rng.Intn(12); {
			case x < 7:
				toks = append(toks, "F")
				active = false
			case x < 8:
				toks = append(toks, "F", "F")
				active = false
			case x < 9:
				toks = append(toks, "C")
				active = false
			case x < 11:
				b := pickBuf()
				if b == 0 && rng.Intn(3) != 0 {
					b = 2
				}
				toks = append(toks, bufTok(b, "R"))
				cur = nil
				active = true
			default: // no call between the sequences: the next file_id simply starts a new file
			}
		}
		if rng.Intn(4) != 0 {
			toks = append(toks, "F")
		}
		emit(strings.Join(toks, " "))
	}
}

// listenerprobe <path>: writes Generated/ListenerFacts.lean — does the real listener deadlock with channel buffer size 0
// (initially, and after Reset(WithChannelBuffer(0)))? The model's treatment of size 0 follows this fact, so that a repair
// of KF-C14-1 in /repo (any repair that makes size 0 work like the smallest working size) needs no change of the model.
func execListenerProbe(args []string) string {
	if len(args) != 1 {
		return "bad-op"
	}
	d := mdesc{num: int(mesgnum.FileId), f1: tsF{kind: '-'}, f253: tsF{kind: '-'}, f4: tsF{kind: '-'}, tag: 1, ft: 4}
	a1 := execListener([]string{"g2", "s1", "n0", "m" + d.String(), "F"})
	a2 := execListener([]string{"g2", "s1", "n1", "R0", "m" + d.String(), "F"})
	dead1, dead2 := strings.HasSuffix(a1, "deadlock"), strings.HasSuffix(a2, "deadlock")
	if dead1 != dead2 {
		return "error size 0 behaves differently initially and after Reset: " + a1 + " / " + a2
	}
	s := "/-! GENERATED on every run by harness op `listenerprobe` (harness/fam_listener.go). Do not edit. -/\n" +
		"namespace Fit.Listener.Generated\n" +
		"/-- does `filedef.NewListener(filedef.WithChannelBuffer(0))` block forever at the first OnMesg on the current tree? -/\n" +
		fmt.Sprintf("def buffer0Deadlocks : Bool := %v\n", dead1) +
		"end Fit.Listener.Generated\n"
	if old, err := os.ReadFile(args[0]); err != nil || string(old) != s {
		if err := os.WriteFile(args[0], []byte(s), 0o644); err != nil {
			return "error write"
		}
	}
	return fmt.Sprintf("ok buffer0Deadlocks=%v", dead1)
}

func init() { executors["listenerprobe"] = execListenerProbe }
