package main

// C14, second half: the concurrent filedef.Listener.
//
//	listener g<GOMAXPROCS> s<seed> n<conf> <tok>...
//	   tok  = m<msg descriptor> (OnMesg) | F (File) | C (Close) | R<conf> (Reset)
//	   conf = <N|d> {"+" opt}     N = WithChannelBuffer(N), d = no WithChannelBuffer (default 128)
//	   opt  = "P" entries   m := filedef.PredefinedFileSet(); entries applied to m; WithFileSets(m)
//	        | "W" entries   the same starting from an empty map
//	        | "F" entry     WithFileFunc(k, fn)
//	   entries = [entry {"," entry}], entry = <k> "=" (<t> | "-")   key k (0..255) ↦ the constructor of the predefined file type t
//	             (e.g. 77=4: a file_id of type 77 makes a filedef.Activity), "-" = a nil constructor (type not listened to)
//	→ one "[<go type> n=<k> <omsg>...]" or "[nil]" per F, then "end"; or, as soon as the calling goroutine and
//	  every listener worker are blocked on channel operations, the results so far followed by "deadlock".
//
// s<seed> only seeds the model's scheduler (the driver runs the transition system under that schedule).
// n<N> = NewListener(WithChannelBuffer(N)), nd = NewListener().

import (
	"fmt"
	"os"
	"regexp"
	"runtime"
	"strconv"
	"strings"
	"sync"
	"sync/atomic"
	"time"

	"github.com/muktihari/fit/profile/filedef"
	"github.com/muktihari/fit/profile/typedef"
	"github.com/muktihari/fit/profile/untyped/mesgnum"
)

func init() {
	families["listener"] = genListener
	executors["listener"] = execListener
	executors["listenerselftest"] = execListenerSelfTest
}

func canonFile(f filedef.File) string {
	if f == nil {
		return "[nil]"
	}
	// a typed nil pointer inside the interface cannot occur: File() returns l.file as stored by fn()
	return fmt.Sprintf("[%s %s]", strings.TrimPrefix(fmt.Sprintf("%T", f), "*"), canonFIT(f.ToFIT(nil).Messages))
}

var goroutineHdr = regexp.MustCompile(`(?m)^goroutine \d+ \[([^\]]*)\]:$`)

// allBlocked: in one stop-the-world snapshot, the script goroutine (marked by the frame listenerScript) and every
// goroutine running (*Listener).loop are blocked in a channel operation. Then nothing can ever wake the script.
func allBlocked(gid int64) bool {
	if gid == 0 {
		return false // the script goroutine has not started yet
	}
	scriptHdr := fmt.Sprintf("goroutine %d [", gid)
	buf := make([]byte, 1<<20)
	for {
		n := runtime.Stack(buf, true)
		if n < len(buf) {
			buf = buf[:n]
			break
		}
		buf = make([]byte, 2*len(buf))
	}
	blocks := strings.Split(string(buf), "\n\n")
	sawScript := false
	for _, b := range blocks {
		isScript := strings.HasPrefix(b, scriptHdr) // goroutines of earlier deadlocked operations stay around: match by id
		// a worker: anything running code of the listener or created by it (a goroutine that has not run yet only
		// shows the wrapper `(*Listener).reset.gowrap1`)
		isLoop := !isScript && (strings.Contains(b, "filedef.(*Listener)") || strings.Contains(b, "created by github.com/muktihari/fit/profile/filedef"))
		if !isScript && !isLoop {
			continue
		}
		m := goroutineHdr.FindStringSubmatch(b)
		if m == nil {
			return false
		}
		st := m[1]
		if !(strings.HasPrefix(st, "chan receive") || strings.HasPrefix(st, "chan send") || strings.HasPrefix(st, "select")) {
			return false
		}
		if isScript {
			sawScript = true
		}
	}
	if sawScript && os.Getenv("VERIF_DEBUG") != "" {
		for _, b := range blocks {
			if strings.HasPrefix(b, scriptHdr) || strings.Contains(b, "filedef.(*Listener)") {
				fmt.Fprintln(os.Stderr, b+"\n")
			}
		}
	}
	return sawScript
}

type lstep struct {
	kind byte // 'm', 'F', 'C', 'R'
	d    mdesc
	n    int // for R: buffer size, -1 = default
	opts []lopt
}

// lopt: one WithFileSets / WithFileFunc option of a listener configuration
type lopt struct {
	kind    byte // 'P', 'W', 'F'
	entries []lentry
}

type lentry struct {
	k int
	t int // predefined file type whose constructor is entered, -1 = nil constructor
}

func parseLEntry(e string) (lentry, bool) {
	p := strings.Split(e, "=")
	if len(p) != 2 {
		return lentry{}, false
	}
	k, err := strconv.Atoi(p[0])
	if err != nil || k < 0 || k > 255 || strconv.Itoa(k) != p[0] {
		return lentry{}, false
	}
	if p[1] == "-" {
		return lentry{k: k, t: -1}, true
	}
	t, err := strconv.Atoi(p[1])
	if err != nil || strconv.Itoa(t) != p[1] || fileTypeByByte(t) == nil {
		return lentry{}, false
	}
	return lentry{k: k, t: t}, true
}

// parseLConf: "<N|d>{+opt}" → buffer size (-1 = default) and the file-set options
func parseLConf(c string) (int, []lopt, bool) {
	parts := strings.Split(c, "+")
	n := -1
	if parts[0] != "d" {
		var err error
		if n, err = strconv.Atoi(parts[0]); err != nil || n < 0 || n > 1<<16 || strconv.Itoa(n) != parts[0] {
			return 0, nil, false
		}
	}
	var opts []lopt
	for _, o := range parts[1:] {
		if o == "" {
			return 0, nil, false
		}
		lo := lopt{kind: o[0]}
		switch o[0] {
		case 'P', 'W':
			if len(o) > 1 {
				for _, e := range strings.Split(o[1:], ",") {
					le, ok := parseLEntry(e)
					if !ok {
						return 0, nil, false
					}
					lo.entries = append(lo.entries, le)
				}
			}
		case 'F':
			le, ok := parseLEntry(o[1:])
			if !ok {
				return 0, nil, false
			}
			lo.entries = []lentry{le}
		default:
			return 0, nil, false
		}
		opts = append(opts, lo)
	}
	return n, opts, true
}

func lctor(t int) func() filedef.File {
	if t < 0 {
		return nil
	}
	return fileTypeByByte(t).fn
}

// listenerOptions: the filedef.Option values of a configuration, as a user would write them
func listenerOptions(n int, opts []lopt) []filedef.Option {
	var res []filedef.Option
	if n >= 0 {
		res = append(res, filedef.WithChannelBuffer(uint(n)))
	}
	for _, o := range opts {
		switch o.kind {
		case 'P', 'W':
			m := filedef.FileSets{}
			if o.kind == 'P' {
				m = filedef.PredefinedFileSet() // documented use: take the predefined set, edit it, register it
			}
			for _, e := range o.entries {
				m[typedef.File(e.k)] = lctor(e.t)
			}
			res = append(res, filedef.WithFileSets(m))
		case 'F':
			res = append(res, filedef.WithFileFunc(typedef.File(o.entries[0].k), lctor(o.entries[0].t)))
		}
	}
	return res
}

//go:noinline
func listenerScript(n int, nopts []lopt, steps []lstep, mu *sync.Mutex, out *[]string, progress *atomic.Int64, gid *atomic.Int64, donec chan struct{}) {
	{
		var b [64]byte
		f := strings.Fields(string(b[:runtime.Stack(b[:], false)]))
		if len(f) >= 2 {
			id, _ := strconv.ParseInt(f[1], 10, 64)
			gid.Store(id)
		}
	}
	var l *filedef.Listener
	if n == -2 {
		l = new(filedef.Listener) // detector self-test only (listenerselftest): never built by NewListener, its pool channel is nil
	} else {
		l = filedef.NewListener(listenerOptions(n, nopts)...)
	}
	for _, s := range steps {
		switch s.kind {
		case 'm':
			l.OnMesg(mkMesg(s.d))
		case 'F':
			r := canonFile(l.File())
			mu.Lock()
			*out = append(*out, r)
			mu.Unlock()
		case 'C':
			l.Close()
		case 'R':
			l.Reset(listenerOptions(s.n, s.opts)...)
		}
		progress.Add(1)
	}
	l.Close() // let the worker end (not part of the observed script)
	close(donec)
}

func execListener(args []string) string { return execListenerImpl(args, false) }

// listenerselftest: the deadlock detector on a listener that certainly deadlocks — the zero Listener (not made by
// NewListener: `poolc` is nil, so OnMesg blocks on it forever while the worker waits for a message), and on one that
// certainly does not. Run on every check (checklib/props/C14.py), so that "no deadlock reported" keeps meaning something
// now that no buffer size deadlocks any more.
func execListenerSelfTest(args []string) string {
	d := mdesc{num: int(mesgnum.FileId), f1: tsF{kind: '-'}, f253: tsF{kind: '-'}, f4: tsF{kind: '-'}, tag: 1, ft: 4}
	for _, g := range []string{"g1", "g2", "g16"} {
		if a := execListenerImpl([]string{g, "s1", "nz", "m" + d.String(), "F"}, true); a != "deadlock" {
			return "error zero Listener under " + g + ": expected deadlock, detector answered " + a
		}
		if a := execListenerImpl([]string{g, "s1", "n1", "m" + d.String(), "F"}, true); !strings.HasSuffix(a, " end") {
			return "error NewListener(WithChannelBuffer(1)) under " + g + ": " + a
		}
	}
	return "ok deadlock-detected"
}

func execListenerImpl(args []string, selftest bool) string {
	if len(args) < 3 || !strings.HasPrefix(args[0], "g") || !strings.HasPrefix(args[1], "s") || !strings.HasPrefix(args[2], "n") {
		return "bad-op"
	}
	procs, err := strconv.Atoi(args[0][1:])
	if err != nil || procs < 1 || procs > 64 {
		return "bad-op"
	}
	n := -1
	var nopts []lopt
	if selftest && args[2] == "nz" {
		n = -2
	} else {
		var ok bool
		if n, nopts, ok = parseLConf(args[2][1:]); !ok {
			return "bad-op"
		}
	}
	var steps []lstep
	for _, a := range args[3:] {
		switch {
		case a == "F" || a == "C":
			steps = append(steps, lstep{kind: a[0]})
		case strings.HasPrefix(a, "R"):
			k, ro, ok := parseLConf(a[1:])
			if !ok {
				return "bad-op"
			}
			steps = append(steps, lstep{kind: 'R', n: k, opts: ro})
		case strings.HasPrefix(a, "m"):
			d, ok := parseMdesc(a[1:])
			if !ok || d.tag == 0 {
				return "bad-op"
			}
			steps = append(steps, lstep{kind: 'm', d: d})
		default:
			return "bad-op"
		}
	}
	prev := runtime.GOMAXPROCS(procs)
	defer runtime.GOMAXPROCS(prev)
	var out []string
	var mu sync.Mutex
	var progress, gid atomic.Int64
	donec := make(chan struct{})
	go listenerScript(n, nopts, steps, &mu, &out, &progress, &gid, donec)
	deadline := time.Now().Add(60 * time.Second)
	wait := 200 * time.Microsecond
	for {
		select {
		case <-donec:
			mu.Lock()
			defer mu.Unlock()
			return strings.Join(append(out, "end"), " ")
		case <-time.After(wait):
		}
		if wait < 20*time.Millisecond {
			wait *= 2
		}
		p0 := progress.Load()
		if allBlocked(gid.Load()) && progress.Load() == p0 {
			mu.Lock()
			defer mu.Unlock()
			k := int(p0)
			res := []string{}
			cnt := 0
			for i := 0; i < k && i < len(steps); i++ {
				if steps[i].kind == 'F' {
					cnt++
				}
			}
			if cnt <= len(out) {
				res = append(res, out[:cnt]...)
			}
			return strings.Join(append(res, "deadlock"), " ")
		}
		if time.Now().After(deadline) {
			return "timeout"
		}
	}
}

func genListener(emit func(string), tier string, rng *Rng) {
	infos, err := probeAll()
	if err != nil {
		panic(err)
	}
	nOps := 1500
	if tier == "thorough" {
		nOps = 20000
	}
	// buffer size 0 (unbuffered message channel, one pooled slice) is an ordinary size since the repair of KF-C14-1
	bufs := []int{0, 1, 2, 3, 4, 5, 6, 7, 8, 64, 128, -1}
	pickBuf := func() int {
		if rng.Intn(3) == 0 {
			return []int{0, 1, 1, 2, 3}[rng.Intn(5)]
		}
		return bufs[rng.Intn(len(bufs))]
	}
	bufTok := func(b int, pre string) string {
		if b < 0 {
			return pre + "d"
		}
		return pre + strconv.Itoa(b)
	}
	// file sets: key → file type whose constructor is registered (nil = none); defaults = the predefined types
	defaultSets := func() [256]*ftInfo {
		var a [256]*ftInfo
		for x := range infos {
			a[infos[x].ft.b] = &infos[x]
		}
		return a
	}
	infoOf := func(t int) *ftInfo {
		for x := range infos {
			if int(infos[x].ft.b) == t {
				return &infos[x]
			}
		}
		return nil
	}
	customKeys := []int{77, 200, 255, 0, 8, 33}
	// genConf: a configuration token body "<N|d>{+opt}" and the file sets it results in; custom = the entries given
	genConf := func(b int, withOpts bool) (string, [256]*ftInfo, []lentry) {
		tok := bufTok(b, "")
		sets := defaultSets()
		var custom []lentry
		if !withOpts {
			return tok, sets, nil
		}
		entry := func(removeOK bool) lentry {
			var k int
			switch rng.Intn(3) {
			case 0:
				k = int(infos[rng.Intn(len(infos))].ft.b) // a predefined key: replaced
			default:
				k = customKeys[rng.Intn(len(customKeys))]
			}
			t := int(infos[rng.Intn(len(infos))].ft.b)
			if removeOK && rng.Intn(4) == 0 {
				t = -1
				k = int(infos[rng.Intn(len(infos))].ft.b)
			}
			return lentry{k: k, t: t}
		}
		show := func(es []lentry) string {
			var p []string
			for _, e := range es {
				if e.t < 0 {
					p = append(p, fmt.Sprintf("%d=-", e.k))
				} else {
					p = append(p, fmt.Sprintf("%d=%d", e.k, e.t))
				}
			}
			return strings.Join(p, ",")
		}
		apply := func(es []lentry) {
			for _, e := range es {
				sets[e.k] = infoOf(e.t)
			}
			custom = append(custom, es...)
		}
		nopt := 1 + rng.Intn(2)
		for j := 0; j < nopt; j++ {
			switch rng.Intn(4) {
			case 0, 1: // the documented route: edit a copy of PredefinedFileSet()
				var es []lentry
				for n := rng.Intn(3); n >= 0; n-- {
					es = append(es, entry(true))
				}
				sets = defaultSets() // WithFileSets replaces whatever the earlier options entered
				custom = nil
				apply(es)
				tok += "+P" + show(es)
				count("opt:P")
			case 2:
				var es []lentry
				for n := rng.Intn(3); n > 0; n-- {
					es = append(es, entry(false))
				}
				sets = [256]*ftInfo{}
				custom = nil
				apply(es)
				tok += "+W" + show(es)
				count("opt:W")
			default:
				e := entry(true)
				apply([]lentry{e})
				tok += "+F" + show([]lentry{e})
				count("opt:F")
			}
		}
		return tok, sets, custom
	}
	for i := 0; i < nOps; i++ {
		n := pickBuf()
		through0 := rng.Intn(8) == 0 // a Reset chain that passes through size 0: n → 0 → k → 0 …
		bufNow := n                  // buffer size in effect (for the distribution counters)
		zeroSeq, backFromZero := false, false
		useOpts := rng.Intn(4) == 0 // listeners configured with WithFileSets / WithFileFunc
		conf, sets, custom := genConf(n, useOpts && rng.Intn(3) != 0)
		toks := []string{"listener", fmt.Sprintf("g%d", []int{1, 2, 16}[rng.Intn(3)]), fmt.Sprintf("s%d", rng.Intn(1<<30)), "n" + conf}
		count("buf:" + bufTok(n, ""))
		nseq := 1 + rng.Intn(4)
		if through0 {
			nseq = 3 + rng.Intn(3)
			count("reset-chain-through-0")
		}
		tag := uint32(1)
		var cur *ftInfo // file type in effect in the listener (sequentially)
		active := true
		for q := 0; q < nseq; q++ {
			in := &infos[rng.Intn(len(infos))]
			fileIdKey := -1 // the `type` the file_id messages of this sequence carry (-1: the type of `in`)
			if len(custom) > 0 && rng.Intn(3) != 0 {
				e := custom[rng.Intn(len(custom))] // a sequence for a customised key
				fileIdKey = e.k
				if sets[e.k] != nil {
					in = sets[e.k]
				}
				count("custom-key-sequence")
			}
			var k int
			switch x := rng.Intn(10); {
			case x < 3:
				k = rng.Intn(4)
			case x < 8:
				k = rng.Intn(30)
			default:
				k = rng.Intn(400)
			}
			var ds []mdesc
			ds = genMesgList(in, rng, k, tag)
			tag += uint32(k) + 1
			// file_id handling: genMesgList starts most lists with a file_id of this type; sometimes an unknown type or none
			if bufNow == 0 && len(ds) > 0 {
				zeroSeq = true
			}
			for j := range ds {
				d := ds[j]
				if !active { // OnMesg after Close/File: reset() → no file until a file_id arrives
					cur = nil
					active = true
				}
				if d.num == int(mesgnum.FileId) {
					if fileIdKey >= 0 && d.ft == int(in.ft.b) {
						d.ft = fileIdKey
					}
					if d.ft >= 0 && d.ft < 256 && sets[d.ft] != nil { // no constructor for the type: the message is skipped
						cur = sets[d.ft]
					}
				}
				if cur != nil {
					// the candidate key fields must respect the typed slot of the file type IN EFFECT (which is not
					// always the one the list was generated for): an "opaque" field is never populated
					if sl := slotOfInfo(cur, d.num); sl != nil {
						if sl.m1 == "opaque" {
							d.f1 = tsF{kind: '-'}
						}
						if sl.m253 == "opaque" {
							d.f253 = tsF{kind: '-'}
						}
						if sl.m254 == "opaque" {
							d.f4 = tsF{kind: '-'}
						}
					}
					d.dg = soloDigest(&cur.ft, d)
				} else {
					d.dg = 0
				}
				toks = append(toks, "m"+d.String())
			}
			x := rng.Intn(12)
			if through0 && rng.Intn(4) != 0 {
				x = 9 // Reset
				if rng.Intn(2) == 0 {
					toks = append(toks, "F") // … of an inactive listener, after its file has been taken
				}
			}
			switch {
			case x < 7:
				toks = append(toks, "F")
				active = false
			case x < 8:
				toks = append(toks, "F", "F")
				active = false
			case x < 9:
				toks = append(toks, "C")
				active = false
			case x < 11:
				b := pickBuf()
				if through0 {
					if bufNow != 0 {
						b = 0
					} else if b == 0 {
						b = 1 + rng.Intn(3)
					}
				}
				if bufNow == 0 && b != 0 && zeroSeq {
					backFromZero = true
				}
				if b < 0 {
					bufNow = 128
				} else {
					bufNow = b
				}
				count("reset:" + bufTok(b, ""))
				var rconf string
				rconf, sets, custom = genConf(b, useOpts && rng.Intn(2) == 0) // Reset returns to the default options, then applies its own
				toks = append(toks, "R"+rconf)
				cur = nil
				active = true
			default: // no call between the sequences: the next file_id simply starts a new file
			}
		}
		if rng.Intn(4) != 0 {
			toks = append(toks, "F")
		}
		if zeroSeq {
			count("mesgs-at-buffer-0")
		}
		if backFromZero {
			count("reset-0-then-larger")
		}
		emit(strings.Join(toks, " "))
	}
}
