package main

// Family f64: ties the binary64 model (lean/FitModel/F64.lean) to Go's float64 on this platform.
//
//	f64 add|sub|mul|div <x> <y>     → bits of the result (16 hex digits; every NaN printed as 7ff8000000000000)
//	f64 eq|lt|gt <x> <y>            → 0 | 1
//	f64 round <x>                   → bits of math.Round(x)
//	f64 ofi <decimal int64>         → bits of float64(int64)
//	f64 ofu <decimal uint64>        → bits of float64(uint64)
//	f64 cvt <i8|u8|i16|u16|i32|u32|i64|u64> <x>   → the T-wide pattern of T(x), hex
//	f64 f32 <x>                     → bits of float32(x) (8 hex digits; NaN = 7fc00000)
//	f64 of32 <y>                    → bits of float64(float32frombits(y))
//
// <x>, <y> are float64 bit patterns (16 hex digits). Floats never cross the protocol as text.

import (
	"fmt"
	"math"
	"strconv"
)

func init() {
	families["f64"] = genF64
	executors["f64"] = execF64
}

func f64parse(s string) (float64, bool) {
	if len(s) != 16 {
		return 0, false
	}
	u, err := strconv.ParseUint(s, 16, 64)
	return math.Float64frombits(u), err == nil
}

func f64hex(x float64) string {
	if x != x {
		return "7ff8000000000000"
	}
	return fmt.Sprintf("%016x", math.Float64bits(x))
}

func f32hex(x float32) string {
	if x != x {
		return "7fc00000"
	}
	return fmt.Sprintf("%08x", math.Float32bits(x))
}

//go:noinline
func f64cvt(ty string, x float64) (string, bool) {
	switch ty {
	case "i8":
		return fmt.Sprintf("%02x", uint8(int8(x))), true
	case "u8":
		return fmt.Sprintf("%02x", uint8(x)), true
	case "i16":
		return fmt.Sprintf("%04x", uint16(int16(x))), true
	case "u16":
		return fmt.Sprintf("%04x", uint16(x)), true
	case "i32":
		return fmt.Sprintf("%08x", uint32(int32(x))), true
	case "u32":
		return fmt.Sprintf("%08x", uint32(x)), true
	case "i64":
		return fmt.Sprintf("%016x", uint64(int64(x))), true
	case "u64":
		return fmt.Sprintf("%016x", uint64(x)), true
	}
	return "", false
}

func b2s(b bool) string {
	if b {
		return "1"
	}
	return "0"
}

func execF64(args []string) string {
	if len(args) < 2 {
		return "bad-op"
	}
	switch args[0] {
	case "add", "sub", "mul", "div", "eq", "lt", "gt":
		if len(args) != 3 {
			return "bad-op"
		}
		x, ok1 := f64parse(args[1])
		y, ok2 := f64parse(args[2])
		if !ok1 || !ok2 {
			return "bad-op"
		}
		switch args[0] {
		case "add":
			return f64hex(x + y)
		case "sub":
			return f64hex(x - y)
		case "mul":
			return f64hex(x * y)
		case "div":
			return f64hex(x / y)
		case "eq":
			return b2s(x == y)
		case "lt":
			return b2s(x < y)
		default:
			return b2s(x > y)
		}
	case "round":
		x, ok := f64parse(args[1])
		if !ok || len(args) != 2 {
			return "bad-op"
		}
		return f64hex(math.Round(x))
	case "ofi":
		i, err := strconv.ParseInt(args[1], 10, 64)
		if err != nil || len(args) != 2 {
			return "bad-op"
		}
		return f64hex(float64(i))
	case "ofu":
		u, err := strconv.ParseUint(args[1], 10, 64)
		if err != nil || len(args) != 2 {
			return "bad-op"
		}
		return f64hex(float64(u))
	case "cvt":
		if len(args) != 3 {
			return "bad-op"
		}
		x, ok := f64parse(args[2])
		if !ok {
			return "bad-op"
		}
		s, ok := f64cvt(args[1], x)
		if !ok {
			return "bad-op"
		}
		return s
	case "f32":
		x, ok := f64parse(args[1])
		if !ok || len(args) != 2 {
			return "bad-op"
		}
		return f32hex(float32(x))
	case "of32":
		if len(args[1]) != 8 || len(args) != 2 {
			return "bad-op"
		}
		u, err := strconv.ParseUint(args[1], 16, 32)
		if err != nil {
			return "bad-op"
		}
		return f64hex(float64(math.Float32frombits(uint32(u))))
	}
	return "bad-op"
}

// profileScaleBits: the scales/offsets measured in the profile at design time; the family scaleoffset
// regenerates the real list, this one only seeds interesting operands.
var f64Seeds = []float64{0, 1, 2, 4, 5, 10, 16, 25, 100, 128, 256, 1000, 1024, 5000, 32768, 65535, 65536,
	0.7111111, 1.024, 28.57143, 10430.38, 500, -110, 0.5, 0.1, 0.29, 1e9, 180.0 / (1 << 31), 4294967295, 4294967296,
	9007199254740992, 9007199254740993, 9223372036854775807, 9223372036854775808, 18446744073709551615,
	math.MaxFloat64, math.SmallestNonzeroFloat64, 2.2250738585072014e-308, 2.225073858507201e-308, math.Inf(1)}

// f64Operand draws a bit pattern from a mixture that reaches every branch of the model:
// uniform patterns, seeds (± and neighbours), small integers, integers around 2^k, subnormals, specials.
func f64Operand(rng *Rng) uint64 {
	switch rng.Intn(12) {
	case 0:
		return rng.U64()
	case 1, 2:
		s := math.Float64bits(f64Seeds[rng.Intn(len(f64Seeds))])
		s += uint64(rng.Intn(5)) - 2 // neighbours
		if rng.Intn(3) == 0 {
			s ^= 1 << 63
		}
		return s
	case 3, 4:
		v := float64(int64(rng.Intn(1<<uint(rng.Intn(31)+1))) - int64(rng.Intn(3)))
		if rng.Bool() {
			v = -v
		}
		return math.Float64bits(v)
	case 5:
		k := rng.Intn(66)
		v := math.Ldexp(1, k) + float64(rng.Intn(5)-2)
		if rng.Intn(3) == 0 {
			v += 0.5
		}
		if rng.Bool() {
			v = -v
		}
		return math.Float64bits(v)
	case 6:
		return rng.U64() & (1<<52 - 1) >> uint(rng.Intn(52)) // subnormal
	case 7:
		sp := []uint64{0, 1 << 63, 0x7ff0000000000000, 0xfff0000000000000, 0x7ff8000000000000, 0x7ff0000000000001, 0xfff8000000000123, 1, 0x000fffffffffffff, 0x0010000000000000, 0x7fefffffffffffff}
		return sp[rng.Intn(len(sp))]
	case 8: // an integer divided by a seed: typical scaled values
		r := float64(rng.U64() >> uint(rng.Intn(64)))
		return math.Float64bits(r / f64Seeds[1+rng.Intn(20)])
	case 9: // moderate exponent, random significand (sums with partial cancellation)
		return uint64(1023-40+rng.Intn(80))<<52 | rng.U64()&(1<<52-1) | uint64(rng.Intn(2))<<63
	case 10: // few significant bits (ties)
		m := uint64(rng.Intn(1<<uint(1+rng.Intn(12)))) << uint(rng.Intn(52))
		return uint64(1023-60+rng.Intn(120))<<52 | m&(1<<52-1) | uint64(rng.Intn(2))<<63
	default: // near the edges of the exponent range
		e := uint64(rng.Intn(70))
		if rng.Bool() {
			e = 2046 - e
		}
		return e<<52 | rng.U64()&(1<<52-1) | uint64(rng.Intn(2))<<63
	}
}

func genF64(emit func(string), tier string, rng *Rng) {
	h := func(u uint64) string { return fmt.Sprintf("%016x", u) }
	// fixed vectors: the truncation witness and ties
	for _, l := range []string{
		"f64 div 403d000000000000 4059000000000000", // 29/100
		"f64 mul 3fd28f5c28f5c28f 4059000000000000", // 0.29*100 = 28.999999999999996
		"f64 cvt u16 403cffffffffffff",
		"f64 round 403cffffffffffff", "f64 round 3fdfffffffffffff", "f64 round 3fe0000000000000", "f64 round bfe0000000000000",
		"f64 round 4330000000000001", "f64 round 432fffffffffffff", "f64 round 8000000000000000", "f64 round bfd3333333333333",
		"f64 ofu 18446744073709551615", "f64 ofu 9223372036854775809", "f64 ofi -9223372036854775808", "f64 ofu 9007199254740993",
		"f64 add 0000000000000000 8000000000000000", "f64 add 8000000000000000 8000000000000000", "f64 sub 3ff0000000000000 3ff0000000000000",
		"f64 sub 8000000000000000 0000000000000000", "f64 div 3ff0000000000000 0000000000000000", "f64 div 0000000000000000 8000000000000000",
		"f64 mul 7ff0000000000000 0000000000000000", "f64 eq 0000000000000000 8000000000000000", "f64 eq 7ff8000000000000 7ff8000000000000",
	} {
		emit(l)
	}
	tys := []string{"i8", "u8", "i16", "u16", "i32", "u32", "i64", "u64"}
	// conversion boundaries: every type × values around its limits (± fractions)
	for _, ty := range tys {
		for _, k := range []int{0, 7, 8, 15, 16, 31, 32, 63, 64} {
			for _, d := range []float64{-1.5, -1, -0.5, 0, 0.5, 1, 1.5} {
				for _, sg := range []float64{1, -1} {
					v := sg * (math.Ldexp(1, k) + d)
					emit("f64 cvt " + ty + " " + h(math.Float64bits(v)))
					emit("f64 cvt " + ty + " " + h(math.Float64bits(v)+1))
					emit("f64 cvt " + ty + " " + h(math.Float64bits(v)-1))
					count("cvt-boundary")
				}
			}
		}
	}
	n := 60000
	if tier == "thorough" {
		n = 1500000
	}
	ops := []string{"add", "sub", "mul", "div"}
	for i := 0; i < n; i++ {
		x, y := f64Operand(rng), f64Operand(rng)
		switch k := rng.Intn(20); {
		case k < 12:
			op := ops[rng.Intn(4)]
			if (op == "add" || op == "sub") && rng.Intn(3) == 0 { // close exponents: cancellation, carries
				y = y&^(0x7ff<<52) | (((x>>52)&0x7ff+uint64(rng.Intn(5))-2)&0x7ff)<<52
			}
			emit("f64 " + op + " " + h(x) + " " + h(y))
			count(op)
		case k == 12:
			emit("f64 " + []string{"eq", "lt", "gt"}[rng.Intn(3)] + " " + h(x) + " " + h(y))
			count("cmp")
		case k == 13:
			emit("f64 round " + h(x))
			count("round")
		case k == 14:
			if rng.Bool() {
				emit("f64 ofi " + strconv.FormatInt(int64(rng.U64())>>uint(rng.Intn(64)), 10))
			} else {
				emit("f64 ofu " + strconv.FormatUint(rng.U64()>>uint(rng.Intn(64)), 10))
			}
			count("ofint")
		case k < 18:
			emit("f64 cvt " + tys[rng.Intn(8)] + " " + h(x))
			count("cvt")
		case k == 18:
			emit("f64 f32 " + h(x))
			count("f32")
		default:
			emit(fmt.Sprintf("f64 of32 %08x", uint32(rng.U64())>>uint(rng.Intn(8))))
			count("of32")
		}
	}
}
