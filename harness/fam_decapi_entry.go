package main

// Family `decentry` (property C03): the decoding entry points other than the Decoder's own API calls, on the same
// arbitrary / built / mutated byte streams as `decapi`, each operation under a timeout (answer `hang`):
//
//	decentry e:<entry> o:<opts> f:<factory> b:<hex>            (<opts>, <factory> as in fam_decapi.go)
//
//	e:raw:<j|->        decoder.NewRaw().Decode(bytes.NewReader(b), fn), fn failing at its j-th call (0-based; "-": never).
//	                   Answer as the op `raw` of C16: <class> n=<bytes> q=<sequences> segs=<calls> l=<digest> d=<digest>
//	e:lis:<N>:<fs>     the Decoder (options o, factory f) with filedef.NewListener(WithChannelBuffer(N), file sets fs) as its
//	                   message listener: `for dec.Next() { _, err := dec.Decode(); file := lis.File(); … }`, lis.Close().
//	                   fs: all = the predefined sets | act = only activity listed | none = nothing listed.
//	                   Answer: per sequence ok:<type> | err:<class>:<type> (ends the loop), then `end`; <type> = Go type of the
//	                   file the listener hands out (nil when the sequence's file type is not listed or it has no file_id).
//	                   Before the concurrent run the same messages are put through the file types' Add SEQUENTIALLY on the
//	                   harness goroutine (processMesg re-enacted), so that a panic of a typed conversion is caught as `panic`
//	                   here instead of killing the process on the listener's worker goroutine; `mismatch` if both disagree.
//
// The Lean side is lean/Driver/DecoderApi.lean (hDecEntry): RawDecoder model of C16; decoder-API model + listenerFile.

import (
	"bytes"
	"encoding/hex"
	"fmt"
	"os"
	"strconv"
	"strings"
	"time"

	"github.com/muktihari/fit/decoder"
	"github.com/muktihari/fit/profile/filedef"
	"github.com/muktihari/fit/profile/typedef"
	"github.com/muktihari/fit/profile/untyped/fieldnum"
	"github.com/muktihari/fit/profile/untyped/mesgnum"
	"github.com/muktihari/fit/proto"
)

func init() {
	families["decentry"] = genDecEntry
	executors["decentry"] = execDecEntry
}

var dentHangs int // operations of this process that ran into their timeout

const dentHangBudget = 3

func dentTimeout(d time.Duration, budgeted bool, f func() string) string {
	if budgeted && dentHangs >= dentHangBudget {
		// enough listener goroutines of this process are stuck already and each further one costs its whole timeout: the
		// operation is not run (its answer differs from the model's: a correspondence break, not a verdict about this input)
		return "not-run:hang-budget-spent"
	}
	done := make(chan string, 1)
	go func() {
		defer func() {
			if r := recover(); r != nil {
				if os.Getenv("VERIF_DEBUG") != "" {
					done <- fmt.Sprintf("panic(%v)", r)
				} else {
					done <- "panic"
				}
			}
		}()
		done <- f()
	}()
	select {
	case r := <-done:
		return r
	case <-time.After(d):
		dentHangs++
		return "hang"
	}
}

func execDecEntry(args []string) string {
	var entry, optS, facS string
	var b []byte
	haveB := false
	for _, a := range args {
		switch {
		case strings.HasPrefix(a, "e:"):
			entry = a[2:]
		case strings.HasPrefix(a, "o:"):
			optS = a[2:]
		case strings.HasPrefix(a, "f:"):
			facS = a[2:]
		case strings.HasPrefix(a, "b:"):
			x, err := hex.DecodeString(a[2:])
			if err != nil || haveB {
				return "bad-op"
			}
			b, haveB = x, true
		default:
			return "bad-op"
		}
	}
	if !haveB || entry == "" || optS == "" || facS == "" {
		return "bad-op"
	}
	o, ok := parseDapiOpts(optS)
	fac, ok2 := parseDapiFactory(facS)
	if !ok || !ok2 {
		return "bad-op"
	}
	p := strings.Split(entry, ":")
	switch {
	case len(p) == 2 && p[0] == "raw":
		fail := -1
		if p[1] != "-" {
			j, err := strconv.Atoi(p[1])
			if err != nil || j < 0 {
				return "bad-op"
			}
			fail = j
		}
		return dentTimeout(10*time.Second, false, func() string { return dentRaw(b, fail) })
	case len(p) == 3 && p[0] == "lis":
		n, err := strconv.Atoi(p[1])
		if err != nil || n < 0 || n > 1<<16 || (p[2] != "all" && p[2] != "act" && p[2] != "none") {
			return "bad-op"
		}
		return dentLis(b, o, fac, n, p[2])
	}
	return "bad-op"
}

func dentRaw(b []byte, fail int) string {
	var g rawDigest
	g.init()
	calls, seqs := 0, 0
	n, err := decoder.NewRaw().Decode(bytes.NewReader(b), func(flag decoder.RawFlag, p []byte) error {
		g.add(byte(flag), p)
		calls++
		if fail >= 0 && calls-1 == fail {
			return errRawCallback
		}
		if flag == decoder.RawFlagCRC {
			seqs++
		}
		return nil
	})
	return fmt.Sprintf("%s n=%d q=%d segs=%d l=%016x d=%016x", rawErrClass(err), n, seqs, calls, g.l, g.d)
}

func dentFileSets(fs string) filedef.FileSets {
	switch fs {
	case "act":
		return filedef.FileSets{typedef.FileActivity: func() filedef.File { return filedef.NewActivity() }}
	case "none":
		return filedef.FileSets{}
	}
	return filedef.PredefinedFileSet()
}

func dentType(f filedef.File) string {
	if f == nil {
		return "nil"
	}
	return strings.TrimPrefix(fmt.Sprintf("%T", f), "*")
}

type dentCollector struct{ msgs []proto.Message }

func (c *dentCollector) OnMesg(m proto.Message) {
	m.Fields = append([]proto.Field(nil), m.Fields...)
	m.DeveloperFields = append([]proto.DeveloperField(nil), m.DeveloperFields...)
	c.msgs = append(c.msgs, m)
}

// the decode loop with some message listener; per sequence what `file()` gives after the Decode
func dentLoop(b []byte, o dapiOpts, fac *dapiFactory, lis decoder.MesgListener, file func() string) []string {
	o.ml, o.dl = false, false
	opts := append(o.options(fac, nil, nil), decoder.WithMesgListener(lis))
	dec := decoder.New(bytes.NewReader(b), opts...)
	var toks []string
	for i := 0; dec.Next(); i++ {
		_, err := dec.Decode()
		t := file()
		if err != nil {
			return append(toks, "err:"+dapiErr(err)+":"+t)
		}
		toks = append(toks, "ok:"+t)
		if i > len(b) {
			return append(toks, "runaway")
		}
	}
	return append(toks, "end")
}

func dentLis(b []byte, o dapiOpts, fac *dapiFactory, n int, fs string) string {
	sets := dentFileSets(fs)
	// 1. sequentially, on this goroutine: processMesg re-enacted with the file types' own Add
	seq := dentTimeout(10*time.Second, false, func() string {
		col := &dentCollector{}
		var f filedef.File // l.file: kept by File(), cleared by the reset() of the first OnMesg that follows
		return strings.Join(dentLoop(b, o, fac, col, func() string {
			if len(col.msgs) > 0 {
				f = nil
			}
			for i := range col.msgs {
				m := col.msgs[i]
				if m.Num == mesgnum.FileId {
					fn := sets[typedef.File(m.FieldValueByNum(fieldnum.FileIdType).Uint8())]
					if fn == nil {
						continue
					}
					f = fn()
				}
				if f == nil {
					continue
				}
				f.Add(m)
			}
			col.msgs = col.msgs[:0]
			return dentType(f)
		}), " ")
	})
	if seq == "hang" || strings.HasPrefix(seq, "panic") {
		return seq
	}
	// 2. the listener itself (worker goroutine, pool, channels)
	concurrent := func() string {
		lis := filedef.NewListener(filedef.WithChannelBuffer(uint(n)), filedef.WithFileSets(sets))
		defer lis.Close()
		return strings.Join(dentLoop(b, o, fac, lis, func() string { return dentType(lis.File()) }), " ")
	}
	conc := dentTimeout(3*time.Second, true, concurrent)
	if conc == "hang" {
		// a starved machine is not a deadlock: the verdict is `hang` only if a second, fresh attempt with a long timeout
		// does not finish either (the first attempt's goroutines stay behind; they are counted once)
		dentHangs--
		conc = dentTimeout(12*time.Second, true, concurrent)
	}
	if conc != seq && conc != "hang" && !strings.HasPrefix(conc, "not-run") && !strings.HasPrefix(conc, "panic") {
		return "mismatch[" + seq + "][" + conc + "]"
	}
	return conc
}

// ---------------------------------------------------------------- generator

var dentFileTypes = []byte{4, 4, 1, 2, 3, 5, 6, 7, 9, 10, 11, 14, 15, 20, 28, 32, 34, 35, 8, 12, 0xF7, 0xFE, 255, 0, 40, 64}

// a sequence that starts with a file_id of the given type, then `extra` small data records of a record-like message
// (one definition), then random records
func dentTypedSeq(rng *Rng, ftype byte, extra int) []byte {
	recs := dapiDefRec(0, 0, 0, []dapiFD{{0, 1, 0x00}, {1, 2, 0x84}, {4, 4, 0x86}}, nil)
	recs = append(recs, 0, ftype, 1, 0, 0x10, 0x20, 0x30, 0x40)
	recs = append(recs, dapiDefRec(1, 0, []uint16{20, 18, 19, 49, 21, 0xFF00}[rng.Intn(6)], []dapiFD{{253, 4, 0x86}, {3, 1, 0x02}}, nil)...)
	ts := uint32(0x30000000)
	for i := 0; i < extra; i++ {
		ts += uint32(rng.Intn(3))
		recs = append(recs, 1, byte(ts), byte(ts>>8), byte(ts>>16), byte(ts>>24), byte(rng.Intn(256)))
	}
	if rng.Intn(3) != 0 {
		recs = append(recs, dapiRandRecords(rng, 0, rng.Intn(4) == 0)...)
	}
	return dapiSeq(14, true, recs)
}

func genDecEntry(emit func(string), tier string, rng *Rng) {
	scale := 1
	if tier == "thorough" {
		scale = 20
	}
	line := func(entry, opt, fac string, b []byte) {
		emit(fmt.Sprintf("decentry e:%s o:%s f:%s b:%s", entry, opt, fac, hex.EncodeToString(b)))
	}
	rawEntry := func(segsHint int) string {
		if rng.Intn(3) == 0 {
			return fmt.Sprintf("raw:%d", rng.Intn(segsHint+2))
		}
		return "raw:-"
	}
	lisEntry := func() string {
		n := []int{0, 1, 2, 3, 128, 128, 7}[rng.Intn(7)]
		fs := []string{"all", "all", "all", "act", "none"}[rng.Intn(5)]
		return fmt.Sprintf("lis:%d:%s", n, fs)
	}
	both := func(kind string, opt, fac string, b []byte, segsHint int) {
		line(rawEntry(segsHint), opt, fac, b)
		line(lisEntry(), opt, fac, b)
		count(kind)
	}
	// 1. arbitrary bytes
	for i := 0; i < 700*scale; i++ {
		var b []byte
		switch rng.Intn(4) {
		case 0:
			b = rng.Bytes(rng.Intn(40))
		case 1:
			b = bytes.Repeat([]byte{byte(rng.Intn(256))}, rng.Intn(64))
		default:
			body := rng.Bytes(rng.Intn(80))
			b = dapiSeq([]int{12, 14}[rng.Intn(2)], rng.Bool(), body)
			if rng.Bool() {
				b[4] = byte(rng.Intn(256))
			}
		}
		both("arbitrary-bytes", dapiOptString(rng), dapiFacString(dapiRandFactory(rng)), b, 4)
	}
	// 2. built chains, whole and mutated
	for i := 0; i < 700*scale; i++ {
		b := dapiChain(rng, rng.Range(1, 3))
		if rng.Intn(3) == 0 {
			b = mutate(rng, b)
			count("mutated-stream")
		}
		both("built-chain", dapiOptString(rng), dapiFacString(dapiRandFactory(rng)), b, 20)
	}
	// 3. sequences whose file_id names a listed / unlisted / out-of-range file type, with FEWER and MORE messages than the
	// listener's channel buffer and pool hold (every message of an unlisted type takes a slice from the pool and must give
	// it back although no file consumes it), chained so that a listed type follows an unlisted one and vice versa
	for i := 0; i < 260*scale; i++ {
		n := []int{0, 1, 2, 3, 5}[rng.Intn(5)]
		var b []byte
		for k := rng.Range(1, 3); k > 0; k-- {
			b = append(b, dentTypedSeq(rng, dentFileTypes[rng.Intn(len(dentFileTypes))], rng.Range(0, 3*n+4))...)
		}
		if rng.Intn(5) == 0 {
			b = mutate(rng, b)
		}
		fs := []string{"all", "all", "act", "none"}[rng.Intn(4)]
		line(fmt.Sprintf("lis:%d:%s", n, fs), dapiOptString(rng), dapiFacString(dapiRandFactory(rng)), b)
		count("file-types-small-buffer")
	}
	for i := 0; i < 40*scale; i++ { // the default buffer (128): 100 … 300 messages per sequence
		var b []byte
		for k := rng.Range(1, 2); k > 0; k-- {
			b = append(b, dentTypedSeq(rng, dentFileTypes[rng.Intn(len(dentFileTypes))], rng.Range(100, 300))...)
		}
		fs := []string{"all", "all", "act", "none"}[rng.Intn(4)]
		line(fmt.Sprintf("lis:128:%s", fs), dapiOptString(rng), dapiFacString(dapiRandFactory(rng)), b)
		line("raw:-", "chk1,exp1,bo0,bc0,ml0,dl0,lw0,rbs0", "-", b)
		count("file-types-default-buffer")
	}
	// 4. definition surgery (base type byte × size) and developer-field surgery, as in decapi, through both entry points
	for bt := 0; bt < 256; bt += 1 {
		for _, size := range []int{0, 1, 3, 8, 255} {
			if scale == 1 && (bt+size)%3 != 0 {
				continue
			}
			recs := dapiDefRec(0, byte(rng.Intn(2)), []uint16{0, 20, 18}[rng.Intn(3)], []dapiFD{{[]byte{3, 253, 0, 200}[rng.Intn(4)], byte(size), byte(bt)}}, nil)
			recs = append(recs, 0)
			recs = append(recs, rng.Bytes(size)...)
			fac := "-"
			if rng.Bool() {
				fac = dapiFacString(dapiPool)
			}
			both("definition-surgery", dapiOptString(rng), fac, dapiSeq(14, true, recs), 3)
		}
	}
	// 4b. the longest records the protocol allows: 255 field definitions (and 255 developer field definitions) of 255 bytes —
	// the raw decoder's fixed array is sized for exactly that (1 + 255·255 + 255·255 bytes); one byte less, complete and cut
	for i := 0; i < 3*scale; i++ {
		nf, nd := 255, []int{255, 254, 0}[i%3]
		fsz := byte(255)
		if i%3 == 1 {
			fsz = 254
		}
		var fds, dds []dapiFD
		for k := 0; k < nf; k++ {
			fds = append(fds, dapiFD{byte(k), fsz, 0x0D})
		}
		for k := 0; k < nd; k++ {
			dds = append(dds, dapiFD{byte(k), 255, 0})
		}
		var recs []byte
		if nd > 0 {
			recs = dapiDefRec(0, 0, 20, fds, dds)
		} else {
			recs = dapiDefRec(0, 0, 20, fds, nil)
		}
		recs = append(recs, 0)
		recs = append(recs, rng.Bytes(nf*int(fsz)+nd*255)...)
		if rng.Bool() {
			recs = append(recs, 0)
			recs = append(recs, rng.Bytes(rng.Intn(nf*int(fsz)))...) // a second record, cut short
		}
		b := dapiSeq(14, true, recs)
		line("raw:-", "chk1,exp0,bo0,bc0,ml0,dl0,lw0,rbs0", "-", b)
		line(fmt.Sprintf("raw:%d", rng.Intn(4)), "chk1,exp0,bo0,bc0,ml0,dl0,lw0,rbs0", "-", b)
		line("lis:2:all", "chk1,exp0,bo0,bc0,ml0,dl0,lw0,rbs0", "-", b)
		count("longest-records")
	}
	// 5. fixtures and encoder outputs through the standard factory (expansion off: see fam_decapi.go), whole and mutated
	stdOpt := func() string { return strings.Replace(dapiOptString(rng), "exp1", "exp0", 1) }
	for _, p := range fixtureFiles() {
		b, err := os.ReadFile(p)
		if err != nil || len(b) > 1<<16 && tier != "thorough" || len(b) > 1<<21 {
			continue
		}
		line("raw:-", stdOpt(), "std", b)
		line(lisEntry(), stdOpt(), "std", b)
		count("std-fixture")
		if len(b) < 1<<14 {
			for j := 0; j < 3; j++ {
				m := mutate(rng, mutate(rng, b))
				line(rawEntry(30), stdOpt(), "std", m)
				line(lisEntry(), stdOpt(), "std", m)
				count("std-fixture-mutated")
			}
		}
	}
	var eops []string
	genEncW(func(l string) { eops = append(eops, l) }, "quick", rng.Fork(12))
	for i := 0; i < 150*scale && i < len(eops); i++ {
		b := encodeOp(eops[len(eops)-1-i])
		if len(b) == 0 || len(b) > 20000 {
			continue
		}
		if rng.Intn(3) == 0 {
			b = mutate(rng, b)
		}
		line(rawEntry(10), stdOpt(), "std", b)
		line(lisEntry(), stdOpt(), "std", b)
		count("std-encoder-output")
	}
}
