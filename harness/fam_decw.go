package main

import (
	"bytes"
	"encoding/hex"
	"errors"
	"fmt"
	"io"
	"os"
	"path/filepath"
	"sort"
	"strings"

	"github.com/muktihari/fit/decoder"
	"github.com/muktihari/fit/encoder"
	"github.com/muktihari/fit/proto"
)

func init() {
	families["decw"] = genDecW
	executors["decw"] = execDecW
}

func decErrClass(err error) string {
	switch {
	case err == nil:
		return "ok"
	case errors.Is(err, io.EOF), errors.Is(err, io.ErrUnexpectedEOF):
		return "err:eof"
	case errors.Is(err, decoder.ErrNotFITFile):
		return "err:notfit"
	case errors.Is(err, decoder.ErrCRCChecksumMismatch):
		return "err:crc"
	case errors.Is(err, decoder.ErrMesgDefMissing):
		return "err:defmissing"
	case errors.Is(err, decoder.VerifErrInvalidBaseType):
		return "err:basetype"
	default:
		return "err:other"
	}
}

// evRec prints the listener events; pd: per data record of the stream (in order) a digest of the field payloads, taken from
// the bytes the REAL raw decoder (decoder.NewRaw) hands out for the record, cut by the sizes of the live definition
type evRec struct {
	sb *strings.Builder
	pd []string
	n  *int
}

// decwPayloads runs the real raw decoder over b and returns, per data record, the FNV-1a digest of
// "<num>.<size>.<hex bytes>;…|<num>.<size>.<developer data index>.<hex bytes>;…" (field payloads as they are on the wire)
func decwPayloads(b []byte) (out []string) {
	defer func() { recover() }()
	type fdef struct{ num, size, x byte }
	type mdef struct{ fields, devs []fdef }
	var defs [16]*mdef
	decoder.NewRaw().Decode(bytes.NewReader(b), func(flag decoder.RawFlag, rb []byte) error {
		switch flag {
		case decoder.RawFlagFileHeader:
			defs = [16]*mdef{}
		case decoder.RawFlagMesgDef:
			d := &mdef{}
			n := int(rb[5])
			for i := 0; i < n; i++ {
				d.fields = append(d.fields, fdef{rb[6+3*i], rb[7+3*i], rb[8+3*i]})
			}
			if rb[0]&0x20 != 0 {
				k := int(rb[6+3*n])
				for i := 0; i < k; i++ {
					d.devs = append(d.devs, fdef{rb[7+3*n+3*i], rb[8+3*n+3*i], rb[9+3*n+3*i]})
				}
			}
			defs[rb[0]&0x0F] = d
		case decoder.RawFlagMesgData:
			local := rb[0] & 0x0F
			if rb[0]&0x80 != 0 {
				local = (rb[0] & 0x60) >> 5
			}
			d := defs[local]
			if d == nil {
				out = append(out, "-")
				return nil
			}
			var sb strings.Builder
			p := rb[1:]
			for _, f := range d.fields {
				fmt.Fprintf(&sb, "%d.%d.%s;", f.num, f.size, hex.EncodeToString(p[:f.size]))
				p = p[f.size:]
			}
			sb.WriteByte('|')
			for _, f := range d.devs {
				fmt.Fprintf(&sb, "%d.%d.%d.%s;", f.num, f.size, f.x, hex.EncodeToString(p[:f.size]))
				p = p[f.size:]
			}
			out = append(out, fmt.Sprintf("%016x", dapiFnv(0xcbf29ce484222325, sb.String())))
		}
		return nil
	})
	return out
}

func (e evRec) OnMesgDef(d proto.MessageDefinition) {
	fs := make([]string, len(d.FieldDefinitions))
	for i, f := range d.FieldDefinitions {
		fs[i] = fmt.Sprintf("%d.%d.%d", f.Num, f.Size, byte(f.BaseType))
	}
	ds := make([]string, len(d.DeveloperFieldDefinitions))
	for i, f := range d.DeveloperFieldDefinitions {
		ds[i] = fmt.Sprintf("%d.%d.%d", f.Num, f.Size, f.DeveloperDataIndex)
	}
	fmt.Fprintf(e.sb, " D%d.%d.%d(%s)(%s)", d.Header, d.Architecture, d.MesgNum, strings.Join(fs, ";"), strings.Join(ds, ";"))
}

func (e evRec) OnMesg(m proto.Message) {
	ts := "-"
	if m.Header&proto.MesgCompressedHeaderMask != 0 && len(m.Fields) > 0 {
		ts = fmt.Sprint(m.Fields[0].Value.Uint32())
	}
	pd := "-"
	if e.n != nil {
		if *e.n < len(e.pd) {
			pd = e.pd[*e.n]
		}
		*e.n++
	}
	fmt.Fprintf(e.sb, " R%d.%d.%s.%d.%d.p%s", m.Header, m.Num, ts, len(m.Fields), len(m.DeveloperFields), pd)
}

// decw chk=<0|1> <hex>: `for dec.Next() { dec.Decode() }` with component expansion off; events from the
// definition and message listeners, then per sequence the header and CRC, finally `end` or the error class.
func execDecW(args []string) string {
	kv, rest := parseKV(args)
	if len(rest) != 1 {
		return "bad-op"
	}
	b, err := hex.DecodeString(rest[0])
	if err != nil {
		return "bad-op"
	}
	var sb strings.Builder
	cnt := 0
	rec := evRec{&sb, decwPayloads(b), &cnt}
	opts := []decoder.Option{decoder.WithNoComponentExpansion(), decoder.WithMesgDefListener(rec), decoder.WithMesgListener(rec)}
	if kv["chk"] == "0" {
		opts = append(opts, decoder.WithIgnoreChecksum())
	}
	dec := decoder.New(bytes.NewReader(b), opts...)
	status := "end"
	for dec.Next() {
		fit, err := dec.Decode()
		if err != nil {
			status = decErrClass(err)
			break
		}
		h := fit.FileHeader
		fmt.Fprintf(&sb, " S%d.%d.%d.%d.%d.%d.%d", h.Size, h.ProtocolVersion, h.ProfileVersion, h.DataSize, h.CRC, fit.CRC, len(fit.Messages))
	}
	return status + sb.String()
}

func fixtureFiles() []string {
	var res []string
	filepath.Walk(repoRoot()+"/testdata", func(p string, info os.FileInfo, err error) error {
		if err == nil && !info.IsDir() && strings.HasSuffix(p, ".fit") {
			res = append(res, p)
		}
		return nil
	})
	sort.Strings(res)
	return res
}

func repoRoot() string {
	if r := os.Getenv("VERIF_REPO"); r != "" {
		return r
	}
	return "/repo"
}

// encodeOp runs the real encoder on an encw operation and returns the destination bytes.
func encodeOp(op string) []byte {
	ans := execLine(op)
	p := strings.Fields(ans)
	if len(p) < 2 {
		return nil
	}
	b, _ := hex.DecodeString(p[1])
	return b
}

func mutate(rng *Rng, b []byte) []byte {
	c := append([]byte(nil), b...)
	if len(c) == 0 {
		return c
	}
	switch rng.Intn(8) {
	case 0: // bit flip
		i := rng.Intn(len(c))
		c[i] ^= 1 << rng.Intn(8)
	case 1: // byte set
		c[rng.Intn(len(c))] = byte(rng.Intn(256))
	case 2: // truncate
		c = c[:rng.Intn(len(c))]
	case 3: // insert
		i := rng.Intn(len(c) + 1)
		c = append(c[:i], append(rng.Bytes(1+rng.Intn(3)), c[i:]...)...)
	case 4: // delete
		i := rng.Intn(len(c))
		c = append(c[:i], c[i+1:]...)
	case 5: // header-byte surgery near the start of the records
		if len(c) > 20 {
			c[14+rng.Intn(min(len(c)-14, 40))] = []byte{0x40, 0x60, 0x80, 0xE0, 0x0F, 0x4F, 0x20}[rng.Intn(7)]
		}
	case 6: // append garbage or another file
		c = append(c, rng.Bytes(rng.Intn(20))...)
	case 7: // multiple flips
		for k := 0; k < 3; k++ {
			c[rng.Intn(len(c))] ^= byte(1 << rng.Intn(8))
		}
	}
	return c
}

func genDecW(emit func(string), tier string, rng *Rng) {
	n := 1500
	if tier == "thorough" {
		n = 40000
	}
	emitB := func(chk int, b []byte) {
		emit(fmt.Sprintf("decw chk=%d %s", chk, hex.EncodeToString(b)))
	}
	// fixtures (small ones whole; all of them: head-truncated variants)
	for _, p := range fixtureFiles() {
		b, err := os.ReadFile(p)
		if err != nil {
			continue
		}
		if len(b) <= 1<<16 {
			emitB(1, b)
			count("fixture")
			for k := 0; k < 3; k++ {
				emitB(rng.Intn(2), mutate(rng, b))
			}
		} else if tier == "thorough" && len(b) <= 1<<21 {
			emitB(1, b)
			count("fixture-big")
		}
	}
	// encoder outputs and their mutations
	var ops []string
	genEncW(func(l string) { ops = append(ops, l) }, "quick", rng.Fork(7))
	for i := 0; i < n && i < len(ops); i++ {
		b := encodeOp(ops[i])
		if len(b) == 0 || len(b) > 20000 {
			continue
		}
		emitB(1, b)
		count("encoder-output")
		for k := 0; k < 2; k++ {
			m := mutate(rng, b)
			if rng.Intn(3) == 0 {
				m = mutate(rng, m)
			}
			emitB(rng.Intn(2), m)
			count("mutated")
		}
	}
	// hand-built developer-data streams (wire_dev.go) and their mutations
	for i := 0; i < min(n/2, 8000); i++ {
		b := devwStream(rng)
		emitB(rng.Intn(2), b)
		count("devstream")
		if rng.Intn(3) == 0 {
			emitB(0, mutate(rng, b))
			count("devstream-mutated")
		}
		if rng.Intn(6) == 0 { // two sequences in a chain: the descriptions of the first must not reach the second
			emitB(rng.Intn(2), append(append([]byte{}, b...), devwStream(rng)...))
			count("devstream-chain")
		}
	}
	// arbitrary bytes behind a plausible header
	for i := 0; i < n/3; i++ {
		body := rng.Bytes(rng.Intn(60))
		hdr := []byte{14, 0x20, 0, 0, byte(len(body)), 0, 0, 0, '.', 'F', 'I', 'T', 0, 0}
		if rng.Intn(4) == 0 {
			hdr = hdr[:12]
			hdr[0] = 12
		}
		emitB(rng.Intn(2), append(append(hdr, body...), rng.Bytes(2)...))
		count("random-body")
	}
	_ = encoder.HeaderOptionNormal
}
