module fitharness

go 1.21

require (
	github.com/muktihari/carto v0.1.1
	github.com/muktihari/fit v0.0.0
)

replace github.com/muktihari/fit => /repo
