package main

// Developer-data scenarios for the wire families (encw / rtw / decw): field_description messages (206) with valid, invalid,
// missing, empty, array-valued, duplicated or oddly typed key fields, the same (developer data index, field number)
// described again, descriptions that come after their use or live in an earlier sequence of a chain only, and developer
// fields whose size is smaller than / not a multiple of / unrelated to the described base type's size.
// The real decoder keeps the descriptions of ONE sequence, takes the FIRST match and returns errInvalidBaseType when a
// developer field refers to a description whose fit_base_type_id is not a valid base type (decodeDeveloperFields).

import (
	"fmt"

	"github.com/muktihari/fit/proto"
)

var devwValidBts = []byte{0x00, 0x01, 0x02, 0x83, 0x84, 0x85, 0x86, 0x07, 0x88, 0x89, 0x0A, 0x8B, 0x8C, 0x0D, 0x8E, 0x8F, 0x90}
var devwInvalidBts = []byte{0x55, 0xFF, 0x03, 0x80, 0x82, 0x11, 0x91, 0x8D, 0x10, 0x1F}

type devwKey struct{ idx, num int }

// devwPlan: what one operation does with developer data
type devwPlan struct {
	keys []devwKey
	kind string
}

func devwU8(num int, v byte) wField {
	return wField{num: num, bt: 0x02, tag: int(proto.TypeUint8), data: []byte{v}}
}

// devwDesc builds one field_description message for key k whose base type id (as the decoder reads it) is valid or not;
// `how` varies the way field 2 is written
func devwDesc(rng *Rng, arch byte, k devwKey, valid bool) wMsg {
	good := devwValidBts[rng.Intn(len(devwValidBts))]
	bad := devwInvalidBts[rng.Intn(len(devwInvalidBts))]
	bt := bad
	if valid {
		bt = good
	}
	m := wMsg{num: 206}
	key0, key1 := devwU8(0, byte(k.idx)), devwU8(1, byte(k.num))
	switch rng.Intn(12) {
	case 0: // developer_data_index written as a uint16: the decoder reads the first byte on the wire
		v := uint16(k.idx)
		if arch == 1 {
			v = uint16(k.idx) << 8
		}
		b := []byte{byte(v), byte(v >> 8)}
		if arch == 1 {
			b = []byte{byte(v >> 8), byte(v)}
		}
		key0 = wField{num: 0, bt: 0x84, tag: int(proto.TypeUint16), data: b}
		count("dev:key-u16")
	case 1: // field_definition_number as a byte array: first element counts
		key1 = wField{num: 1, bt: 0x0D, tag: int(proto.TypeSliceUint8), data: []byte{byte(k.num), byte(rng.Intn(256))}}
		count("dev:key-array")
	}
	fields := []wField{key0, key1}
	switch rng.Intn(10) {
	case 0: // the same field twice: the last one wins
		fields = append(fields, devwU8(2, map[bool]byte{true: bad, false: good}[valid]), devwU8(2, bt))
		count("dev:bt-twice")
	case 1: // an array: the first byte counts
		fields = append(fields, wField{num: 2, bt: 0x02, tag: int(proto.TypeSliceUint8), data: []byte{bt, map[bool]byte{true: bad, false: good}[valid]}})
		count("dev:bt-array")
	case 2: // written with another base type in the definition (the factory's uint8 decides)
		fields = append(fields, wField{num: 2, bt: 0x0A, tag: int(proto.TypeUint8), data: []byte{bt}})
		count("dev:bt-as-uint8z")
	default:
		fields = append(fields, devwU8(2, bt))
	}
	if !valid {
		switch rng.Intn(8) {
		case 0: // no fit_base_type_id at all: 255, invalid
			fields = fields[:2]
			count("dev:bt-missing")
		case 1: // fit_base_type_id of size 0 (skipped by the decoder): 255, invalid
			fields = append(fields[:2], wField{num: 2, bt: 0x02, tag: int(proto.TypeSliceUint8), data: nil})
			count("dev:bt-empty")
		}
	}
	if rng.Intn(3) == 0 { // other members of the message, around the keys
		fields = append(fields, wField{num: 3, bt: 0x07, tag: int(proto.TypeString), data: []byte{'d', 'e', 'v', 0}})
	}
	if rng.Intn(4) == 0 {
		devwShuffle(rng, len(fields), func(i, j int) { fields[i], fields[j] = fields[j], fields[i] })
	}
	m.fields = fields
	return m
}

// devwUser builds a message carrying developer fields for the given keys (and sometimes an undescribed one)
func devwUser(rng *Rng, arch byte, keys []devwKey) wMsg {
	m := wMsg{num: []int{20, 18, 19, 65280, 206}[rng.Intn(5)]}
	if m.num == 206 {
		count("dev:user-is-206")
	}
	nf := rng.Intn(3)
	for j := 0; j < nf; j++ {
		tag, data := randWireValue(rng, arch, 3)
		bts := tagBaseTypes[scalarOf(tag)]
		m.fields = append(m.fields, wField{num: 3 + rng.Intn(200), bt: int(bts[rng.Intn(len(bts))]), tag: int(tag), data: data})
	}
	nd := 1 + rng.Intn(3)
	for j := 0; j < nd; j++ {
		k := keys[rng.Intn(len(keys))]
		if rng.Intn(6) == 0 {
			k = devwKey{rng.Intn(4), rng.Intn(256)} // most likely without description
			count("dev:undescribed")
		}
		tag, data := randWireValue(rng, arch, 3)
		switch rng.Intn(6) {
		case 0: // sizes 1, 3, 5, 6, 7: smaller than / not a multiple of most base type sizes
			data = rng.Bytes([]int{1, 3, 5, 6, 7}[rng.Intn(5)])
			tag = proto.TypeSliceUint8
			count("dev:odd-size")
		case 1:
			data, tag = nil, proto.TypeSliceUint8 // size 0
			count("dev:size0")
		}
		m.devs = append(m.devs, wField{num: k.num, bt: k.idx, tag: int(tag), data: data})
	}
	if m.num == 206 && rng.Intn(2) == 0 {
		// a field_description message that describes a developer field it carries itself, under a key nothing else describes
		// (developer data index 3): the decoder records the description BEFORE it decodes the developer fields of the message
		k := devwKey{3, rng.Intn(256)}
		m.devs[0].num, m.devs[0].bt = k.num, k.idx
		dm := devwDesc(rng, arch, k, rng.Intn(3) != 0)
		m.fields = append(dm.fields, m.fields...)
		count("dev:self-described")
	}
	if len(m.fields) == 0 && rng.Intn(2) == 0 {
		m.fields = append(m.fields, devwU8(3, byte(rng.Intn(255))))
	}
	return m
}

func newDevwPlan(rng *Rng) *devwPlan {
	p := &devwPlan{}
	nk := 1 + rng.Intn(3)
	for i := 0; i < nk; i++ {
		p.keys = append(p.keys, devwKey{rng.Intn(3), []int{0, 1, 2, 7, 255}[rng.Intn(5)]})
	}
	p.kind = []string{"valid", "valid", "invalid", "redefine-valid-first", "redefine-invalid-first", "after-use", "earlier-file", "mixed"}[rng.Intn(8)]
	count("dev:plan=" + p.kind)
	return p
}

// messages returns the developer-data messages to put in front of and behind the other messages of file number f
func (p *devwPlan) messages(rng *Rng, arch byte, f, nfiles int) (front, back []wMsg) {
	if rng.Intn(3) == 0 {
		front = append(front, wMsg{num: 207, fields: []wField{devwU8(3, byte(p.keys[0].idx))}})
	}
	users := func() []wMsg {
		var us []wMsg
		for j := 0; j < 1+rng.Intn(3); j++ {
			us = append(us, devwUser(rng, arch, p.keys))
		}
		return us
	}
	switch p.kind {
	case "valid":
		for _, k := range p.keys {
			front = append(front, devwDesc(rng, arch, k, true))
		}
		front = append(front, users()...)
	case "invalid":
		for i, k := range p.keys {
			front = append(front, devwDesc(rng, arch, k, i != 0 && rng.Intn(2) == 0))
		}
		front = append(front, users()...)
	case "redefine-valid-first": // the first description wins: the later invalid one is never looked at
		for _, k := range p.keys {
			front = append(front, devwDesc(rng, arch, k, true))
		}
		front = append(front, users()...)
		for _, k := range p.keys {
			back = append(back, devwDesc(rng, arch, k, false))
		}
		back = append(back, users()...)
	case "redefine-invalid-first":
		for _, k := range p.keys {
			front = append(front, devwDesc(rng, arch, k, false), devwDesc(rng, arch, k, true))
		}
		front = append(front, users()...)
	case "after-use": // a description (invalid or not) that arrives after the developer fields: they are read undescribed
		front = append(front, users()...)
		for _, k := range p.keys {
			back = append(back, devwDesc(rng, arch, k, rng.Intn(2) == 0))
		}
		if rng.Intn(2) == 0 {
			back = append(back, users()...)
		}
	case "earlier-file": // descriptions in the first sequence only: the later sequences of the chain do not see them
		if f == 0 {
			for _, k := range p.keys {
				front = append(front, devwDesc(rng, arch, k, rng.Intn(2) == 0))
			}
			if rng.Intn(2) == 0 {
				front = append(front, users()...)
			}
		} else {
			front = append(front, users()...)
		}
	default: // mixed
		for _, k := range p.keys {
			front = append(front, devwDesc(rng, arch, k, rng.Intn(3) != 0))
			if rng.Intn(2) == 0 {
				front = append(front, users()...)
			}
		}
		back = append(back, users()...)
	}
	_ = nfiles
	return front, back
}

// ---- hand-built byte streams for family decw (what no encoder writes) ----

func devwCRC(b []byte) uint16 {
	var crc uint16
	tbl := [16]uint16{0x0000, 0xCC01, 0xD801, 0x1400, 0xF001, 0x3C00, 0x2800, 0xE401, 0xA001, 0x6C00, 0x7800, 0xB401, 0x5000, 0x9C01, 0x8801, 0x4400}
	for _, x := range b {
		tmp := tbl[crc&0xF]
		crc = (crc >> 4) & 0x0FFF
		crc = crc ^ tmp ^ tbl[x&0xF]
		tmp = tbl[crc&0xF]
		crc = (crc >> 4) & 0x0FFF
		crc = crc ^ tmp ^ tbl[(x>>4)&0xF]
	}
	return crc
}

// devwStream builds one FIT sequence by hand: definitions whose developer field sizes have nothing to do with the values,
// descriptions with arbitrary base type bytes, records that stop short inside the developer fields
func devwStream(rng *Rng) []byte {
	var recs []byte
	arch := byte(rng.Intn(2))
	u16 := func(v int) []byte {
		if arch == 0 {
			return []byte{byte(v), byte(v >> 8)}
		}
		return []byte{byte(v >> 8), byte(v)}
	}
	nk := 1 + rng.Intn(2)
	keys := make([]devwKey, nk)
	for i := range keys {
		keys[i] = devwKey{rng.Intn(2), rng.Intn(3)}
	}
	btByte := func() byte {
		switch rng.Intn(4) {
		case 0:
			return devwInvalidBts[rng.Intn(len(devwInvalidBts))]
		case 1:
			return byte(rng.Intn(256))
		}
		return devwValidBts[rng.Intn(len(devwValidBts))]
	}
	ndesc := rng.Intn(4)
	for i := 0; i < ndesc; i++ {
		k := keys[rng.Intn(nk)]
		// definition of field_description under local number 0 with sizes 0..2 per key field, in random order
		type fd struct{ num, size int }
		fds := []fd{{0, 1}, {1, 1}, {2, 1}}
		for j := range fds {
			switch rng.Intn(8) {
			case 0:
				fds[j].size = 0
			case 1:
				fds[j].size = 2
			}
		}
		if rng.Intn(5) == 0 {
			fds = fds[:2]
		}
		if rng.Intn(5) == 0 {
			fds = append(fds, fd{2, 1})
		}
		devwShuffle(rng, len(fds), func(a, b int) { fds[a], fds[b] = fds[b], fds[a] })
		recs = append(recs, 0x40, 0, arch)
		recs = append(recs, u16(206)...)
		recs = append(recs, byte(len(fds)))
		for _, f := range fds {
			recs = append(recs, byte(f.num), byte(f.size), []byte{0x02, 0x00, 0x84, 0x07}[rng.Intn(4)])
		}
		recs = append(recs, 0x00)
		for _, f := range fds {
			v := []byte{byte(k.idx), byte(k.num), btByte()}[f.num]
			for s := 0; s < f.size; s++ {
				if s == 0 {
					recs = append(recs, v)
				} else {
					recs = append(recs, byte(rng.Intn(256)))
				}
			}
		}
		count("devstream:desc")
	}
	nuse := 1 + rng.Intn(3)
	for i := 0; i < nuse; i++ {
		nd := 1 + rng.Intn(3)
		local := byte(1 + rng.Intn(3))
		recs = append(recs, 0x60|local, 0, arch)
		recs = append(recs, u16([]int{20, 206, 65280}[rng.Intn(3)])...)
		nf := rng.Intn(2)
		recs = append(recs, byte(nf))
		for j := 0; j < nf; j++ {
			recs = append(recs, byte(3+rng.Intn(5)), 1, 0x02)
		}
		recs = append(recs, byte(nd))
		sizes := make([]int, nd)
		for j := 0; j < nd; j++ {
			k := keys[rng.Intn(nk)]
			if rng.Intn(5) == 0 {
				k = devwKey{rng.Intn(3), rng.Intn(4)}
			}
			sizes[j] = []int{0, 1, 2, 3, 4, 5, 8, 9}[rng.Intn(8)]
			recs = append(recs, byte(k.num), byte(sizes[j]), byte(k.idx))
		}
		recs = append(recs, local)
		recs = append(recs, rng.Bytes(nf)...)
		for j := 0; j < nd; j++ {
			recs = append(recs, rng.Bytes(sizes[j])...)
		}
		count("devstream:user")
	}
	if rng.Intn(6) == 0 && len(recs) > 0 { // stops short (often inside the developer fields of the last record)
		recs = recs[:len(recs)-1-rng.Intn(min(len(recs), 6))]
		count("devstream:short")
	}
	ds := len(recs)
	if rng.Intn(8) == 0 {
		ds += rng.Intn(4)
	}
	hdr := []byte{14, 0x20, 0, 0, byte(ds), byte(ds >> 8), 0, 0, '.', 'F', 'I', 'T', 0, 0}
	c := devwCRC(recs)
	out := append(append(hdr, recs...), byte(c), byte(c>>8))
	return out
}

var _ = fmt.Sprint

// devwShuffle: Fisher–Yates on the harness PRNG
func devwShuffle(rng *Rng, n int, swap func(i, j int)) {
	for i := n - 1; i > 0; i-- {
		swap(i, rng.Intn(i+1))
	}
}
