package main

// Wire-level message syntax shared by the encoder/decoder families (see lean/Driver/Wire.lean):
//
//	file  := H<size>.<protover>.<profilever>.<datasize> msg*
//	msg   := M<num>/<field>,<field>,.../<dev>,<dev>,...
//	field := <num>.<basetype>.<tag>.<hex of the value marshalled in the encoder's byte order>
//	dev   := <num>.<devidx>.<tag>.<hex>
//
// all numbers decimal; <tag> is the proto.Type of the value.

import (
	"encoding/binary"
	"encoding/hex"
	"fmt"
	"math"
	"strconv"
	"strings"

	"github.com/muktihari/fit/profile/basetype"
	"github.com/muktihari/fit/profile/typedef"
	"github.com/muktihari/fit/proto"
)

type wField struct {
	num, bt, tag int
	data         []byte
}
type wMsg struct {
	num    int
	fields []wField
	devs   []wField // bt holds the developer data index
}
type wFile struct {
	size, protoVer, profileVer int
	dataSize                   uint32
	msgs                       []wMsg
}

var elemSize = map[proto.Type]int{
	proto.TypeBool: 1, proto.TypeInt8: 1, proto.TypeUint8: 1, proto.TypeInt16: 2, proto.TypeUint16: 2,
	proto.TypeInt32: 4, proto.TypeUint32: 4, proto.TypeInt64: 8, proto.TypeUint64: 8, proto.TypeFloat32: 4, proto.TypeFloat64: 8,
	proto.TypeSliceBool: 1, proto.TypeSliceInt8: 1, proto.TypeSliceUint8: 1, proto.TypeSliceInt16: 2, proto.TypeSliceUint16: 2,
	proto.TypeSliceInt32: 4, proto.TypeSliceUint32: 4, proto.TypeSliceInt64: 8, proto.TypeSliceUint64: 8,
	proto.TypeSliceFloat32: 4, proto.TypeSliceFloat64: 8,
}

func getU(arch byte, b []byte) uint64 {
	var v uint64
	if arch == 0 {
		for i := len(b) - 1; i >= 0; i-- {
			v = v<<8 | uint64(b[i])
		}
	} else {
		for i := 0; i < len(b); i++ {
			v = v<<8 | uint64(b[i])
		}
	}
	return v
}

// valueFromWire rebuilds a proto.Value whose Type() is tag and whose MarshalAppend(arch) is data.
// Returns ok=false when no such value exists (e.g. wrong length for the type).
func valueFromWire(tag proto.Type, arch byte, data []byte) (proto.Value, bool) {
	es := elemSize[tag]
	switch tag {
	case proto.TypeBool:
		if len(data) != 1 || (data[0] > 1 && data[0] != 255) {
			return proto.Value{}, false
		}
		return proto.Bool(typedef.Bool(data[0])), true
	case proto.TypeInt8, proto.TypeUint8, proto.TypeInt16, proto.TypeUint16, proto.TypeInt32, proto.TypeUint32,
		proto.TypeInt64, proto.TypeUint64, proto.TypeFloat32, proto.TypeFloat64:
		if len(data) != es {
			return proto.Value{}, false
		}
		u := getU(arch, data)
		switch tag {
		case proto.TypeInt8:
			return proto.Int8(int8(u)), true
		case proto.TypeUint8:
			return proto.Uint8(uint8(u)), true
		case proto.TypeInt16:
			return proto.Int16(int16(u)), true
		case proto.TypeUint16:
			return proto.Uint16(uint16(u)), true
		case proto.TypeInt32:
			return proto.Int32(int32(u)), true
		case proto.TypeUint32:
			return proto.Uint32(uint32(u)), true
		case proto.TypeInt64:
			return proto.Int64(int64(u)), true
		case proto.TypeUint64:
			return proto.Uint64(u), true
		case proto.TypeFloat32:
			return proto.Float32(math.Float32frombits(uint32(u))), true
		default:
			return proto.Float64(math.Float64frombits(u)), true
		}
	case proto.TypeString:
		if len(data) == 0 || data[len(data)-1] != 0 {
			return proto.Value{}, false
		}
		return proto.String(string(data)), true
	case proto.TypeSliceString:
		if len(data) == 0 || data[len(data)-1] != 0 {
			return proto.Value{}, false
		}
		var ss []string
		start := 0
		for i, c := range data {
			if c == 0 {
				el := string(data[start : i+1])
				if el == "\x00" && len(data) > 1 {
					el = "" // a truly empty Go string between others: sized and marshalled as its terminator alone
				}
				ss = append(ss, el)
				start = i + 1
			}
		}
		return proto.SliceString(ss), true
	case proto.TypeSliceBool:
		vs := make([]typedef.Bool, len(data))
		for i := range data {
			if data[i] > 1 && data[i] != 255 {
				return proto.Value{}, false
			}
			vs[i] = typedef.Bool(data[i])
		}
		return proto.SliceBool(vs), true
	}
	if es == 0 || len(data)%es != 0 {
		return proto.Value{}, false
	}
	n := len(data) / es
	switch tag {
	case proto.TypeSliceInt8:
		vs := make([]int8, n)
		for i := range vs {
			vs[i] = int8(data[i])
		}
		return proto.SliceInt8(vs), true
	case proto.TypeSliceUint8:
		return proto.SliceUint8(append([]byte(nil), data...)), true
	case proto.TypeSliceInt16:
		vs := make([]int16, n)
		for i := range vs {
			vs[i] = int16(getU(arch, data[i*2:i*2+2]))
		}
		return proto.SliceInt16(vs), true
	case proto.TypeSliceUint16:
		vs := make([]uint16, n)
		for i := range vs {
			vs[i] = uint16(getU(arch, data[i*2:i*2+2]))
		}
		return proto.SliceUint16(vs), true
	case proto.TypeSliceInt32:
		vs := make([]int32, n)
		for i := range vs {
			vs[i] = int32(getU(arch, data[i*4:i*4+4]))
		}
		return proto.SliceInt32(vs), true
	case proto.TypeSliceUint32:
		vs := make([]uint32, n)
		for i := range vs {
			vs[i] = uint32(getU(arch, data[i*4:i*4+4]))
		}
		return proto.SliceUint32(vs), true
	case proto.TypeSliceInt64:
		vs := make([]int64, n)
		for i := range vs {
			vs[i] = int64(getU(arch, data[i*8:i*8+8]))
		}
		return proto.SliceInt64(vs), true
	case proto.TypeSliceUint64:
		vs := make([]uint64, n)
		for i := range vs {
			vs[i] = getU(arch, data[i*8:i*8+8])
		}
		return proto.SliceUint64(vs), true
	case proto.TypeSliceFloat32:
		vs := make([]float32, n)
		for i := range vs {
			vs[i] = math.Float32frombits(uint32(getU(arch, data[i*4:i*4+4])))
		}
		return proto.SliceFloat32(vs), true
	case proto.TypeSliceFloat64:
		vs := make([]float64, n)
		for i := range vs {
			vs[i] = math.Float64frombits(getU(arch, data[i*8:i*8+8]))
		}
		return proto.SliceFloat64(vs), true
	}
	return proto.Value{}, false
}

func (f wField) String() string {
	return fmt.Sprintf("%d.%d.%d.%s", f.num, f.bt, f.tag, hex.EncodeToString(f.data))
}

func (m wMsg) String() string {
	fs := make([]string, len(m.fields))
	for i, f := range m.fields {
		fs[i] = f.String()
	}
	ds := make([]string, len(m.devs))
	for i, f := range m.devs {
		ds[i] = f.String()
	}
	return fmt.Sprintf("M%d/%s/%s", m.num, strings.Join(fs, ","), strings.Join(ds, ","))
}

func (f wFile) tokens() []string {
	t := []string{fmt.Sprintf("H%d.%d.%d.%d", f.size, f.protoVer, f.profileVer, f.dataSize)}
	for _, m := range f.msgs {
		t = append(t, m.String())
	}
	return t
}

func parseWField(s string) (wField, bool) {
	p := strings.Split(s, ".")
	if len(p) != 4 {
		return wField{}, false
	}
	var f wField
	var err error
	if f.num, err = strconv.Atoi(p[0]); err != nil {
		return f, false
	}
	if f.bt, err = strconv.Atoi(p[1]); err != nil {
		return f, false
	}
	if f.tag, err = strconv.Atoi(p[2]); err != nil {
		return f, false
	}
	if f.data, err = hex.DecodeString(p[3]); err != nil {
		return f, false
	}
	return f, true
}

func parseWMsg(s string) (wMsg, bool) {
	if !strings.HasPrefix(s, "M") {
		return wMsg{}, false
	}
	p := strings.Split(s[1:], "/")
	if len(p) != 3 {
		return wMsg{}, false
	}
	var m wMsg
	var err error
	if m.num, err = strconv.Atoi(p[0]); err != nil {
		return m, false
	}
	for k, part := range p[1:] {
		if part == "" {
			continue
		}
		for _, fs := range strings.Split(part, ",") {
			f, ok := parseWField(fs)
			if !ok {
				return m, false
			}
			if k == 0 {
				m.fields = append(m.fields, f)
			} else {
				m.devs = append(m.devs, f)
			}
		}
	}
	return m, true
}

// parseWFiles parses "H… M… M… H… M…" tokens.
func parseWFiles(toks []string) ([]wFile, bool) {
	var files []wFile
	for _, t := range toks {
		if strings.HasPrefix(t, "H") {
			p := strings.Split(t[1:], ".")
			if len(p) != 4 {
				return nil, false
			}
			var f wFile
			var err error
			if f.size, err = strconv.Atoi(p[0]); err != nil {
				return nil, false
			}
			if f.protoVer, err = strconv.Atoi(p[1]); err != nil {
				return nil, false
			}
			if f.profileVer, err = strconv.Atoi(p[2]); err != nil {
				return nil, false
			}
			ds, err := strconv.ParseUint(p[3], 10, 32)
			if err != nil {
				return nil, false
			}
			f.dataSize = uint32(ds)
			files = append(files, f)
			continue
		}
		m, ok := parseWMsg(t)
		if !ok || len(files) == 0 {
			return nil, false
		}
		files[len(files)-1].msgs = append(files[len(files)-1].msgs, m)
	}
	return files, true
}

// toProto builds real proto messages; ok=false if some value cannot exist.
func (f wFile) toProto(arch byte) (*proto.FIT, bool) {
	fit := &proto.FIT{FileHeader: proto.FileHeader{Size: byte(f.size), ProtocolVersion: proto.Version(f.protoVer),
		ProfileVersion: uint16(f.profileVer), DataSize: f.dataSize}}
	for _, m := range f.msgs {
		pm := proto.Message{Num: typedef.MesgNum(m.num)}
		for _, wf := range m.fields {
			v, ok := valueFromWire(proto.Type(wf.tag), arch, wf.data)
			if !ok {
				return nil, false
			}
			fb := &proto.FieldBase{Name: "verif", Num: byte(wf.num), BaseType: basetype.BaseType(wf.bt), Scale: 1}
			pm.Fields = append(pm.Fields, proto.Field{FieldBase: fb, Value: v})
		}
		for _, wd := range m.devs {
			v, ok := valueFromWire(proto.Type(wd.tag), arch, wd.data)
			if !ok {
				return nil, false
			}
			pm.DeveloperFields = append(pm.DeveloperFields, proto.DeveloperField{Num: byte(wd.num), DeveloperDataIndex: byte(wd.bt), Value: v})
		}
		fit.Messages = append(fit.Messages, pm)
	}
	return fit, true
}

var _ = binary.LittleEndian
