package main

// Family `rte2e` (property C01, end to end): typed protocol messages → the REAL encoder with the REAL message
// validator (default, ValidatorWithPreserveInvalidValues, ValidatorWithFactory) → bytes → the REAL decoder
// (decoder.New(...).Next/Decode, checksum on/off, component expansion off/on, standard or table factory).
//
//	rte2e a=<0|1> h=<headerOption> l=<localMessageType> pv=<WithProtocolVersion, 0 = none> chk=<0|1> exp=<0|1>
//	      o:<p|o> fac:<s|c>/<table|-> dv:<table|-> df:<std|-|table> {H<size>.<protover>.<profilever> <message>...}
//
//	a/h/l/pv    encoder options as in family encw; o:/fac:/dv: the message validator and the DiscardValue oracle as in
//	            family validate (harness/fam_validate.go); df: the decoder's factory as in family decapi ("std" = default);
//	            messages in the syntax of msgcodec.go; every H token starts a new proto.FIT handed to the same encoder.
//	answer      enc=<ok | err:<kind>@<file index> | panic@<i>>  V<i>:<message>... (what validation retained of file i:
//	            a copy taken right after Validate returned nil)  dec=<end | err:<class> | panic>  ns=<sequences decoded>
//	            S<i>:<decoded message in the decapi syntax>...
//
// The Lean side is lean/Driver/EndToEnd.lean (model: Fit.E2E.encodeChain + decodeChain; --prop: decoded = normal form
// of what validation retained).

import (
	"bytes"
	"encoding/hex"
	"fmt"
	"math"
	"sort"
	"strings"

	"github.com/muktihari/fit/decoder"
	"github.com/muktihari/fit/encoder"
	"github.com/muktihari/fit/profile"
	"github.com/muktihari/fit/profile/basetype"
	"github.com/muktihari/fit/profile/factory"
	"github.com/muktihari/fit/profile/typedef"
	"github.com/muktihari/fit/proto"
)

func init() {
	families["rte2e"] = genRtE2E
	executors["rte2e"] = execRtE2E
}

// e2eRecorder wraps the real message validator and keeps a copy of every message it accepted (the encoder removes a
// timestamp it moves into the record header from the caller's message afterwards).
type e2eRecorder struct {
	inner encoder.MessageValidator
	kept  []proto.Message
}

func (r *e2eRecorder) Validate(m *proto.Message) error {
	if err := r.inner.Validate(m); err != nil {
		return err
	}
	c := *m
	c.Fields = append([]proto.Field(nil), m.Fields...)
	c.DeveloperFields = append([]proto.DeveloperField(nil), m.DeveloperFields...)
	r.kept = append(r.kept, c)
	return nil
}
func (r *e2eRecorder) Reset() { r.inner.Reset() }

func e2eErrKind(err error) string {
	if err != nil && strings.Contains(err.Error(), "empty messages") {
		return "err:empty"
	}
	return errKind(err)
}

func execRtE2E(args []string) string {
	kvm, rest := parseKV(args)
	if len(rest) < 4 || !strings.HasPrefix(rest[3], "df:") {
		return "bad-op"
	}
	mv, ok := validatorFromArgs(rest[:3])
	if !ok {
		return "bad-op"
	}
	dfac, ok := parseDapiFactory(rest[3][3:])
	if !ok {
		return "bad-op"
	}
	type fileIn struct {
		hdr  proto.FileHeader
		msgs []proto.Message
	}
	var files []fileIn
	for _, t := range rest[4:] {
		if strings.HasPrefix(t, "H") {
			var a, b, c int
			if n, err := fmt.Sscanf(t, "H%d.%d.%d", &a, &b, &c); n != 3 || err != nil || a > 255 || b > 255 || c > 65535 {
				return "bad-op"
			}
			files = append(files, fileIn{hdr: proto.FileHeader{Size: byte(a), ProtocolVersion: proto.Version(b), ProfileVersion: uint16(c)}})
			continue
		}
		m, ok := parseMessage(t)
		if !ok || len(files) == 0 {
			return "bad-op"
		}
		files[len(files)-1].msgs = append(files[len(files)-1].msgs, m)
	}
	rec := &e2eRecorder{inner: mv}
	arch := byte(atoi(kvm["a"]))
	h := 0
	for _, a := range args {
		for i := 0; i < len(a); i++ {
			h = (h*131 + int(a[i])) & 0xffffff
		}
	}
	opts := []encoder.Option{encoder.WithMessageValidator(rec), encoder.WithWriteBufferSize([]int{0, 1, 7, 64, 4096}[h%5])}
	if arch == 1 {
		opts = append(opts, encoder.WithBigEndian())
	}
	opts = append(opts, encoder.WithHeaderOption(encoder.HeaderOption(atoi(kvm["h"])), byte(atoi(kvm["l"]))))
	if pv := atoi(kvm["pv"]); pv != 0 {
		opts = append(opts, encoder.WithProtocolVersion(proto.Version(pv)))
	}
	w, dest := newDest([]string{"plain", "at", "seek", "both"}[(h/5)%4])
	enc := encoder.New(w, opts...)
	encS := "ok"
	var out []string
	for i, f := range files {
		rec.kept = rec.kept[:0]
		fit := &proto.FIT{FileHeader: f.hdr, Messages: f.msgs}
		err, panicked := func() (err error, p bool) {
			defer func() {
				if recover() != nil {
					p = true
				}
			}()
			return enc.Encode(fit), false
		}()
		if panicked {
			encS = fmt.Sprintf("panic@%d", i)
			break
		}
		if err != nil {
			encS = fmt.Sprintf("%s@%d", e2eErrKind(err), i)
			break
		}
		for k := range rec.kept {
			out = append(out, fmt.Sprintf("V%d:%s", i, printMessage(&rec.kept[k])))
		}
	}
	out = append([]string{"enc=" + encS}, out...)

	do := dapiOpts{chk: kvm["chk"] != "0", exp: kvm["exp"] != "0"}
	dec := decoder.New(bytes.NewReader(dest.buf), do.options(dfac, nil, nil)...)
	decS := "end"
	var seqs []string
	var decoded []*proto.FIT
	ns := 0
	func() {
		defer func() {
			if recover() != nil {
				decS = "panic"
			}
		}()
		for dec.Next() {
			fit, err := dec.Decode()
			if err != nil {
				decS = "err:" + dapiErr(err)
				return
			}
			for k := range fit.Messages {
				if kvm["px"] == "1" {
					seqs = append(seqs, fmt.Sprintf("S%d:%s", ns, e2eMaskedMesg(&fit.Messages[k], dfac)))
				} else {
					seqs = append(seqs, fmt.Sprintf("S%d:%s", ns, dapiMesg(&fit.Messages[k])))
				}
			}
			decoded = append(decoded, fit)
			ns++
		}
	}()
	out = append(out, "dec="+decS, fmt.Sprintf("ns=%d", ns))
	out = append(out, seqs...)
	// the last sentence of the property: the messages the decoder returned, handed to a new encoder with the same options
	// and the real validator, then decoded again, come back the same
	re := "-"
	if decS == "end" && ns > 0 && kvm["px"] != "1" {
		re = e2eReencode(decoded, arch, kvm, rest[:3], dfac, do)
	}
	out = append(out, "re="+re)
	return strings.Join(out, " ")
}

// e2eCompDests: the field numbers of message m that are the destination of a component of some field (or sub-field) of that
// message in the decoder's factory (nil = the standard factory)
func e2eCompDests(mn typedef.MesgNum, dfac *dapiFactory) map[byte]bool {
	seen := map[byte]bool{}
	for n := 0; n < 256; n++ {
		var f proto.Field
		if dfac != nil {
			f = dfac.CreateField(mn, byte(n))
		} else {
			f = factory.StandardFactory().CreateField(mn, byte(n))
		}
		if f.FieldBase == nil || f.Name == factory.NameUnknown {
			continue
		}
		for _, c := range f.Components {
			seen[c.FieldNum] = true
		}
		for _, sf := range f.SubFields {
			for _, c := range sf.Components {
				seen[c.FieldNum] = true
			}
		}
	}
	return seen
}

// e2eMaskedMesg: a decoded message for the comparison of reading (ii) of the property (component expansion ON): the fields
// created by expansion are left out, and the VALUE of a wire field that is the destination of a component of its message is
// masked (flag m, value u8:00) — expansion may overwrite it
func e2eMaskedMesg(m *proto.Message, dfac *dapiFactory) string {
	dests := e2eCompDests(m.Num, dfac)
	c := *m
	c.Fields = nil
	var masked []int
	for i := range m.Fields {
		f := m.Fields[i]
		if f.IsExpandedField {
			continue
		}
		if dests[f.Num] {
			f.Value = proto.Uint8(0)
			masked = append(masked, len(c.Fields))
		}
		c.Fields = append(c.Fields, f)
	}
	s := dapiMesg(&c)
	if len(masked) == 0 {
		return s
	}
	// mark the masked fields: flag letter m appended to the flags of the field
	head, body, _ := strings.Cut(s, "{")
	fl, dl, _ := strings.Cut(body, "|")
	fs := strings.Split(fl, ";")
	for _, i := range masked {
		p := strings.SplitN(fs[i], ":", 4)
		if p[2] == "-" {
			p[2] = "m"
		} else {
			p[2] += "m"
		}
		fs[i] = strings.Join(p, ":")
	}
	return head + "{" + strings.Join(fs, ";") + "|" + dl
}

// what the property compares of a decoded message (fields created by component expansion are not part of it)
func e2eProj(m *proto.Message) string {
	var sb strings.Builder
	fmt.Fprintf(&sb, "M%d{", m.Num)
	for i := range m.Fields {
		f := &m.Fields[i]
		if f.IsExpandedField {
			continue
		}
		fmt.Fprintf(&sb, "F%d:%02x:%s;", f.Num, byte(f.BaseType), printValue(f.Value))
	}
	sb.WriteByte('|')
	for i := range m.DeveloperFields {
		d := &m.DeveloperFields[i]
		fmt.Fprintf(&sb, "D%d.%d:%s;", d.DeveloperDataIndex, d.Num, printValue(d.Value))
	}
	sb.WriteByte('}')
	return sb.String()
}

// the other form a message may come back in: its first field 253, when that is a uint32 other than the invalid value,
// taken out and put in front under the base type the decoder re-creates it with; "" if there is no such form
func e2eTsFirst(m *proto.Message, dfac *dapiFactory) string {
	for i := range m.Fields {
		f := &m.Fields[i]
		if f.Num != proto.FieldNumTimestamp {
			continue
		}
		if f.Value.Type() != proto.TypeUint32 || f.Value.Uint32() == basetype.Uint32Invalid {
			return ""
		}
		var ts proto.Field
		if dfac != nil {
			ts = dfac.CreateField(m.Num, proto.FieldNumTimestamp)
		} else {
			ts = factory.StandardFactory().CreateField(m.Num, proto.FieldNumTimestamp)
		}
		bt := ts.BaseType
		if ts.Name == factory.NameUnknown {
			bt = basetype.Uint32
		}
		c := *m
		c.Fields = append([]proto.Field{{FieldBase: &proto.FieldBase{Num: proto.FieldNumTimestamp, BaseType: bt}, Value: f.Value}},
			append(append([]proto.Field(nil), m.Fields[:i]...), m.Fields[i+1:]...)...)
		return e2eProj(&c)
	}
	return ""
}

func e2eReencode(decoded []*proto.FIT, arch byte, kvm map[string]string, vargs []string, dfac *dapiFactory, do dapiOpts) (res string) {
	defer func() {
		if recover() != nil {
			res = "panic"
		}
	}()
	mv, ok := validatorFromArgs(vargs)
	if !ok {
		return "bad"
	}
	rec := &e2eRecorder{inner: mv}
	opts := []encoder.Option{encoder.WithMessageValidator(rec)}
	if arch == 1 {
		opts = append(opts, encoder.WithBigEndian())
	}
	opts = append(opts, encoder.WithHeaderOption(encoder.HeaderOption(atoi(kvm["h"])), byte(atoi(kvm["l"]))))
	if pv := atoi(kvm["pv"]); pv != 0 {
		opts = append(opts, encoder.WithProtocolVersion(proto.Version(pv)))
	}
	w, dest := newDest("plain")
	enc := encoder.New(w, opts...)
	var want [][]string
	for i, fit := range decoded {
		msgs := make([]proto.Message, len(fit.Messages))
		for k := range fit.Messages {
			msgs[k] = fit.Messages[k]
			msgs[k].Fields = append([]proto.Field(nil), fit.Messages[k].Fields...)
			msgs[k].DeveloperFields = append([]proto.DeveloperField(nil), fit.Messages[k].DeveloperFields...)
		}
		rec.kept = rec.kept[:0]
		f2 := &proto.FIT{FileHeader: proto.FileHeader{Size: fit.FileHeader.Size, ProtocolVersion: fit.FileHeader.ProtocolVersion,
			ProfileVersion: fit.FileHeader.ProfileVersion}, Messages: msgs}
		if err := enc.Encode(f2); err != nil {
			return fmt.Sprintf("%s@%d", e2eErrKind(err), i)
		}
		// what validation retained of the decoded messages (it only filters them: invalid values, expanded fields):
		// each may come back as it is or (rule (e)) with its first timestamp in front
		var ws []string
		for k := range rec.kept {
			ws = append(ws, e2eProj(&rec.kept[k])+"\x00"+e2eTsFirst(&rec.kept[k], dfac))
		}
		want = append(want, ws)
	}
	dec := decoder.New(bytes.NewReader(dest.buf), do.options(dfac, nil, nil)...)
	k := 0
	for dec.Next() {
		fit, err := dec.Decode()
		if err != nil {
			return "dec-err:" + dapiErr(err)
		}
		if k >= len(want) || len(fit.Messages) != len(want[k]) {
			return fmt.Sprintf("diff@%d", k)
		}
		for j := range fit.Messages {
			alt := strings.SplitN(want[k][j], "\x00", 2)
			if got := e2eProj(&fit.Messages[j]); got != alt[0] && (alt[1] == "" || got != alt[1]) {
				return fmt.Sprintf("diff@%d.%d", k, j)
			}
		}
		k++
	}
	if k != len(want) {
		return "diff@count"
	}
	return "same"
}

// ---------------------------------------------------------------- generator

// the known fields of the standard factory, per message number
type e2eProfile struct {
	mesgs  []int
	fields map[int][]byte
}

var e2eProf *e2eProfile

func e2eLoadProfile() *e2eProfile {
	if e2eProf != nil {
		return e2eProf
	}
	p := &e2eProfile{fields: map[int][]byte{}}
	fac := factory.StandardFactory()
	for m := 0; m < 65536; m++ {
		for n := 0; n < 256; n++ {
			f := fac.CreateField(typedef.MesgNum(m), byte(n))
			if f.Name == factory.NameUnknown {
				if n == 0 && m >= 1024 && m < 65280 {
					break
				}
				continue
			}
			p.fields[m] = append(p.fields[m], byte(n))
		}
		if len(p.fields[m]) > 0 {
			p.mesgs = append(p.mesgs, m)
		}
	}
	e2eProf = p
	return p
}

var e2eTagOf = map[byte]string{0x00: "u8", 0x01: "i8", 0x02: "u8", 0x83: "i16", 0x84: "u16", 0x85: "i32", 0x86: "u32", 0x07: "str",
	0x88: "f32", 0x89: "f64", 0x0a: "u8", 0x8b: "u16", 0x8c: "u32", 0x0d: "u8", 0x8e: "i64", 0x8f: "u64", 0x90: "u64"}

// e2eValue: a value aligned with bt. shape: 0 scalar, 1 array of n elements; kind: 0 typical valid, 1 interesting
// (boundary / sentinel), 2 all invalid sentinels
func e2eValue(rng *Rng, bt byte, isBool bool, array bool, n int, kind int) proto.Value {
	tag, ok := e2eTagOf[bt]
	if !ok {
		return proto.Uint8(1)
	}
	if tag == "str" {
		mk := func() string {
			switch kind {
			case 0:
				return []string{"a", "fit", "Garmin", "été", "日本", "x y"}[rng.Intn(6)]
			case 2:
				return ""
			}
			return randString(rng)
		}
		if array {
			ss := make([]string, n)
			for i := range ss {
				ss[i] = mk()
			}
			return proto.SliceString(ss)
		}
		return proto.String(mk())
	}
	if isBool && bt == 0x00 && rng.Intn(3) != 0 {
		tag = "bool"
	}
	w := scalarWidth[tag]
	elem := func() uint64 {
		switch kind {
		case 0:
			if tag == "bool" {
				return uint64(rng.Intn(2))
			}
			if strings.HasPrefix(tag, "f") {
				if w == 4 {
					return uint64(math.Float32bits(float32(rng.Intn(2000)) / 8))
				}
				return math.Float64bits(float64(rng.Intn(2000)) / 8)
			}
			return uint64(1 + rng.Intn(100))
		case 2:
			if tag[0] == 'i' {
				return math.MaxUint64 >> (65 - 8*uint(w))
			}
			if bt == 0x0a || bt == 0x8b || bt == 0x8c || bt == 0x90 {
				return 0
			}
			return math.MaxUint64
		}
		if tag == "bool" {
			return []uint64{0, 1, 255}[rng.Intn(3)]
		}
		return interestingU64(rng, w)
	}
	if array {
		var sb strings.Builder
		for i := 0; i < n; i++ {
			sb.WriteString(leHex(elem(), w))
		}
		return mustValue(tag + "s:" + sb.String())
	}
	return mustValue(tag + ":" + leHex(elem(), w))
}

// e2eStdField: a field of the standard profile with a value; mode 0: a value of the field's own shape (typical),
// 1: own shape, interesting numbers, 2: own shape, invalid, 3: wrong shape (array in scalar field / scalar in array field /
// one-element / empty array)
func e2eStdField(rng *Rng, m int, n byte, mode int) proto.Field {
	f := factory.StandardFactory().CreateField(typedef.MesgNum(m), n)
	isBool := f.Type == profile.Bool
	bt := byte(f.BaseType)
	cnt := 1 + rng.Intn(3)
	switch mode {
	case 0, 1, 2:
		f.Value = e2eValue(rng, bt, isBool, f.Array, cnt, mode)
	default:
		switch rng.Intn(5) {
		case 0:
			f.Value = e2eValue(rng, bt, isBool, !f.Array, 2+rng.Intn(3), rng.Intn(2))
		case 1:
			f.Value = e2eValue(rng, bt, isBool, true, 1, rng.Intn(2))
		case 2:
			f.Value = e2eValue(rng, bt, isBool, true, 0, 0)
		case 3:
			f.Value = e2eValue(rng, bt, isBool, true, 2, 2)
		default:
			f.Value = e2eValue(rng, bt, isBool, !f.Array, 1, rng.Intn(3))
		}
	}
	// a scaled field now and then carries its physical value as float64 (restored by the validator)
	if (f.Scale != 1 || f.Offset != 0) && f.BaseType != basetype.String && mode == 0 && rng.Intn(6) == 0 {
		if f.Array {
			f.Value = proto.SliceFloat64([]float64{1.5, float64(rng.Intn(100)) / 4})
		} else {
			f.Value = proto.Float64([]float64{0, 1.5, 12.25, 0.29, 100}[rng.Intn(5)])
		}
	}
	return f
}

// e2eUnknownField: a field the standard factory does not know (as the decoder's createUnknownField makes it)
func e2eUnknownField(rng *Rng, num byte, mode int) proto.Field {
	bt := allBaseTypes[rng.Intn(len(allBaseTypes))]
	arr := rng.Intn(3) == 0
	n := 2 + rng.Intn(3)
	if mode == 3 {
		arr, n = true, rng.Intn(2)
	}
	kind := mode
	if kind > 2 {
		kind = rng.Intn(3)
	}
	v := e2eValue(rng, bt, false, arr, n, kind)
	return proto.Field{FieldBase: &proto.FieldBase{Name: factory.NameUnknown, Num: num, BaseType: basetype.BaseType(bt),
		Type: profile.ProfileType(bt & basetype.BaseTypeNumMask), Array: arr, Scale: 1, Offset: 0}, Value: v}
}

// a field number the standard factory does not know in message m
func e2eFreeNum(m int) byte {
	for n := 200; n < 250; n++ {
		if f := factory.StandardFactory().CreateField(typedef.MesgNum(m), byte(n)); f.Name == factory.NameUnknown {
			return byte(n)
		}
	}
	return 249
}

type e2eOpts struct {
	arch, hopt, lmt, pv, chk, exp int
	preserve                      bool
}

func e2eRandOpts(rng *Rng) e2eOpts {
	o := e2eOpts{arch: rng.Intn(2), hopt: rng.Intn(2), lmt: rng.Intn(16), chk: 1, preserve: rng.Intn(3) == 0}
	if rng.Intn(8) == 0 {
		o.hopt = 2 + rng.Intn(2)
	}
	o.pv = []int{0x20, 0x20, 0x20, 0, 0x10, 0x21}[rng.Intn(6)]
	if rng.Intn(4) == 0 {
		o.chk = 0
	}
	return o
}

type e2eFile struct {
	hsize, hpv, hprof int
	msgs              []proto.Message
}

func e2eRandHdr(rng *Rng, msgs []proto.Message) e2eFile {
	return e2eFile{hsize: []int{14, 14, 12, 0, 13}[rng.Intn(5)], hpv: []int{0, 0x20, 0x10, 0x20}[rng.Intn(4)],
		hprof: []int{0, 0, 2158, 65535}[rng.Intn(4)], msgs: msgs}
}

// fields with components (or sub-fields carrying components) make component expansion touch the message: the model
// has the standard factory's base types and flags only, so such lines run with expansion off
func e2eHasComponents(msgs []proto.Message) bool {
	for i := range msgs {
		for k := range msgs[i].Fields {
			fb := msgs[i].Fields[k].FieldBase
			if fb == nil {
				continue
			}
			f := factory.StandardFactory().CreateField(msgs[i].Num, fb.Num)
			if len(f.Components) > 0 || len(f.SubFields) > 0 {
				return true
			}
		}
	}
	return false
}

// e2eEmit prints one operation line. std: the decoder uses the standard factory (df:std) and the validator the
// standard factory; otherwise dfac is the decoder's table and vfac the validator's.
func e2eEmit(emit func(string), rng *Rng, o e2eOpts, files []e2eFile, dfac string, vfac tableFactory) {
	std := dfac == "std"
	var all []proto.Message
	for i, f := range files {
		if i > 0 {
			all = append(all, proto.Message{Num: 0xffff}) // the validator is reset between two Encode calls
		}
		all = append(all, cloneMsgs(f.msgs)...)
	}
	lb := newLine(vfac == nil)
	if vfac != nil {
		lb.tbl = vfac
		for k := range vfac {
			lb.factoryField(typedef.MesgNum(k[0]), byte(k[1]))
		}
	}
	hdr := lb.header(o.preserve, all)
	px := ""
	if std && o.exp == 1 {
		for _, f := range files {
			if e2eHasComponents(f.msgs) {
				// fields with components under the STANDARD factory: the model has no component graph for it, so the line
				// either runs with expansion off, or (px=1) with expansion ON and both sides print the messages without the
				// expanded fields and with the destinations of components masked — reading (ii) of the property on the real
				// default decoder against the model's expansion-off answer
				if rng.Bool() {
					o.exp = 0
				} else {
					px = " px=1"
					count("expansion-on:std-components")
				}
				break
			}
		}
	}
	var sb strings.Builder
	fmt.Fprintf(&sb, "rte2e a=%d h=%d l=%d pv=%d chk=%d exp=%d%s %s df:%s", o.arch, o.hopt, o.lmt, o.pv, o.chk, o.exp, px, hdr, dfac)
	for _, f := range files {
		fmt.Fprintf(&sb, " H%d.%d.%d", f.hsize, f.hpv, f.hprof)
		for i := range f.msgs {
			sb.WriteByte(' ')
			sb.WriteString(printMessage(&f.msgs[i]))
		}
	}
	emit(sb.String())
}

func e2eTsField(m int, t uint32) proto.Field {
	f := factory.StandardFactory().CreateField(typedef.MesgNum(m), 253)
	if f.Name == factory.NameUnknown {
		f.BaseType = basetype.Uint32
	}
	f.Value = proto.Uint32(t)
	return f
}

// developer-data prerequisites with the real FieldBases of the profile
func e2eFieldDesc(ddi, fdn, bt uint8, extra ...proto.Field) proto.Message {
	m := fieldDescMesg(fdSpec{ddi: ddi, fdn: fdn, bt: bt, scale: -1, offset: 1000, nmn: -1, nfn: -1})
	m.Fields = append(m.Fields, extra...)
	return m
}

func genRtE2E(emit func(string), tier string, rng *Rng) {
	thorough := tier == "thorough"
	prof := e2eLoadProfile()
	std := func(o e2eOpts, files ...e2eFile) { e2eEmit(emit, rng, o, files, "std", nil) }
	one := func(msgs ...proto.Message) e2eFile { return e2eRandHdr(rng, msgs) }

	// --- a. every message of the profile: all its fields at once (typical values), then field by field in the other modes
	for _, m := range prof.mesgs {
		var all []proto.Field
		for _, n := range prof.fields[m] {
			all = append(all, e2eStdField(rng, m, n, 0))
		}
		for len(all) > 0 { // at most 255 fields and 255·… bytes per message: split long ones
			k := len(all)
			if k > 60 {
				k = 60
			}
			o := e2eRandOpts(rng)
			o.pv = 0x20
			o.exp = rng.Intn(2)
			std(o, one(proto.Message{Num: typedef.MesgNum(m), Fields: all[:k]}))
			count("profile:all-fields")
			all = all[k:]
		}
		for _, n := range prof.fields[m] {
			for mode := 1; mode <= 3; mode++ {
				if !thorough && rng.Intn(8) != 0 {
					continue
				}
				o := e2eRandOpts(rng)
				o.pv = 0x20
				o.exp = rng.Intn(2)
				fs := []proto.Field{e2eStdField(rng, m, n, mode)}
				if mode == 2 || rng.Intn(3) == 0 { // a companion that survives validation, so that the message is written
					fs = append(fs, e2eUnknownField(rng, e2eFreeNum(m), 0))
				}
				if rng.Bool() && n != 253 {
					if kf := factory.StandardFactory().CreateField(typedef.MesgNum(m), 253); kf.Name != factory.NameUnknown {
						fs = append([]proto.Field{e2eTsField(m, 1000000000+uint32(rng.Intn(100)))}, fs...)
					}
				}
				std(o, one(proto.Message{Num: typedef.MesgNum(m), Fields: fs}))
				count(fmt.Sprintf("profile:field-mode%d", mode))
			}
		}
	}

	// --- b. the findings the design review expected (F03, F04) and their neighbours, every byte order / header option
	hr := func(v proto.Value) proto.Message {
		return proto.Message{Num: mnRecord, Fields: []proto.Field{realField(mnRecord, 3, v)}}
	}
	for arch := 0; arch < 2; arch++ {
		for hopt := 0; hopt < 2; hopt++ {
			for _, p := range []bool{false, true} {
				o := e2eOpts{arch: arch, hopt: hopt, lmt: 3, pv: 0x20, chk: 1, preserve: p}
				std(o, e2eFile{14, 0, 0, []proto.Message{hr(proto.SliceUint8([]byte{70, 71}))}})                  // F03
				std(o, e2eFile{14, 0, 0, []proto.Message{hr(proto.SliceUint8([]byte{70}))}})                      // one element ≅ scalar
				std(o, e2eFile{14, 0, 0, []proto.Message{hr(proto.Uint8(70)), hr(proto.SliceUint8([]byte{}))}})        // F04 (kept only under preserve)
				std(o, e2eFile{14, 0, 0, []proto.Message{hr(proto.SliceUint8([]byte{0xff, 0xff}))}})              // invalid array
				std(o, e2eFile{14, 0, 0, []proto.Message{hr(proto.Uint8(0xff)), hr(proto.Uint8(1))}})             // invalid scalar
				std(o, e2eFile{14, 0, 0, []proto.Message{{Num: mnFileId, Fields: []proto.Field{realField(mnFileId, 8, proto.String("a\ufffdb"))}}}}) // F02
				std(o, e2eFile{14, 0, 0, []proto.Message{{Num: mnFileId, Fields: []proto.Field{realField(mnFileId, 8, proto.SliceString([]string{"ab", "cd"}))}}}})
				std(o, e2eFile{14, 0, 0, []proto.Message{{Num: mnFileId, Fields: []proto.Field{realField(mnFileId, 8, proto.SliceString([]string{"", "cd"}))}}}})
				std(o, e2eFile{14, 0, 0, []proto.Message{{Num: mnFileId, Fields: []proto.Field{realField(mnFileId, 8, proto.SliceString([]string{"ab"}))}}}})
				std(o, e2eFile{14, 0, 0, []proto.Message{{Num: mnFileId, Fields: []proto.Field{realField(mnFileId, 8, proto.SliceString([]string{}))}}}})
				count("fixed:shape")
			}
		}
	}

	for _, vs := range typeSamples {
		for _, bt := range allBaseTypes {
			o := e2eOpts{arch: rng.Intn(2), hopt: rng.Intn(2), lmt: rng.Intn(4), pv: 0x20, chk: 1, preserve: rng.Bool()}
			f := proto.Field{FieldBase: &proto.FieldBase{Name: factory.NameUnknown, Num: 77, BaseType: basetype.BaseType(bt),
				Type: profile.ProfileType(bt & basetype.BaseTypeNumMask), Scale: 1}, Value: mustValue(vs)}
			std(o, e2eFile{14, 0, 0, []proto.Message{{Num: 0xff00, Fields: []proto.Field{f, e2eUnknownField(rng, 78, 0)}}}})
			count("type-x-basetype")
		}
	}

	// --- c. strings: the corpus in a known scalar string field, a known string-array field, an unknown field, a developer field
	ddi0 := devDataIdMesg(0)
	for _, s := range stringCorpus {
		for k := 0; k < 3; k++ {
			o := e2eRandOpts(rng)
			o.pv = 0x20
			var v proto.Value
			switch k {
			case 0:
				v = proto.String(s)
			case 1:
				v = proto.SliceString([]string{"ok", s})
			default:
				v = proto.SliceString([]string{s, "", "z" + s})
			}
			unk := proto.Field{FieldBase: &proto.FieldBase{Name: factory.NameUnknown, Num: 200, BaseType: basetype.String, Type: profile.String, Scale: 1}, Value: v}
			std(o, one(proto.Message{Num: mnFileId, Fields: []proto.Field{realField(mnFileId, 8, v)}},
				proto.Message{Num: mnFieldDesc, Fields: []proto.Field{realField(mnFieldDesc, 0, proto.Uint8(0)), realField(mnFieldDesc, 1, proto.Uint8(9)),
					realField(mnFieldDesc, 2, proto.Uint8(7)), realField(mnFieldDesc, 3, v), realField(mnFieldDesc, 8, v)}},
				proto.Message{Num: 0xff00, Fields: []proto.Field{unk}}))
			std(o, one(ddi0, e2eFieldDesc(0, 1, 0x07), proto.Message{Num: mnRecord, Fields: []proto.Field{realField(mnRecord, 3, proto.Uint8(70))},
				DeveloperFields: []proto.DeveloperField{{DeveloperDataIndex: 0, Num: 1, Value: v}}}))
			count("strings")
		}
	}

	// --- d. developer fields
	dval := func(idx, num uint8, v proto.Value) proto.DeveloperField {
		return proto.DeveloperField{DeveloperDataIndex: idx, Num: num, Value: v}
	}
	rec := func(devs ...proto.DeveloperField) proto.Message {
		return proto.Message{Num: mnRecord, Fields: []proto.Field{realField(mnRecord, 3, proto.Uint8(70))}, DeveloperFields: devs}
	}
	for rep := 0; rep < 2; rep++ {
		for _, bt := range allBaseTypes {
			for _, bt2 := range []byte{bt, 0x02, 0x84, 0x86, 0x07, 0x89} {
				o := e2eRandOpts(rng)
				o.pv = []int{0x20, 0x20, 0x20, 0}[rng.Intn(4)]
				// the same (developer data index, field number) described twice with different base types: encoder and
				// decoder must resolve it to the same (the first) description (seeded change C01-2)
				msgs := []proto.Message{ddi0, e2eFieldDesc(0, 1, bt), e2eFieldDesc(0, 1, bt2), e2eFieldDesc(0, 2, bt2)}
				arr := rng.Intn(3) == 0
				msgs = append(msgs, rec(dval(0, 1, e2eValue(rng, bt, false, arr, 1+rng.Intn(3), rng.Intn(2)))))
				msgs = append(msgs, rec(dval(0, 1, e2eValue(rng, bt2, false, arr, 1+rng.Intn(3), rng.Intn(2))), dval(0, 2, e2eValue(rng, bt2, false, false, 1, 0))))
				if rng.Intn(3) == 0 {
					msgs = append(msgs, proto.Message{Num: mnRecord, DeveloperFields: []proto.DeveloperField{dval(0, 2, e2eValue(rng, bt2, false, true, rng.Intn(3), 2))}})
				}
				std(o, one(msgs...))
				count("developer:twice-described")
			}
		}
	}
	for it := 0; it < 500; it++ {
		o := e2eRandOpts(rng)
		o.pv = 0x20
		var msgs []proto.Message
		nd := 1 + rng.Intn(2)
		for i := 0; i < nd; i++ {
			msgs = append(msgs, devDataIdMesg(uint8(i)))
		}
		var descs [][3]byte
		for i := 1 + rng.Intn(4); i > 0; i-- {
			d := [3]byte{byte(rng.Intn(nd)), byte(rng.Intn(3)), allBaseTypes[rng.Intn(len(allBaseTypes))]}
			descs = append(descs, d)
			spec := fdSpec{ddi: d[0], fdn: d[1], bt: d[2], scale: []int{-1, -1, 2, 255}[rng.Intn(4)], offset: []int{1000, 1000, 1, 127}[rng.Intn(4)],
				nmn: []int{-1, -1, 20, 0xffff}[rng.Intn(4)], nfn: []int{-1, -1, 2, 3}[rng.Intn(4)]}
			msgs = append(msgs, fieldDescMesg(spec))
		}
		for k := 1 + rng.Intn(4); k > 0; k-- {
			m := proto.Message{Num: mnRecord}
			if rng.Intn(4) != 0 {
				m.Fields = append(m.Fields, e2eTsField(mnRecord, 1000000000+uint32(rng.Intn(64))), realField(mnRecord, 3, proto.Uint8(byte(60+rng.Intn(100)))))
			}
			for j := rng.Intn(4); j > 0; j-- {
				d := descs[rng.Intn(len(descs))]
				v := e2eValue(rng, d[2], false, rng.Intn(3) == 0, 1+rng.Intn(3), rng.Intn(3))
				if rng.Intn(10) == 0 {
					v = proto.Float64(12.5)
				}
				m.DeveloperFields = append(m.DeveloperFields, dval(d[0], d[1], v))
			}
			if len(m.Fields)+len(m.DeveloperFields) > 0 {
				msgs = append(msgs, m)
			}
		}
		if rng.Intn(6) == 0 { // a developer field nobody described
			msgs = append(msgs, rec(dval(0, 7, proto.Uint8(1))))
		}
		std(o, one(msgs...))
		count("developer:random")
	}

	// --- e. timestamps under compressed headers with real record messages
	for it := 0; it < 120; it++ {
		o := e2eRandOpts(rng)
		o.hopt, o.pv, o.lmt = 1, 0x20, rng.Intn(4)
		t := uint32(1000000000 + rng.Intn(1000))
		var msgs []proto.Message
		for k := 2 + rng.Intn(8); k > 0; k-- {
			switch rng.Intn(8) {
			case 0:
				t -= uint32(rng.Intn(20))
			case 1:
				t += uint32(30 + rng.Intn(10))
			case 2:
			default:
				t += uint32(rng.Intn(12))
			}
			mn := []int{mnRecord, mnRecord, 21, 0xff00}[rng.Intn(4)]
			fs := []proto.Field{e2eTsField(mn, t)}
			switch rng.Intn(10) {
			case 0:
				fs[0].Value = proto.Uint32(0xffffffff)
			case 1:
				fs[0].Value = proto.Uint32(uint32(rng.Intn(1000)))
			case 2:
				fs[0].Value = proto.SliceUint32([]uint32{t})
			}
			if mn == mnRecord {
				fs = append(fs, realField(mnRecord, 3, proto.Uint8(byte(60+rng.Intn(100)))))
				if rng.Bool() {
					fs = append([]proto.Field{realField(mnRecord, 4, proto.Uint8(byte(rng.Intn(200))))}, fs...)
				}
			} else if mn == 21 {
				fs = append(fs, realField(21, 0, proto.Uint8(0)))
			} else {
				fs = append(fs, e2eUnknownField(rng, 1, 0))
			}
			if rng.Intn(12) == 0 {
				fs = []proto.Field{e2eTsField(mn, t)} // the timestamp is the only field
			}
			msgs = append(msgs, proto.Message{Num: typedef.MesgNum(mn), Fields: fs})
		}
		std(o, one(msgs...))
		count("timestamps")
	}

	// --- f. a decoder (and validator) factory given as a table: bool, array, accumulate, components; messages built from it
	type tfEntry struct {
		m     int
		n     byte
		bt    byte
		flags string
		comps string
	}
	table := []tfEntry{{20, 3, 0x02, "-", ""}, {20, 253, 0x86, "-", ""}, {20, 4, 0x00, "b", ""}, {20, 5, 0x84, "a", ""}, {20, 6, 0x07, "-", ""},
		{20, 7, 0x07, "a", ""}, {20, 8, 0x0d, "a", ""}, {20, 9, 0x84, "c", "10.12.a,11.4.-"}, {20, 10, 0x86, "-", ""}, {20, 11, 0x02, "-", ""},
		{20, 12, 0x00, "ab", ""}, {20, 13, 0x89, "-", ""}, {20, 14, 0x8e, "a", ""},
		{206, 0, 0x02, "-", ""}, {206, 1, 0x02, "-", ""}, {206, 2, 0x02, "-", ""}, {206, 3, 0x07, "a", ""}, {207, 3, 0x02, "-", ""}, {207, 1, 0x0d, "a", ""}}
	var dfParts []string
	vfac := tableFactory{}
	for _, e := range table {
		s := fmt.Sprintf("%d.%d.%02x.%s", e.m, e.n, e.bt, e.flags)
		if e.comps != "" {
			s += ":" + e.comps
		}
		dfParts = append(dfParts, s)
		vfac[[2]int{e.m, int(e.n)}] = facEntry{true, e.bt, 1, 0}
	}
	dfTable := strings.Join(dfParts, ";")
	tblField := func(e tfEntry, v proto.Value) proto.Field {
		fb := &proto.FieldBase{Name: "k", Num: e.n, BaseType: basetype.BaseType(e.bt), Type: profile.Uint8, Scale: 1,
			Array: strings.Contains(e.flags, "a"), Accumulate: strings.Contains(e.flags, "c")}
		if strings.Contains(e.flags, "b") {
			fb.Type = profile.Bool
		}
		return proto.Field{FieldBase: fb, Value: v}
	}
	nTbl := 1200
	if thorough {
		nTbl = 6000
	}
	for it := 0; it < nTbl; it++ {
		o := e2eRandOpts(rng)
		o.pv = 0x20
		o.exp = rng.Intn(2)
		var msgs []proto.Message
		if rng.Intn(3) == 0 {
			msgs = append(msgs, proto.Message{Num: mnDevDataId, Fields: []proto.Field{tblField(table[17], proto.Uint8(0))}},
				proto.Message{Num: mnFieldDesc, Fields: []proto.Field{tblField(table[13], proto.Uint8(0)), tblField(table[14], proto.Uint8(1)),
					tblField(table[15], proto.Uint8(allBaseTypes[rng.Intn(len(allBaseTypes))])), tblField(table[16], proto.SliceString([]string{"dev"}))}})
		}
		for k := 1 + rng.Intn(4); k > 0; k-- {
			m := proto.Message{Num: mnRecord}
			for j := 1 + rng.Intn(5); j > 0; j-- {
				e := table[rng.Intn(13)]
				arr := strings.Contains(e.flags, "a")
				cnt := 1 + rng.Intn(3)
				if rng.Intn(6) == 0 {
					arr, cnt = !arr, rng.Intn(3)
				}
				m.Fields = append(m.Fields, tblField(e, e2eValue(rng, e.bt, strings.Contains(e.flags, "b"), arr, cnt, rng.Intn(3))))
			}
			if rng.Intn(4) == 0 {
				m.Fields = append(m.Fields, e2eUnknownField(rng, byte(100+rng.Intn(3)), rng.Intn(4)))
			}
			if len(msgs) >= 2 && msgs[1].Num == mnFieldDesc && rng.Bool() {
				bt := msgs[1].Fields[2].Value.Uint8()
				m.DeveloperFields = append(m.DeveloperFields, dval(0, 1, e2eValue(rng, bt, false, rng.Intn(3) == 0, 1+rng.Intn(2), rng.Intn(2))))
			}
			msgs = append(msgs, m)
		}
		e2eEmit(emit, rng, o, []e2eFile{e2eRandHdr(rng, msgs)}, dfTable, vfac)
		count("table-factory")
	}

	// --- g. random mixtures: profile and unknown messages / fields, chains of 1..3 files, every option
	nr := 6000
	if thorough {
		nr = 60000
	}
	for it := 0; it < nr; it++ {
		o := e2eRandOpts(rng)
		o.exp = rng.Intn(2)
		var files []e2eFile
		for nf := 1 + rng.Intn(5)/2; nf > 0; nf-- {
			var msgs []proto.Message
			t := uint32(1000000000 + rng.Intn(100000))
			for k := 1 + rng.Intn(6); k > 0; k-- {
				var mn int
				switch rng.Intn(6) {
				case 0:
					mn = []int{0xff00, 9999, 65534, 300 + rng.Intn(50)}[rng.Intn(4)]
				case 1:
					mn = mnRecord
				default:
					mn = prof.mesgs[rng.Intn(len(prof.mesgs))]
				}
				m := proto.Message{Num: typedef.MesgNum(mn)}
				known := prof.fields[mn]
				for j := 1 + rng.Intn(5); j > 0; j-- {
					mode := []int{0, 0, 0, 1, 1, 2, 3}[rng.Intn(7)]
					if rng.Intn(400) == 0 { // a value of another type than the field's (validation must reject the file)
						num := e2eFreeNum(mn)
						if len(known) > 0 && rng.Bool() {
							num = known[rng.Intn(len(known))]
						}
						f := factory.StandardFactory().CreateField(typedef.MesgNum(mn), num)
						if f.Name == factory.NameUnknown {
							f.BaseType = basetype.BaseType(allBaseTypes[rng.Intn(len(allBaseTypes))])
						}
						f.Value = mustValue(typeSamples[1+rng.Intn(len(typeSamples)-1)])
						m.Fields = append(m.Fields, f)
						count("random:foreign-type")
						continue
					}
					if len(known) > 0 && rng.Intn(5) != 0 {
						n := known[rng.Intn(len(known))]
						if n == 253 {
							t += uint32(rng.Intn(40))
							m.Fields = append(m.Fields, e2eTsField(mn, t))
							continue
						}
						m.Fields = append(m.Fields, e2eStdField(rng, mn, n, mode))
					} else {
						num := byte(rng.Intn(256))
						if f := factory.StandardFactory().CreateField(typedef.MesgNum(mn), num); f.Name != factory.NameUnknown {
							continue
						}
						m.Fields = append(m.Fields, e2eUnknownField(rng, num, mode))
					}
				}
				if len(m.Fields) == 0 {
					continue
				}
				msgs = append(msgs, m)
			}
			if len(msgs) == 0 && rng.Intn(10) != 0 {
				msgs = append(msgs, hr(proto.Uint8(70)))
			}
			files = append(files, e2eRandHdr(rng, msgs))
		}
		std(o, files...)
		count("random")
		count(fmt.Sprintf("random:files=%d", len(files)))
	}
	// --- h. the last sentence of the property on ARBITRARY decoder output: fixtures, structure-aware mutants, … (op `redec`)
	genReDec(emit, tier, rng.Fork(0x7ede))
	_ = sort.Strings
	_ = hex.EncodeToString
}
