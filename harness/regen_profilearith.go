package main

// Translator `fitharness regen profilearith <out.lean>`: the part of the profile the arithmetic
// properties (C12, C05) depend on, read from the compiled factory and the compiled mesgdef structs of /repo.
// Scales/offsets are printed as float64 bit patterns.

import (
	"fmt"
	"math"
	"reflect"
	"sort"
	"strings"

	"github.com/muktihari/fit/profile"
	"github.com/muktihari/fit/profile/basetype"
	"github.com/muktihari/fit/profile/factory"
	"github.com/muktihari/fit/profile/mesgdef"
	"github.com/muktihari/fit/profile/typedef"
	"github.com/muktihari/fit/proto"
)

func init() { regens["profilearith"] = regenProfileArith }

func paBits(x float64) string { return fmt.Sprintf("0x%016x", math.Float64bits(x)) }

func paBool(b bool) string {
	if b {
		return "true"
	}
	return "false"
}

func paComps(cs []proto.Component) string {
	var s []string
	for _, c := range cs {
		s = append(s, fmt.Sprintf("⟨%d, %s, %d, %s, %s⟩", c.FieldNum, paBool(c.Accumulate), c.Bits, paBits(c.Scale), paBits(c.Offset)))
	}
	return "[" + strings.Join(s, ", ") + "]"
}

type paTriple struct {
	bt            byte
	scale, offset uint64
}

// arithProfileFields lists every known field of every message number the factory knows.
func arithProfileMesgs() map[typedef.MesgNum][]proto.Field {
	f := factory.StandardFactory()
	res := map[typedef.MesgNum][]proto.Field{}
	for _, n := range typedef.ListMesgNum() {
		for i := 0; i < 256; i++ {
			fl := f.CreateField(n, byte(i))
			if fl.Name != factory.NameUnknown {
				res[n] = append(res[n], fl)
			}
		}
	}
	return res
}

func arithOwnsComponents(fields []proto.Field) bool {
	for _, fl := range fields {
		if len(fl.Components) > 0 {
			return true
		}
		for _, sf := range fl.SubFields {
			if len(sf.Components) > 0 {
				return true
			}
		}
	}
	return false
}

// arithTypedInfo describes one generated XxxScaled/SetXxxScaled pair.
type arithTypedInfo struct {
	mesg, field       string
	mesgNum, fieldNum int
	ty                int // 0..7 = i8,u8,i16,u16,i32,u32,i64,u64
	invalid           uint64
	scale, offset     float64
	arr               int // 0 scalar, 1 slice, n+1 fixed array of n
}

func arithKindTy(k reflect.Kind) (ty int, invalid uint64, ok bool) {
	switch k {
	case reflect.Int8:
		return 0, uint64(uint8(basetype.Sint8Invalid)), true
	case reflect.Uint8:
		return 1, uint64(basetype.Uint8Invalid), true
	case reflect.Int16:
		return 2, uint64(uint16(basetype.Sint16Invalid)), true
	case reflect.Uint16:
		return 3, uint64(basetype.Uint16Invalid), true
	case reflect.Int32:
		return 4, uint64(uint32(basetype.Sint32Invalid)), true
	case reflect.Uint32:
		return 5, uint64(basetype.Uint32Invalid), true
	case reflect.Int64:
		return 6, uint64(basetype.Sint64Invalid), true
	case reflect.Uint64:
		return 7, basetype.Uint64Invalid, true
	}
	return 0, 0, false
}

// arithSetRaw stores the w-bit pattern into a settable integer reflect.Value.
func arithSetRaw(v reflect.Value, pattern uint64) {
	switch v.Kind() {
	case reflect.Int8:
		v.SetInt(int64(int8(pattern)))
	case reflect.Int16:
		v.SetInt(int64(int16(pattern)))
	case reflect.Int32:
		v.SetInt(int64(int32(pattern)))
	case reflect.Int64:
		v.SetInt(int64(pattern))
	default:
		v.SetUint(pattern)
	}
}

func arithGetRaw(v reflect.Value) uint64 {
	switch v.Kind() {
	case reflect.Int8:
		return uint64(uint8(v.Int()))
	case reflect.Int16:
		return uint64(uint16(v.Int()))
	case reflect.Int32:
		return uint64(uint32(v.Int()))
	case reflect.Int64:
		return uint64(v.Int())
	default:
		return v.Uint()
	}
}

// arithTypedList finds, by reflection over the registered mesgdef constructors, every struct field X
// with methods XScaled and SetXScaled, and resolves the factory field it maps to by probing ToMesg with
// that single field set (all others invalid).
func arithTypedList() ([]arithTypedInfo, error) {
	var res []arithTypedInfo
	for _, reg := range arithTypedRegistry {
		p := reflect.ValueOf(reg.mk())
		t := p.Type()
		for i := 0; i < t.NumMethod(); i++ {
			name := t.Method(i).Name
			if !strings.HasPrefix(name, "Set") || !strings.HasSuffix(name, "Scaled") {
				continue
			}
			fname := strings.TrimSuffix(strings.TrimPrefix(name, "Set"), "Scaled")
			if _, ok := t.MethodByName(fname + "Scaled"); !ok {
				return nil, fmt.Errorf("%s: setter %s without getter", reg.name, name)
			}
			q := reflect.ValueOf(reg.mk()) // fresh, all-invalid
			fv := q.Elem().FieldByName(fname)
			if !fv.IsValid() {
				return nil, fmt.Errorf("%s: no struct field %s", reg.name, fname)
			}
			info := arithTypedInfo{mesg: reg.name, field: fname}
			var elem reflect.Value
			switch fv.Kind() {
			case reflect.Slice:
				info.arr = 1
				fv.Set(reflect.MakeSlice(fv.Type(), 1, 1))
				elem = fv.Index(0)
			case reflect.Array:
				info.arr = fv.Len() + 1
				elem = fv.Index(0)
			default:
				elem = fv
			}
			// the shape of the accessor pair itself: XScaled() returns float64 / []float64 / [N]float64 and
			// SetXScaled takes the same type; it must be the shape of the struct field
			gm, _ := t.MethodByName(fname + "Scaled")
			if gm.Type.NumIn() != 1 || gm.Type.NumOut() != 1 || t.Method(i).Type.NumIn() != 2 || t.Method(i).Type.In(1) != gm.Type.Out(0) {
				return nil, fmt.Errorf("%s.%s: unexpected accessor signatures %s / %s", reg.name, fname, gm.Type, t.Method(i).Type)
			}
			shape := -1
			switch rt := gm.Type.Out(0); rt.Kind() {
			case reflect.Float64:
				shape = 0
			case reflect.Slice:
				if rt.Elem().Kind() == reflect.Float64 {
					shape = 1
				}
			case reflect.Array:
				if rt.Elem().Kind() == reflect.Float64 {
					shape = rt.Len() + 1
				}
			}
			if shape != info.arr {
				return nil, fmt.Errorf("%s.%s: accessor returns %s for a struct field of type %s", reg.name, fname, gm.Type.Out(0), fv.Type())
			}
			ty, inv, ok := arithKindTy(elem.Kind())
			if !ok {
				return nil, fmt.Errorf("%s.%s: unsupported kind %s", reg.name, fname, elem.Kind())
			}
			info.ty, info.invalid = ty, inv
			arithSetRaw(elem, 1)
			out := q.MethodByName("ToMesg").Call([]reflect.Value{reflect.Zero(reflect.TypeOf((*mesgdef.Options)(nil)))})
			mesg := out[0].Interface().(proto.Message)
			if len(mesg.Fields) != 1 {
				return nil, fmt.Errorf("%s.%s: probing ToMesg gave %d fields", reg.name, fname, len(mesg.Fields))
			}
			fl := factory.StandardFactory().CreateField(mesg.Num, mesg.Fields[0].Num)
			if fl.Name == factory.NameUnknown {
				return nil, fmt.Errorf("%s.%s: field %d unknown to the factory", reg.name, fname, mesg.Fields[0].Num)
			}
			info.mesgNum, info.fieldNum = int(mesg.Num), int(fl.Num)
			info.scale, info.offset = fl.Scale, fl.Offset
			res = append(res, info)
		}
	}
	return res, nil
}

func regenProfileArith() (string, error) {
	var b strings.Builder
	b.WriteString("import FitModel.ProfileArithTypes\n")
	b.WriteString("-- GENERATED by `fitharness regen profilearith` from the compiled /repo packages — do not edit\n")
	b.WriteString("namespace Fit.Gen.PA\nopen Fit.PA\n")
	fmt.Fprintf(&b, "def profileVersion : Nat := %d\n", profile.Version)
	mesgs := arithProfileMesgs()
	var nums []int
	for n := range mesgs {
		nums = append(nums, int(n))
	}
	sort.Ints(nums)

	// every (base type, scale, offset) that occurs on a field or a sub-field, unit pairs excluded
	triples := map[paTriple]bool{}
	scaled64 := 0
	floatScaled := 0
	for _, n := range nums {
		for _, fl := range mesgs[typedef.MesgNum(n)] {
			add := func(scale, offset float64) {
				if scale == 1 && offset == 0 {
					return
				}
				triples[paTriple{byte(fl.BaseType), math.Float64bits(scale), math.Float64bits(offset)}] = true
				if fl.BaseType.Size() == 8 {
					scaled64++
				}
				if fl.BaseType == basetype.Float32 || fl.BaseType == basetype.Float64 {
					floatScaled++
				}
			}
			add(fl.Scale, fl.Offset)
			for _, sf := range fl.SubFields {
				add(sf.Scale, sf.Offset)
			}
		}
	}
	var tl []paTriple
	for t := range triples {
		tl = append(tl, t)
	}
	sort.Slice(tl, func(i, j int) bool {
		a, c := tl[i], tl[j]
		if a.bt != c.bt {
			return a.bt < c.bt
		}
		if a.scale != c.scale {
			return a.scale < c.scale
		}
		return a.offset < c.offset
	})
	b.WriteString("/-- every (base type, scale, offset) of a profile field or sub-field other than (·, 1, 0) -/\n")
	b.WriteString("def triples : List (Nat × Nat × Nat) := [\n")
	for i, t := range tl {
		sep := ","
		if i == len(tl)-1 {
			sep = ""
		}
		fmt.Fprintf(&b, "  (%d, 0x%016x, 0x%016x)%s  -- %s scale %v offset %v\n", t.bt, t.scale, t.offset, sep,
			basetype.BaseType(t.bt), math.Float64frombits(t.scale), math.Float64frombits(t.offset))
	}
	b.WriteString("]\n")
	fmt.Fprintf(&b, "/-- scaled occurrences on 64-bit base types / on float base types -/\ndef scaled64 : Nat := %d\ndef scaledFloat : Nat := %d\n", scaled64, floatScaled)

	// messages that own components: all their fields
	f := factory.StandardFactory()
	type compRow struct {
		bits                           byte
		cs, co, ds, do                 uint64
		dbt                            byte
		dstKnown, dstArray, accumulate bool
	}
	rows := map[compRow]bool{}
	nComp := 0
	addRows := func(n typedef.MesgNum, cs []proto.Component) {
		for _, c := range cs {
			nComp++
			d := f.CreateField(n, c.FieldNum)
			rows[compRow{c.Bits, math.Float64bits(c.Scale), math.Float64bits(c.Offset), math.Float64bits(d.Scale), math.Float64bits(d.Offset),
				byte(d.BaseType), d.Name != factory.NameUnknown, d.Array, c.Accumulate}] = true
		}
	}
	b.WriteString("/-- the messages that own components (on a field or a sub-field), with all their known fields -/\n")
	b.WriteString("def mesgs : List (Nat × List Fld) := [\n")
	first := true
	nOwners, nSubOwners := 0, 0
	for _, n := range nums {
		fields := mesgs[typedef.MesgNum(n)]
		if !arithOwnsComponents(fields) {
			continue
		}
		if !first {
			b.WriteString(",\n")
		}
		first = false
		fmt.Fprintf(&b, "  (%d, [\n", n)
		for i, fl := range fields {
			var subs []string
			for _, sf := range fl.SubFields {
				var maps []string
				for _, m := range sf.Maps {
					maps = append(maps, fmt.Sprintf("(%d, %d)", m.RefFieldNum, m.RefFieldValue))
				}
				subs = append(subs, fmt.Sprintf("⟨%s, %s, %s, [%s]⟩", paBits(sf.Scale), paBits(sf.Offset), paComps(sf.Components), strings.Join(maps, ", ")))
				if len(sf.Components) > 0 {
					nSubOwners++
					addRows(typedef.MesgNum(n), sf.Components)
				}
			}
			if len(fl.Components) > 0 {
				nOwners++
				addRows(typedef.MesgNum(n), fl.Components)
			}
			sep := ","
			if i == len(fields)-1 {
				sep = ""
			}
			fmt.Fprintf(&b, "    ⟨%d, %d, %s, %s, %s, %s, %s, %s, [%s]⟩%s\n", fl.Num, byte(fl.BaseType), paBool(fl.Array), paBool(fl.Accumulate),
				paBits(fl.Scale), paBits(fl.Offset), paBool(fl.Type == profile.Bool), paComps(fl.Components), strings.Join(subs, ", "), sep)
		}
		b.WriteString("  ])")
	}
	b.WriteString("\n]\n")
	fmt.Fprintf(&b, "def nFieldsWithComponents : Nat := %d\ndef nSubFieldsWithComponents : Nat := %d\ndef nComponents : Nat := %d\n", nOwners, nSubOwners, nComp)

	// distinct arithmetic rows of all components: (bits, compScale, compOffset, dstScale, dstOffset, dstBaseType, dstKnown, dstArray, accumulate)
	var rl []compRow
	for r := range rows {
		rl = append(rl, r)
	}
	sort.Slice(rl, func(i, j int) bool { return fmt.Sprint(rl[i]) < fmt.Sprint(rl[j]) })
	b.WriteString("/-- distinct (bits, component scale, component offset, destination scale, destination offset, destination base type, destination known) -/\n")
	b.WriteString("def compRows : List (Nat × Nat × Nat × Nat × Nat × Nat × Bool) := [\n")
	seen := map[string]bool{}
	var lines []string
	for _, r := range rl {
		l := fmt.Sprintf("  (%d, 0x%016x, 0x%016x, 0x%016x, 0x%016x, %d, %s)", r.bits, r.cs, r.co, r.ds, r.do, r.dbt, paBool(r.dstKnown))
		if !seen[l] {
			seen[l] = true
			lines = append(lines, l)
		}
	}
	b.WriteString(strings.Join(lines, ",\n"))
	b.WriteString("\n]\n")

	// generated scaled accessors of profile/mesgdef
	typed, err := arithTypedList()
	if err != nil {
		return "", err
	}
	b.WriteString("/-- every generated XxxScaled / SetXxxScaled pair of profile/mesgdef -/\n")
	b.WriteString("def typed : List Typed := [\n")
	for i, t := range typed {
		sep := ","
		if i == len(typed)-1 {
			sep = ""
		}
		fmt.Fprintf(&b, "  ⟨%q, %q, %d, %d, %d, %d, %s, %s, %d⟩%s\n", t.mesg, t.field, t.mesgNum, t.fieldNum, t.ty, t.invalid, paBits(t.scale), paBits(t.offset), t.arr, sep)
	}
	b.WriteString("]\n")
	// every field the standard factory knows, as far as the validator's native-field look-up reads it
	b.WriteString("/-- every field of `factory.StandardFactory()` with a known name: (mesgNum, fieldNum, baseType, scale, offset) -/\n")
	b.WriteString("def fields : List (Nat × Nat × Nat × Nat × Nat) := [\n")
	firstF := true
	for _, n := range nums {
		for _, fl := range mesgs[typedef.MesgNum(n)] {
			if !firstF {
				b.WriteString(",\n")
			}
			firstF = false
			fmt.Fprintf(&b, "  (%d, %d, %d, %s, %s)", n, fl.Num, byte(fl.BaseType), paBits(fl.Scale), paBits(fl.Offset))
		}
	}
	b.WriteString("\n]\n")
	b.WriteString("end Fit.Gen.PA\n")
	return b.String(), nil
}
