package main

// Family `csvtext` (property C19, text layer): the CSV the real FITToCSVConv writes compared BYTE FOR BYTE with the text
// the model writes (FitModel/CsvText.lean: decimal integers, quoting, padding, header), and the real CSVToFITConv on a
// CSV text compared with the model's reader (encoding/csv record by record, ParseInt/ParseUint).
//
//	csvtext o=<flags> <msg>... [/ <msg>...]...     (op syntax of family csv; flags must contain r, never d)
//	csvparse <hex of a CSV text>
//
// csvtext answers `skip` unless the input is text-comparable (raw values, no degrees, no float32/float64 value anywhere:
// float text is an assumption of the model, compared cell-wise by family csv). Otherwise:
//
//	text=<hex of the CSV without its Definition lines, local message numbers set to 0> | big len=<n> lines=<k> fnv=<fnv64>
//	back=ok|err seq=<n> w=<msgs>        (the real reader on the real text, as family csv)
//
// csvparse answers back=err | back=ok seq=<n> w=<msgs>.
import (
	"bytes"
	"encoding/hex"
	"fmt"
	"regexp"
	"strconv"
	"strings"

	"github.com/muktihari/fit/profile"
	"github.com/muktihari/fit/profile/basetype"
	"github.com/muktihari/fit/profile/factory"
	"github.com/muktihari/fit/profile/typedef"
	"github.com/muktihari/fit/profile/untyped/mesgnum"
	"github.com/muktihari/fit/proto"
)

func init() {
	families["csvtext"] = genCsvText
	executors["csvtext"] = csvTextExec
	executors["csvparse"] = csvParseExec
}

func csvtIsFloat(v proto.Value) bool {
	switch v.Type() {
	case proto.TypeFloat32, proto.TypeFloat64, proto.TypeSliceFloat32, proto.TypeSliceFloat64:
		return true
	}
	return false
}

func csvtComparable(flags string, files [][]proto.Message) bool {
	if !strings.ContainsRune(flags, 'r') || strings.ContainsRune(flags, 'd') {
		return false
	}
	for _, f := range files {
		for i := range f {
			for j := range f[i].Fields {
				if csvtIsFloat(f[i].Fields[j].Value) {
					return false
				}
			}
			for j := range f[i].DeveloperFields {
				if csvtIsFloat(f[i].DeveloperFields[j].Value) {
					return false
				}
			}
		}
	}
	return true
}

func csvtFnv64(b []byte) uint64 {
	h := uint64(14695981039346656037)
	for _, c := range b {
		h = (h ^ uint64(c)) * 1099511628211
	}
	return h
}

// csvtNormalise drops the Definition lines and sets the local message number of the Data lines to 0.
func csvtNormalise(text string) (string, int) {
	var out strings.Builder
	n := 0
	for _, l := range strings.SplitAfter(text, "\n") {
		if l == "" {
			continue
		}
		if strings.HasPrefix(l, "Definition,") {
			continue
		}
		if strings.HasPrefix(l, "Data,") {
			rest := l[len("Data,"):]
			if i := strings.IndexByte(rest, ','); i >= 0 {
				l = "Data,0" + rest[i:]
			}
		}
		if !strings.HasSuffix(l, "\n") {
			l += "\n"
		}
		out.WriteString(l)
		n++
	}
	return out.String(), n
}

func csvtShowText(t string, lines int) string {
	if len(t) <= 6000 {
		return "text=" + hex.EncodeToString([]byte(t))
	}
	return fmt.Sprintf("big len=%d lines=%d fnv=%016x", len(t), lines, csvtFnv64([]byte(t)))
}

func csvtBack(text string, stream bool) string {
	fb, info, err := csvToFIT(text, stream)
	if err != nil {
		return "back=err"
	}
	w, err := csvDecode(fb, false)
	if err != nil {
		return "back=undecodable"
	}
	return fmt.Sprintf("back=ok seq=%d w=%s", info.Sequence, csvPrintFiles(w))
}

func csvTextExec(args []string) string {
	if len(args) < 1 || !strings.HasPrefix(args[0], "o=") {
		return "bad-op"
	}
	flags := args[0][2:]
	files, ok := csvParseFiles(args[1:])
	if !ok {
		return "bad-op"
	}
	if !csvtComparable(flags, files) {
		return "skip"
	}
	b, err := csvEncode(files)
	if err != nil {
		return "pre=err:encode"
	}
	text, err := csvToCSV(b, flags)
	if err != nil {
		return "csv=err"
	}
	norm, n := csvtNormalise(text)
	return csvtShowText(norm, n) + " " + csvtBack(text, strings.ContainsRune(flags, 's'))
}

func csvParseExec(args []string) string {
	if len(args) != 1 {
		return "bad-op"
	}
	t, err := hex.DecodeString(args[0])
	if err != nil {
		return "bad-op"
	}
	return csvtBack(string(t), false)
}

// ---------------------------------------------------------------- generator

// strings with separators, leading/trailing spaces, printable non-ASCII, or empty
func csvtRichString(rng *Rng) string {
	switch rng.Intn(10) {
	case 0:
		return ""
	case 1:
		return " " + csvRandString(rng)
	case 2:
		return csvRandString(rng) + " "
	case 3:
		return csvRandString(rng) + "," + csvRandString(rng)
	case 4:
		return "," + csvRandString(rng) + ",,"
	case 5:
		return []string{"é", "Ünïcödé", "温度", "мощность", "😀", "m/s²", "°C", "naïve,café"}[rng.Intn(8)]
	case 6:
		return "  "
	case 7:
		return "a'b;c:d\\e"
	}
	return csvRandString(rng)
}

func csvtIntExtreme(rng *Rng, bt basetype.BaseType) (proto.Value, bool) {
	hi := rng.Intn(2) == 0
	switch bt {
	case basetype.Enum, basetype.Byte, basetype.Uint8, basetype.Uint8z:
		if hi {
			return proto.Uint8(255), true
		}
		return proto.Uint8(0), true
	case basetype.Sint8:
		if hi {
			return proto.Int8(127), true
		}
		return proto.Int8(-128), true
	case basetype.Sint16:
		if hi {
			return proto.Int16(32767), true
		}
		return proto.Int16(-32768), true
	case basetype.Uint16, basetype.Uint16z:
		if hi {
			return proto.Uint16(65535), true
		}
		return proto.Uint16(0), true
	case basetype.Sint32:
		if hi {
			return proto.Int32(2147483647), true
		}
		return proto.Int32(-2147483648), true
	case basetype.Uint32, basetype.Uint32z:
		if hi {
			return proto.Uint32(4294967295), true
		}
		return proto.Uint32(0), true
	case basetype.Sint64:
		if hi {
			return proto.Int64(9223372036854775807), true
		}
		return proto.Int64(-9223372036854775808), true
	case basetype.Uint64, basetype.Uint64z:
		if hi {
			return proto.Uint64(18446744073709551615), true
		}
		return proto.Uint64(0), true
	}
	return proto.Value{}, false
}

// csvtEnrich rewrites the generated messages: no float anywhere (float fields and float developer fields are dropped),
// string values and the names/units of field descriptions enriched, scalars of integer fields now and then at the
// minimum / maximum of their type.
func csvtEnrich(rng *Rng, ms []proto.Message) []proto.Message {
	floatDev := map[[2]byte]bool{}
	for i := range ms {
		if ms[i].Num != mesgnum.FieldDescription {
			continue
		}
		var idx, num, bt byte
		for _, f := range ms[i].Fields {
			switch f.Num {
			case 0:
				idx = f.Value.Uint8()
			case 1:
				num = f.Value.Uint8()
			case 2:
				bt = f.Value.Uint8()
			}
		}
		if basetype.BaseType(bt) == basetype.Float32 || basetype.BaseType(bt) == basetype.Float64 {
			floatDev[[2]byte{idx, num}] = true
		}
	}
	var out []proto.Message
	for i := range ms {
		m := ms[i]
		if m.Num == mesgnum.FieldDescription {
			var idx, num byte
			for _, f := range m.Fields {
				if f.Num == 0 {
					idx = f.Value.Uint8()
				}
				if f.Num == 1 {
					num = f.Value.Uint8()
				}
			}
			if floatDev[[2]byte{idx, num}] {
				continue
			}
		}
		var fs []proto.Field
		for _, f := range m.Fields {
			if csvtIsFloat(f.Value) {
				continue
			}
			if m.Num == mesgnum.FieldDescription && (f.Num == 3 || f.Num == 8) && rng.Intn(2) == 0 {
				s := csvtRichString(rng)
				if s == "" { // an array holding one empty string decodes as the empty array: leave the field as it is
					fs = append(fs, f)
					continue
				}
				if f.Num == 3 { // names stay unique and non-empty: the generated prefix devN_ is kept
					old := f.Value.SliceString()
					if len(old) > 0 {
						s = strings.SplitN(old[0], "_", 2)[0] + "_" + strings.ReplaceAll(s, "|", "")
					}
				}
				f.Value = proto.SliceString([]string{s})
			} else if f.Value.Type() == proto.TypeString && rng.Intn(2) == 0 {
				f.Value = proto.String(csvtRichString(rng))
			} else if f.Value.Type() == proto.TypeSliceString && m.Num != mesgnum.FieldDescription && rng.Intn(2) == 0 {
				f.Value = proto.SliceString([]string{csvRandString(rng) + csvtRichString(rng), csvRandString(rng)})
			} else if !isSliceType(f.Value.Type()) && f.Type != profile.Bool && rng.Intn(4) == 0 && len(f.SubFields) == 0 {
				if v, ok := csvtIntExtreme(rng, f.BaseType); ok {
					f.Value = v
					count("int-extreme")
				}
			}
			fs = append(fs, f)
		}
		m.Fields = fs
		var ds []proto.DeveloperField
		for _, d := range m.DeveloperFields {
			if floatDev[[2]byte{d.DeveloperDataIndex, d.Num}] || csvtIsFloat(d.Value) {
				continue
			}
			ds = append(ds, d)
		}
		m.DeveloperFields = ds
		if len(m.Fields) == 0 && len(m.DeveloperFields) == 0 {
			continue
		}
		out = append(out, m)
	}
	return out
}

// csvtLongFile: a file one of whose messages has a CSV line of `target` bytes or a little more (byte arrays of 255
// elements printed as "200|200|…"), followed by ordinary messages.
func csvtLongFile(rng *Rng, fields int, known bool) []proto.Message {
	ms := []proto.Message{csvFileId(rng)}
	arr := func(n int) proto.Value {
		b := make([]byte, n)
		for j := range b {
			b[j] = byte(100 + rng.Intn(100))
		}
		return proto.SliceUint8(b)
	}
	if known {
		// a record whose developer fields are byte arrays
		did := factory.CreateMesg(mesgnum.DeveloperDataId)
		dm := proto.Message{Num: mesgnum.DeveloperDataId}
		for _, f := range did.Fields {
			if f.Num == 3 {
				f.Value = proto.Uint8(0)
				dm.Fields = append(dm.Fields, f)
			}
		}
		ms = append(ms, dm)
		for i := 0; i < fields; i++ {
			fd := factory.CreateMesg(mesgnum.FieldDescription)
			m := proto.Message{Num: mesgnum.FieldDescription}
			for _, f := range fd.Fields {
				switch f.Num {
				case 0:
					f.Value = proto.Uint8(0)
				case 1:
					f.Value = proto.Uint8(byte(i))
				case 2:
					f.Value = proto.Uint8(byte(basetype.Byte))
				case 3:
					f.Value = proto.SliceString([]string{"d" + strconv.Itoa(i)})
				default:
					continue
				}
				m.Fields = append(m.Fields, f)
			}
			ms = append(ms, m)
		}
		rec := proto.Message{Num: mesgnum.Record}
		f := factory.CreateField(mesgnum.Record, 3)
		f.Value = proto.Uint8(100)
		rec.Fields = append(rec.Fields, f)
		for i := 0; i < fields; i++ {
			rec.DeveloperFields = append(rec.DeveloperFields, proto.DeveloperField{DeveloperDataIndex: 0, Num: byte(i), Value: arr(255)})
		}
		ms = append(ms, rec)
	} else {
		big := proto.Message{Num: typedef.MesgNum(65000)}
		for i := 0; i < fields; i++ {
			f := factory.CreateField(big.Num, byte(i))
			f.BaseType = basetype.Byte
			f.Type = profile.ProfileType(f.BaseType & basetype.BaseTypeNumMask)
			f.Array = true
			f.Value = arr(255)
			big.Fields = append(big.Fields, f)
		}
		ms = append(ms, big)
	}
	for i := 0; i < 2; i++ {
		m := csvGenMesg(rng, []typedef.MesgNum{mesgnum.Event, mesgnum.DeviceInfo}[i], csvGenOpts{})
		m = csvtEnrich(rng, []proto.Message{m})[0]
		ms = append(ms, m)
	}
	return ms
}

var csvtIntRe = regexp.MustCompile(`^-?[1-9][0-9]*$|^0$`)

// csvtMutate: one character/cell level change of a CSV text (never a float, a leading zero, an underscore or a base
// prefix in a number: outside the model of ParseInt/ParseUint; never a line break inside a cell).
func csvtMutate(rng *Rng, text string) (string, string) {
	lines := strings.Split(strings.TrimSuffix(text, "\n"), "\n")
	var dataIdx []int
	for i, l := range lines {
		if strings.HasPrefix(l, "Data,") {
			dataIdx = append(dataIdx, i)
		}
	}
	if len(dataIdx) == 0 {
		return text, "none"
	}
	li := dataIdx[rng.Intn(len(dataIdx))]
	l := lines[li]
	kind := rng.Intn(14)
	name := "none"
	// value cells are the quoted ones: `,"…",`
	valRe := regexp.MustCompile(`,"([^"]*)"`)
	locs := valRe.FindAllStringSubmatchIndex(l, -1)
	pick := func() (int, int, bool) {
		if len(locs) == 0 {
			return 0, 0, false
		}
		m := locs[rng.Intn(len(locs))]
		return m[2], m[3], true
	}
	switch kind {
	case 0:
		name = "as-is"
	case 1: // '+' in front of a non-negative integer piece
		if a, b, ok := pick(); ok {
			ps := strings.Split(l[a:b], "|")
			k := rng.Intn(len(ps))
			if csvtIntRe.MatchString(ps[k]) && !strings.HasPrefix(ps[k], "-") {
				ps[k] = "+" + ps[k]
				l = l[:a] + strings.Join(ps, "|") + l[b:]
				name = "plus-sign"
			}
		}
	case 2: // out of range / wrong sign
		if a, b, ok := pick(); ok {
			ps := strings.Split(l[a:b], "|")
			k := rng.Intn(len(ps))
			if csvtIntRe.MatchString(ps[k]) {
				ps[k] = []string{"256", "-1", "65536", "-129", "128", "32768", "-32769", "4294967296", "2147483648", "-2147483649",
					"18446744073709551616", "9223372036854775808", "-9223372036854775809", "99999999999999999999999", "-0", "+0", "-", "+", "1-", "1+1", "12a"}[rng.Intn(21)]
				l = l[:a] + strings.Join(ps, "|") + l[b:]
				name = "int-edge"
			}
		}
	case 3: // empty value cell
		if a, b, ok := pick(); ok && csvtIntRe.MatchString(strings.Split(l[a:b], "|")[0]) { // of a number (an empty STRING in an array does not survive the encoder: not the converters' business)
			l = l[:a] + l[b:]
			name = "empty-value"
		}
	case 4: // the quotes of a value cell removed (legal when it holds no separator)
		if a, b, ok := pick(); ok && !strings.ContainsAny(l[a:b], ",") {
			l = l[:a-1] + l[a:b] + l[b+1:]
			name = "unquoted-value"
		}
	case 5: // a bare quote inside an unquoted cell
		for try := 0; try < 20; try++ { // after a letter or digit, outside quotes: ErrBareQuote (a quote that OPENS a cell may run over the line: outside the model)
			p := 5 + rng.Intn(len(l)-5)
			c := l[p-1]
			if strings.Count(l[:p], `"`)%2 == 0 && ((c >= 'a' && c <= 'z') || (c >= '0' && c <= '9')) {
				l = l[:p] + `"` + l[p:]
				name = "stray-quote"
				break
			}
		}
	case 6: // a space before the opening quote of a value cell: the cell is no longer a quoted one
		if a, _, ok := pick(); ok {
			l = l[:a-1] + " " + l[a-1:]
			name = "space-before-quote"
		}
	case 7: // a space after the closing quote
		if _, b, ok := pick(); ok {
			l = l[:b+1] + " " + l[b+1:]
			name = "space-after-quote"
		}
	case 8: // trailing commas removed / added
		l = strings.TrimRight(l, ",")
		if rng.Intn(2) == 0 {
			l += strings.Repeat(",", 1+rng.Intn(5))
		}
		name = "trailing-commas"
	case 9: // the line cut after some cell
		cs := strings.Split(l, ",")
		if len(cs) > 4 {
			c := strings.Join(cs[:3+rng.Intn(len(cs)-3)], ",")
			if strings.Count(c, `"`)%2 == 0 { // not inside a quoted cell (the cell would run on into the next line: outside the model)
				l = c
				name = "cut"
			}
		}
	case 10: // the line twice
		lines = append(lines[:li+1], append([]string{l}, lines[li+1:]...)...)
		name = "duplicate-line"
	case 11: // an empty line / a line of another kind
		extra := []string{"", "Comment,0,hello", "Data", "Data,0", "Data,0,record", "Data,0,nonsense,a,\"1\",", "Type,x,y"}[rng.Intn(7)]
		lines = append(lines[:li], append([]string{extra}, lines[li:]...)...)
		li++
		name = "extra-line"
	case 12: // every cell of the line quoted, quotes doubled (what encoding/csv's own writer could produce)
		cs, ok := csvtSplitRecord(l)
		if ok {
			for i := range cs {
				cs[i] = `"` + strings.ReplaceAll(cs[i], `"`, `""`) + `"`
			}
			l = strings.Join(cs, ",")
			name = "all-quoted"
		}
	case 13: // a doubled quote inside a value cell
		if a, b, ok := pick(); ok {
			p := a + rng.Intn(b-a+1)
			for p < b && l[p]&0xC0 == 0x80 { // not inside a multi-byte character (the encoder rejects a string that is not UTF-8: not the converters' business)
				p++
			}
			l = l[:p] + `""` + l[p:]
			name = "doubled-quote-in-value"
		}
	}
	lines[li] = l
	return strings.Join(lines, "\n") + "\n", name
}

// csvtSplitRecord: the cells of one line (quotes handled), for the re-quoting mutation only.
func csvtSplitRecord(l string) ([]string, bool) {
	var cells []string
	var cur bytes.Buffer
	inq := false
	for i := 0; i < len(l); i++ {
		c := l[i]
		switch {
		case inq && c == '"' && i+1 < len(l) && l[i+1] == '"':
			cur.WriteByte('"')
			i++
		case c == '"':
			inq = !inq
		case c == ',' && !inq:
			cells = append(cells, cur.String())
			cur.Reset()
		default:
			cur.WriteByte(c)
		}
	}
	if inq {
		return nil, false
	}
	return append(cells, cur.String()), true
}

// csvtSafeCSV: the real writer at generation time; a panic of the converter (the executor reports it on the csvtext
// operation of the same input) must not end the generation.
func csvtSafeCSV(b []byte, flags string) (text string, err error) {
	defer func() {
		if r := recover(); r != nil {
			err = fmt.Errorf("panic")
		}
	}()
	return csvToCSV(b, flags)
}

func genCsvText(emit func(string), tier string, rng *Rng) {
	n := 500
	if tier == "thorough" {
		n = 40000
	}
	for i := 0; i < n; i++ {
		o := csvGenOpts{unknowns: rng.Intn(3) == 0, devs: rng.Intn(2) == 0}
		nf := 1
		if rng.Intn(4) == 0 {
			nf = 2 + rng.Intn(2)
		}
		var files [][]proto.Message
		for f := 0; f < nf; f++ {
			files = append(files, csvtEnrich(rng, csvGenFile(rng, o)))
		}
		long := ""
		if i%100 == 7 || (tier == "thorough" && i%400 == 13) {
			// a line around the 64 KiB mark: 64 arrays of 255 elements ≈ 65 600 bytes with separators
			k := 60 + rng.Intn(10)
			files[len(files)-1] = csvtLongFile(rng, k, rng.Intn(2) == 0)
			long = "long-line-" + strconv.Itoa(k)
			o.unknowns = true
		}
		d, ok := csvDecodedForm(files)
		if !ok {
			count("gen-undecodable")
			continue
		}
		if d2, ok := csvDecodedForm(d); !ok || !csvMsgsEqual(d, d2) {
			count("gen-not-a-fixed-point-of-encode-decode")
			continue
		}
		flags := "r"
		if o.unknowns || rng.Intn(4) == 0 {
			flags += "v"
		}
		if rng.Intn(5) == 0 {
			flags += "t"
		}
		if rng.Intn(10) == 0 {
			flags += "k"
		}
		if rng.Intn(3) == 0 {
			flags += "s"
		}
		if !csvtComparable(flags, d) {
			count("gen-not-comparable")
			continue
		}
		if long != "" {
			count(long)
		}
		count("files-" + strconv.Itoa(nf))
		emit("csvtext o=" + flags + " " + csvPrintFiles(d))
		if long != "" {
			continue
		}
		// the reader on the real text and on one mutation of it
		b, err := csvEncode(d)
		if err != nil {
			continue
		}
		text, err := csvtSafeCSV(b, flags)
		if err != nil || len(text) > 20000 {
			continue
		}
		mt, kind := csvtMutate(rng, text)
		count("parse-" + kind)
		emit("csvparse " + hex.EncodeToString([]byte(mt)))
	}
}
