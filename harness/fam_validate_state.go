package main

// Family `validate`, section j: state a validator could keep stale. ONE validator (one `validate` line, one Encoder /
// StreamEncoder) sees SEQUENCES of messages in which
//   - several field descriptions map developer fields to native fields that SHARE A FIELD NUMBER across different native
//     messages (lap.avg_altitude 19/42 scale 5 offset 500 vs session.avg_stroke_distance 18/42 scale 100), or share a message
//     number across different field numbers, with different base type / scale / offset — every such group of the standard
//     factory —, also against an unscaled, an unknown and a half-specified native of the same number;
//   - the developer fields carry scaled float64 values (ApplyValue of raw values under the native field's pair), alternate
//     message by message and sit together in one message, in both orders;
//   - a (developer data index, number) is described twice (the first description wins), descriptions and developer data
//     indexes are re-announced after Reset() with OTHER native mappings, the same key is mapped to another native after Reset.
// The model looks the native field up on every developer field (`restoreDev`), so an implementation that caches a look-up, a
// description or an index under too coarse a key disagrees (seeded change C12-3: native field cached by field number only).
// Emitted in both modes (results carried / arithmetic and look-ups inside the model).

import (
	"sort"

	"github.com/muktihari/fit/kit/scaleoffset"
	"github.com/muktihari/fit/profile/typedef"
	"github.com/muktihari/fit/proto"
)

func genValidateState(emitSeq vaEmit, thorough bool, rng *Rng) {
	scaled := vaScaledFields()
	sort.Slice(scaled, func(i, j int) bool {
		if scaled[i].mn != scaled[j].mn {
			return scaled[i].mn < scaled[j].mn
		}
		return scaled[i].fn < scaled[j].fn
	})
	differ := func(a, b vaScaledField) bool {
		return a.f.BaseType != b.f.BaseType || a.f.Scale != b.f.Scale || a.f.Offset != b.f.Offset
	}
	// pairs (A, B): same field number in different messages; same message, different field numbers
	var sameNum, sameMesg [][2]vaScaledField
	byNum := map[byte][]vaScaledField{}
	byMesg := map[typedef.MesgNum][]vaScaledField{}
	for _, sf := range scaled {
		byNum[sf.fn] = append(byNum[sf.fn], sf)
		byMesg[sf.mn] = append(byMesg[sf.mn], sf)
	}
	var nums []int
	for n := range byNum {
		nums = append(nums, int(n))
	}
	sort.Ints(nums)
	for _, n := range nums {
		g := byNum[byte(n)]
		for i := 0; i < len(g); i++ {
			for j := i + 1; j < len(g); j++ {
				if differ(g[i], g[j]) {
					sameNum = append(sameNum, [2]vaScaledField{g[i], g[j]})
					if !thorough {
						j = len(g) // one partner per field in the quick tier
					}
				}
			}
		}
	}
	var mesgs []int
	for m := range byMesg {
		mesgs = append(mesgs, int(m))
	}
	sort.Ints(mesgs)
	for _, m := range mesgs {
		g := byMesg[typedef.MesgNum(m)]
		for i := 0; i+1 < len(g); i++ {
			if differ(g[i], g[i+1]) {
				sameMesg = append(sameMesg, [2]vaScaledField{g[i], g[i+1]})
				if !thorough && i >= 2 {
					break
				}
			}
		}
	}

	ddi := func(i uint8) proto.Message { return devDataIdMesg(i) }
	fd := func(idx, num uint8, nat vaScaledField) proto.Message {
		return fieldDescMesg(fdSpec{ddi: idx, fdn: num, bt: uint8(nat.f.BaseType), scale: -1, offset: 1000, nmn: int(nat.mn), nfn: int(nat.fn)})
	}
	fdRaw := func(idx, num, bt uint8, nmn, nfn int) proto.Message {
		return fieldDescMesg(fdSpec{ddi: idx, fdn: num, bt: bt, scale: -1, offset: 1000, nmn: nmn, nfn: nfn})
	}
	dv := func(idx, num uint8, v proto.Value) proto.DeveloperField {
		return proto.DeveloperField{DeveloperDataIndex: idx, Num: num, Value: v}
	}
	// the scaled float64 of a raw value under the native field's pair
	phys := func(nat vaScaledField, raw uint64) proto.Value {
		rv, ok := vaRawValue(nat.f.BaseType, raw)
		if !ok {
			return proto.Float64(2.5)
		}
		return scaleoffset.ApplyValue(rv, nat.f.Scale, nat.f.Offset)
	}
	msgOf := func(mn typedef.MesgNum, devs ...proto.DeveloperField) proto.Message {
		return proto.Message{Num: mn, Fields: []proto.Field{realField(mnRecord, 3, proto.Uint8(70))}, DeveloperFields: devs}
	}
	resetTok := proto.Message{Num: 0xffff}
	strip := func(msgs []proto.Message) []proto.Message {
		var out []proto.Message
		for _, m := range msgs {
			if !isResetTok(&m) {
				out = append(out, m)
			}
		}
		return out
	}
	emitAll := func(k int, msgs []proto.Message, tag string) {
		p := k%2 == 0
		emitSeq([]string{"validate", "validate2"}[k%2], p, true, nil, msgs, "")
		count(tag)
		if k%3 == 0 {
			emitSeq([]string{"encgate", "streamgate"}[(k/3)%2], p, true, nil, strip(msgs), "v:20 h:00 ")
			count(tag + "-gate")
		}
	}

	// (1) two natively-mapped developer fields, A then B (and B then A), alternating and together
	pairSeq := func(k int, a, b vaScaledField, tag string) {
		r1, r2 := uint64(250+k%7), uint64(29+k%5)
		d0a, d1b := dv(0, 0, phys(a, r1)), dv(0, 1, phys(b, r2))
		d0a2, d1b2 := dv(0, 0, phys(a, r2)), dv(0, 1, phys(b, r1))
		head := []proto.Message{ddi(0), fd(0, 0, a), fd(0, 1, b)}
		emitAll(k, append(append([]proto.Message{}, head...), msgOf(a.mn, d0a), msgOf(b.mn, d1b), msgOf(a.mn, d0a2), msgOf(b.mn, d1b2)), tag)
		emitAll(k+1, append(append([]proto.Message{}, head...), msgOf(b.mn, d1b), msgOf(a.mn, d0a), msgOf(mnRecord, d0a2, d1b2), msgOf(mnRecord, d1b, d0a, d1b2)), tag)
	}
	for k, pr := range sameNum {
		pairSeq(2*k, pr[0], pr[1], "state-native-same-number")
	}
	for k, pr := range sameMesg {
		pairSeq(2*k, pr[0], pr[1], "state-native-same-message")
	}
	// (2) a scaled native next to an unscaled / unknown / half-specified native with the same field number, and three in a row
	for k, pr := range sameNum {
		if !thorough && k%3 != 0 {
			continue
		}
		a, b := pr[0], pr[1]
		for v, other := range [][2]int{{20, int(a.fn)}, {9999, int(a.fn)}, {0xffff, int(a.fn)}, {int(a.mn), 0xff}, {65280, int(a.fn)}} {
			head := []proto.Message{ddi(0), fd(0, 0, a), fdRaw(0, 1, uint8(a.f.BaseType), other[0], other[1]), fd(0, 2, b)}
			x := phys(a, uint64(100+k))
			emitAll(k+v, append(head, msgOf(a.mn, dv(0, 0, x)), msgOf(a.mn, dv(0, 1, x)), msgOf(b.mn, dv(0, 2, phys(b, uint64(7+k)))),
				msgOf(a.mn, dv(0, 1, x), dv(0, 0, x), dv(0, 2, phys(b, 3)))), "state-native-mixed")
		}
	}
	// (3) the same key described twice (first wins), two developer data indexes with the same numbers, re-announced after Reset
	for k, pr := range sameNum {
		if !thorough && k%2 != 0 {
			continue
		}
		a, b := pr[0], pr[1]
		xa, xb := phys(a, uint64(300+k)), phys(b, uint64(41+k))
		// described twice: A wins for (0, 0) although B is announced later; index 1 uses the same numbers with B
		emitAll(k, []proto.Message{ddi(0), ddi(1), fd(0, 0, a), fd(0, 0, b), fd(1, 0, b), msgOf(a.mn, dv(0, 0, xa)), msgOf(b.mn, dv(1, 0, xb)),
			msgOf(a.mn, dv(0, 0, xb), dv(1, 0, xa))}, "state-description-twice")
		// Reset: everything must be announced again; the same key then maps to the other native
		emitAll(k+1, []proto.Message{ddi(0), fd(0, 0, a), msgOf(a.mn, dv(0, 0, xa)), resetTok, msgOf(a.mn, dv(0, 0, xa)), ddi(0), msgOf(a.mn, dv(0, 0, xa)),
			fd(0, 0, b), msgOf(b.mn, dv(0, 0, xb)), resetTok, ddi(1), fd(1, 0, a), msgOf(a.mn, dv(1, 0, xa)), msgOf(a.mn, dv(0, 0, xa))}, "state-reset")
		// two sequences through one validator without Reset: the first description keeps winning, the index stays known
		emitAll(k+2, []proto.Message{ddi(0), fd(0, 0, a), msgOf(a.mn, dv(0, 0, xa)), ddi(0), fd(0, 0, b), msgOf(b.mn, dv(0, 0, xb)), fd(0, 1, b), msgOf(b.mn, dv(0, 1, xb), dv(0, 0, xa))},
			"state-no-reset")
	}
	// (4) random walks over a pool of native mappings: 3..6 descriptions drawn from fields that collide by number or by message
	nw := 150
	if thorough {
		nw = 3000
	}
	for it := 0; it < nw && len(sameNum) > 0; it++ {
		var pool []vaScaledField
		for len(pool) < 3+rng.Intn(4) {
			pr := sameNum[rng.Intn(len(sameNum))]
			if rng.Intn(3) == 0 && len(sameMesg) > 0 {
				pr = sameMesg[rng.Intn(len(sameMesg))]
			}
			pool = append(pool, pr[0], pr[1])
		}
		msgs := []proto.Message{ddi(0)}
		two := rng.Bool()
		if two {
			msgs = append(msgs, ddi(1))
		}
		idx := make([]uint8, len(pool))
		for i, nat := range pool {
			if two && i%2 == 1 {
				idx[i] = 1
			}
			msgs = append(msgs, fd(idx[i], uint8(i/2), nat)) // indexes 0 and 1 reuse the same developer field numbers
		}
		for n := 4 + rng.Intn(6); n > 0; n-- {
			if rng.Intn(12) == 0 {
				msgs = append(msgs, resetTok, ddi(0))
				if two {
					msgs = append(msgs, ddi(1))
				}
				for i, nat := range pool {
					if rng.Bool() { // after Reset the same key may map to another native
						pool[i] = pool[(i+1)%len(pool)]
						nat = pool[i]
					}
					msgs = append(msgs, fd(idx[i], uint8(i/2), nat))
				}
				continue
			}
			var devs []proto.DeveloperField
			for c := 1 + rng.Intn(3); c > 0; c-- {
				i := rng.Intn(len(pool))
				devs = append(devs, dv(idx[i], uint8(i/2), phys(pool[i], uint64(rng.Intn(60000)))))
			}
			msgs = append(msgs, msgOf(pool[rng.Intn(len(pool))].mn, devs...))
		}
		emitAll(it, msgs, "state-random")
	}
}
