package main

// Family `raw` (ops `raw`, `rawdec`): the real RawDecoder against the model (segments, byte count, outcome; over
// contiguous and fragmenting readers, with failing callbacks), against the independent framing spec (--spec), and
// against the real Decoder with definition and message listeners on the same streams (--prop: C16's agreement).
// Syntax: lean/Driver/Raw.lean.

import (
	"bytes"
	"encoding/hex"
	"errors"
	"fmt"
	"os"
	"strings"

	"github.com/muktihari/fit/decoder"
)

func init() {
	families["raw"] = genRaw
	executors["raw"] = execRaw
	executors["rawdec"] = execRawDec
}

var errRawCallback = errors.New("callback failed")

func rawErrClass(err error) string {
	switch {
	case err == nil:
		return "ok"
	case errors.Is(err, errRawCallback):
		return "err:cb"
	case errors.Is(err, decoder.ErrNotFITFile):
		return "err:notfit"
	case errors.Is(err, decoder.ErrMesgDefMissing):
		return "err:defmissing"
	}
	return "err:" + rdrErrClass(err)
}

type rawDigest struct{ l, d uint64 }

func (g *rawDigest) init() { g.l, g.d = 0xcbf29ce484222325, 0xcbf29ce484222325 }
func fnvB(d uint64, b byte) uint64 {
	return (d ^ uint64(b)) * 0x100000001b3
}
func fnvL(d uint64, n int) uint64 {
	return fnvB(fnvB(fnvB(fnvB(d, byte(n)), byte(n>>8)), byte(n>>16)), byte(n>>24))
}
func (g *rawDigest) add(flag byte, b []byte) {
	g.l = fnvL(fnvB(g.l, flag), len(b))
	g.d = fnvL(fnvB(g.d, flag), len(b))
	for _, x := range b {
		g.d = fnvB(g.d, x)
	}
}

func execRaw(args []string) string {
	a, ok := fragParse(args)
	if !ok {
		return "bad-op"
	}
	r, _, _, ok := a.reader()
	if !ok {
		return "bad-op"
	}
	var g rawDigest
	g.init()
	calls, seqs := 0, 0
	n, err := decoder.NewRaw().Decode(r, func(flag decoder.RawFlag, b []byte) error {
		g.add(byte(flag), b)
		calls++
		if a.fail >= 0 && calls-1 == a.fail {
			return errRawCallback
		}
		if flag == decoder.RawFlagCRC {
			seqs++
		}
		return nil
	})
	return fmt.Sprintf("%s n=%d q=%d segs=%d l=%016x d=%016x", rawErrClass(err), n, seqs, calls, g.l, g.d)
}

func execRawDec(args []string) string {
	if len(args) != 1 || !strings.HasPrefix(args[0], "b:") {
		return "bad-op"
	}
	b, err := hex.DecodeString(args[0][2:])
	if err != nil {
		return "bad-op"
	}
	dec := fragDecode(bytes.NewReader(b), false, false, 0, false)
	var sb strings.Builder
	seqs := 0
	n, rerr := decoder.NewRaw().Decode(bytes.NewReader(b), func(flag decoder.RawFlag, p []byte) error {
		switch flag {
		case decoder.RawFlagFileHeader:
			fmt.Fprintf(&sb, " H%d", len(p))
		case decoder.RawFlagMesgDef:
			fmt.Fprintf(&sb, " D%s", hex.EncodeToString(p))
		case decoder.RawFlagMesgData:
			fmt.Fprintf(&sb, " M%d.%d", p[0], len(p))
		case decoder.RawFlagCRC:
			sb.WriteString(" C")
			seqs++
		default:
			fmt.Fprintf(&sb, " ?%d", flag)
		}
		return nil
	})
	return fmt.Sprintf("dec=%s raw=%s;%d;%d%s", dec, rawErrClass(rerr), n, seqs, sb.String())
}

func genRaw(emit func(string), tier string, rng *Rng) {
	thorough := tier == "thorough"
	// every fixture (the big ones: digest ops only)
	for _, p := range integFixtures() {
		b, err := os.ReadFile(p)
		if err != nil {
			continue
		}
		if len(b) > 200<<10 && !thorough {
			continue
		}
		emit("raw b:" + hex.EncodeToString(b))
		count("fixture")
		if len(b) <= 100<<10 {
			emit("rawdec b:" + hex.EncodeToString(b))
		}
	}
	n, maxLen := 2500, 8000
	if thorough {
		n, maxLen = 100000, 70000
	}
	pool, kinds := fragInputs(rng, n, maxLen)
	for i, b := range pool {
		L := len(b)
		count("in:" + kinds[i])
		emit("raw b:" + hex.EncodeToString(b))
		emit("rawdec b:" + hex.EncodeToString(b))
		// fragmenting readers (io.ReadFull straight on the reader)
		if rng.Intn(2) == 0 {
			cs := rdrFinish(rdrRandSchedule(rng, L, 1+rng.Intn(5)), rng.Intn(3))
			emit(fragOp("raw", 1, "", b, rbLens(cs)))
			count("sched:clean")
		}
		if rng.Intn(3) == 0 && L > 0 { // failing reader
			k := rng.Intn(L + 1)
			cs := rdrRandSchedule(rng, k, rng.Intn(6))
			cs = append(cs, rdrChunk{0, rdrErr(1 + rng.Intn(5))})
			if rng.Bool() {
				cs = append(cs, rdrChunk{n: L - k})
			}
			emit(fragOp("raw", 1, "", b, rbLens(cs)))
			count("sched:failing")
		}
		if rng.Intn(3) == 0 { // failing callback
			emit(fmt.Sprintf("raw fail=%d b:%s", rng.Intn(12), hex.EncodeToString(b)))
			count("callback-fails")
		}
		// mutations at structure level: a byte of the records changed (definition surgery), tail cut, garbage appended
		if rng.Intn(2) == 0 && L > 20 {
			m := append([]byte(nil), b...)
			switch rng.Intn(4) {
			case 0:
				m[14+rng.Intn(L-14)] = byte(rng.Intn(256))
			case 1:
				m = m[:rng.Intn(L)]
			case 2:
				m = append(m, rng.Bytes(1+rng.Intn(16))...)
			default:
				m[14+rng.Intn(min(L-14, 24))] ^= byte(1 << rng.Intn(8))
			}
			emit("raw b:" + hex.EncodeToString(m))
			emit("rawdec b:" + hex.EncodeToString(m))
			count("mutated")
		}
	}
	// enumeration: every split point / every failure offset of a few small streams
	ne := 6
	if thorough {
		ne = 300
	}
	for i := 0; i < ne; i++ {
		b := fragSeal(rng, fragRecords(rng, 6))
		if len(b) > 700 {
			continue
		}
		for cut := 0; cut <= len(b); cut++ {
			emit(fragOp("raw", 1, "", b, rbLens(rdrFinish([]rdrChunk{{n: cut}, {n: len(b) - cut}}, cut%3))))
			emit(fragOp("raw", 1, "", b, rbLens([]rdrChunk{{n: cut}, {0, rdrErr(3)}})))
			count("enum:split+fail-at")
		}
	}
}
