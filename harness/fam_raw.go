package main

// Family `raw` (ops `raw`, `rawdec`): the real RawDecoder against the model (segments, byte count, outcome; over
// contiguous and fragmenting readers, with failing callbacks), against the independent framing spec (--spec), and
// against the real Decoder with definition and message listeners on the same streams (--prop: C16's agreement).
// Syntax: lean/Driver/Raw.lean.

import (
	"bytes"
	"encoding/hex"
	"errors"
	"fmt"
	"os"
	"strings"

	"github.com/muktihari/fit/decoder"
)

func init() {
	families["raw"] = genRaw
	executors["raw"] = execRaw
	executors["rawdec"] = execRawDec
	executors["rawdech"] = execRawDecUsed
}

var errRawCallback = errors.New("callback failed")

func rawErrClass(err error) string {
	switch {
	case err == nil:
		return "ok"
	case errors.Is(err, errRawCallback):
		return "err:cb"
	case errors.Is(err, decoder.ErrNotFITFile):
		return "err:notfit"
	case errors.Is(err, decoder.ErrMesgDefMissing):
		return "err:defmissing"
	}
	return "err:" + rdrErrClass(err)
}

type rawDigest struct{ l, d uint64 }

func (g *rawDigest) init() { g.l, g.d = 0xcbf29ce484222325, 0xcbf29ce484222325 }
func fnvB(d uint64, b byte) uint64 {
	return (d ^ uint64(b)) * 0x100000001b3
}
func fnvL(d uint64, n int) uint64 {
	return fnvB(fnvB(fnvB(fnvB(d, byte(n)), byte(n>>8)), byte(n>>16)), byte(n>>24))
}
func (g *rawDigest) add(flag byte, b []byte) {
	g.l = fnvL(fnvB(g.l, flag), len(b))
	g.d = fnvL(fnvB(g.d, flag), len(b))
	for _, x := range b {
		g.d = fnvB(g.d, x)
	}
}

func execRaw(args []string) string {
	a, ok := fragParse(args)
	if !ok {
		return "bad-op"
	}
	r, _, _, ok := a.reader()
	if !ok {
		return "bad-op"
	}
	var g rawDigest
	g.init()
	calls, seqs := 0, 0
	n, err := decoder.NewRaw().Decode(r, func(flag decoder.RawFlag, b []byte) error {
		g.add(byte(flag), b)
		calls++
		if a.fail >= 0 && calls-1 == a.fail {
			return errRawCallback
		}
		if flag == decoder.RawFlagCRC {
			seqs++
		}
		return nil
	})
	return fmt.Sprintf("%s n=%d q=%d segs=%d l=%016x d=%016x", rawErrClass(err), n, seqs, calls, g.l, g.d)
}

// rawDecodeUsed: the full decoder's answer on `b` (as fragDecode: checksum ignored, no expansion, definition and message
// listeners) from a Decoder that was USED before: created on `pre`, Next + PeekFileId (which parses the definitions up to the
// file_id message), then — mode 1 — Discard, then Reset onto `b`. C16 quantifies over streams, not over what the decoder did
// before: the answer must be the one a new decoder gives.
func rawDecodeUsed(pre, b []byte, mode int) string {
	var junk strings.Builder
	old := decoder.New(bytes.NewReader(pre), decoder.WithIgnoreChecksum(), decoder.WithMesgDefListener(fragRec{&junk, false, nil}))
	if old.Next() {
		old.PeekFileId()
		if mode == 1 {
			old.Discard()
		}
	}
	var sb strings.Builder
	rec := fragRec{&sb, false, nil}
	old.Reset(bytes.NewReader(b), decoder.WithMesgDefListener(rec), decoder.WithMesgListener(rec),
		decoder.WithNoComponentExpansion(), decoder.WithIgnoreChecksum())
	dec := old
	status := "end"
	for dec.Next() {
		fit, err := dec.Decode()
		if err != nil {
			status = "err:" + fragErrClass(err)
			break
		}
		h := fit.FileHeader
		fmt.Fprintf(&sb, " S%d.%d.%d.%d.%d.%d.%d", h.Size, h.ProtocolVersion, h.ProfileVersion, h.DataSize, h.CRC, fit.CRC, len(fit.Messages))
	}
	if status == "end" {
		if _, err := dec.Decode(); err != nil {
			fmt.Fprintf(&sb, " after=%s", fragErrClass(err))
		}
	}
	return status + sb.String()
}

// `rawdech m:<0|1> pre:<hex> b:<hex>`: as `rawdec b:<hex>`, the full decoder being a used one (see rawDecodeUsed)
func execRawDecUsed(args []string) string {
	if len(args) != 3 || !strings.HasPrefix(args[0], "m:") || !strings.HasPrefix(args[1], "pre:") || !strings.HasPrefix(args[2], "b:") {
		return "bad-op"
	}
	pre, err1 := hex.DecodeString(args[1][4:])
	b, err2 := hex.DecodeString(args[2][2:])
	if err1 != nil || err2 != nil || (args[0] != "m:0" && args[0] != "m:1") {
		return "bad-op"
	}
	return rawDecPair(rawDecodeUsed(pre, b, int(args[0][2]-'0')), b)
}

func execRawDec(args []string) string {
	if len(args) != 1 || !strings.HasPrefix(args[0], "b:") {
		return "bad-op"
	}
	b, err := hex.DecodeString(args[0][2:])
	if err != nil {
		return "bad-op"
	}
	return rawDecPair(fragDecode(bytes.NewReader(b), false, false, 0, false), b)
}

// the full decoder's answer beside the raw decoder's itemised answer on the same stream
func rawDecPair(dec string, b []byte) string {
	var sb strings.Builder
	seqs := 0
	n, rerr := decoder.NewRaw().Decode(bytes.NewReader(b), func(flag decoder.RawFlag, p []byte) error {
		switch flag {
		case decoder.RawFlagFileHeader:
			fmt.Fprintf(&sb, " H%d", len(p))
		case decoder.RawFlagMesgDef:
			fmt.Fprintf(&sb, " D%s", hex.EncodeToString(p))
		case decoder.RawFlagMesgData:
			fmt.Fprintf(&sb, " M%d.%d", p[0], len(p))
		case decoder.RawFlagCRC:
			sb.WriteString(" C")
			seqs++
		default:
			fmt.Fprintf(&sb, " ?%d", flag)
		}
		return nil
	})
	return fmt.Sprintf("dec=%s raw=%s;%d;%d%s", dec, rawErrClass(rerr), n, seqs, sb.String())
}

// rawDropFirstDef cuts the first record out of a stream when it is a definition (header bit 6 set, bit 7 clear) and
// repairs the data size: what follows uses a local message type its own stream no longer defines
func rawDropFirstDef(b []byte) []byte {
	if len(b) < 14 || (b[0] != 12 && b[0] != 14) {
		return b
	}
	hs := int(b[0])
	if len(b) < hs+6 || b[hs]&0xC0 != 0x40 {
		return b
	}
	l := 6 + 3*int(b[hs+5])
	if b[hs]&0x20 != 0 {
		if len(b) < hs+l+1 {
			return b
		}
		l += 1 + 3*int(b[hs+l])
	}
	if len(b) < hs+l {
		return b
	}
	out := append([]byte(nil), b[:hs]...)
	out = append(out, b[hs+l:]...)
	ds := uint32(out[4]) | uint32(out[5])<<8 | uint32(out[6])<<16 | uint32(out[7])<<24
	if ds >= uint32(l) {
		ds -= uint32(l)
	}
	out[4], out[5], out[6], out[7] = byte(ds), byte(ds>>8), byte(ds>>16), byte(ds>>24)
	return out
}

func genRaw(emit func(string), tier string, rng *Rng) {
	thorough := tier == "thorough"
	// every fixture (the big ones: digest ops only)
	for _, p := range integFixtures() {
		b, err := os.ReadFile(p)
		if err != nil {
			continue
		}
		if len(b) > 200<<10 && !thorough {
			continue
		}
		emit("raw b:" + hex.EncodeToString(b))
		count("fixture")
		if len(b) <= 100<<10 {
			emit("rawdec b:" + hex.EncodeToString(b))
		}
	}
	n, maxLen := 2500, 8000
	if thorough {
		n, maxLen = 100000, 70000
	}
	pool, kinds := fragInputs(rng, n, maxLen)
	for i, b := range pool {
		L := len(b)
		count("in:" + kinds[i])
		emit("raw b:" + hex.EncodeToString(b))
		emit("rawdec b:" + hex.EncodeToString(b))
		if i > 0 && rng.Intn(3) == 0 {
			// the same comparison with a USED full decoder: PeekFileId (+ Discard) on another stream of the pool, then Reset;
			// half of the time the new stream has lost its first definition (a record without definition in ITS stream)
			pre, nb := pool[rng.Intn(i)], b
			if rng.Bool() && len(b) > 40 {
				nb = rawDropFirstDef(b)
			}
			emit(fmt.Sprintf("rawdech m:%d pre:%s b:%s", rng.Intn(2), hex.EncodeToString(pre), hex.EncodeToString(nb)))
			count("used-decoder")
		}
		// fragmenting readers (io.ReadFull straight on the reader)
		if rng.Intn(2) == 0 {
			cs := rdrFinish(rdrRandSchedule(rng, L, 1+rng.Intn(5)), rng.Intn(3))
			emit(fragOp("raw", 1, "", b, rbLens(cs)))
			count("sched:clean")
		}
		if rng.Intn(3) == 0 && L > 0 { // failing reader
			k := rng.Intn(L + 1)
			cs := rdrRandSchedule(rng, k, rng.Intn(6))
			cs = append(cs, rdrChunk{0, rdrErr(1 + rng.Intn(5))})
			if rng.Bool() {
				cs = append(cs, rdrChunk{n: L - k})
			}
			emit(fragOp("raw", 1, "", b, rbLens(cs)))
			count("sched:failing")
		}
		if rng.Intn(3) == 0 { // failing callback
			emit(fmt.Sprintf("raw fail=%d b:%s", rng.Intn(12), hex.EncodeToString(b)))
			count("callback-fails")
		}
		// mutations at structure level: a byte of the records changed (definition surgery), tail cut, garbage appended
		if rng.Intn(2) == 0 && L > 20 {
			m := append([]byte(nil), b...)
			switch rng.Intn(4) {
			case 0:
				m[14+rng.Intn(L-14)] = byte(rng.Intn(256))
			case 1:
				m = m[:rng.Intn(L)]
			case 2:
				m = append(m, rng.Bytes(1+rng.Intn(16))...)
			default:
				m[14+rng.Intn(min(L-14, 24))] ^= byte(1 << rng.Intn(8))
			}
			emit("raw b:" + hex.EncodeToString(m))
			emit("rawdec b:" + hex.EncodeToString(m))
			count("mutated")
		}
	}
	// enumeration: every split point / every failure offset of a few small streams
	ne := 6
	if thorough {
		ne = 300
	}
	for i := 0; i < ne; i++ {
		b := fragSeal(rng, fragRecords(rng, 6))
		if len(b) > 700 {
			continue
		}
		for cut := 0; cut <= len(b); cut++ {
			emit(fragOp("raw", 1, "", b, rbLens(rdrFinish([]rdrChunk{{n: cut}, {n: len(b) - cut}}, cut%3))))
			emit(fragOp("raw", 1, "", b, rbLens([]rdrChunk{{n: cut}, {0, rdrErr(3)}})))
			count("enum:split+fail-at")
		}
	}
}
