package main

// Op `redec` of family `rte2e` (property C01, LAST SENTENCE: "whenever the encoder accepts the messages the decoder
// returned for some input, encoding them and decoding again gives those same messages", quantified over "message
// sequences obtained by decoding mutated real files"):
//
//	redec a=<0|1> h=<headerOption> l=<localMessageType> pv=<WithProtocolVersion, 0 = none> chk=<0|1> exp=<0|1> v=<0|1>
//	      o:<p|o> fac:<s|c>/<table|-> dv:<table|-> df:<std|-|table> b:<hex of ANY byte stream>
//
//	1. the REAL decoder (decoder.New(bytes.NewReader(b), …).Next/Decode, factory df:, checksum chk, expansion exp) decodes b;
//	2. every sequence it returned (also those returned before a later sequence failed) is handed — header members and
//	   messages as they are — to a new REAL encoder (options a/h/l/pv) with the REAL message validator (o:/fac:);
//	3. when the encoder accepts them all, the bytes are decoded again by a new REAL decoder (same options).
//
//	answer  dec=<end|err:<class>|panic> ns=<sequences> S…  enc=<ok|err:<kind>@<i>|panic@<i>|-> V…  dec2=<end|err:…|panic|-> ns2=<n> T…
//	        re=<same|diff@<seq>.<msg>|diff@count|->
//	        S<i>:<message i decoded, decapi syntax>   V<i>:<what Validate retained, decapi syntax, header byte 0>
//	        T<i>:<re-decoded message, decapi syntax, header byte 0>; with v=0 the three groups are printed as S#<count>.<fnv> V#… T#… (large fixtures)
//	        re: every re-decoded message is what validation retained of the decoded one — numbers, base types, values AS THEY
//	        ARE — with its first timestamp where it was or in front (`Fit.E2E.seqMatches idValue`); computed here on the
//	        real objects, and again by the Lean driver (--prop) from the S/V/T tokens with the definition the theorem uses.
//
// Generator `genReDec` (called by genRtE2E): every fixture under <repo>/testdata as it is, and STRUCTURE-AWARE mutants of them
// (rdParse: the record structure with its definitions; mutation of values, sizes, base types, field numbers, array
// lengths, string bytes, byte order, header bytes, developer-field definitions and descriptions; then re-framed with
// correct data size and CRCs so that the decoder reaches the mutated part), hand-built streams for the decoder's
// fallbacks (undersized fields, string arrays, developer fields with scale), encoder outputs of the other generators.

import (
	"bytes"
	"encoding/hex"
	"fmt"
	"os"
	"strings"

	"github.com/muktihari/fit/decoder"
	"github.com/muktihari/fit/encoder"
	"github.com/muktihari/fit/profile/basetype"
	"github.com/muktihari/fit/profile/factory"
	"github.com/muktihari/fit/proto"
)

func init() {
	executors["redec"] = execReDec
}

// a message in the decapi syntax without header byte (what validation retained)
func redecKept(m *proto.Message) string {
	c := *m
	c.Header = 0
	return dapiMesg(&c)
}

func redecGroup(pre string, items [][]string, verbose bool) []string {
	var out []string
	if verbose {
		for i, ms := range items {
			for _, s := range ms {
				out = append(out, fmt.Sprintf("%s%d:%s", pre, i, s))
			}
		}
		return out
	}
	var flat []string
	for i, ms := range items {
		for _, s := range ms {
			flat = append(flat, fmt.Sprintf("%d:%s", i, s))
		}
	}
	return []string{fmt.Sprintf("%s#%d.%s", pre, len(flat), dapiDigest(flat, false))}
}

// redecDecode: the Next/Decode loop; the sequences returned (also before an error) and how it ended
func redecDecode(b []byte, do dapiOpts, dfac *dapiFactory) (fits []*proto.FIT, status string) {
	status = "end"
	defer func() {
		if recover() != nil {
			status = "panic"
		}
	}()
	dec := decoder.New(bytes.NewReader(b), do.options(dfac, nil, nil)...)
	for dec.Next() {
		fit, err := dec.Decode()
		if err != nil {
			return fits, "err:" + dapiErr(err)
		}
		fits = append(fits, fit)
	}
	return fits, status
}

func execReDec(args []string) string {
	kvm, rest := parseKV(args)
	if len(rest) != 5 || !strings.HasPrefix(rest[3], "df:") || !strings.HasPrefix(rest[4], "b:") {
		return "bad-op"
	}
	if _, ok := validatorFromArgs(rest[:3]); !ok {
		return "bad-op"
	}
	dfac, ok := parseDapiFactory(rest[3][3:])
	if !ok {
		return "bad-op"
	}
	b, err := hex.DecodeString(rest[4][2:])
	if err != nil {
		return "bad-op"
	}
	verbose := kvm["v"] != "0"
	do := dapiOpts{chk: kvm["chk"] != "0", exp: kvm["exp"] != "0"}
	arch := byte(atoi(kvm["a"]))

	fits, decS := redecDecode(b, do, dfac)
	var S [][]string
	for _, fit := range fits {
		var ms []string
		for k := range fit.Messages {
			ms = append(ms, dapiMesg(&fit.Messages[k]))
		}
		S = append(S, ms)
	}
	out := []string{"dec=" + decS, fmt.Sprintf("ns=%d", len(fits))}
	out = append(out, redecGroup("S", S, verbose)...)
	if len(fits) == 0 || decS == "panic" {
		return strings.Join(append(out, "enc=-", "dec2=-", "ns2=0", "re=-"), " ")
	}

	// 2. the decoded sequences through a new encoder with the real validator
	mv, _ := validatorFromArgs(rest[:3])
	rec := &e2eRecorder{inner: mv}
	opts := []encoder.Option{encoder.WithMessageValidator(rec)}
	if arch == 1 {
		opts = append(opts, encoder.WithBigEndian())
	}
	opts = append(opts, encoder.WithHeaderOption(encoder.HeaderOption(atoi(kvm["h"])), byte(atoi(kvm["l"]))))
	if pv := atoi(kvm["pv"]); pv != 0 {
		opts = append(opts, encoder.WithProtocolVersion(proto.Version(pv)))
	}
	w, dest := newDest("plain")
	enc := encoder.New(w, opts...)
	encS := "ok"
	var V [][]string
	var want [][]string
	for i, fit := range fits {
		msgs := make([]proto.Message, len(fit.Messages))
		for k := range fit.Messages {
			msgs[k] = fit.Messages[k]
			msgs[k].Fields = append([]proto.Field(nil), fit.Messages[k].Fields...)
			msgs[k].DeveloperFields = append([]proto.DeveloperField(nil), fit.Messages[k].DeveloperFields...)
		}
		rec.kept = rec.kept[:0]
		f2 := &proto.FIT{FileHeader: proto.FileHeader{Size: fit.FileHeader.Size, ProtocolVersion: fit.FileHeader.ProtocolVersion,
			ProfileVersion: fit.FileHeader.ProfileVersion}, Messages: msgs}
		err, panicked := func() (err error, p bool) {
			defer func() {
				if recover() != nil {
					p = true
				}
			}()
			return enc.Encode(f2), false
		}()
		if panicked {
			encS = fmt.Sprintf("panic@%d", i)
			break
		}
		if err != nil {
			encS = fmt.Sprintf("%s@%d", e2eErrKind(err), i)
			break
		}
		var vs, ws []string
		for k := range rec.kept {
			vs = append(vs, redecKept(&rec.kept[k]))
			ws = append(ws, e2eProj(&rec.kept[k])+"\x00"+e2eTsFirst(&rec.kept[k], dfac))
		}
		V = append(V, vs)
		want = append(want, ws)
	}
	out = append(out, "enc="+encS)
	out = append(out, redecGroup("V", V, verbose)...)
	if encS != "ok" {
		return strings.Join(append(out, "dec2=-", "ns2=0", "re=-"), " ")
	}

	// 3. decode again
	fits2, dec2S := redecDecode(dest.buf, do, dfac)
	var T, P [][]string
	for _, fit := range fits2 {
		var ms, ps []string
		for k := range fit.Messages {
			ms = append(ms, redecKept(&fit.Messages[k]))
			ps = append(ps, e2eProj(&fit.Messages[k]))
		}
		T = append(T, ms)
		P = append(P, ps)
	}
	out = append(out, "dec2="+dec2S, fmt.Sprintf("ns2=%d", len(fits2)))
	out = append(out, redecGroup("T", T, verbose)...)
	re := "same"
	if dec2S != "end" {
		re = "-"
	} else if len(fits2) != len(want) {
		re = "diff@count"
	} else {
	cmp:
		for k := range fits2 {
			if len(P[k]) != len(want[k]) {
				re = fmt.Sprintf("diff@%d", k)
				break
			}
			for j := range P[k] {
				alt := strings.SplitN(want[k][j], "\x00", 2)
				if P[k][j] != alt[0] && (alt[1] == "" || P[k][j] != alt[1]) {
					re = fmt.Sprintf("diff@%d.%d", k, j)
					break cmp
				}
			}
		}
	}
	return strings.Join(append(out, "re="+re), " ")
}

// ---------------------------------------------------------------- structure of a FIT stream (for the mutations)

type rdFieldDef struct{ num, size, bt byte }

type rdDef struct {
	hdr, reserved, arch byte
	mesgNum             uint16
	fields              []rdFieldDef
	devs                []rdFieldDef // bt = developer data index
}

type rdRec struct {
	def     *rdDef   // a definition record (data == nil) …
	hdr     byte     // … or a data record under `use`
	use     *rdDef
	payload [][]byte // one slice per field definition, then per developer field definition
}

type rdSeq struct {
	hdrSize, pv byte
	prof        uint16
	recs        []rdRec
}

// rdParse splits a stream into sequences and records; ok=false when it is not a well-framed stream (the mutants are
// built from parseable streams only)
func rdParse(b []byte) (seqs []rdSeq, ok bool) {
	for len(b) > 0 {
		if len(b) < 12 || (b[0] != 12 && b[0] != 14) || len(b) < int(b[0]) || string(b[8:12]) != ".FIT" {
			return nil, false
		}
		hs := int(b[0])
		ds := int(b[4]) | int(b[5])<<8 | int(b[6])<<16 | int(b[7])<<24
		if ds <= 0 || len(b) < hs+ds+2 {
			return nil, false
		}
		s := rdSeq{hdrSize: b[0], pv: b[1], prof: uint16(b[2]) | uint16(b[3])<<8}
		body := b[hs : hs+ds]
		var live [16]*rdDef
		for len(body) > 0 {
			h := body[0]
			body = body[1:]
			if h&0xC0 == 0x40 { // definition
				if len(body) < 5 {
					return nil, false
				}
				d := &rdDef{hdr: h, reserved: body[0], arch: body[1]}
				if d.arch == 0 {
					d.mesgNum = uint16(body[2]) | uint16(body[3])<<8
				} else {
					d.mesgNum = uint16(body[2])<<8 | uint16(body[3])
				}
				n := int(body[4])
				body = body[5:]
				if len(body) < 3*n {
					return nil, false
				}
				for i := 0; i < n; i++ {
					d.fields = append(d.fields, rdFieldDef{body[3*i], body[3*i+1], body[3*i+2]})
				}
				body = body[3*n:]
				if h&0x20 != 0 {
					if len(body) < 1 || len(body) < 1+3*int(body[0]) {
						return nil, false
					}
					k := int(body[0])
					d.devs = []rdFieldDef{}
					for i := 0; i < k; i++ {
						d.devs = append(d.devs, rdFieldDef{body[1+3*i], body[2+3*i], body[3+3*i]})
					}
					body = body[1+3*k:]
				}
				live[h&0x0F] = d
				s.recs = append(s.recs, rdRec{def: d})
				continue
			}
			local := h & 0x0F
			if h&0x80 != 0 {
				local = (h & 0x60) >> 5
			}
			d := live[local]
			if d == nil {
				return nil, false
			}
			r := rdRec{hdr: h, use: d}
			for _, f := range append(append([]rdFieldDef(nil), d.fields...), d.devs...) {
				if len(body) < int(f.size) {
					return nil, false
				}
				r.payload = append(r.payload, append([]byte(nil), body[:f.size]...))
				body = body[f.size:]
			}
			s.recs = append(s.recs, r)
		}
		seqs = append(seqs, s)
		b = b[hs+ds+2:]
	}
	return seqs, len(seqs) > 0
}

// bytes of the sequence with correct data size, header CRC and file CRC; the payload of every data record follows the
// CURRENT sizes of its definition (cut or padded with `pad`)
func (s *rdSeq) bytes(pad func(n int) []byte) []byte {
	var recs []byte
	for _, r := range s.recs {
		if r.def != nil {
			d := r.def
			h := d.hdr&^0x20 | 0x40
			if d.devs != nil {
				h |= 0x20
			}
			recs = append(recs, h, d.reserved, d.arch)
			if d.arch == 0 {
				recs = append(recs, byte(d.mesgNum), byte(d.mesgNum>>8))
			} else {
				recs = append(recs, byte(d.mesgNum>>8), byte(d.mesgNum))
			}
			recs = append(recs, byte(len(d.fields)))
			for _, f := range d.fields {
				recs = append(recs, f.num, f.size, f.bt)
			}
			if d.devs != nil {
				recs = append(recs, byte(len(d.devs)))
				for _, f := range d.devs {
					recs = append(recs, f.num, f.size, f.bt)
				}
			}
			continue
		}
		recs = append(recs, r.hdr)
		all := append(append([]rdFieldDef(nil), r.use.fields...), r.use.devs...)
		for i, f := range all {
			var p []byte
			if i < len(r.payload) {
				p = r.payload[i]
			}
			if len(p) > int(f.size) {
				p = p[:f.size]
			} else if len(p) < int(f.size) {
				p = append(append([]byte(nil), p...), pad(int(f.size)-len(p))...)
			}
			recs = append(recs, p...)
		}
	}
	if len(recs) == 0 {
		recs = []byte{0x40, 0, 0, 0, 0, 0} // a sequence needs a non-zero data size
	}
	h := []byte{s.hdrSize, s.pv, byte(s.prof), byte(s.prof >> 8), byte(len(recs)), byte(len(recs) >> 8), byte(len(recs) >> 16), byte(len(recs) >> 24), '.', 'F', 'I', 'T'}
	if s.hdrSize == 14 {
		c := crc16sum(h)
		h = append(h, byte(c), byte(c>>8))
	}
	c := crc16sum(recs) // the decoder restarts its checksum after the header (12-byte headers: see KF-C04-1)
	return append(append(h, recs...), byte(c), byte(c>>8))
}

func rdBytes(seqs []rdSeq, pad func(n int) []byte) []byte {
	var out []byte
	for i := range seqs {
		out = append(out, seqs[i].bytes(pad)...)
	}
	return out
}

// keep at most n records per sequence (definitions stay in front of their data records)
func rdHead(seqs []rdSeq, n int) []rdSeq {
	var out []rdSeq
	for _, s := range seqs {
		c := s
		if len(c.recs) > n {
			c.recs = append([]rdRec(nil), c.recs[:n]...)
		}
		out = append(out, c)
	}
	return out
}

// deep copy (definitions are shared between a definition record and its data records: keep the sharing)
func rdClone(seqs []rdSeq) []rdSeq {
	out := make([]rdSeq, len(seqs))
	for i, s := range seqs {
		out[i] = s
		m := map[*rdDef]*rdDef{}
		cp := func(d *rdDef) *rdDef {
			if d == nil {
				return nil
			}
			if c, ok := m[d]; ok {
				return c
			}
			c := *d
			c.fields = append([]rdFieldDef(nil), d.fields...)
			if d.devs != nil {
				c.devs = append([]rdFieldDef{}, d.devs...)
			}
			m[d] = &c
			return &c
		}
		out[i].recs = make([]rdRec, len(s.recs))
		for k, r := range s.recs {
			n := rdRec{def: cp(r.def), hdr: r.hdr, use: cp(r.use)}
			for _, p := range r.payload {
				n.payload = append(n.payload, append([]byte(nil), p...))
			}
			out[i].recs[k] = n
		}
	}
	return out
}

var rdValidBts = []byte{0x00, 0x01, 0x02, 0x83, 0x84, 0x85, 0x86, 0x07, 0x88, 0x89, 0x0A, 0x8B, 0x8C, 0x0D, 0x8E, 0x8F, 0x90}

// one structure-aware mutation; the name of the kind (for the distribution)
func rdMutate(rng *Rng, seqs []rdSeq) string {
	s := &seqs[rng.Intn(len(seqs))]
	var defs, datas []int
	for i, r := range s.recs {
		if r.def != nil {
			defs = append(defs, i)
		} else if len(r.payload) > 0 {
			datas = append(datas, i)
		}
	}
	pickDef := func() *rdDef {
		if len(defs) == 0 {
			return nil
		}
		return s.recs[defs[rng.Intn(len(defs))]].def
	}
	pickField := func(d *rdDef) *rdFieldDef {
		if d == nil || len(d.fields) == 0 {
			return nil
		}
		return &d.fields[rng.Intn(len(d.fields))]
	}
	switch k := rng.Intn(16); k {
	case 0, 1: // a bit / a byte of a value
		if len(datas) == 0 {
			return "none"
		}
		r := &s.recs[datas[rng.Intn(len(datas))]]
		p := r.payload[rng.Intn(len(r.payload))]
		if len(p) == 0 {
			return "none"
		}
		if k == 0 {
			p[rng.Intn(len(p))] ^= 1 << rng.Intn(8)
			return "value-bit"
		}
		p[rng.Intn(len(p))] = []byte{0, 1, 2, 0x7f, 0x80, 0xfe, 0xff, byte(rng.Intn(256))}[rng.Intn(8)]
		return "value-byte"
	case 2: // a whole value set to all-ones / all-zeroes (the invalid sentinels)
		if len(datas) == 0 {
			return "none"
		}
		r := &s.recs[datas[rng.Intn(len(datas))]]
		p := r.payload[rng.Intn(len(r.payload))]
		v := []byte{0xff, 0, 0x7f}[rng.Intn(3)]
		for i := range p {
			p[i] = v
		}
		return "value-sentinel"
	case 3, 4: // the size of a field: smaller than the base type, not a multiple of it, one element, several, zero
		f := pickField(pickDef())
		if f == nil {
			return "none"
		}
		bs := int(basetype.BaseType(f.bt).Size())
		if bs == 0 {
			bs = 1
		}
		old := int(f.size)
		var n int
		switch rng.Intn(8) {
		case 0:
			n = 0
		case 1:
			n = rng.Intn(bs) // undersized
		case 2:
			n = bs
		case 3:
			n = bs * (2 + rng.Intn(3))
		case 4:
			n = old - 1 - rng.Intn(bs) // truncated array
		case 5:
			n = old + 1 + rng.Intn(bs)
		case 6:
			n = old / 2
		default:
			n = rng.Intn(20)
		}
		if n < 0 {
			n = 0
		}
		if n > 255 {
			n = 255
		}
		f.size = byte(n)
		return "field-size"
	case 5: // the base type of a field (same size: the bytes are read differently)
		f := pickField(pickDef())
		if f == nil {
			return "none"
		}
		if rng.Intn(12) == 0 {
			f.bt = []byte{0x03, 0x80, 0x55, 0x11, 0x91, 0xff}[rng.Intn(6)]
			return "field-basetype-invalid"
		}
		f.bt = rdValidBts[rng.Intn(len(rdValidBts))]
		return "field-basetype"
	case 6: // the number of a field: another field of the message, an unknown one, the timestamp
		f := pickField(pickDef())
		if f == nil {
			return "none"
		}
		f.num = []byte{f.num + 1, 253, 0, 1, 2, 3, byte(rng.Intn(256)), 250}[rng.Intn(8)]
		return "field-num"
	case 7: // bytes of a string field: an inner NUL, no terminator, empty pieces, invalid UTF-8, U+FFFD
		var cand [][2]int
		for _, i := range datas {
			r := &s.recs[i]
			for j, f := range r.use.fields {
				if f.bt == 0x07 && j < len(r.payload) && len(r.payload[j]) > 0 {
					cand = append(cand, [2]int{i, j})
				}
			}
		}
		if len(cand) == 0 {
			return "none"
		}
		c := cand[rng.Intn(len(cand))]
		p := s.recs[c[0]].payload[c[1]]
		switch rng.Intn(7) {
		case 0:
			p[rng.Intn(len(p))] = 0
		case 1:
			p[len(p)-1] = 'x'
		case 2:
			p[rng.Intn(len(p))] = []byte{0xff, 0xc0, 0x80, 0xfe}[rng.Intn(4)]
		case 3:
			if len(p) >= 4 {
				i := rng.Intn(len(p) - 3)
				copy(p[i:], []byte{0xef, 0xbf, 0xbd})
			}
		case 4:
			for i := range p {
				p[i] = 0
			}
		case 5: // "a\0\xff\0…": two terminated pieces, the second not UTF-8
			if len(p) >= 4 {
				copy(p, []byte{'a', 0, 0xff, 0})
			}
		default:
			if len(p) >= 5 {
				copy(p, []byte{'a', 0, 0, 'b', 0})
			}
		}
		return "string-bytes"
	case 8: // byte order of a definition (the data stay as they are)
		d := pickDef()
		if d == nil {
			return "none"
		}
		d.arch ^= 1
		if rng.Intn(8) == 0 {
			d.arch = byte(2 + rng.Intn(254))
		}
		return "def-arch"
	case 9: // the message number of a definition: another profile message, field_description, developer_data_id, unknown
		d := pickDef()
		if d == nil {
			return "none"
		}
		d.mesgNum = []uint16{0, 18, 19, 20, 21, 23, 34, 49, 206, 207, 0xff00, uint16(rng.Intn(65536))}[rng.Intn(12)]
		return "def-mesgnum"
	case 10: // a data record header turned into a compressed-timestamp header (or back)
		if len(datas) == 0 {
			return "none"
		}
		r := &s.recs[datas[rng.Intn(len(datas))]]
		if r.hdr&0x80 == 0 && r.hdr&0x0F < 4 {
			r.hdr = 0x80 | (r.hdr&0x03)<<5 | byte(rng.Intn(32))
		} else if r.hdr&0x80 != 0 {
			r.hdr = r.hdr&^0x1F | byte(rng.Intn(32))
		}
		return "record-header"
	case 11: // a record deleted / repeated
		if len(s.recs) < 2 {
			return "none"
		}
		i := rng.Intn(len(s.recs))
		if rng.Bool() {
			s.recs = append(s.recs[:i:i], s.recs[i+1:]...)
			return "record-deleted"
		}
		s.recs = append(s.recs[:i+1:i+1], s.recs[i:]...)
		return "record-repeated"
	case 12: // a field definition added (the data are padded) / removed
		d := pickDef()
		if d == nil {
			return "none"
		}
		if rng.Bool() && len(d.fields) > 1 {
			i := rng.Intn(len(d.fields))
			d.fields = append(d.fields[:i:i], d.fields[i+1:]...)
			for k := range s.recs {
				if s.recs[k].use == d && i < len(s.recs[k].payload) {
					p := s.recs[k].payload
					s.recs[k].payload = append(p[:i:i], p[i+1:]...)
				}
			}
			return "field-removed"
		}
		bt := rdValidBts[rng.Intn(len(rdValidBts))]
		nf := rdFieldDef{byte(rng.Intn(256)), byte(int(basetype.BaseType(bt).Size()) * (1 + rng.Intn(3))), bt}
		at := len(d.fields)
		d.fields = append(d.fields, nf)
		for k := range s.recs {
			if s.recs[k].use == d {
				p := s.recs[k].payload
				if at > len(p) {
					continue
				}
				s.recs[k].payload = append(append(append([][]byte(nil), p[:at]...), rng.Bytes(int(nf.size))), p[at:]...)
			}
		}
		return "field-added"
	case 13: // a developer field definition: size, developer data index, number
		var ds []*rdDef
		for _, i := range defs {
			if len(s.recs[i].def.devs) > 0 {
				ds = append(ds, s.recs[i].def)
			}
		}
		if len(ds) == 0 {
			return "none"
		}
		d := ds[rng.Intn(len(ds))]
		f := &d.devs[rng.Intn(len(d.devs))]
		switch rng.Intn(4) {
		case 0:
			f.size = byte(rng.Intn(12))
		case 1:
			f.size = f.size * 2
		case 2:
			f.bt = byte(rng.Intn(3)) // developer data index
		default:
			f.num = byte(rng.Intn(6))
		}
		return "dev-def"
	case 14: // a field_description record: its base type id, scale, offset, native numbers
		var cand [][2]int
		for _, i := range datas {
			r := &s.recs[i]
			if r.use.mesgNum != 206 {
				continue
			}
			for j, f := range r.use.fields {
				if (f.num == 2 || f.num == 6 || f.num == 7 || f.num == 14 || f.num == 15 || f.num == 0 || f.num == 1) && j < len(r.payload) && len(r.payload[j]) > 0 {
					cand = append(cand, [2]int{i, j})
				}
			}
		}
		if len(cand) == 0 {
			return "none"
		}
		c := cand[rng.Intn(len(cand))]
		r := &s.recs[c[0]]
		p := r.payload[c[1]]
		switch r.use.fields[c[1]].num {
		case 2:
			p[0] = rdValidBts[rng.Intn(len(rdValidBts))]
			if rng.Intn(10) == 0 {
				p[0] = 0x55
			}
		case 6:
			p[0] = []byte{1, 2, 10, 100, 255}[rng.Intn(5)]
		case 7:
			p[0] = []byte{0, 1, 10, 0x7f, 0xff}[rng.Intn(5)]
		default:
			p[0] = byte(rng.Intn(4))
		}
		return "field-description"
	default: // a definition record dropped from the stream (its data records meet the previous one or none)
		if len(defs) < 2 {
			return "none"
		}
		i := defs[1+rng.Intn(len(defs)-1)]
		s.recs = append(s.recs[:i:i], s.recs[i+1:]...)
		return "def-deleted"
	}
}

// ---------------------------------------------------------------- hand-built streams for the decoder's fallbacks

type rdCraft struct {
	name string
	fac  string // decoder factory: "std" or a table
	recs []byte
}

func rdData(local byte, payload ...[]byte) []byte {
	b := []byte{local & 0x0F}
	for _, p := range payload {
		b = append(b, p...)
	}
	return b
}

func rdCrafted(rng *Rng) []rdCraft {
	var out []rdCraft
	cat := func(bs ...[]byte) []byte {
		var o []byte
		for _, b := range bs {
			o = append(o, b...)
		}
		return o
	}
	fd := func(num, size, bt byte) dapiFD { return dapiFD{num, size, bt} }
	arch := byte(rng.Intn(2))
	// a field the factory knows as an ARRAY, written with fewer bytes than one element (hrv.time: uint16 array; a table array field)
	out = append(out, rdCraft{"undersized-array-std", "std", cat(dapiDefRec(0, arch, 78, []dapiFD{fd(0, 1, 0x84)}, nil), rdData(0, []byte{7}))})
	out = append(out, rdCraft{"undersized-array-std", "std", cat(dapiDefRec(0, arch, 78, []dapiFD{fd(0, 1, 0x84), fd(1, 2, 0x84)}, nil), rdData(0, []byte{7}, []byte{1, 2}))})
	out = append(out, rdCraft{"undersized-array-table", "20.5.84.a;20.14.8e.a;20.3.02.-", cat(dapiDefRec(0, arch, 20, []dapiFD{fd(5, 1, 0x84), fd(14, 3, 0x8e), fd(3, 1, 0x02)}, nil), rdData(0, []byte{9}, []byte{1, 2, 3}, []byte{70}))})
	// every base type wider than a byte as an ARRAY field of a table factory, each written with 1 … size-1 random bytes
	// (the fallback converts to the field's base type — floats by value — and returns the one-element array)
	{
		bts := []byte{0x83, 0x84, 0x85, 0x86, 0x88, 0x89, 0x8b, 0x8c, 0x8e, 0x8f, 0x90}
		szs := []int{2, 2, 4, 4, 4, 8, 2, 4, 8, 8, 8}
		var tab []string
		var fds []dapiFD
		var vals [][]byte
		for i, bt := range bts {
			n := 1 + rng.Intn(szs[i]-1)
			tab = append(tab, fmt.Sprintf("20.%d.%02x.a", 30+i, bt))
			fds = append(fds, fd(byte(30+i), byte(n), bt))
			vals = append(vals, rng.Bytes(n))
		}
		out = append(out, rdCraft{"undersized-array-every-type", strings.Join(tab, ";"), cat(dapiDefRec(0, arch, 20, fds, nil), rdData(0, vals...))})
	}
	// … and a scalar field / an unknown field written undersized (comes back as a scalar either way)
	out = append(out, rdCraft{"undersized-scalar", "std", cat(dapiDefRec(0, arch, 20, []dapiFD{fd(253, 3, 0x86), fd(2, 1, 0x84), fd(200, 1, 0x84), fd(201, 3, 0x88), fd(202, 7, 0x89)}, nil),
		rdData(0, []byte{1, 2, 3}, []byte{4}, []byte{5}, []byte{6, 7, 8}, rng.Bytes(7)))})
	// string arrays in a field without profile entry: pieces that do not survive the UTF-8 cleaning, empty pieces, no terminator
	for _, s := range [][]byte{{'a', 0, 0xff, 0}, {0xff, 0, 0xfe, 0}, {'a', 0, 'b', 0}, {'a', 0, 0, 'b', 0}, {'a', 0, 'b'}, {0, 0, 0}, {'a', 0, 0xef, 0xbf, 0xbd, 0}, {0xef, 0xbf, 0xbd, 0, 'x', 0, 'y', 0}} {
		out = append(out, rdCraft{"string-array-unknown", "std", cat(dapiDefRec(0, arch, 0xff00, []dapiFD{fd(1, byte(len(s)), 0x07), fd(2, 1, 0x02)}, nil), rdData(0, s, []byte{1}))})
		// the same bytes in a developer field described as a string
		out = append(out, rdCraft{"string-array-dev", "std", cat(
			dapiDefRec(0, arch, 207, []dapiFD{fd(3, 1, 0x02)}, nil), rdData(0, []byte{0}),
			dapiDefRec(1, arch, 206, []dapiFD{fd(0, 1, 0x02), fd(1, 1, 0x02), fd(2, 1, 0x02)}, nil), rdData(1, []byte{0}, []byte{1}, []byte{0x07}),
			dapiDefRec(2, arch, 20, []dapiFD{fd(3, 1, 0x02)}, []dapiFD{fd(1, byte(len(s)), 0)}), rdData(2, []byte{70}, s))})
		// … and in fields the profile knows as a scalar string / a string array
		out = append(out, rdCraft{"string-known", "std", cat(dapiDefRec(0, arch, 0, []dapiFD{fd(8, byte(len(s)), 0x07)}, nil), rdData(0, s),
			dapiDefRec(1, arch, 206, []dapiFD{fd(3, byte(len(s)), 0x07), fd(0, 1, 0x02)}, nil), rdData(1, s, []byte{0}))})
	}
	// developer fields described with a scale / an offset / a native field, every base type
	for _, bt := range []byte{0x89, 0x88, 0x84, 0x02, 0x86} {
		for _, so := range [][2]byte{{2, 0}, {1, 0}, {1, 1}, {100, 5}, {255, 0x7f}} {
			sz := byte(basetype.BaseType(bt).Size())
			val := rng.Bytes(int(sz))
			if bt == 0x89 {
				val = []byte{0, 0, 0, 0, 0, 0, 0xf8, 0x3f} // 1.5
				if arch == 1 {
					val = []byte{0x3f, 0xf8, 0, 0, 0, 0, 0, 0}
				}
			}
			out = append(out, rdCraft{"dev-scaled", "std", cat(
				dapiDefRec(0, arch, 207, []dapiFD{fd(3, 1, 0x02)}, nil), rdData(0, []byte{0}),
				dapiDefRec(1, arch, 206, []dapiFD{fd(0, 1, 0x02), fd(1, 1, 0x02), fd(2, 1, 0x02), fd(6, 1, 0x02), fd(7, 1, 0x01)}, nil),
				rdData(1, []byte{0}, []byte{1}, []byte{bt}, []byte{so[0]}, []byte{so[1]}),
				dapiDefRec(2, arch, 20, []dapiFD{fd(3, 1, 0x02)}, []dapiFD{fd(1, sz, 0)}), rdData(2, []byte{70}, val))})
		}
	}
	// key members of a field_description that are invalid for their own base type / repeated / missing
	for _, keys := range [][3]byte{{0xff, 1, 0x02}, {0, 0xff, 0x02}, {0, 1, 0xff}, {0, 1, 0x84}} {
		out = append(out, rdCraft{"dev-odd-keys", "std", cat(
			dapiDefRec(0, arch, 207, []dapiFD{fd(3, 1, 0x02)}, nil), rdData(0, []byte{keys[0]}),
			dapiDefRec(1, arch, 206, []dapiFD{fd(0, 1, 0x02), fd(1, 1, 0x02), fd(2, 1, 0x02)}, nil), rdData(1, []byte{keys[0]}, []byte{keys[1]}, []byte{keys[2]}),
			dapiDefRec(2, arch, 20, []dapiFD{fd(3, 1, 0x02)}, []dapiFD{fd(keys[1], 2, keys[0])}), rdData(2, []byte{70}, []byte{1, 2}))})
	}
	// sizes that are not a multiple of the base type: in a message without profile entry (array inference: larger than one
	// element AND a multiple of it), in a profile array field (the partial element is dropped), in a profile scalar field
	// (first element only), every multi-byte base type
	for _, bt := range []byte{0x83, 0x84, 0x85, 0x86, 0x88, 0x89, 0x8B, 0x8C, 0x8E, 0x8F, 0x90} {
		bs := int(basetype.BaseType(bt).Size())
		for _, sz := range []int{bs + 1, 2*bs + 1, 3*bs - 1, 2 * bs, 3 * bs} {
			out = append(out, rdCraft{"odd-size-unknown", "std", cat(dapiDefRec(0, arch, 0xff00, []dapiFD{fd(1, byte(sz), bt), fd(2, 1, 0x02)}, nil), rdData(0, rng.Bytes(sz), []byte{1}))})
			out = append(out, rdCraft{"odd-size-table", fmt.Sprintf("20.5.%02x.a;20.6.%02x.-;20.3.02.-", bt, bt),
				cat(dapiDefRec(0, arch, 20, []dapiFD{fd(5, byte(sz), bt), fd(6, byte(sz), bt), fd(3, 1, 0x02)}, nil), rdData(0, rng.Bytes(sz), rng.Bytes(sz), []byte{70}))})
		}
	}
	// a compressed-timestamp record whose definition also carries field 253; two fields 253
	out = append(out, rdCraft{"timestamps", "std", cat(dapiDefRec(0, arch, 20, []dapiFD{fd(253, 4, 0x86), fd(3, 1, 0x02)}, nil),
		rdData(0, []byte{0, 0xca, 0x9a, 0x3b}, []byte{70}), []byte{0x80 | 5}, []byte{1, 0xca, 0x9a, 0x3b}, []byte{71},
		dapiDefRec(1, arch, 20, []dapiFD{fd(3, 1, 0x02), fd(253, 4, 0x86), fd(253, 4, 0x86)}, nil), rdData(1, []byte{72}, []byte{2, 0xca, 0x9a, 0x3b}, []byte{3, 0xca, 0x9a, 0x3b}))})
	// profile-bool fields with bytes other than 0 / 1 / 255, a bool array (table factory)
	out = append(out, rdCraft{"bools", "20.4.00.b;20.12.00.ab;20.3.02.-", cat(dapiDefRec(0, arch, 20, []dapiFD{fd(4, 1, 0x00), fd(12, 3, 0x00), fd(3, 1, 0x02)}, nil),
		rdData(0, []byte{7}, []byte{0x1c, 1, 0}, []byte{70}))})
	return out
}

// ---------------------------------------------------------------- generator

func redecLine(rng *Rng, o e2eOpts, dfac string, verbose bool, b []byte) string {
	// the operation line carries the DiscardValue oracle and the factory entries the validator will ask for: they are read
	// off what the real decoder returns for these bytes (the correspondence check compares the decoding itself)
	var pf *dapiFactory
	if dfac != "std" {
		pf, _ = parseDapiFactory(dfac)
	}
	fits, _ := redecDecode(b, dapiOpts{chk: o.chk == 1, exp: o.exp == 1}, pf)
	var all []proto.Message
	for i, fit := range fits {
		if i > 0 {
			all = append(all, proto.Message{Num: 0xffff})
		}
		all = append(all, cloneMsgs(fit.Messages)...)
	}
	lb := newLine(true)
	hdr := lb.header(o.preserve, all)
	v := 0
	if verbose {
		v = 1
	}
	return fmt.Sprintf("redec a=%d h=%d l=%d pv=%d chk=%d exp=%d v=%d %s df:%s b:%s", o.arch, o.hopt, o.lmt, o.pv, o.chk, o.exp, v, hdr, dfac, hex.EncodeToString(b))
}

func genReDec(emit func(string), tier string, rng *Rng) {
	thorough := tier == "thorough"
	zero := func(n int) []byte { return make([]byte, n) }
	opts := func() e2eOpts {
		o := e2eRandOpts(rng)
		o.exp = 0
		if rng.Intn(3) != 0 {
			o.pv = 0x20
		}
		return o
	}
	// how the stream fared (measured on the real code while generating; the check counts again from the answers)
	classify := func(line string) {
		ans := execLine(line)
		switch {
		case strings.Contains(ans, "ns=0 "):
			count("redec:rejected-by-decoder")
		case !strings.Contains(ans, "enc=ok"):
			count("redec:rejected-by-encoder")
		case strings.Contains(ans, "re=same"):
			count("redec:compared-same")
		default:
			count("redec:compared-other")
		}
	}
	put := func(line string) {
		emit(line)
		classify(line)
	}

	// --- a. hand-built streams for the decoder's fallbacks
	for _, c := range rdCrafted(rng) {
		for _, hs := range []int{14, 12} {
			if strings.HasPrefix(c.name, "odd-size") && hs == 12 {
				continue
			}
			b := dapiSeq(hs, true, c.recs)
			for rep := 0; rep < 2; rep++ {
				if strings.HasPrefix(c.name, "odd-size") && rep == 1 {
					continue
				}
				o := opts()
				o.pv = 0x20
				o.preserve = rep == 1
				put(redecLine(rng, o, c.fac, true, b))
				count("redec:crafted:" + c.name)
			}
		}
	}

	// --- b. every fixture: as it is (large ones: digests; head of the record list in full) and structure-aware mutants
	type fx struct {
		name string
		seqs []rdSeq
	}
	var pool []fx
	for _, p := range fixtureFiles() {
		b, err := os.ReadFile(p)
		if err != nil {
			continue
		}
		name := p[strings.LastIndexByte(p, '/')+1:]
		seqs, ok := rdParse(b)
		if len(b) <= 100000 || thorough && len(b) <= 300000 {
			o := opts()
			o.pv = 0x20
			put(redecLine(rng, o, "std", len(b) <= 4000, b))
			count("redec:fixture-whole")
		}
		if !ok {
			// not a well-framed stream (truncated sample): byte mutants only
			o := opts()
			put(redecLine(rng, o, "std", len(b) <= 4000, b))
			count("redec:fixture-unparseable")
			continue
		}
		// the same records re-framed by rdSeq.bytes must decode like the original (self-check of the mutation machinery)
		if len(b) <= 100000 {
			if rb := rdBytes(seqs, zero); !bytes.Equal(rb, b) {
				count("redec:reframed-differs") // 12-byte headers of old samples: CRC over header+records — expected for those
			}
		}
		head := rdHead(seqs, 60)
		o := opts()
		o.pv = 0x20
		put(redecLine(rng, o, "std", true, rdBytes(head, zero)))
		count("redec:fixture-head")
		pool = append(pool, fx{name, seqs})
	}
	nMut := 400
	if thorough {
		nMut = 30000
	}
	for it := 0; it < nMut && len(pool) > 0; it++ {
		f := pool[rng.Intn(len(pool))]
		// a window of the record list (definitions before the window are kept so that the data records stay decodable)
		src := f.seqs
		var win []rdSeq
		for _, s := range src {
			c := s
			if len(s.recs) > 40 {
				start := rng.Intn(len(s.recs) - 20)
				var keep []rdRec
				seen := map[*rdDef]bool{}
				for _, r := range s.recs[start:min(start+30+rng.Intn(30), len(s.recs))] {
					if r.def == nil && !seen[r.use] {
						keep = append(keep, rdRec{def: r.use})
						seen[r.use] = true
					}
					if r.def != nil {
						seen[r.def] = true
					}
					keep = append(keep, r)
				}
				c.recs = keep
			}
			win = append(win, c)
		}
		m := rdClone(win)
		var kinds []string
		for k := 1 + rng.Intn(3); k > 0; k-- {
			kinds = append(kinds, rdMutate(rng, m))
		}
		pad := zero
		if rng.Intn(3) == 0 {
			pad = func(n int) []byte { return rng.Bytes(n) }
		} else if rng.Intn(3) == 0 {
			pad = func(n int) []byte { return bytes.Repeat([]byte{0xff}, n) }
		}
		b := rdBytes(m, pad)
		if len(b) > 6000 {
			continue
		}
		o := opts()
		put(redecLine(rng, o, "std", true, b))
		count("redec:mutant")
		for _, k := range kinds {
			count("redec:mutation:" + k)
		}
		if it%10 == 0 { // the same mutant with a decoder factory that knows nothing / with a byte mutation on top
			put(redecLine(rng, o, "-", true, b))
			count("redec:mutant-empty-factory")
			put(redecLine(rng, o, "std", true, mutate(rng, b)))
			count("redec:mutant-bytes")
		}
	}

	// --- c. what the real encoder wrote for the message lists of the other generators, and byte mutants of it
	var ops []string
	genEncW(func(l string) { ops = append(ops, l) }, "quick", rng.Fork(11))
	nEnc := 150
	if thorough {
		nEnc = 4000
	}
	for i := 0; i < nEnc && i < len(ops); i++ {
		b := encodeOp(ops[rng.Intn(len(ops))])
		if len(b) == 0 || len(b) > 4000 {
			continue
		}
		o := opts()
		put(redecLine(rng, o, "std", true, b))
		count("redec:encoder-output")
		put(redecLine(rng, o, "std", true, mutate(rng, b)))
		count("redec:encoder-output-mutated")
	}
	// --- d. developer-data streams (wire_dev.go): descriptions valid / invalid / duplicated, developer fields of odd sizes
	nDev := 150
	if thorough {
		nDev = 4000
	}
	for i := 0; i < nDev; i++ {
		b := devwStream(rng)
		if len(b) > 4000 {
			continue
		}
		o := opts()
		o.pv = 0x20
		put(redecLine(rng, o, "std", true, b))
		count("redec:devstream")
	}
	_ = factory.NameUnknown
}
