package main

// Families `decapi` and `dechist` (properties C03, C07): the public API of decoder.Decoder driven as a state
// machine. One operation line = options + factory table + operation list + the byte streams of the readers:
//
//	decapi|dechist v:<0|1> o:<opts> f:<factory> ops:<op,op,...> b:<hex> [r:<hex> ...]
//
//	<opts>    chk<0|1>,exp<0|1>,bo<0|1>,bc<0|1>,ml<0|1>,dl<0|1>,lw<0|1>,rbs<n>
//	<factory> "-" | <entry>;<entry>;...   <entry> = <mesgNum>.<fieldNum>.<basetype 2 hex>.<flags>[:<comp>,<comp>,...]
//	          flags: "-" or a subsequence of "abc" (a FieldBase.Array, b Type==profile.Bool, c Accumulate);
//	          <comp> = <destination fieldNum>.<bits>.<a|-> (a: Component.Accumulate); scale 1 and offset 0 everywhere;
//	          every (mesgNum, fieldNum) not listed is an unknown field (as factory.createUnknownField makes it);
//	          "std" = the decoder's default, factory.StandardFactory() (such lines run with exp0: the model has the
//	          standard factory's base types / array / bool / accumulate flags, regenerated, not its components)
//	<op>      dec | decx (DecodeWithContext, live context) | decc (cancelled context)
//	          | decx:<k> (DecodeWithContext whose context is cancelled WHILE the call runs: k ≥ 1 — by a listener, during the
//	          call it receives for the k-th record, definition or data, decoded by this call (the line then registers a
//	          counting message listener and message-definition listener besides the printing ones); k = 0 — at the first
//	          Read of the call, all readers of the line then delivering one byte per Read so that every request of the
//	          decoder reaches the reader; a k beyond the records of the call: never cancelled) | pkh | pki | dis | nxt
//	          | ci (CheckIntegrity, then the documented reader.Seek(0, io.SeekStart)) | rst<k> (Reset onto a new
//	          bytes.Reader over the k-th `r:` stream, k ≥ 1, same options)
//
// Answer: one token per executed operation (execution stops after a panic):
//
//	dec/decx/decc  ok:<size>.<protover>.<profilever>.<datasize>.<hdrcrc>.<crc>:<nmesgs>:<digest> | err:<class>
//	pkh            ok:<size>.<protover>.<profilever>.<datasize>.<hdrcrc> | err:<class>
//	pki            ok:<type>.<manufacturer>.<product>.<serial>.<timecreated>.<number>.<productname hex|->.<nunknown> | err:<class>
//	dis            ok | err:<class>          nxt  t | f          ci  ok:<n> | err:<class>:<n>         rst  ok
//	suffix /e<count>.<digest> when listeners were called during the operation
//
// <digest> = FNV-1a/64 of the canonical text of the messages (v:1 prints the text itself instead).
// <class> ∈ eof notfit crc defmissing basetype ctx other. The Lean side is lean/Driver/DecoderApi.lean.

import (
	"bytes"
	"context"
	"encoding/hex"
	"errors"
	"fmt"
	"io"
	"os"
	"strconv"
	"strings"
	"time"

	"github.com/muktihari/fit/decoder"
	"github.com/muktihari/fit/kit/datetime"
	"github.com/muktihari/fit/kit/hash/crc16"
	"github.com/muktihari/fit/profile"
	"github.com/muktihari/fit/profile/basetype"
	"github.com/muktihari/fit/profile/factory"
	"github.com/muktihari/fit/profile/mesgdef"
	"github.com/muktihari/fit/profile/typedef"
	"github.com/muktihari/fit/profile/untyped/mesgnum"
	"github.com/muktihari/fit/proto"
)

func init() {
	families["decapi"] = genDecApi
	families["dechist"] = genDecHist
	executors["decapi"] = execDecApi
	executors["dechist"] = execDecApi
	executors["decapiconsts"] = execDecApiConsts
	executors["decapistdfac"] = execDecApiStdFactory
}

// decapistdfac: what the decoder reads of the standard factory's fields, one tuple (mesgNum, fieldNum, baseType, flags)
// per known field (flags: 1 Array, 2 Type==profile.Bool, 4 Accumulate), as the body of
// lean/FitModel/Generated/DecApiStdFactory.lean; regenerated on every run. Components and sub-fields are not part of it
// (lines with the standard factory run with component expansion off).
func execDecApiStdFactory(args []string) string {
	fac := factory.StandardFactory()
	var sb strings.Builder
	sb.WriteString("def stdFactoryRaw : List (Nat × Nat × Nat × Nat) := [")
	first := true
	for m := 0; m < 65536; m++ {
		for n := 0; n < 256; n++ {
			f := fac.CreateField(typedef.MesgNum(m), byte(n))
			if f.Name == factory.NameUnknown {
				if n == 0 && m >= 1024 && m < 65280 { // no message of the profile up here: skip the block quickly
					break
				}
				continue
			}
			fl := 0
			if f.Array {
				fl |= 1
			}
			if f.Type == profile.Bool {
				fl |= 2
			}
			if f.Accumulate {
				fl |= 4
			}
			if !first {
				sb.WriteString(", ")
			}
			first = false
			fmt.Fprintf(&sb, "(%d, %d, %d, %d)", m, n, byte(f.BaseType), fl)
		}
	}
	sb.WriteString("]")
	return sb.String()
}

// ---------------------------------------------------------------- constants for the model

// decapiconsts: constants the decoder-API model depends on, as the body of
// lean/FitModel/Generated/DecApiConsts.lean (" ; " separates lines); regenerated on every run.
func execDecApiConsts(args []string) string {
	var tag []string
	for _, c := range []byte(proto.DataTypeFIT) {
		tag = append(tag, fmt.Sprintf("0x%02X", c))
	}
	// bounds of the `vals` arrays of the generated FileId / FieldDescription Reset methods, by probing: the
	// largest field number a known field may have without landing in UnknownFields
	probe := func(mk func(m *proto.Message) int) int {
		bound := -1
		for num := 0; num < 256; num++ {
			m := proto.Message{Fields: []proto.Field{{FieldBase: &proto.FieldBase{Name: "k", Num: byte(num)}, Value: proto.Uint8(1)}}}
			if mk(&m) == 0 {
				bound = num
			}
		}
		return bound
	}
	fileIdBound := probe(func(m *proto.Message) int { return len(mesgdef.NewFileId(m).UnknownFields) })
	fieldDescBound := probe(func(m *proto.Message) int { return len(mesgdef.NewFieldDescription(m).UnknownFields) })
	lines := []string{
		fmt.Sprintf("def reservedbuf : Nat := %d", decoder.VerifReservedBuf),
		fmt.Sprintf("def defaultReadBufferSize : Nat := %d", decoder.VerifDefaultReadBufferSize),
		fmt.Sprintf("def dataTypeFIT : List Nat := [%s]", strings.Join(tag, ", ")),
		fmt.Sprintf("def mesgDefinitionMask : Nat := 0x%02X", proto.MesgDefinitionMask),
		fmt.Sprintf("def mesgCompressedHeaderMask : Nat := 0x%02X", proto.MesgCompressedHeaderMask),
		fmt.Sprintf("def localMesgNumMask : Nat := 0x%02X", proto.LocalMesgNumMask),
		fmt.Sprintf("def compressedLocalMesgNumMask : Nat := 0x%02X", proto.CompressedLocalMesgNumMask),
		fmt.Sprintf("def compressedBitShift : Nat := %d", proto.CompressedBitShift),
		fmt.Sprintf("def compressedTimeMask : Nat := 0x%02X", proto.CompressedTimeMask),
		fmt.Sprintf("def devDataMask : Nat := 0x%02X", proto.DevDataMask),
		fmt.Sprintf("def profileBool : Nat := %d", profile.Bool),
		fmt.Sprintf("def fieldNumTimestamp : Nat := %d", proto.FieldNumTimestamp),
		fmt.Sprintf("def mesgNumFileId : Nat := %d", mesgnum.FileId),
		fmt.Sprintf("def fileIdBound : Nat := %d", fileIdBound),
		fmt.Sprintf("def fieldDescBound : Nat := %d", fieldDescBound),
	}
	return strings.Join(lines, " ; ")
}

// ---------------------------------------------------------------- factory given by the operation line

type dapiFactory struct {
	m map[uint32]*proto.FieldBase
}

func (f *dapiFactory) CreateField(mesgNum typedef.MesgNum, num byte) proto.Field {
	if fb, ok := f.m[uint32(mesgNum)<<8|uint32(num)]; ok {
		return proto.Field{FieldBase: fb}
	}
	return proto.Field{FieldBase: &proto.FieldBase{Name: factory.NameUnknown, Num: num, Scale: 1, Offset: 0}}
}

func parseDapiFactory(s string) (*dapiFactory, bool) {
	f := &dapiFactory{m: map[uint32]*proto.FieldBase{}}
	if s == "-" {
		return f, true
	}
	if s == "std" { // the standard factory (decoder's default): no WithFactory option
		return nil, true
	}
	for _, e := range strings.Split(s, ";") {
		var comps []proto.Component
		if i := strings.IndexByte(e, ':'); i >= 0 {
			for _, cs := range strings.Split(e[i+1:], ",") {
				cp := strings.Split(cs, ".")
				if len(cp) != 3 || (cp[2] != "a" && cp[2] != "-") {
					return nil, false
				}
				dst, err1 := strconv.ParseUint(cp[0], 10, 8)
				bits, err2 := strconv.ParseUint(cp[1], 10, 8)
				if err1 != nil || err2 != nil {
					return nil, false
				}
				comps = append(comps, proto.Component{FieldNum: byte(dst), Bits: byte(bits), Accumulate: cp[2] == "a", Scale: 1, Offset: 0})
			}
			e = e[:i]
		}
		p := strings.Split(e, ".")
		if len(p) != 4 {
			return nil, false
		}
		mn, err1 := strconv.ParseUint(p[0], 10, 16)
		fn, err2 := strconv.ParseUint(p[1], 10, 8)
		bt, err3 := strconv.ParseUint(p[2], 16, 8)
		if err1 != nil || err2 != nil || err3 != nil || len(p[2]) != 2 {
			return nil, false
		}
		fb := &proto.FieldBase{Name: "k", Num: byte(fn), BaseType: basetype.BaseType(bt), Type: profile.Uint8, Scale: 1, Components: comps}
		if p[3] != "-" {
			for _, c := range p[3] {
				switch c {
				case 'a':
					fb.Array = true
				case 'b':
					fb.Type = profile.Bool
				case 'c':
					fb.Accumulate = true
				default:
					return nil, false
				}
			}
		}
		key := uint32(mn)<<8 | uint32(fn)
		if _, dup := f.m[key]; !dup { // the first entry wins (as List.find? in the model)
			f.m[key] = fb
		}
	}
	return f, true
}

// ---------------------------------------------------------------- canonical text

func dapiErr(err error) string {
	switch {
	case err == nil:
		return "ok"
	case errors.Is(err, io.EOF), errors.Is(err, io.ErrUnexpectedEOF):
		return "eof"
	case errors.Is(err, decoder.ErrNotFITFile):
		return "notfit"
	case errors.Is(err, decoder.ErrCRCChecksumMismatch):
		return "crc"
	case errors.Is(err, decoder.ErrMesgDefMissing):
		return "defmissing"
	case errors.Is(err, decoder.VerifErrInvalidBaseType):
		return "basetype"
	case errors.Is(err, context.Canceled):
		return "ctx"
	default:
		return "other"
	}
}

func dapiField(f *proto.Field) string {
	fl := ""
	if f.Array {
		fl += "a"
	}
	if f.Name != factory.NameUnknown {
		fl += "n"
	}
	if f.Type == profile.Bool {
		fl += "b"
	}
	if f.IsExpandedField {
		fl += "x"
	}
	if fl == "" {
		fl = "-"
	}
	return fmt.Sprintf("F%d:%02x:%s:%s", f.Num, byte(f.BaseType), fl, printValue(f.Value))
}

func dapiMesg(m *proto.Message) string {
	var sb strings.Builder
	fmt.Fprintf(&sb, "M%dh%d{", m.Num, m.Header)
	for i := range m.Fields {
		if i > 0 {
			sb.WriteByte(';')
		}
		sb.WriteString(dapiField(&m.Fields[i]))
	}
	sb.WriteByte('|')
	for i := range m.DeveloperFields {
		if i > 0 {
			sb.WriteByte(';')
		}
		d := &m.DeveloperFields[i]
		fmt.Fprintf(&sb, "D%d.%d:%s", d.DeveloperDataIndex, d.Num, printValue(d.Value))
	}
	sb.WriteByte('}')
	return sb.String()
}

func dapiMesgDef(d *proto.MessageDefinition) string {
	fs := make([]string, len(d.FieldDefinitions))
	for i, f := range d.FieldDefinitions {
		fs[i] = fmt.Sprintf("%d.%d.%d", f.Num, f.Size, byte(f.BaseType))
	}
	ds := make([]string, len(d.DeveloperFieldDefinitions))
	for i, f := range d.DeveloperFieldDefinitions {
		ds[i] = fmt.Sprintf("%d.%d.%d", f.Num, f.Size, f.DeveloperDataIndex)
	}
	return fmt.Sprintf("D%d.%d.%d.%d(%s)(%s)", d.Header, d.Reserved, d.Architecture, d.MesgNum, strings.Join(fs, ","), strings.Join(ds, ","))
}

func dapiFnv(h uint64, s string) uint64 {
	for i := 0; i < len(s); i++ {
		h ^= uint64(s[i])
		h *= 0x100000001b3
	}
	return h
}

// digest of a list of texts (each followed by '\n'), or the texts themselves when verbose
func dapiDigest(items []string, verbose bool) string {
	if verbose {
		return "[" + strings.Join(items, "&") + "]"
	}
	h := uint64(0xcbf29ce484222325)
	for _, it := range items {
		h = dapiFnv(h, it)
		h = dapiFnv(h, "\n")
	}
	return fmt.Sprintf("%016x", h)
}

type dapiListener struct {
	evs []string
}

func (l *dapiListener) OnMesg(m proto.Message)              { l.evs = append(l.evs, dapiMesg(&m)) }
func (l *dapiListener) OnMesgDef(d proto.MessageDefinition) { l.evs = append(l.evs, dapiMesgDef(&d)) }

// dapiCtl: what `decx:<k>` needs — listeners that count the records of the current call and cancel its context at the
// k-th, and a hook run at the first Read of the call.
type dapiCtl struct {
	hidden   bool // the line has a decx:<k≥1>: counting listeners are registered
	oneByte  bool // the line has a decx:0: readers deliver one byte per Read
	count    int
	cancelAt int
	cancel   context.CancelFunc
	onRead   func()
}

func (c *dapiCtl) tick() {
	c.count++
	if c.cancel != nil && c.count == c.cancelAt {
		c.cancel()
	}
}
func (c *dapiCtl) OnMesg(proto.Message)              { c.tick() }
func (c *dapiCtl) OnMesgDef(proto.MessageDefinition) { c.tick() }

type dapiSlowReader struct {
	r   *bytes.Reader
	ctl *dapiCtl
}

func (s *dapiSlowReader) Read(p []byte) (int, error) {
	if f := s.ctl.onRead; f != nil {
		s.ctl.onRead = nil
		f()
	}
	if len(p) > 1 {
		p = p[:1]
	}
	return s.r.Read(p)
}

func (c *dapiCtl) reader(r *bytes.Reader) io.Reader {
	if c.oneByte {
		return &dapiSlowReader{r: r, ctl: c}
	}
	return r
}

func dapiCtxOp(op string) (k int, ok bool) {
	if !strings.HasPrefix(op, "decx:") {
		return 0, false
	}
	k, err := strconv.Atoi(op[5:])
	return k, err == nil && k >= 0 && k < 1<<30
}

type dapiLog struct{ n int }

func (l *dapiLog) Write(p []byte) (int, error) { l.n += len(p); return len(p), nil }

func dapiHdr(h *proto.FileHeader) string {
	return fmt.Sprintf("%d.%d.%d.%d.%d", h.Size, byte(h.ProtocolVersion), h.ProfileVersion, h.DataSize, h.CRC)
}

// ---------------------------------------------------------------- executor

type dapiOpts struct {
	chk, exp, bo, bc, ml, dl, lw bool
	rbs                         int
}

func parseDapiOpts(s string) (dapiOpts, bool) {
	o := dapiOpts{chk: true, exp: true}
	for _, kv := range strings.Split(s, ",") {
		set := func(k string, dst *bool) bool {
			if strings.HasPrefix(kv, k) && (kv[len(k):] == "0" || kv[len(k):] == "1") {
				*dst = kv[len(k):] == "1"
				return true
			}
			return false
		}
		switch {
		case set("chk", &o.chk), set("exp", &o.exp), set("bo", &o.bo), set("bc", &o.bc), set("ml", &o.ml), set("dl", &o.dl), set("lw", &o.lw):
		case strings.HasPrefix(kv, "rbs"):
			n, err := strconv.Atoi(kv[3:])
			if err != nil || n < 0 {
				return o, false
			}
			o.rbs = n
		default:
			return o, false
		}
	}
	return o, true
}

func (o dapiOpts) options(fac *dapiFactory, lis *dapiListener, ctl *dapiCtl) []decoder.Option {
	var opts []decoder.Option
	if fac != nil {
		opts = append(opts, decoder.WithFactory(fac))
	}
	if !o.chk {
		opts = append(opts, decoder.WithIgnoreChecksum())
	}
	if !o.exp {
		opts = append(opts, decoder.WithNoComponentExpansion())
	}
	if o.bo {
		opts = append(opts, decoder.WithBroadcastOnly())
	}
	if o.bc {
		opts = append(opts, decoder.WithBroadcastMesgCopy())
	}
	if o.ml {
		opts = append(opts, decoder.WithMesgListener(lis))
	}
	if o.dl {
		opts = append(opts, decoder.WithMesgDefListener(lis))
	}
	if ctl != nil && ctl.hidden {
		opts = append(opts, decoder.WithMesgListener(ctl), decoder.WithMesgDefListener(ctl))
	}
	if o.lw {
		opts = append(opts, decoder.WithLogWriter(&dapiLog{}))
	}
	if o.rbs != 0 {
		opts = append(opts, decoder.WithReadBufferSize(o.rbs))
	}
	return opts
}

func execDecApi(args []string) string {
	var (
		verbose           bool
		optS, facS, opsS  string
		streams           [][]byte
		haveB, haveO, hav bool
	)
	for _, a := range args {
		switch {
		case strings.HasPrefix(a, "v:"):
			verbose = a == "v:1"
		case strings.HasPrefix(a, "o:"):
			optS, haveO = a[2:], true
		case strings.HasPrefix(a, "f:"):
			facS = a[2:]
		case strings.HasPrefix(a, "ops:"):
			opsS, hav = a[4:], true
		case strings.HasPrefix(a, "b:"), strings.HasPrefix(a, "r:"):
			b, err := hex.DecodeString(a[2:])
			if err != nil {
				return "bad-op"
			}
			if a[0] == 'b' {
				if haveB {
					return "bad-op"
				}
				haveB = true
				streams = append([][]byte{b}, streams...)
			} else {
				streams = append(streams, b)
			}
		default:
			return "bad-op"
		}
	}
	if !haveB || !haveO || !hav || facS == "" {
		return "bad-op"
	}
	o, ok := parseDapiOpts(optS)
	fac, ok2 := parseDapiFactory(facS)
	if !ok || !ok2 {
		return "bad-op"
	}
	ops := strings.Split(opsS, ",")
	for _, op := range ops {
		switch op {
		case "dec", "decx", "decc", "pkh", "pki", "dis", "nxt", "ci":
		default:
			if _, ok := dapiCtxOp(op); ok {
				continue
			}
			spec := strings.TrimPrefix(op, "rst")
			if i := strings.IndexByte(spec, '/'); i >= 0 {
				if sz, err := strconv.Atoi(spec[i+1:]); err != nil || sz < 0 || sz > 1<<24 {
					return "bad-op"
				}
				spec = spec[:i]
			}
			k, err := strconv.Atoi(spec)
			if !strings.HasPrefix(op, "rst") || err != nil || k < 1 || k >= len(streams) {
				return "bad-op"
			}
		}
	}
	done := make(chan string, 1)
	go func() { done <- runDecApi(o, fac, ops, streams, verbose) }()
	select {
	case r := <-done:
		return r
	case <-time.After(20 * time.Second):
		return "hang"
	}
}

func runDecApi(o dapiOpts, fac *dapiFactory, ops []string, streams [][]byte, verbose bool) string {
	lis := &dapiListener{}
	ctl := &dapiCtl{}
	for _, op := range ops {
		if k, ok := dapiCtxOp(op); ok {
			if k == 0 {
				ctl.oneByte = true
			} else {
				ctl.hidden = true
			}
		}
	}
	rd := bytes.NewReader(streams[0])
	dec := decoder.New(ctl.reader(rd), o.options(fac, lis, ctl)...)
	var out []string
	for _, op := range ops {
		lis.evs = lis.evs[:0]
		tok, panicked := dapiOne(dec, &rd, op, o, fac, lis, ctl, streams, verbose)
		if len(lis.evs) > 0 {
			if verbose {
				tok += "/e" + dapiDigest(lis.evs, true)
			} else {
				tok += fmt.Sprintf("/e%d.%s", len(lis.evs), dapiDigest(lis.evs, false))
			}
		}
		out = append(out, tok)
		if panicked {
			break
		}
	}
	return strings.Join(out, " ")
}

func dapiFit(fit *proto.FIT, err error, verbose bool) string {
	if err != nil {
		return "err:" + dapiErr(err)
	}
	items := make([]string, len(fit.Messages))
	for i := range fit.Messages {
		items[i] = dapiMesg(&fit.Messages[i])
	}
	return fmt.Sprintf("ok:%s.%d:%d:%s", dapiHdr(&fit.FileHeader), fit.CRC, len(fit.Messages), dapiDigest(items, verbose))
}

func dapiOne(dec *decoder.Decoder, rd **bytes.Reader, op string, o dapiOpts, fac *dapiFactory, lis *dapiListener, ctl *dapiCtl,
	streams [][]byte, verbose bool) (tok string, panicked bool) {
	defer func() {
		if r := recover(); r != nil {
			tok, panicked = "panic", true
			if os.Getenv("VERIF_DEBUG") != "" {
				tok = fmt.Sprintf("panic(%v)", r)
			}
		}
	}()
	if k, ok := dapiCtxOp(op); ok {
		ctx, cancel := context.WithCancel(context.Background())
		defer cancel()
		ctl.count, ctl.cancelAt, ctl.cancel, ctl.onRead = 0, 0, nil, nil
		if k == 0 {
			ctl.onRead = cancel
		} else {
			ctl.cancelAt, ctl.cancel = k, cancel
		}
		defer func() { ctl.cancel, ctl.onRead = nil, nil }()
		fit, err := dec.DecodeWithContext(ctx)
		return dapiFit(fit, err, verbose), false
	}
	switch op {
	case "dec":
		fit, err := dec.Decode()
		return dapiFit(fit, err, verbose), false
	case "decx":
		fit, err := dec.DecodeWithContext(context.Background())
		return dapiFit(fit, err, verbose), false
	case "decc":
		ctx, cancel := context.WithCancel(context.Background())
		cancel()
		fit, err := dec.DecodeWithContext(ctx)
		return dapiFit(fit, err, verbose), false
	case "pkh":
		h, err := dec.PeekFileHeader()
		if err != nil {
			return "err:" + dapiErr(err), false
		}
		return "ok:" + dapiHdr(h), false
	case "pki":
		id, err := dec.PeekFileId()
		if err != nil {
			return "err:" + dapiErr(err), false
		}
		pn := "-"
		if id.ProductName != "" {
			pn = hex.EncodeToString([]byte(id.ProductName))
		}
		return fmt.Sprintf("ok:%d.%d.%d.%d.%d.%d.%s.%d", byte(id.Type), uint16(id.Manufacturer), id.Product, id.SerialNumber,
			datetime.ToUint32(id.TimeCreated), id.Number, pn, len(id.UnknownFields)), false
	case "dis":
		if err := dec.Discard(); err != nil {
			return "err:" + dapiErr(err), false
		}
		return "ok", false
	case "nxt":
		if dec.Next() {
			return "t", false
		}
		return "f", false
	case "ci":
		n, err := dec.CheckIntegrity()
		(*rd).Seek(0, io.SeekStart)
		if err != nil {
			return fmt.Sprintf("err:%s:%d", dapiErr(err), n), false
		}
		return fmt.Sprintf("ok:%d", n), false
	default: // rst<k> or rst<k>/<size>: Reset onto reader k with the line's options (and WithReadBufferSize(size))
		spec, o2 := op[3:], o
		if i := strings.IndexByte(spec, '/'); i >= 0 {
			o2.rbs, _ = strconv.Atoi(spec[i+1:])
			spec = spec[:i]
		}
		k, _ := strconv.Atoi(spec)
		*rd = bytes.NewReader(streams[k])
		dec.Reset(ctl.reader(*rd), o2.options(fac, lis, ctl)...)
		return "ok", false
	}
}

// ---------------------------------------------------------------- building streams

type dapiFD struct{ num, size, bt byte }

func dapiDefRec(local, arch byte, mesgNum uint16, fields []dapiFD, devs []dapiFD) []byte {
	h := byte(0x40) | (local & 0x0F)
	if devs != nil {
		h |= 0x20
	}
	b := []byte{h, 0, arch}
	if arch == 0 {
		b = append(b, byte(mesgNum), byte(mesgNum>>8))
	} else {
		b = append(b, byte(mesgNum>>8), byte(mesgNum))
	}
	b = append(b, byte(len(fields)))
	for _, f := range fields {
		b = append(b, f.num, f.size, f.bt)
	}
	if devs != nil {
		b = append(b, byte(len(devs)))
		for _, f := range devs {
			b = append(b, f.num, f.size, f.bt)
		}
	}
	return b
}

// dapiSeq frames records as one FIT sequence: header (12 or 14 bytes, header CRC computed or zero), records, file CRC
// over the records (the decoder restarts its checksum after the header).
func dapiSeq(hdrSize int, hdrCRC bool, recs []byte) []byte {
	h := []byte{byte(hdrSize), 0x20, 0x9a, 0x52, byte(len(recs)), byte(len(recs) >> 8), byte(len(recs) >> 16), byte(len(recs) >> 24), '.', 'F', 'I', 'T'}
	if hdrSize == 14 {
		c := uint16(0)
		if hdrCRC {
			c = crc16sum(h)
		}
		h = append(h, byte(c), byte(c>>8))
	}
	c := crc16sum(recs)
	out := append(h, recs...)
	return append(out, byte(c), byte(c>>8))
}

// dapiSeqDS frames records as dapiSeq does but declares `ds` as the data size (the file CRC still covers all of recs: it
// is what Decode computes when it reads every record to its end).
func dapiSeqDS(hdrSize int, hdrCRC bool, recs []byte, ds int) []byte {
	h := []byte{byte(hdrSize), 0x20, 0x9a, 0x52, byte(ds), byte(ds >> 8), byte(ds >> 16), byte(ds >> 24), '.', 'F', 'I', 'T'}
	if hdrSize == 14 {
		c := uint16(0)
		if hdrCRC {
			c = crc16sum(h)
		}
		h = append(h, byte(c), byte(c>>8))
	}
	c := crc16sum(recs)
	out := append(h, recs...)
	return append(out, byte(c), byte(c>>8))
}

// dapiOverrunSeq builds a sequence whose LAST record runs k >= 1 bytes past the data size its header declares (the
// record starts inside the declared size, so the record loop of Decode enters it). The last record is a data record
// with a byte-array payload, a definition record, or the file_id record itself (then PeekFileId overruns too).
// Returns the sequence (header, all records, CRC over all records) and k; the protocol's end of the sequence is
// len(seq) - k.
func dapiOverrunSeq(rng *Rng, fileIdFirst bool) ([]byte, int) {
	var recs []byte
	if fileIdFirst {
		recs = append(recs, dapiDefRec(3, 0, 0, []dapiFD{{0, 1, 0x00}}, nil)...)
		recs = append(recs, 3, 4)
	}
	for i, n := 0, rng.Intn(3); i < n; i++ {
		recs = append(recs, dapiDefRec(1, 0, 20, []dapiFD{{3, 1, 0x02}}, nil)...)
		recs = append(recs, 1, byte(rng.Intn(256)))
	}
	var last []byte
	switch rng.Intn(3) {
	case 0:
		m := rng.Range(1, 12)
		recs = append(recs, dapiDefRec(2, 0, 20, []dapiFD{{byte(100 + rng.Intn(100)), byte(m), 0x0D}}, nil)...)
		last = append([]byte{2}, rng.Bytes(m)...)
	case 1:
		last = dapiDefRec(4, 0, 20, []dapiFD{{3, 1, 0x02}, {4, 1, 0x02}}, nil)
	default:
		recs = append(recs, dapiDefRec(3, 0, 0, []dapiFD{{0, 1, 0x00}, {1, 2, 0x84}, {3, 4, 0x8C}}, nil)...)
		last = []byte{3, 4, 1, 0, byte(1 + rng.Intn(200)), 9, 9, 9}
	}
	k := rng.Range(1, len(last)-1)
	all := append(recs, last...)
	hs := 14
	if rng.Intn(3) == 0 {
		hs = 12
	}
	return dapiSeqDS(hs, rng.Intn(4) != 0, all, len(all)-k), k
}

func crc16sum(b []byte) uint16 {
	h := crc16.New()
	h.Write(b)
	return h.Sum16()
}

var dapiBaseTypes = []byte{0x00, 0x01, 0x02, 0x83, 0x84, 0x85, 0x86, 0x07, 0x88, 0x89, 0x0A, 0x8B, 0x8C, 0x0D, 0x8E, 0x8F, 0x90}

func dapiBtSize(bt byte) int { return int(basetype.BaseType(bt).Size()) }

// a small profile-like pool of (mesgNum, fieldNum, base type, flags): what factories of the tie are drawn from
type dapiFacEntry struct {
	mesgNum uint16
	num     byte
	bt      byte
	flags   string
	comps   string // "" or "<dst>.<bits>.<a|->,..." — destinations have larger field numbers (no cycles)
}

var dapiPool = []dapiFacEntry{
	{0, 0, 0x00, "-", ""}, {0, 1, 0x84, "-", ""}, {0, 2, 0x84, "-", ""}, {0, 3, 0x8C, "-", ""}, {0, 4, 0x86, "-", ""}, {0, 5, 0x84, "-", ""}, {0, 8, 0x07, "-", ""},
	// record-like message: altitude(2) -> enhanced_altitude(78); compressed_speed_distance(8, 3 bytes) -> speed(6, 12 bits) + distance(5, 12 bits,
	// accumulated); speed(6) -> enhanced_speed(73); cycles(18) -> total_cycles(19, accumulated); an array destination (90) fed from 16-bit pieces
	{20, 253, 0x86, "-", ""}, {20, 3, 0x02, "-", ""}, {20, 2, 0x84, "c", "78.16.-"}, {20, 5, 0x86, "c", ""}, {20, 0, 0x85, "-", ""}, {20, 1, 0x85, "-", ""},
	{20, 6, 0x84, "-", "73.16.-"}, {20, 8, 0x0D, "a", "6.12.-,5.12.a"}, {20, 13, 0x01, "-", ""}, {20, 18, 0x02, "-", "19.8.a"}, {20, 19, 0x86, "-", ""},
	{20, 30, 0x00, "b", ""}, {20, 31, 0x02, "ab", ""}, {20, 40, 0x88, "-", ""}, {20, 41, 0x89, "-", ""},
	{20, 42, 0x8E, "-", "91.40.-,92.24.a"}, {20, 43, 0x8F, "a", ""}, {20, 44, 0x07, "a", ""}, {20, 45, 0x83, "a", "90.16.-,90.16.-,90.16.-"}, {20, 46, 0x90, "-", ""},
	{20, 47, 0x0A, "-", ""}, {20, 48, 0x8B, "a", "93.3.a,94.70.-,95.0.-"}, {20, 73, 0x86, "-", ""}, {20, 78, 0x86, "-", ""}, {20, 90, 0x84, "a", ""}, {20, 91, 0x01, "-", ""}, {20, 92, 0x88, "-", ""}, {20, 93, 0x8E, "-", ""},
	{206, 0, 0x02, "-", ""}, {206, 1, 0x02, "-", ""}, {206, 2, 0x02, "-", ""}, {206, 3, 0x07, "a", ""}, {206, 8, 0x07, "a", ""},
	{207, 3, 0x02, "-", ""}, {207, 1, 0x0D, "a", ""},
	{18, 253, 0x86, "-", "254.16.a"}, {18, 7, 0x86, "-", ""}, {18, 254, 0x84, "-", ""},
	{65280, 253, 0x86, "-", ""}, {65280, 1, 0x84, "a", "2.4.a,3.4.-"},
}

var dapiMesgNums = []uint16{0, 20, 206, 207, 18, 65280, 65281, 49}

func dapiFacString(es []dapiFacEntry) string {
	if len(es) == 0 {
		return "-"
	}
	p := make([]string, len(es))
	for i, e := range es {
		p[i] = fmt.Sprintf("%d.%d.%02x.%s", e.mesgNum, e.num, e.bt, e.flags)
		if e.comps != "" {
			p[i] += ":" + e.comps
		}
	}
	return strings.Join(p, ";")
}

func dapiRandFactory(rng *Rng) []dapiFacEntry {
	switch rng.Intn(6) {
	case 0:
		return nil
	case 1, 2:
		return dapiPool
	}
	var es []dapiFacEntry
	for _, e := range dapiPool {
		if rng.Intn(3) != 0 {
			if rng.Intn(6) == 0 { // perturb: other base type (also invalid ones) / flags
				if e.comps == "" { // a field with components keeps an integer base type (makeBits of floats is platform-defined)
					e.bt = []byte{0x00, 0x02, 0x84, 0x86, 0x07, 0x89, 0x0D, 0x8F, 0x55, 0x03, 0xFF}[rng.Intn(11)]
				} else {
					e.bt = []byte{0x00, 0x02, 0x84, 0x86, 0x01, 0x83, 0x0D, 0x8F, 0x8E, 0x8C}[rng.Intn(10)]
				}
				e.flags = []string{"-", "a", "b", "ab", "c", "ac"}[rng.Intn(6)]
				if e.bt == 0x88 || e.bt == 0x89 { // accumulating float fields: uint32(float) is platform-defined out of range
					e.flags = strings.ReplaceAll(e.flags, "c", "")
					if e.flags == "" {
						e.flags = "-"
					}
				}
			}
			es = append(es, e)
		}
	}
	return es
}

// live definition while building a stream
type dapiLive struct {
	arch   byte
	fields []dapiFD
	devs   []dapiFD
	num    uint16
}

type dapiBuilder struct {
	rng  *Rng
	live map[byte]*dapiLive
	recs []byte
	ts   uint32
	nrec int // records appended by define / data
}

func (b *dapiBuilder) randFieldDef(mesgNum uint16) dapiFD {
	rng := b.rng
	var fd dapiFD
	// a field of the pool for this message, or an arbitrary one
	var cands []dapiFacEntry
	for _, e := range dapiPool {
		if e.mesgNum == mesgNum {
			cands = append(cands, e)
		}
	}
	if len(cands) > 0 && rng.Intn(4) != 0 {
		e := cands[rng.Intn(len(cands))]
		fd.num, fd.bt = e.num, e.bt
		if rng.Intn(8) == 0 {
			fd.bt = dapiBaseTypes[rng.Intn(len(dapiBaseTypes))]
		}
	} else {
		fd.num = byte(rng.Intn(256))
		if rng.Intn(3) == 0 {
			fd.num = []byte{253, 0, 1, 2, 3, 8, 254, 255}[rng.Intn(8)]
		}
		fd.bt = dapiBaseTypes[rng.Intn(len(dapiBaseTypes))]
	}
	sz := dapiBtSize(fd.bt)
	switch rng.Intn(10) {
	case 0:
		fd.size = 0
	case 1:
		fd.size = byte(rng.Intn(sz + 1)) // too small (or zero)
	case 2:
		fd.size = byte(sz * rng.Range(2, 4)) // array
	case 3:
		fd.size = byte(sz*rng.Range(1, 3) + rng.Intn(sz+1)) // not a multiple
	case 4:
		fd.size = byte(rng.Intn(256))
	default:
		fd.size = byte(sz)
		if fd.bt == 0x07 {
			fd.size = byte(rng.Range(1, 12))
		}
	}
	return fd
}

func (b *dapiBuilder) define(local byte, mesgNum uint16, withDevs bool) {
	rng := b.rng
	l := &dapiLive{arch: byte(rng.Intn(2)), num: mesgNum}
	if rng.Intn(12) == 0 {
		l.arch = byte(rng.Intn(256))
	}
	n := rng.Intn(5)
	if rng.Intn(10) == 0 {
		n = 0
	}
	for i := 0; i < n; i++ {
		l.fields = append(l.fields, b.randFieldDef(mesgNum))
	}
	if mesgNum == 206 && rng.Intn(4) != 0 { // a usable field description: ddi, field number, base type id
		l.fields = []dapiFD{{0, 1, 0x02}, {1, 1, 0x02}, {2, 1, 0x02}}
		if rng.Intn(4) == 0 {
			l.fields = append(l.fields, b.randFieldDef(mesgNum))
		}
	}
	if mesgNum == 207 && rng.Intn(3) != 0 {
		l.fields = []dapiFD{{3, 1, 0x02}}
	}
	if mesgNum == 0 && rng.Intn(3) != 0 {
		l.fields = []dapiFD{{0, 1, 0x00}, {1, 2, 0x84}, {2, 2, 0x84}, {3, 4, 0x8C}, {4, 4, 0x86}}
		if rng.Intn(3) == 0 {
			l.fields = append(l.fields, dapiFD{8, byte(rng.Range(1, 9)), 0x07})
		}
	}
	if withDevs {
		k := rng.Range(0, 3)
		l.devs = []dapiFD{}
		for i := 0; i < k; i++ {
			sz := byte(rng.Range(0, 9))
			l.devs = append(l.devs, dapiFD{byte(rng.Intn(3)), sz, byte(rng.Intn(2))})
		}
	}
	b.live[local] = l
	b.recs = append(b.recs, dapiDefRec(local, l.arch, mesgNum, l.fields, l.devs)...)
	b.nrec++
}

func (b *dapiBuilder) payloadFor(l *dapiLive) []byte {
	rng := b.rng
	var p []byte
	put32 := func(v uint32) {
		if l.arch == 0 {
			p = append(p, byte(v), byte(v>>8), byte(v>>16), byte(v>>24))
		} else {
			p = append(p, byte(v>>24), byte(v>>16), byte(v>>8), byte(v))
		}
	}
	for _, f := range l.fields {
		switch {
		case f.num == 253 && f.size == 4 && rng.Intn(4) != 0:
			b.ts += uint32(rng.Intn(40))
			put32(b.ts)
		case l.num == 206 && f.size == 1 && f.num <= 2:
			switch f.num {
			case 0:
				p = append(p, byte(rng.Intn(2)))
			case 1:
				p = append(p, byte(rng.Intn(3)))
			default:
				bt := dapiBaseTypes[rng.Intn(len(dapiBaseTypes))]
				if rng.Intn(10) == 0 {
					bt = byte(rng.Intn(256))
				}
				p = append(p, bt)
			}
		case l.num == 207 && f.size == 1:
			p = append(p, byte(rng.Intn(2)))
		case f.bt == 0x07:
			for i := 0; i < int(f.size); i++ {
				c := byte('a' + rng.Intn(26))
				switch rng.Intn(6) {
				case 0:
					c = 0
				case 1:
					c = byte(rng.Intn(256))
				}
				if i == int(f.size)-1 && rng.Intn(4) != 0 {
					c = 0
				}
				p = append(p, c)
			}
		default:
			for i := 0; i < int(f.size); i++ {
				switch rng.Intn(8) {
				case 0:
					p = append(p, 0xFF)
				case 1:
					p = append(p, 0)
				default:
					p = append(p, byte(rng.Intn(256)))
				}
			}
		}
	}
	for _, f := range l.devs {
		p = append(p, rng.Bytes(int(f.size))...)
	}
	return p
}

func (b *dapiBuilder) data(local byte, compressed bool) {
	l := b.live[local]
	var hdr byte
	if compressed {
		off := byte((b.ts + uint32(b.rng.Intn(20))) & 0x1F)
		hdr = 0x80 | (local&0x3)<<5 | off
		l = b.live[local&0x3]
	} else {
		hdr = local & 0x0F
		if b.rng.Intn(20) == 0 {
			hdr |= 0x10 // reserved bit 4
		}
	}
	b.nrec++
	b.recs = append(b.recs, hdr)
	if l != nil {
		b.recs = append(b.recs, b.payloadFor(l)...)
	} else {
		b.recs = append(b.recs, b.rng.Bytes(b.rng.Intn(4))...)
	}
}

// dapiRandRecords builds the records of one sequence. kind: 0 well-formed-ish, 1 starts with a data record that has
// no definition (visible leak of definitions), 2 compressed timestamp before any timestamp, 3 developer fields
// without description first.
func dapiRandRecords(rng *Rng, kind int, fileId bool) []byte {
	recs, _ := dapiRandRecordsN(rng, kind, fileId)
	return recs
}

// dapiRandRecordsN also returns the number of records built (kinds 1 and 2 splice raw bytes: the count is then a guide only)
func dapiRandRecordsN(rng *Rng, kind int, fileId bool) ([]byte, int) {
	b := &dapiBuilder{rng: rng, live: map[byte]*dapiLive{}, ts: 0x30000000 + uint32(rng.Intn(1000))}
	switch kind {
	case 1:
		b.recs = append(b.recs, byte(rng.Intn(4)))
		b.recs = append(b.recs, rng.Bytes(rng.Intn(6))...)
	case 2:
		b.define(0, 20, false)
		b.live[0].fields = []dapiFD{{3, 1, 0x02}}
		b.recs = b.recs[:0]
		b.recs = append(b.recs, dapiDefRec(0, 0, 20, b.live[0].fields, nil)...)
		b.data(0, true)
	case 3:
		b.define(1, 20, true)
		b.data(1, false)
	}
	if fileId {
		b.define(0, 0, false)
		b.data(0, false)
	}
	n := rng.Range(1, 8)
	for i := 0; i < n; i++ {
		local := byte(rng.Intn(4))
		switch {
		case b.live[local] == nil || rng.Intn(4) == 0:
			mn := dapiMesgNums[rng.Intn(len(dapiMesgNums))]
			b.define(local, mn, rng.Intn(4) == 0)
		default:
			b.data(local, rng.Intn(5) == 0)
		}
		if rng.Intn(3) != 0 && b.live[local] != nil {
			b.data(local, rng.Intn(6) == 0)
		}
	}
	return b.recs, b.nrec
}

func dapiRandSeqN(rng *Rng, kind int, fileId bool) ([]byte, int) {
	recs, n := dapiRandRecordsN(rng, kind, fileId)
	hs := 14
	if rng.Intn(5) == 0 {
		hs = 12
	}
	return dapiSeq(hs, rng.Intn(4) != 0, recs), n
}

func dapiRandSeq(rng *Rng, kind int, fileId bool) []byte {
	recs := dapiRandRecords(rng, kind, fileId)
	hs := 14
	if rng.Intn(5) == 0 {
		hs = 12
	}
	return dapiSeq(hs, rng.Intn(4) != 0, recs)
}

// ---------------------------------------------------------------- generators

func dapiOptString(rng *Rng) string {
	b := func(p int) int {
		if rng.Intn(p) == 0 {
			return 1
		}
		return 0
	}
	rbs := 0
	if rng.Intn(5) == 0 {
		rbs = []int{1, 765, 766, 1000, 4096, 70000}[rng.Intn(6)]
	}
	return fmt.Sprintf("chk%d,exp%d,bo%d,bc%d,ml%d,dl%d,lw%d,rbs%d", 1-b(4), b(2), b(5), b(5), b(2), b(3), b(4), rbs)
}

var dapiOpNames = []string{"dec", "decx", "decc", "pkh", "pki", "dis", "nxt", "ci"}

func dapiRandOps(rng *Rng, maxLen int, nreaders int) string {
	n := rng.Range(1, maxLen)
	ops := make([]string, n)
	for i := range ops {
		r := rng.Intn(20)
		switch {
		case r < 6:
			ops[i] = "dec"
		case r < 7:
			ops[i] = "decx"
			if rng.Intn(3) != 0 {
				ops[i] = fmt.Sprintf("decx:%d", rng.Intn(14))
			}
		case r < 8 && rng.Intn(3) == 0:
			ops[i] = "decc"
		case r < 10:
			ops[i] = "pkh"
		case r < 13:
			ops[i] = "pki"
		case r < 15:
			ops[i] = "dis"
		case r < 17:
			ops[i] = "nxt"
		case r < 18:
			ops[i] = "ci"
		default:
			if nreaders > 0 {
				ops[i] = fmt.Sprintf("rst%d", 1+rng.Intn(nreaders))
				if rng.Intn(3) == 0 { // Reset with another read buffer size than the decoder had (the buffer is re-sliced or re-allocated)
					ops[i] += fmt.Sprintf("/%d", []int{0, 1, 764, 765, 766, 1000, 1531, 4096, 4608, 5000, 9000, 70000}[rng.Intn(12)])
				}
			} else {
				ops[i] = "dec"
			}
		}
	}
	return strings.Join(ops, ",")
}

func dapiLine(fam string, opt, fac, ops string, streams [][]byte) string {
	var sb strings.Builder
	fmt.Fprintf(&sb, "%s v:0 o:%s f:%s ops:%s b:%s", fam, opt, fac, ops, hex.EncodeToString(streams[0]))
	for _, r := range streams[1:] {
		sb.WriteString(" r:" + hex.EncodeToString(r))
	}
	return sb.String()
}

func dapiChain(rng *Rng, n int) []byte {
	var b []byte
	for i := 0; i < n; i++ {
		kind := 0
		if rng.Intn(3) == 0 {
			kind = rng.Range(1, 3)
		}
		b = append(b, dapiRandSeq(rng, kind, rng.Intn(3) != 0)...)
	}
	return b
}

func genDecApi(emit func(string), tier string, rng *Rng) {
	scale := 1
	if tier == "thorough" {
		scale = 20
	}
	// 1. arbitrary bytes
	for i := 0; i < 1500*scale; i++ {
		var b []byte
		switch rng.Intn(4) {
		case 0:
			b = rng.Bytes(rng.Intn(40))
		case 1: // repeated byte
			b = bytes.Repeat([]byte{byte(rng.Intn(256))}, rng.Intn(64))
		default: // arbitrary body behind a plausible header
			body := rng.Bytes(rng.Intn(80))
			b = dapiSeq([]int{12, 14}[rng.Intn(2)], rng.Bool(), body)
			if rng.Bool() { // declared size differs from the body
				b[4] = byte(rng.Intn(256))
			}
		}
		emit(dapiLine("decapi", dapiOptString(rng), dapiFacString(dapiRandFactory(rng)), dapiRandOps(rng, 4, 0), [][]byte{b}))
		count("arbitrary-bytes")
	}
	// 2. built chains, every operation word up to length 3 over the 8 reader-less operations
	var words []string
	for _, a := range dapiOpNames {
		words = append(words, a)
		for _, b := range dapiOpNames {
			words = append(words, a+","+b)
			for _, c := range dapiOpNames {
				words = append(words, a+","+b+","+c)
			}
		}
	}
	for k := 0; k < 4*scale; k++ {
		chain := dapiChain(rng, rng.Range(1, 3))
		opt, fac := dapiOptString(rng), dapiFacString(dapiRandFactory(rng))
		for _, w := range words {
			emit(dapiLine("decapi", opt, fac, w+",dec", [][]byte{chain}))
			count("op-words-le3")
		}
	}
	// 3. built chains and their mutations under random operation lists with resets
	for i := 0; i < 3000*scale; i++ {
		nr := rng.Intn(3)
		streams := [][]byte{dapiChain(rng, rng.Range(1, 3))}
		for j := 0; j < nr; j++ {
			streams = append(streams, dapiChain(rng, rng.Range(1, 2)))
		}
		for j := range streams {
			if rng.Intn(3) == 0 {
				streams[j] = mutate(rng, streams[j])
				count("mutated-stream")
			}
		}
		emit(dapiLine("decapi", dapiOptString(rng), dapiFacString(dapiRandFactory(rng)), dapiRandOps(rng, 8, nr), streams))
		count("built-chain")
	}
	// 3b. context cancelled while DecodeWithContext runs: EVERY cancellation point k = 0 .. (records of the sequence) + 2 on small
	// built chains — in particular k = the last record: the cancellation is seen by the check after the loop — followed by the
	// entry points that must then return the context's error (sticky) and not a success; on the first and on the second
	// sequence of a chain, after peeks, before a reset
	follow := []string{"dec", "nxt,dec", "dis", "pki", "pkh,dec", "decx,dec", "dec,dec", "ci,dec", "rst1,dec", "decc,dec", "decx:1,dec"}
	for c := 0; c < 12*scale; c++ {
		s1, n1 := dapiRandSeqN(rng, 0, rng.Intn(3) != 0)
		s2, n2 := dapiRandSeqN(rng, 0, rng.Intn(3) != 0)
		chain := append(append([]byte(nil), s1...), s2...)
		other := dapiChain(rng, 1)
		opt, fac := dapiOptString(rng), dapiFacString(dapiRandFactory(rng))
		for k := 0; k <= n1+2; k++ {
			for _, f := range []string{follow[rng.Intn(len(follow))], follow[rng.Intn(len(follow))], "dec"} {
				emit(dapiLine("decapi", opt, fac, fmt.Sprintf("decx:%d,%s", k, f), [][]byte{chain, other}))
				count("ctx-cancel-every-k")
			}
		}
		for k := 0; k <= n2+2; k++ {
			pre := []string{"dec", "dis", "decx:99", "pki,dec"}[rng.Intn(4)]
			emit(dapiLine("decapi", opt, fac, fmt.Sprintf("%s,decx:%d,%s", pre, k, follow[rng.Intn(len(follow))]), [][]byte{chain, other}))
			count("ctx-cancel-every-k")
		}
		// at the boundary: the last record of the sequence, one before, one after — alone, after a header peek, after a
		// file-id peek (which has consumed some of the records), after Next
		for _, k := range []int{n1 - 1, n1, n1 + 1} {
			if k < 0 {
				continue
			}
			for _, f := range follow {
				emit(dapiLine("decapi", opt, fac, fmt.Sprintf("decx:%d,%s", k, f), [][]byte{chain, other}))
				emit(dapiLine("decapi", opt, fac, fmt.Sprintf("pkh,decx:%d,%s", k, f), [][]byte{chain, other}))
				count("ctx-cancel-last-record")
			}
			for j := 0; j <= k; j++ {
				emit(dapiLine("decapi", opt, fac, fmt.Sprintf("pki,decx:%d,dec,nxt,dec", j), [][]byte{chain, other}))
				count("ctx-cancel-after-peek")
			}
			emit(dapiLine("decapi", opt, fac, fmt.Sprintf("nxt,decx:%d,nxt,dec", k), [][]byte{chain, other}))
			emit(dapiLine("decapi", opt, fac, fmt.Sprintf("dec,nxt,decx:0,dec"), [][]byte{chain, other}))
			count("ctx-cancel-last-record")
		}
	}
	// 4. definition surgery: base type byte × size around the type's size, known and unknown field, both byte orders
	for bt := 0; bt < 256; bt++ {
		sizes := []int{0, 1, 2, 3, 4, 5, 7, 8, 9, 16, 255}
		if tier == "thorough" {
			sizes = sizes[:0]
			for s := 0; s < 256; s++ {
				sizes = append(sizes, s)
			}
		}
		for _, size := range sizes {
			for _, arch := range []byte{0, 1} {
				for _, fnum := range []byte{3, 253, 200} {
					recs := dapiDefRec(0, arch, 20, []dapiFD{{fnum, byte(size), byte(bt)}}, nil)
					recs = append(recs, 0)
					payload := rng.Bytes(size)
					recs = append(recs, payload...)
					recs = append(recs, 0x80|byte(rng.Intn(32))) // compressed-timestamp record of the same definition
					recs = append(recs, rng.Bytes(size)...)
					seq := dapiSeq(14, true, recs)
					fac := "-"
					if fnum != 200 {
						fac = dapiFacString(dapiPool)
						if rng.Intn(3) == 0 { // known field whose profile base type is the surgery byte
							kbt := []int{bt, 0x84, 0x07}[rng.Intn(3)]
							fl := []string{"-", "a", "b", "ac"}[rng.Intn(4)]
							if (kbt == 0x88 || kbt == 0x89) && fl == "ac" { // no accumulating float fields (see dapiRandFactory)
								fl = "a"
							}
							fac = fmt.Sprintf("20.%d.%02x.%s", fnum, kbt, fl)
						}
					}
					emit(dapiLine("decapi", dapiOptString(rng), fac, []string{"dec", "pki,dec", "nxt,dec,nxt"}[rng.Intn(3)], [][]byte{seq}))
					count("definition-surgery")
				}
			}
		}
	}
	// 5. developer fields: description base type × size × declared developer field size
	for bt := 0; bt < 256; bt++ {
		for _, dsz := range []int{0, 1, 2, 3, 4, 7, 8, 9, 12} {
			recs := dapiDefRec(0, 0, 206, []dapiFD{{0, 1, 0x02}, {1, 1, 0x02}, {2, 1, 0x02}}, nil)
			recs = append(recs, 0, 0, 5, byte(bt))
			if rng.Bool() {
				recs = append(recs, dapiDefRec(1, 0, 207, []dapiFD{{3, 1, 0x02}}, nil)...)
				recs = append(recs, 1, 0)
			}
			arch := byte(rng.Intn(2))
			recs = append(recs, dapiDefRec(2, arch, 20, []dapiFD{{3, 1, 0x02}}, []dapiFD{{5, byte(dsz), 0}, {6, 2, 0}})...)
			recs = append(recs, 2, 77)
			recs = append(recs, rng.Bytes(dsz+2)...)
			seq := dapiSeq(14, true, recs)
			fac := dapiFacString(dapiPool)
			if rng.Intn(5) == 0 {
				fac = "-"
			}
			emit(dapiLine("decapi", dapiOptString(rng), fac, "dec", [][]byte{seq}))
			count("developer-surgery")
		}
	}
	// 6. truncation at every offset, and every single-byte zeroing, of small built chains
	for k := 0; k < 6*scale; k++ {
		chain := dapiChain(rng, rng.Range(1, 2))
		if len(chain) > 400 {
			continue
		}
		opt, fac := dapiOptString(rng), dapiFacString(dapiRandFactory(rng))
		ops := []string{"dec,dec", "pki,dis,dec", "nxt,dec,nxt,dec", "ci,dec"}[rng.Intn(4)]
		for cut := 0; cut <= len(chain); cut++ {
			emit(dapiLine("decapi", opt, fac, ops, [][]byte{chain[:cut]}))
			count("truncation")
		}
	}
	// 7. fixtures and real encoder outputs (every field unknown to the line's factory unless the pool says otherwise)
	for _, p := range fixtureFiles() {
		b, err := os.ReadFile(p)
		if err != nil || len(b) > 1<<16 && tier != "thorough" || len(b) > 1<<21 {
			continue
		}
		emit(dapiLine("decapi", dapiOptString(rng), dapiFacString(dapiRandFactory(rng)), "pki,dec,nxt,dec", [][]byte{b}))
		count("fixture")
		if len(b) < 1<<14 {
			for j := 0; j < 3; j++ {
				emit(dapiLine("decapi", dapiOptString(rng), dapiFacString(dapiRandFactory(rng)), dapiRandOps(rng, 5, 0), [][]byte{mutate(rng, b)}))
				count("fixture-mutated")
			}
		}
	}
	// 8. the standard factory — with expansion on it is the decoder's DEFAULT configuration (sub-fields, scales, offsets,
	// accumulation: the model side is the composition of the API model with C05's expansion model, Driver/DecApiStd.lean) —
	// and with expansion off: fixtures whole, mutated, chained; encoder outputs
	stdOpt := func() string {
		o := dapiOptString(rng)
		if rng.Intn(3) == 0 {
			return strings.Replace(o, "exp1", "exp0", 1)
		}
		return strings.Replace(o, "exp0", "exp1", 1)
	}
	var small [][]byte
	for _, p := range fixtureFiles() {
		b, err := os.ReadFile(p)
		if err != nil || len(b) > 1<<16 && tier != "thorough" || len(b) > 1<<21 {
			continue
		}
		emit(dapiLine("decapi", stdOpt(), "std", "pki,dec,nxt,dec", [][]byte{b}))
		count("std-fixture")
		if len(b) < 1<<14 {
			small = append(small, b)
			for j := 0; j < 4; j++ {
				emit(dapiLine("decapi", stdOpt(), "std", dapiRandOps(rng, 5, 0), [][]byte{mutate(rng, mutate(rng, b))}))
				count("std-fixture-mutated")
			}
		}
	}
	for i := 0; i < 40*scale && len(small) > 1; i++ {
		a, b2 := small[rng.Intn(len(small))], small[rng.Intn(len(small))]
		emit(dapiLine("decapi", stdOpt(), "std", dapiRandOps(rng, 6, 1), [][]byte{append(append([]byte(nil), a...), b2...), small[rng.Intn(len(small))]}))
		count("std-chain")
	}
	var eops []string
	genEncW(func(l string) { eops = append(eops, l) }, "quick", rng.Fork(11))
	for i := 0; i < 300*scale && i < len(eops); i++ {
		b := encodeOp(eops[len(eops)-1-i])
		if len(b) == 0 || len(b) > 20000 {
			continue
		}
		if rng.Intn(3) == 0 {
			b = mutate(rng, b)
		}
		emit(dapiLine("decapi", stdOpt(), "std", dapiRandOps(rng, 4, 0), [][]byte{b}))
		count("std-encoder-output")
	}
	for i := 0; i < 300*scale && i < len(eops); i++ {
		b := encodeOp(eops[i])
		if len(b) == 0 || len(b) > 20000 {
			continue
		}
		if rng.Bool() {
			b = mutate(rng, b)
		}
		emit(dapiLine("decapi", dapiOptString(rng), dapiFacString(dapiRandFactory(rng)), dapiRandOps(rng, 5, 0), [][]byte{b}))
		count("encoder-output")
	}
}

// dechist: (history H, sequence S) pairs — chains whose members are consumed by assorted operations, then S decoded.
func genDecHist(emit func(string), tier string, rng *Rng) {
	scale := 1
	if tier == "thorough" {
		scale = 20
	}
	// Reset onto reader 1, now and then with another read buffer size than the decoder had (the buffer is re-sliced when the
	// old capacity suffices, re-allocated otherwise: sizes just above the previous one, below the minimum, far larger)
	rst1 := func() string {
		if rng.Intn(3) == 0 {
			return fmt.Sprintf("rst1/%d", []int{0, 1, 764, 765, 766, 1000, 1531, 4096, 4097, 4608, 4861, 5000, 9000, 70000}[rng.Intn(14)])
		}
		return "rst1"
	}
	consume := []string{"dec", "decx", "dis", "pkh,dec", "pki,dec", "pki,dis", "pkh,dis", "nxt,dec", "nxt,pki,dis", "pki,pki,dec", "pkh,pki,dis", "decx:99", "pki,decx:99"}
	for i := 0; i < 6000*scale; i++ {
		opt, fac := dapiOptString(rng), dapiFacString(dapiRandFactory(rng))
		np := rng.Intn(3)
		var chain []byte
		var ops []string
		if rng.Intn(6) == 0 {
			ops = append(ops, "ci")
		}
		for j := 0; j < np; j++ {
			chain = append(chain, dapiRandSeq(rng, 0, rng.Intn(4) != 0)...)
			ops = append(ops, consume[rng.Intn(len(consume))])
			if rng.Intn(10) == 0 {
				ops = append(ops, "ci")
				// the integrity check re-seeks: the members before are consumed again
				for k := 0; k <= j; k++ {
					ops = append(ops, consume[rng.Intn(len(consume))])
				}
			}
		}
		kind := rng.Intn(4)
		s := dapiRandSeq(rng, kind, rng.Intn(3) == 0)
		if rng.Intn(8) == 0 {
			s = mutate(rng, s)
		}
		streams := [][]byte{append(chain, s...)}
		switch rng.Intn(8) {
		case 0: // S on a new reader after a reset (history: whatever happened on the first reader)
			streams = [][]byte{append(chain, dapiRandSeq(rng, 0, true)...), s}
			if rng.Bool() {
				ops = append(ops, []string{"pki", "pkh", "dec", "decc", "pki,decc"}[rng.Intn(5)])
			}
			ops = append(ops, rst1())
		case 1: // failed decode on the first reader, then reset
			bad := mutate(rng, dapiRandSeq(rng, 0, true))
			streams = [][]byte{bad, s}
			ops = []string{[]string{"dec", "pki", "pki,dec", "dis"}[rng.Intn(4)], rst1()}
		}
		last := []string{"dec", "decx", "pki,dec", "pkh,dec", "nxt,dec", "dec,dec"}[rng.Intn(6)]
		if rng.Intn(6) == 0 { // S decoded under a context that is cancelled on the way (or too late)
			last = []string{"decx:%d", "pki,decx:%d", "pkh,decx:%d", "decx:%d,dec", "nxt,decx:%d"}[rng.Intn(5)]
			last = fmt.Sprintf(last, rng.Intn(12))
		}
		ops = append(ops, last)
		emit(dapiLine("dechist", opt, fac, strings.Join(ops, ","), streams))
		count(fmt.Sprintf("S-kind-%d", kind))
	}
	// leak probes: a predecessor P whose file_id comes LAST (so that PeekFileId decodes definitions, a field description,
	// a developer data id, a timestamp and an accumulated field before it stops), then a sequence S on which any state
	// surviving from P shows: a data record without definition, a developer field without description, an accumulated
	// component, a compressed timestamp
	u32 := func(v uint32) []byte { return []byte{byte(v), byte(v >> 8), byte(v >> 16), byte(v >> 24)} }
	for i := 0; i < 150*scale; i++ {
		ts := 0x30000000 + uint32(rng.Intn(100000))
		var p []byte
		p = append(p, dapiDefRec(0, 0, 206, []dapiFD{{0, 1, 0x02}, {1, 1, 0x02}, {2, 1, 0x02}}, nil)...)
		p = append(p, 0, 0, 5, []byte{0x84, 0x02, 0x86, 0x07}[rng.Intn(4)])
		p = append(p, dapiDefRec(1, 0, 207, []dapiFD{{3, 1, 0x02}}, nil)...)
		p = append(p, 1, 0)
		p = append(p, dapiDefRec(2, 0, 20, []dapiFD{{253, 4, 0x86}, {18, 1, 0x02}, {2, 2, 0x84}}, nil)...)
		p = append(p, 2)
		p = append(p, u32(ts)...)
		p = append(p, byte(rng.Intn(250)), byte(rng.Intn(256)), byte(rng.Intn(200)))
		p = append(p, dapiDefRec(3, 0, 0, []dapiFD{{0, 1, 0x00}, {1, 2, 0x84}}, nil)...)
		p = append(p, 3, 4, 1, 0)
		P := dapiSeq(14, true, p)
		var sr []byte
		kind := rng.Intn(5)
		switch kind {
		case 0: // data record of P's local definition 2, no definition in S
			sr = append(sr, 2)
			sr = append(sr, u32(ts+5)...)
			sr = append(sr, byte(rng.Intn(250)), 1, 2)
		case 1: // developer field whose description only P has
			sr = append(sr, dapiDefRec(4, 0, 20, []dapiFD{{3, 1, 0x02}}, []dapiFD{{5, 2, 0}})...)
			sr = append(sr, 4, 60, byte(rng.Intn(256)), byte(rng.Intn(256)))
		case 2: // accumulated component: cycles -> total_cycles
			sr = append(sr, dapiDefRec(2, 0, 20, []dapiFD{{18, 1, 0x02}}, nil)...)
			sr = append(sr, 2, byte(rng.Intn(250)), 2, byte(rng.Intn(250)))
		case 3: // compressed timestamp before any timestamp of S
			sr = append(sr, dapiDefRec(1, 0, 20, []dapiFD{{3, 1, 0x02}}, nil)...)
			sr = append(sr, 0x80|1<<5|byte(rng.Intn(32)), 70)
		default: // accumulated `Collect` value of a decoded field feeding a later accumulation (altitude is collected)
			sr = append(sr, dapiDefRec(2, 0, 20, []dapiFD{{18, 1, 0x02}, {2, 2, 0x84}}, nil)...)
			sr = append(sr, 2, byte(rng.Intn(250)), 7, 0)
		}
		if rng.Intn(3) == 0 { // S itself starts with a file_id (peeks on S stop at once)
			fid := append(dapiDefRec(3, 0, 0, []dapiFD{{0, 1, 0x00}}, nil), 3, 4)
			sr = append(fid, sr...)
		}
		S := dapiSeq(14, true, sr)
		opt := fmt.Sprintf("chk%d,exp1,bo0,bc0,ml%d,dl%d,lw0,rbs0", rng.Intn(2), rng.Intn(2), rng.Intn(2))
		fac := dapiFacString(dapiPool)
		chain := append(append([]byte(nil), P...), S...)
		for _, h := range []string{"pki,dis,dec", "pki,dec,dec", "dec,dec", "dis,dec", "pki,ci,dis,dec", "pki,ci,pki,dis,dec", "nxt,pki,dis,nxt,dec", "pkh,pki,dis,pki,dec"} {
			emit(dapiLine("dechist", opt, fac, h, [][]byte{chain}))
			count(fmt.Sprintf("leak-probe-%d", kind))
		}
		for _, h := range []string{"pki,rst1,dec", "pki,dis,rst1,dec", "pki,decc,rst1,dec", "dec,rst1,dec", "pki,ci,rst1,dec"} {
			emit(dapiLine("dechist", opt, fac, h, [][]byte{P, S}))
			count(fmt.Sprintf("leak-probe-%d", kind))
		}
	}
	// predecessors whose last record overruns the declared data size by k = 1..n bytes (KF-C07-4: Decode reads the whole
	// record and then the CRC, Discard / CheckIntegrity skip the declared size, Discard after an overrunning PeekFileId
	// skips two more bytes): every consuming operation x checksums on / off x S placed behind the whole predecessor (where
	// Decode stops) or at the protocol's end of the predecessor (where Discard stops) x S decoded / peeked / discarded
	for i := 0; i < 30*scale; i++ {
		ov, k := dapiOverrunSeq(rng, rng.Intn(3) == 0)
		sk := rng.Intn(4)
		S := dapiRandSeq(rng, sk, rng.Intn(3) == 0)
		fac := dapiFacString(dapiRandFactory(rng))
		for _, c := range consume {
			for chk := 0; chk < 2; chk++ {
				opt := fmt.Sprintf("chk%d,exp%d,bo0,bc0,ml%d,dl%d,lw0,rbs0", chk, rng.Intn(2), rng.Intn(2), rng.Intn(2))
				last := []string{"dec", "dec", "pki,dec", "dis,dec", "pkh,dec", "nxt,dec", "decx:1"}[rng.Intn(7)]
				var stream []byte
				if rng.Bool() {
					stream = append(append([]byte(nil), ov...), S...)
					count("overrun-S-behind-predecessor")
				} else {
					stream = append(append([]byte(nil), ov[:len(ov)-k]...), S...)
					count("overrun-S-at-protocol-end")
				}
				ops := c + "," + last
				switch rng.Intn(8) {
				case 0: // a well-formed sequence first: the class starts at the overrunning one
					stream = append(dapiRandSeq(rng, 0, true), stream...)
					ops = consume[rng.Intn(len(consume))] + "," + ops
				case 1: // an integrity check (+ re-seek) after the overrunning predecessor was consumed puts the decoder back at the start
					ops = c + ",ci," + c + "," + last
				}
				emit(dapiLine("dechist", opt, fac, ops, [][]byte{stream}))
				count(fmt.Sprintf("overrun-by-%d", min(k, 4)))
			}
		}
	}
	// THE DEFAULT CONFIGURATION (standard factory, component expansion on): chains of sequences whose records carry the
	// profile's component fields — record.compressed_speed_distance (speed + distance, distance accumulates), speed →
	// enhanced_speed, altitude → enhanced_altitude (scale 5, offset 500), cycles → total_cycles (accumulates),
	// event.data with the sub-field selected by event.event (gear change: four components; others none), hr.event_timestamp_12
	// — so that what expansion and the accumulator do is history dependent if anything of a predecessor survives
	for i := 0; i < 60*scale; i++ {
		mk := func(withFid bool) []byte {
			var r []byte
			if withFid {
				r = append(r, dapiDefRec(0, 0, 0, []dapiFD{{0, 1, 0x00}, {1, 2, 0x84}}, nil)...)
				r = append(r, 0, 4, 1, 0)
			}
			r = append(r, dapiDefRec(1, 0, 20, []dapiFD{{253, 4, 0x86}, {8, 3, 0x0D}, {6, 2, 0x84}, {2, 2, 0x84}, {18, 1, 0x02}}, nil)...)
			r = append(r, dapiDefRec(2, 0, 21, []dapiFD{{253, 4, 0x86}, {0, 1, 0x00}, {3, 4, 0x86}}, nil)...)
			r = append(r, dapiDefRec(3, 0, 132, []dapiFD{{9, 6, 0x0D}}, nil)...)
			ts := 0x30000000 + uint32(rng.Intn(100000))
			for k, n := 0, rng.Range(1, 6); k < n; k++ {
				ts += uint32(rng.Intn(30))
				switch rng.Intn(4) {
				case 0, 1:
					r = append(r, 1, byte(ts), byte(ts>>8), byte(ts>>16), byte(ts>>24))
					r = append(r, rng.Bytes(3)...)
					r = append(r, byte(rng.Intn(256)), byte(rng.Intn(40)), byte(rng.Intn(256)), byte(rng.Intn(30)), byte(rng.Intn(256)))
				case 2:
					ev := []byte{42, 43, 0, 3, 36, 255}[rng.Intn(6)]
					r = append(r, 2, byte(ts), byte(ts>>8), byte(ts>>16), byte(ts>>24), ev)
					r = append(r, rng.Bytes(4)...)
				default:
					r = append(r, 3)
					r = append(r, rng.Bytes(6)...)
				}
			}
			return dapiSeq(14, true, r)
		}
		p1, p2, s3 := mk(rng.Intn(4) != 0), mk(rng.Bool()), mk(rng.Bool())
		opt := fmt.Sprintf("chk%d,exp1,bo%d,bc0,ml%d,dl%d,lw0,rbs0", rng.Intn(2), rng.Intn(6)/5, rng.Intn(2), rng.Intn(2))
		chain := append(append(append([]byte(nil), p1...), p2...), s3...)
		ops := consume[rng.Intn(len(consume))] + "," + consume[rng.Intn(len(consume))] + "," +
			[]string{"dec", "pki,dec", "nxt,dec", "decx:2,dec", "pkh,dec", "ci,dec,dec,dec"}[rng.Intn(6)]
		emit(dapiLine("dechist", opt, "std", ops, [][]byte{chain}))
		count("default-configuration-components")
		if rng.Intn(3) == 0 { // the last sequence on a new reader after a Reset
			emit(dapiLine("dechist", opt, "std", consume[rng.Intn(len(consume))]+",pki,rst1,dec", [][]byte{append(append([]byte(nil), p1...), p2...), s3}))
			count("default-configuration-components")
		}
	}
	// CheckIntegrity after other calls on the same decoder (peeked header, peeked file id, Next, a consumed sequence), on
	// chains cut at every offset: its verdict is C04's subject, but what it does to the decoder — and that a peek before it
	// does not change what it finds — shows in the model correspondence and in the calls that follow the re-seek
	for i := 0; i < 12*scale; i++ {
		opt, fac := dapiOptString(rng), dapiFacString(dapiRandFactory(rng))
		whole := append(dapiRandSeq(rng, 0, true), dapiRandSeq(rng, 0, rng.Bool())...)
		step := 1
		if len(whole) > 90 {
			step = 1 + len(whole)/90
		}
		for cut := 0; cut <= len(whole); cut += step {
			pre := []string{"pkh", "pki", "nxt", "pkh,pki", "nxt,pkh", "dec", "dis", "pki,dis", "dec,pkh", "dec,nxt", "dis,pki"}[rng.Intn(11)]
			post := []string{"dec", "pkh", "pki,dec", "dec,dec", "nxt,dec"}[rng.Intn(5)]
			emit(dapiLine("dechist", opt, fac, pre+",ci,"+post, [][]byte{whole[:cut]}))
			count("peek-then-integrity-check-on-cut-chain")
		}
	}
	// failing integrity check in the middle of a chain, then decoding from the start again
	for i := 0; i < 300*scale; i++ {
		opt, fac := dapiOptString(rng), dapiFacString(dapiRandFactory(rng))
		a, b2, c := dapiRandSeq(rng, 0, true), dapiRandSeq(rng, 0, true), dapiRandSeq(rng, rng.Intn(4), true)
		mid := append([]byte(nil), b2...)
		mid[len(mid)-1-rng.Intn(min(len(mid), 6))] ^= byte(1 + rng.Intn(255))
		chain := append(append(append([]byte(nil), a...), mid...), c...)
		emit(dapiLine("dechist", opt, fac, "ci,dec,dec", [][]byte{chain}))
		count("failing-integrity-check")
	}
}
